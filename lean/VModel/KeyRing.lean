/-
  VModel.KeyRing — executable model of keyring.go (KeyRing.VerifyJSONs, publicKeyRequests,
  checkUsingKeys, WasValidAt, StrictValiditySignatureCheck, NoStrictValidityCheck,
  mapServerKeysToPublicKeyLookupResult) and keys.go (CheckKeys, checkVerifyKeys, ServerKeys.PublicKey).
  Core Lean only (C12).

  * Go maps are association lists with unique keys (`AList`: `insert` replaces, `erase` removes); nothing
    below depends on iteration order except where stated.
  * The key database and the fetchers are scripts: `none` = the call returns an error, `some m` = it
    answers `m` (whatever was asked; what was asked is recorded in the trace).
  * ed25519 and the JSON layer of `VerifyJSON` are abstract, per signature: `reaches` (everything that
    does not depend on the key succeeded: the message parses, the signature is there and 64 bytes long,
    canonicalisation works) and `verifies key` (ed25519.Verify).
  * Time: `now` (milliseconds) is a parameter.  Timestamps are `spec.Timestamp` = uint64 milliseconds; the
    model uses `Nat`.  Every validity decision of the key ring (`WasValidAt`, `StrictValiditySignatureCheck`,
    `publicKeyRequests`, the pruning of database answers, `ServerKeys.PublicKey`) is a comparison of two such
    unsigned values — exact over the whole uint64 range, 2^63 and beyond included — and the only sum, `now + 7d`, is
    `spec.AsTimestamp(time.Now().Add(7d))` (far below 2^63 for any clock reading).  The one remaining conversion
    through int64 is `CheckKeys`' `keys.ValidUntilTS.Time().After(now)`: `checkKeys` is exact for valid_until_ts
    below 2^63 (a response with a larger one is refused by the code: the failing-safe direction).
-/
import VModel.Json
namespace V.KeyRing
open V

/-! ## Association lists with unique keys (Go maps) -/

namespace AList
variable {α β : Type} [DecidableEq α]

def lookup (k : α) : List (α × β) → Option β
  | [] => none
  | (k', v) :: rest => if k' = k then some v else lookup k rest

def contains (k : α) (m : List (α × β)) : Bool := (lookup k m).isSome

def erase (k : α) : List (α × β) → List (α × β)
  | [] => []
  | (k', v) :: rest => if k' = k then erase k rest else (k', v) :: erase k rest

/-- `m[k] = v` -/
def insert (k : α) (v : β) : List (α × β) → List (α × β)
  | [] => [(k, v)]
  | (k', v') :: rest => if k' = k then (k, v) :: rest else (k', v') :: insert k v rest

end AList

/-! ## Types -/

/-- `PublicKeyLookupRequest` -/
structure KeyReq where
  server : Bytes
  keyID : Bytes
  deriving Repr, DecidableEq, Inhabited

/-- `PublicKeyLookupResult` -/
structure KeyRes where
  key : Bytes
  expiredTS : Nat
  validUntilTS : Nat
  deriving Repr, DecidableEq, Inhabited

abbrev KeyMap := List (KeyReq × KeyRes)
abbrev ReqMap := List (KeyReq × Nat)

/-- none = the call fails -/
abbrev FetchScript := Option KeyMap

/-- One entry of `signatures[server]` of a message. -/
structure SigInfo where
  keyID : Bytes
  /-- VerifyJSON gets past every check that does not depend on the public key -/
  reaches : Bool
  /-- ed25519.Verify(key, canonical form, this signature), for 32-byte keys -/
  verifies : Bytes → Bool

/-- `VerifyJSONRequest`, with the message abstracted to what the key ring looks at. -/
structure Request where
  server : Bytes
  atTS : Nat
  /-- ValidityCheckingFunc: true = StrictValiditySignatureCheck, false = NoStrictValidityCheck -/
  strict : Bool
  /-- ListKeyIDs succeeded (the message is a JSON object whose "signatures" has the right shape) -/
  listOk : Bool
  /-- the entries of signatures[server], in the order the Go map yields them -/
  sigs : List SigInfo

/-! ## Validity arithmetic (regenerated skeletons: VGen.C12) -/

/-- `time.Hour * 24 * 7` in milliseconds -/
def sevenDaysMs : Nat := 604800000

/-- `StrictValiditySignatureCheck(atTs, validUntil)` with `time.Now()` = `now` ms: the millisecond counts are
    compared as unsigned integers (`sevenDaysFutureTS := spec.AsTimestamp(time.Now().Add(7d))`), no conversion
    to `time.Time` -/
def strictValidity (atTs validUntil now : Nat) : Bool :=
  if validUntil = 0 then false
  else
    let sevenDaysFutureTS := now + sevenDaysMs
    let validUntilTS := if validUntil > sevenDaysFutureTS then sevenDaysFutureTS else validUntil
    if atTs > validUntilTS then false else true

/-- `NoStrictValidityCheck` -/
def noStrictValidity (_atTs _validUntil : Nat) : Bool := true

/-- `PublicKeyLookupResult.WasValidAt(atTs, check)` -/
def wasValidAt (r : KeyRes) (atTs : Nat) (strict : Bool) (now : Nat) : Bool :=
  if r.expiredTS ≠ 0 then decide (atTs < r.expiredTS)
  else if strict then strictValidity atTs r.validUntilTS now else noStrictValidity atTs r.validUntilTS

/-! ## VerifyJSON, as far as the key ring is concerned -/

/-- `ed25519.PublicKeySize` -/
def publicKeySize : Nat := 32

/-- `VerifyJSON(server, keyID, key, message) == nil`: the key-independent checks, then the length guard
    (a key of the wrong length is an error, not a call of ed25519.Verify), then the signature. -/
def verifyJSON (s : SigInfo) (key : Bytes) : Bool :=
  s.reaches && (key.length == publicKeySize) && s.verifies key

/-! ## KeyRing.VerifyJSONs -/

/-- `isAlgorithmSupported`: prefix "ed25519:" -/
def algPrefix : Bytes := [101, 100, 50, 53, 53, 49, 57, 58]
def isAlgorithmSupported (keyID : Bytes) : Bool := algPrefix.isPrefixOf keyID

/-- `keyIDs[i]`: the supported key IDs of request i (empty when ListKeyIDs failed) -/
def supportedSigs (r : Request) : List SigInfo :=
  if r.listOk then r.sigs.filter (fun s => isAlgorithmSupported s.keyID) else []

/-- `publicKeyRequests`: for every request still carrying an error, every supported key ID, the
    maximum timestamp needed (`if maxTS <= AtTS`). `results[i] = true` means `Error == nil`. -/
def addKeyRequest (m : ReqMap) (k : KeyReq) (atTS : Nat) : ReqMap :=
  let maxTS := (AList.lookup k m).getD 0
  if maxTS ≤ atTS then AList.insert k atTS m else m

def publicKeyRequests : List Request → List Bool → ReqMap → ReqMap
  | r :: rs, res :: ress, m =>
    if res then publicKeyRequests rs ress m
    else publicKeyRequests rs ress ((supportedSigs r).foldl (fun m s => addKeyRequest m ⟨r.server, s.keyID⟩ r.atTS) m)
  | _, _, m => m

/-- the loop over `keysFromDatabase`: everything goes into `keysFetched`; expired keys and keys inside
    their validity are removed from the request map -/
def pruneStep (now : Nat) (st : KeyMap × ReqMap) (e : KeyReq × KeyRes) : KeyMap × ReqMap :=
  let (keysFetched, keyRequests) := st
  let (req, res) := e
  if res.expiredTS ≠ 0 then (AList.insert req res keysFetched, AList.erase req keyRequests)
  else
    let keysFetched := AList.insert req res keysFetched
    if now < res.validUntilTS ∧ res.expiredTS = 0 then (keysFetched, AList.erase req keyRequests)
    else (keysFetched, keyRequests)

def pruneDB (now : Nat) (fromDB : KeyMap) (keyRequests : ReqMap) : KeyMap × ReqMap :=
  fromDB.foldl (pruneStep now) ([], keyRequests)

/-- the inner loop of `checkUsingKeys` for one request whose `Error` is non-nil: true iff it ends nil -/
def checkSigs (server : Bytes) (atTS : Nat) (strict : Bool) (keys : KeyMap) (now : Nat) : List SigInfo → Bool
  | [] => false
  | s :: rest =>
    match AList.lookup ⟨server, s.keyID⟩ keys with
    | none => checkSigs server atTS strict keys now rest                 -- no key: next key ID
    | some serverKey =>
      if !wasValidAt serverKey atTS strict now then checkSigs server atTS strict keys now rest  -- error recorded, next
      else if !verifyJSON s serverKey.key then checkSigs server atTS strict keys now rest       -- error recorded, next
      else true                                                                                 -- Error = nil; break

/-- `checkUsingKeys` -/
def checkUsingKeys (keys : KeyMap) (now : Nat) : List Request → List Bool → List Bool
  | r :: rs, res :: ress =>
    (if res then true else checkSigs r.server r.atTS r.strict keys now (supportedSigs r)) :: checkUsingKeys keys now rs ress
  | _, _ => []

/-- "Hold the new keys and remove them from the request queue" for one answered entry; an entry taken over is
    also noted in `keysToStore` (the keys that came from a fetcher, as opposed to the ones only read from the database) -/
def mergeStep (st : KeyMap × ReqMap × KeyMap) (e : KeyReq × KeyRes) : KeyMap × ReqMap × KeyMap :=
  let (keysFetched, keyRequests, keysToStore) := st
  let (req, res) := e
  if !AList.contains req keyRequests && AList.contains req keysFetched then (keysFetched, keyRequests, keysToStore)
  else (AList.insert req res keysFetched, AList.erase req keyRequests, AList.insert req res keysToStore)

structure FetchState where
  keyRequests : ReqMap
  keysFetched : KeyMap
  /-- the entries taken over from fetchers' answers -/
  keysToStore : KeyMap := []
  /-- (index of the fetcher, what it was asked), in call order -/
  calls : List (Nat × ReqMap)

/-- the loop over `k.KeyFetchers` -/
def fetchLoop : List (Nat × FetchScript) → FetchState → FetchState
  | [], st => st
  | (idx, f) :: rest, st =>
    if st.keyRequests.isEmpty then st                                  -- break
    else
      let st := { st with calls := st.calls ++ [(idx, st.keyRequests)] }
      match f with
      | none => fetchLoop rest st                                      -- err: continue
      | some fetched =>
        if fetched.isEmpty then fetchLoop rest st                      -- continue
        else
          let (kf, kr, ks) := fetched.foldl mergeStep (st.keysFetched, st.keyRequests, st.keysToStore)
          fetchLoop rest { st with keysFetched := kf, keyRequests := kr, keysToStore := ks }

def enumFrom {α} : Nat → List α → List (Nat × α)
  | _, [] => []
  | n, x :: xs => (n, x) :: enumFrom (n + 1) xs

inductive CallErr where
  | db | store
  deriving Repr, DecidableEq, Inhabited

structure Trace where
  /-- what the database was asked (none: not called) -/
  dbAsked : Option ReqMap := none
  fetcherCalls : List (Nat × ReqMap) := []
  /-- what StoreKeys was called with (none: not called) -/
  stored : Option KeyMap := none

/-- `KeyRing.VerifyJSONs`: per request whether `Error == nil`, or the call error; and what was observed
    on the database and the fetchers. -/
def verifyJSONs (reqs : List Request) (db : FetchScript) (storeOk : Bool) (fetchers : List FetchScript)
    (now : Nat) : Except CallErr (List Bool) × Trace :=
  -- first loop: every request gets an error (extraction failed / not signed / placeholder)
  let results0 := reqs.map (fun _ => false)
  let keyRequests0 := publicKeyRequests reqs results0 []
  if keyRequests0.isEmpty then (.ok results0, {})
  else match db with
    | none => (.error .db, { dbAsked := some keyRequests0 })
    | some fromDB =>
      let (keysFetched0, keyRequests1) := pruneDB now fromDB keyRequests0
      let numRequests := reqs.length
      let early := keysFetched0.length == numRequests
      let results1 := if early then checkUsingKeys keysFetched0 now reqs results0 else results0
      if early && results1.all id then (.ok results1, { dbAsked := some keyRequests0 })
      else
        let st := fetchLoop (enumFrom 0 fetchers) { keyRequests := keyRequests1, keysFetched := keysFetched0, keysToStore := [], calls := [] }
        let results2 := checkUsingKeys st.keysFetched now reqs results1
        -- `StoreKeys(ctx, keysToStore)`: what came from a fetcher, not what was read from the database
        let tr : Trace := { dbAsked := some keyRequests0, fetcherCalls := st.calls, stored := some st.keysToStore }
        if !storeOk then (.error .store, tr) else (.ok results2, tr)

/-! ## keys.go -/

structure VerifyKeyEntry where
  keyID : Bytes
  key : Bytes
  /-- VerifyJSON(server_name, keyID, key, raw) == nil would hold for a 32-byte key -/
  selfSigned : Bool
  deriving Repr, DecidableEq, Inhabited

structure OldKeyEntry where
  keyID : Bytes
  key : Bytes
  expiredTS : Nat
  deriving Repr, DecidableEq, Inhabited

/-- `ServerKeys` (decoded) -/
structure ServerKeys where
  serverName : Bytes
  validUntilTS : Nat
  verifyKeys : List VerifyKeyEntry
  oldVerifyKeys : List OldKeyEntry
  deriving Repr, Inhabited

/-- `strings.SplitN(keyID, ":", 2)[0]` -/
def algorithmOf (keyID : Bytes) : Bytes := keyID.takeWhile (· ≠ 58)

def ed25519Name : Bytes := [101, 100, 50, 53, 53, 49, 57]

structure Ed25519Check where
  keyID : Bytes
  validEd25519 : Bool
  matchingSignature : Bool
  deriving Repr, DecidableEq, Inhabited

structure KeyChecks where
  allChecksOK : Bool
  matchingServerName : Bool
  futureValidUntilTS : Bool
  hasEd25519Key : Bool
  allEd25519ChecksOK : Option Bool
  ed25519Checks : List Ed25519Check
  deriving Repr, DecidableEq, Inhabited

def ed25519Entries (keys : ServerKeys) : List VerifyKeyEntry :=
  keys.verifyKeys.filter (fun e => algorithmOf e.keyID == ed25519Name)

def checkEntry (e : VerifyKeyEntry) : Ed25519Check :=
  let valid := e.key.length == 32
  { keyID := e.keyID, validEd25519 := valid, matchingSignature := valid && e.selfSigned }

/-- `CheckKeys(serverName, now, keys)`: the checks and the returned key map (nil unless all checks pass) -/
def checkKeys (serverName : Bytes) (nowMs : Nat) (keys : ServerKeys) : KeyChecks × Option (List (Bytes × Bytes)) :=
  let matching := serverName == keys.serverName
  let future := decide (keys.validUntilTS > nowMs)
  let eds := (ed25519Entries keys).map checkEntry
  let hasEd := !eds.isEmpty
  let allEd := eds.all (·.matchingSignature)
  let allOK := matching && future && (hasEd && allEd)
  let verifyKeys := (ed25519Entries keys).filter (fun e => (checkEntry e).matchingSignature) |>.map (fun e => (e.keyID, e.key))
  ({ allChecksOK := allOK, matchingServerName := matching, futureValidUntilTS := future, hasEd25519Key := hasEd,
     allEd25519ChecksOK := if hasEd then some allEd else none, ed25519Checks := eds },
   if allOK then some verifyKeys else none)

/-- `ServerKeys.PublicKey(keyID, atTS)`: the current key while `atTS <= valid_until_ts`, else the old key of
    that ID while `atTS < expired_ts` -/
def publicKey (keys : ServerKeys) (keyID : Bytes) (atTS : Nat) : Option Bytes :=
  match keys.verifyKeys.find? (·.keyID == keyID) with
  | some cur => if atTS ≤ keys.validUntilTS then some cur.key else
      match keys.oldVerifyKeys.find? (·.keyID == keyID) with
      | some old => if atTS < old.expiredTS then some old.key else none
      | none => none
  | none =>
      match keys.oldVerifyKeys.find? (·.keyID == keyID) with
      | some old => if atTS < old.expiredTS then some old.key else none
      | none => none

/-- `mapServerKeysToPublicKeyLookupResult(keys, results)` -/
def mapServerKeys (keys : ServerKeys) (results : KeyMap) : KeyMap :=
  let r1 := keys.verifyKeys.foldl (fun m e =>
    AList.insert ⟨keys.serverName, e.keyID⟩ { key := e.key, validUntilTS := keys.validUntilTS, expiredTS := 0 } m) results
  keys.oldVerifyKeys.foldl (fun m e =>
    AList.insert ⟨keys.serverName, e.keyID⟩ { key := e.key, validUntilTS := 0, expiredTS := e.expiredTS } m) r1

/-! ## The fetchers over a scripted KeyClient -/

/-- `CheckKeys(name, time.Unix(0, 0), keys).AllChecksOK`: the fetchers check responses against the EPOCH -/
def acceptedByFetcher (serverName : Bytes) (keys : ServerKeys) : Bool := (checkKeys serverName 0 keys).1.allChecksOK

/-- `DirectKeyFetcher.fetchNotaryKeysForServer`: the first response naming the server, if it passes the
    checks (`none` argument = the lookup failed) -/
def notaryChoice (serverName : Bytes) (notary : Option (List ServerKeys)) : Option ServerKeys :=
  match notary with
  | none => none
  | some l =>
    match l.find? (fun k => k.serverName == serverName) with
    | none => none
    | some keys => if acceptedByFetcher serverName keys then some keys else none

/-- the response `DirectKeyFetcher` accepts for one non-local server: `fetchKeysForServer` (direct answer;
    `none` = the request failed), and on any failure the notary fallback -/
def directChoice (serverName : Bytes) (direct : Option ServerKeys) (notary : Option (List ServerKeys)) : Option ServerKeys :=
  match direct with
  | none => notaryChoice serverName notary
  | some keys => if acceptedByFetcher serverName keys then some keys else notaryChoice serverName notary

/-- `DirectKeyFetcher.FetchKeys` for one non-local server: the accepted response mapped; a server without
    an acceptable response contributes nothing -/
def directFetch (serverName : Bytes) (direct : Option ServerKeys) (notary : Option (List ServerKeys)) : KeyMap :=
  match directChoice serverName direct notary with
  | none => []
  | some keys => mapServerKeys keys []

/-- a signature of the perspective server on a response: whether the fetcher is configured with a key for
    that key ID, and whether VerifyJSON succeeds with that configured key -/
structure NotarySig where
  keyID : Bytes
  known : Bool
  sigOk : Bool
  deriving Repr, DecidableEq, Inhabited

structure NotaryResponse where
  keys : ServerKeys
  /-- ListKeyIDs(perspective server, raw) succeeded -/
  listOk : Bool
  /-- the perspective server's signatures, in the order the Go map yields them -/
  notarySigs : List NotarySig

/-- the loop over the perspective server's key IDs: the first one the fetcher knows decides
    (`.error` = its signature does not verify: the whole fetch fails) -/
def notaryValid : List NotarySig → Except Unit Bool
  | [] => .ok false
  | s :: rest => if !s.known then notaryValid rest else if !s.sigOk then .error () else .ok true

def perspectiveLoop : List NotaryResponse → KeyMap → Option KeyMap
  | [], acc => some acc
  | r :: rest, acc =>
    if !r.listOk then none
    else match notaryValid r.notarySigs with
      | .error _ => none
      | .ok false => none
      | .ok true =>
        if !acceptedByFetcher r.keys.serverName r.keys then none
        else perspectiveLoop rest (mapServerKeys r.keys acc)

/-- `PerspectiveKeyFetcher.FetchKeys`; `none` = an error is returned -/
def perspectiveFetch (resps : Option (List NotaryResponse)) : Option KeyMap :=
  match resps with
  | none => none
  | some l => perspectiveLoop l []

end V.KeyRing

/-! ## Specification (what C12 demands), written independently of the folds above

  Used two ways: the theorems of VProps/C12 relate `verifyJSONs` to these definitions, and the driver
  evaluates `Spec.judge` on the IMPLEMENTATION's observed outcome (third stream of the check). -/
namespace V.KeyRing.Spec
open V V.KeyRing

def lookupIn (m : KeyMap) (q : KeyReq) : Option KeyRes := (m.find? (fun e => e.1 == q)).map (·.2)

/-- the property's validity clause: before expired_ts for an expired key, otherwise (strict rule) at or
    before valid_until_ts capped at seven days from now; the lenient rule accepts any unexpired key -/
def validAt (k : KeyRes) (t : Nat) (strict : Bool) (now : Nat) : Bool :=
  if k.expiredTS ≠ 0 then decide (t < k.expiredTS)
  else !strict || (k.validUntilTS ≠ 0 && decide (t ≤ min k.validUntilTS (now + 604800000)))

/-- the ed25519 signatures of the named server on the message -/
def edSigs (r : Request) : List SigInfo :=
  if r.listOk then r.sigs.filter (fun s => algPrefix.isPrefixOf s.keyID) else []

/-- signature `s` of request `r` verifies under `k`, and `k` was valid at the requested time -/
def good (r : Request) (s : SigInfo) (k : KeyRes) (now : Nat) : Bool :=
  s.reaches && k.key.length == 32 && s.verifies k.key && validAt k r.atTS r.strict now

def goodIn (r : Request) (s : SigInfo) (m : KeyMap) (now : Nat) : Bool :=
  match lookupIn m ⟨r.server, s.keyID⟩ with
  | some k => good r s k now
  | none => false

/-- success is allowed only if some source (database answer or a fetcher's answer) holds a good key -/
def soundAt (r : Request) (sources : List KeyMap) (now : Nat) : Bool :=
  (edSigs r).any (fun s => sources.any (fun m => goodIn r s m now))

/-- the database's key for `q`, if it holds one it will not refetch (expired-marked or inside validity) -/
def dbKeeps (dbm : KeyMap) (q : KeyReq) (now : Nat) : Option KeyRes :=
  match lookupIn dbm q with
  | some k => if k.expiredTS ≠ 0 ∨ now < k.validUntilTS then some k else none
  | none => none

/-- the answer of the first fetcher able to answer for `q` -/
def firstAnswer : List FetchScript → KeyReq → Option KeyRes
  | [], _ => none
  | none :: rest, q => firstAnswer rest q
  | some m :: rest, q =>
    match lookupIn m q with
    | some k => some k
    | none => firstAnswer rest q

/-- the key the property expects to be used for `q`: the database's if it keeps it, else the first
    fetcher's able to answer, else the database's stale one -/
def supplied (dbm : KeyMap) (fetchers : List FetchScript) (q : KeyReq) (now : Nat) : Option KeyRes :=
  match dbKeeps dbm q now with
  | some k => some k
  | none =>
    match firstAnswer fetchers q with
    | some k => some k
    | none => lookupIn dbm q

/-- success is demanded when the supplied key of some ed25519 signature is good -/
def mustSucceed (r : Request) (dbm : KeyMap) (fetchers : List FetchScript) (now : Nat) : Bool :=
  (edSigs r).any (fun s => match supplied dbm fetchers ⟨r.server, s.keyID⟩ now with
    | some k => good r s k now
    | none => false)

/-- the literal reading "the database supplies such a key", including a stale database entry that a
    fetcher's answer then replaces (side condition of `success_complete`) -/
def literalDB (r : Request) (dbm : KeyMap) (now : Nat) : Bool :=
  (edSigs r).any (fun s => goodIn r s dbm now)

def isRequested (reqs : List Request) (q : KeyReq) : Bool :=
  reqs.any (fun r => r.server == q.server && (edSigs r).any (fun s => s.keyID == q.keyID))

def maxTS (reqs : List Request) (q : KeyReq) : Nat :=
  reqs.foldl (fun m r => if r.server == q.server && (edSigs r).any (fun s => s.keyID == q.keyID) then max m r.atTS else m) 0

/-- fetchers may only be asked for requested keys the database lacks or holds past their validity -/
def mayAsk (reqs : List Request) (dbm : KeyMap) (now : Nat) (q : KeyReq) (ts : Nat) : Bool :=
  isRequested reqs q && ts == maxTS reqs q &&
  (match lookupIn dbm q with
   | none => true
   | some k => k.expiredTS == 0 && decide (k.validUntilTS ≤ now))

/-! ### `ServerKeys.PublicKey`: which key of a key response is valid at an instant

  Written from the property's validity clause ("before expired_ts for an expired key, otherwise at or before
  valid_until_ts"): an entry of `verify_keys` is valid at or before the response's valid_until_ts, an entry of
  `old_verify_keys` strictly BEFORE its expired_ts.  (The seven-day cap is the key ring's, not the response's.) -/

/-- the current key of that ID, if it is valid at `t` -/
def currentKeyAt (keys : ServerKeys) (keyID : Bytes) (t : Nat) : Option Bytes :=
  match keys.verifyKeys.find? (fun e => e.keyID == keyID) with
  | some e => if t ≤ keys.validUntilTS then some e.key else none
  | none => none

/-- the old key of that ID, if it is valid at `t` -/
def oldKeyAt (keys : ServerKeys) (keyID : Bytes) (t : Nat) : Option Bytes :=
  match keys.oldVerifyKeys.find? (fun e => e.keyID == keyID) with
  | some e => if t < e.expiredTS then some e.key else none
  | none => none

/-- `out` is a correct answer: a key of that ID valid at `t`, or `none` when there is no such key -/
def publicKeyOK (keys : ServerKeys) (keyID : Bytes) (t : Nat) (out : Option Bytes) : Bool :=
  match out with
  | some k => currentKeyAt keys keyID t == some k || oldKeyAt keys keyID t == some k
  | none => (currentKeyAt keys keyID t).isNone && (oldKeyAt keys keyID t).isNone

/-- the answer the clause determines; `none` = it does not determine one (a current and an old entry of that
    ID, with different keys, are both valid at `t`) -/
def publicKeyAnswer (keys : ServerKeys) (keyID : Bytes) (t : Nat) : Option (Option Bytes) :=
  match currentKeyAt keys keyID t, oldKeyAt keys keyID t with
  | some a, some b => if a == b then some (some a) else none
  | some a, none => some (some a)
  | none, some b => some (some b)
  | none, none => some none

def nth? {α} : List α → Nat → Option α
  | [], _ => none
  | x :: _, 0 => some x
  | _ :: xs, n + 1 => nth? xs n

/-- Judge an observed outcome.  `none` = it satisfies the property; `some (true, why)` = outside the
    property's quantifier as read here (reported); `some (false, why)` = violates it. -/
def judge (reqs : List Request) (db : FetchScript) (storeOk : Bool) (fetchers : List FetchScript) (now : Nat)
    (out : Except CallErr (List Bool)) (tr : Trace) : Option (Bool × String) :=
  match out with
  | .error .db => if db.isNone then some (true, "call-error") else some (false, "db error reported but the database answered")
  | .error .store => if !storeOk then some (true, "call-error") else some (false, "store error reported but the store succeeded")
  | .ok bits =>
    let dbm := db.getD []
    let sources := dbm :: fetchers.filterMap id
    if bits.length ≠ reqs.length then some (false, "one result per request") else
    let idx := List.range reqs.length
    let bad := idx.filterMap (fun i =>
      match nth? reqs i, nth? bits i with
      | some r, some b =>
        if b && !soundAt r sources now then some "success without a good key from any source"
        else if !b && mustSucceed r dbm fetchers now then some "failure although a good key was supplied"
        else none
      | _, _ => none)
    match bad with
    | w :: _ => some (false, w)
    | [] =>
      -- fetchers consulted only for keys the database lacks or holds past validity
      if tr.fetcherCalls.any (fun c => c.2.any (fun (q, ts) => !mayAsk reqs dbm now q ts)) then
        some (false, "a fetcher was asked for a key the database holds inside its validity (or a key nobody needs)")
      else
      -- stores what it fetched
      let fetchedOK := tr.fetcherCalls.all (fun c =>
        match nth? fetchers c.1 with
        | some (some m) => m.all (fun (q, res) =>
            if AList.contains q c.2 then
              match tr.stored with
              | some sm => lookupIn sm q == some res
              | none => false
            else true)
        | _ => true)
      -- … and ONLY what it fetched: every stored entry is an entry of the answer of a fetcher that was consulted
      -- (an entry the call merely READ from the database is not written back: a concurrent call may have refreshed it)
      let onlyFetched := match tr.stored with
        | none => true
        | some sm => sm.all (fun e => tr.fetcherCalls.any (fun c =>
            match nth? fetchers c.1 with
            | some (some m) => m.contains e
            | _ => false))
      if !fetchedOK then some (false, "a key obtained from a fetcher was not stored")
      else if !onlyFetched then some (false, "a key that no fetcher supplied (read from the database) was stored")
      else if idx.any (fun i => match nth? reqs i, nth? bits i with
                | some r, some b => !b && literalDB r dbm now
                | _, _ => false) then
        some (true, "excluded:stale-database-key-replaced-by-fetched-key")
      else none

end V.KeyRing.Spec
