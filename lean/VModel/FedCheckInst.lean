/-
  VModel.FedCheckInst — the instance of the C14 oracles the driver runs: the `AuthEvents` provider of
  VModel.Auth with `AddEvent`, and `Allowed` = `allowedFresh`.  Core Lean only.
-/
import VModel.FedCheck
import VModel.Auth
namespace V.FedCheck
open V V.Auth

/-- `AuthEvents.AddEvent` for a state event (the caller has checked the state key) -/
def padd (p : Provider) (e : Event) : Provider :=
  { events := p.events.filter (fun x => !(x.type == e.type && x.stateKey == e.stateKey)) ++ [e],
    roomIDs := if p.roomIDs.contains e.roomID then p.roomIDs else p.roomIDs ++ [e.roomID],
    ident := p.ident }

def pempty : Provider := { events := [], roomIDs := [], ident := 0 }

/-- the driver's oracles: signature verdicts from a scripted list of failing event IDs -/
def authOracles (badSig : List Bytes) : Oracles Provider :=
  { sigOk := fun e => !badSig.contains e.eventID,
    empty := pempty,
    add := padd,
    allowedBy := fun e p => allowedFresh e p == .ok }

/-- the same oracles with the signature verdict given per EVENT (room versions 1 and 2: two different
    events can share an event ID, so a list of failing IDs cannot say which of them fails) -/
def authOraclesBy (bad : Event → Bool) : Oracles Provider :=
  { sigOk := fun e => !bad e,
    empty := pempty,
    add := padd,
    allowedBy := fun e p => allowedFresh e p == .ok }

end V.FedCheck
