/-
  VModel.HandshakeInviteSpec — what C15 demands of the requesting side of the invite handshake
  (PerformInvite) and of the pseudo-ID path of HandleSendJoin, as guard predicates over the inputs
  ("returns … only if").  Written separately from the guard chains of VModel.HandshakeInvite;
  VProps/C15.lean proves `performInvite i = ok o → performInviteGuards i` (and what `o` is).

  Scope decisions (the property text names PerformInvite only as an anchor):
    * The invite TEMPLATE comes from the local caller: that it is an m.room.member invite is the
      caller's contract.  What PerformInvite must ensure itself is that the event it signs and returns is
      the template's event (same room, sender, type, content) completed with the invitee as state key,
      that it passed the auth check against the state the StateQuerier supplies, and that the invitee is
      not already joined.
    * In pseudo-ID rooms the event comes back from the REMOTE server (SendInviteV3) and is then signed
      with the inviter's room key: here the event is network input, and the inviter's signature may only
      go on an m.room.member invite with a state key, for the template's room and sender (`isInviteFor`,
      the checks of /repo f453bb3), whose signatures then verify, and which passes the auth check.
    * In user-ID rooms the answer of SendInvite (v2) is handed back to the caller as it is: PerformInvite
      neither signs nor inspects it (stated as such; nothing is demanded of it here).
-/
import VModel.HandshakeInvite
import VModel.HandshakeSpec
namespace V.Handshake.Spec
open V V.Handshake

/-- the invitee is not already joined, as far as PerformInvite can tell: no sender ID yet, or a known
    membership other than `join` -/
def piNotJoinedOK (i : PerformInviteIn) : Bool :=
  match i.invitedSenderID with
  | .err => false
  | .ans none => true
  | .ans (some _) => i.curMembership.isSome && i.curMembership != some b!"join"

/-- the room exists according to the EventQuerier -/
def piRoomOK (i : PerformInviteIn) : Bool :=
  match i.latest with
  | .ans l => l.roomExists
  | .err => false

/-- the event is the invite that was asked for: an m.room.member event with a state key and membership
    "invite", for the template's room and sender -/
def isInviteFor (i : PerformInviteIn) (e : EvFacts) : Bool :=
  e.type == b!"m.room.member" && e.stateKey.isSome && e.membership == some b!"invite"
  && e.roomID == i.tRoomID && e.senderID == i.tSenderID

/-- the event passed the auth check against the state the StateQuerier supplied -/
def piAuthorised (i : PerformInviteIn) (e : EvFacts) : Bool := i.authProviderOK && i.allowed e

def performInviteGuards (i : PerformInviteIn) : Bool :=
  i.versionKnown && piNotJoinedOK i && piRoomOK i &&
  (if i.pseudoIDs then
     if i.targetLocal then
       match i.createdSenderID with
       | some sid => i.buildOK && i.verifyOK (builtEvent i sid) && piAuthorised i (builtEvent i sid)
       | none => false
     else
       match i.sendV3 with
       | .ans (some e) => isInviteFor i e && i.verifyOK e && i.storeOK && piAuthorised i e
       | _ => false
   else
     i.buildOK && piAuthorised i (builtEvent i i.inviteeUserID) &&
     (i.targetLocal || (match i.sendV2 with | .ans _ => true | .err => false)))

/-- the caller kept its side of the contract: every argument PerformInvite calls is there, the signing
    key is an ed25519 private key, and the EventQuerier hands out no nil PDU -/
def piContractOK (i : PerformInviteIn) : Bool :=
  !i.membershipQuerierNil && !i.stateQuerierNil && !i.userIDQuerierNil && !i.senderIDQuerierNil
  && !i.senderIDCreatorNil && !i.eventQuerierNil && !i.ctxNil && !i.storeSenderIDNil && !i.fedClientNil
  && i.signingKeyOK
  && (match i.latest with
      | .ans l => l.stateEvents.all (·.isSome)
      | .err => true)

/-! ### HandleSendJoin, org.matrix.msc4014 -/

/-- the guards of `sendJoinGuards`, with "validly signed by the requesting server" read for pseudo-ID
    rooms as: the join's mxid_mapping is validly signed by the user's server (caller's verifier) and the
    event by the sender's own key -/
def sendJoinPseudoGuards (i : SendJoinPseudoIn) : Bool :=
  i.mapping == .valid && i.storeOK && sendJoinGuards (pseudoBase i)

/-! ### PerformJoin, org.matrix.msc4014: what may be stored

  A pair (sender ID → user ID) handed to `StoreSenderIDFromPublicID` becomes what this server's UserIDQuerier answers from
  then on — in the auth checks that follow, and for every later event of that key.  The only thing that can vouch for such a
  pair is an `mxid_mapping` for THAT key and THAT user which the user's server has validly signed (C06 demands the same of a
  join before it verifies).  So: every pair stored must be the (user_room_key, user_id) of a mapping carried by a membership
  event of the response, validly signed, and the key must be the one it is stored under.  Whether the carrying event itself
  verifies is immaterial to the truth of the pair. -/

def vouched (members : List PJMember) (senderID userID : Bytes) : Prop :=
  ∃ m ∈ members, m.mapping = some (senderID, userID) ∧ m.mappingSigned = true

instance (members : List PJMember) (k u : Bytes) : Decidable (vouched members k u) := by
  unfold vouched; exact inferInstance

/-- every store step of a trace is vouched for -/
def storesVouched (members : List PJMember) (tr : List PJStep) : Bool :=
  tr.all (fun st => match st with
    | .store k u => decide (vouched members k u)
    | .check => true)

/-- "PerformJoin returns a join only if the remote's state passes the federation-response checks and contains a create
    event of a known room version" -/
def performJoinPseudoGuards (i : PerformJoinPseudoIn) : Bool :=
  i.makeJoinOK && i.senderIDOK && i.buildOK && i.sendJoinOK && checkCreate i.knownVersion i.create && i.checkOK

end V.Handshake.Spec
