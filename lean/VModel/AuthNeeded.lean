/-
  VModel.AuthNeeded — `StateNeeded.Tuples()` and the selection `AuthEventReferences` / `AddAuthEvents` make
  (eventauth.go, event_builder.go): the provider's events for exactly the (type, state_key) pairs that
  StateNeededForAuth names; a pair without an event is skipped.  Core Lean only.
-/
import VModel.StateRes
namespace V.AuthNeeded
open V V.Json V.GoJson V.Auth V.StateRes

/-- `StateNeeded.Tuples()` -/
def neededPairs (n : Needed) : List (Bytes × Bytes) :=
  (if n.create then [(b!"m.room.create", [])] else []) ++
  (if n.joinRules then [(b!"m.room.join_rules", [])] else []) ++
  (if n.powerLevels then [(b!"m.room.power_levels", [])] else []) ++
  n.member.map (fun m => (b!"m.room.member", m)) ++
  n.thirdPartyInvite.map (fun t => (b!"m.room.third_party_invite", t))

/-- the events `StateNeededForAuth(e).AuthEventReferences(p)` refers to (missing ones are skipped) -/
def selectNeeded (p : Provider) (e : Event) : List Event :=
  (neededPairs (stateNeeded e)).filterMap (fun tk => p.get tk.1 tk.2)

end V.AuthNeeded
