/-
  VModel.GoJson — how Go's encoding/json reads a JSON value into the struct types the library
  declares (the "glue" around every content parser): case-folded field matching, null handling,
  type mismatches, integer literals.  Core Lean only.

  Modelled rather than verified (trusted base): encoding/json itself.  The rules below are the
  documented behaviour restricted to what the library feeds it; they are validated by every
  correspondence op that goes through a content parser.
-/
import VModel.Json
namespace V

open Lean in
/-- `b!"text"` is the UTF-8 byte list of a string literal, expanded at elaboration time (so that
    `decide` and `simp` see a plain list literal). -/
macro:max "b!" s:str : term => do
  let bs := s.getString.toUTF8.toList
  let elems ← bs.mapM (fun (x : UInt8) => `(($(quote x.toNat) : UInt8)))
  `(([$(elems.toArray),*] : List UInt8))

namespace GoJson
open Json

/-- Go's `foldName`: per-rune simple case folding to the smallest member of the fold orbit.  ASCII
    letters fold to upper case; U+017F (ſ) folds to `S`; U+212A (K) folds to `K`. -/
def foldBytes : Bytes → Bytes
  | 0xC5 :: 0xBF :: rest => 0x53 :: foldBytes rest
  | 0xE2 :: 0x84 :: 0xAA :: rest => 0x4B :: foldBytes rest
  | c :: rest => (if 0x61 ≤ c && c ≤ 0x7A then c - 0x20 else c) :: foldBytes rest
  | [] => []

/-- The value encoding/json assigns to the struct field tagged `name` when reading object `kvs`:
    members are processed in document order and each key matching the field (exactly or after
    folding) overwrites the previous one, so the LAST matching member wins. -/
def lookupField (kvs : List (Bytes × JVal)) (name : Bytes) : Option JVal :=
  let fn := foldBytes name
  kvs.foldl (fun acc kv => if kv.1 == name || foldBytes kv.1 == fn then some kv.2 else acc) none

/-- Exact (case-sensitive) lookup, last occurrence: what `map[string]T` decoding and gjson-free map access see. -/
def lookupExact (kvs : List (Bytes × JVal)) (name : Bytes) : Option JVal :=
  kvs.foldl (fun acc kv => if kv.1 == name then some kv.2 else acc) none

/-- Field of a value that should be an object (absent for anything else). -/
def field (v : JVal) (name : Bytes) : Option JVal :=
  match v with
  | .obj kvs => lookupField kvs name
  | _ => none

/-! ### Integer literals -/

def natOfDigits? : Bytes → Option Nat
  | [] => none
  | ds => if ds.all isDigit then some (natOfDigits ds) else none

/-- `strconv.ParseInt(s, 10, 64)`: optional sign, at least one digit, digits only, in range. -/
def parseInt64 (s : Bytes) : Option Int :=
  let (neg, ds) : Bool × Bytes := match s with
    | 0x2D :: r => (true, r)
    | 0x2B :: r => (false, r)
    | r => (false, r)
  match natOfDigits? ds with
  | none => none
  | some n =>
    if neg then (if n ≤ 9223372036854775808 then some (-(n : Int)) else none)
    else (if n ≤ 9223372036854775807 then some (n : Int) else none)

/-- `strconv.ParseUint(s, 10, 64)` as used for `spec.Timestamp`. -/
def parseUint64 (s : Bytes) : Option Nat :=
  match natOfDigits? s with
  | some n => if n ≤ 18446744073709551615 then some n else none
  | none => none

/-! ### Decoding results

A decode of one field yields the value stored (if any) and whether an error was recorded.
`json.Unmarshal` keeps going after an `UnmarshalTypeError`, so "the call returned an error"
is the OR of the flags of all the fields of the target type. -/

structure Dec (α : Type) where
  val : α
  err : Bool
  deriving Repr

/-- into a Go `string` (zero value `""`): a JSON string is stored, `null`/absent leave the zero
    value, anything else is a type error. -/
def decString (v : Option JVal) : Dec Bytes :=
  match v with
  | none => ⟨[], false⟩
  | some .null => ⟨[], false⟩
  | some (.str s) => ⟨s, false⟩
  | some _ => ⟨[], true⟩

/-- into a Go `*string`: `none` for absent / null. -/
def decStringPtr (v : Option JVal) : Dec (Option Bytes) :=
  match v with
  | none => ⟨none, false⟩
  | some .null => ⟨none, false⟩
  | some (.str s) => ⟨some s, false⟩
  | some _ => ⟨none, true⟩

/-- into a Go `int64` with default `d`: only integer literals in range are stored. -/
def decInt64 (d : Int) (v : Option JVal) : Dec Int :=
  match v with
  | none => ⟨d, false⟩
  | some .null => ⟨d, false⟩
  | some (.num lit) =>
    match parseInt64 lit with
    | some n => ⟨n, false⟩
    | none => ⟨d, true⟩
  | some _ => ⟨d, true⟩

/-- into a Go `bool`. -/
def decBool (d : Bool) (v : Option JVal) : Dec Bool :=
  match v with
  | none => ⟨d, false⟩
  | some .null => ⟨d, false⟩
  | some (.bool b) => ⟨b, false⟩
  | some _ => ⟨d, true⟩

/-- into a Go `*bool`. -/
def decBoolPtr (v : Option JVal) : Dec (Option Bool) :=
  match v with
  | none => ⟨none, false⟩
  | some .null => ⟨none, false⟩
  | some (.bool b) => ⟨some b, false⟩
  | some _ => ⟨none, true⟩

/-- into `[]string`: `none` = nil slice. Elements that are not strings are type errors (the element
    keeps its zero value). -/
def decStringSlice (v : Option JVal) : Dec (Option (List Bytes)) :=
  match v with
  | none => ⟨none, false⟩
  | some .null => ⟨none, false⟩
  | some (.arr xs) =>
    let ds := xs.map (fun x => decString (some x))
    ⟨some (ds.map (·.val)), ds.any (·.err)⟩
  | some _ => ⟨none, true⟩

/-- Does the value decode into `map[string]interface{}` / a struct at all (object or null)? -/
def isObjectOrNull (v : Option JVal) : Bool :=
  match v with
  | none => true
  | some .null => true
  | some (.obj _) => true
  | some _ => false

/-- Members of an object read into a Go map: later duplicates overwrite earlier ones (exact keys). -/
def dedupLast {α : Type} (kvs : List (Bytes × α)) : List (Bytes × α) :=
  kvs.foldl (fun acc kv => (acc.filter (fun x => x.1 != kv.1)) ++ [kv]) []

def mapGet {α : Type} (m : List (Bytes × α)) (k : Bytes) : Option α :=
  (m.find? (fun kv => kv.1 == k)).map (·.2)

end GoJson
end V
