/-
  VModel.Vertable — the per-room-version traits of eventversion.go (C17).

  * `Traits`: the semantic reading of one row of `roomVersionMeta` (the function-valued columns are
    identified by the function's name, as regenerated into VGen.Versions by tools/extract);
  * `traitsOfRow`: VGen row ↦ Traits (fails on a nil column or a function name it does not know);
  * behaviour of every function-valued column as a function of the trait (what a probe through the
    public API must observe);
  * `Spec.table`: the traits the Matrix specification assigns to each room version, written from the
    specification's room-version pages (changelog style: each version = its predecessor + changes).
  Core Lean only.
-/
import VGen.Versions
import VGen.Redact
import VGen.C17
import VModel.Ident
import VModel.Limits
namespace V.Vertable

structure Traits where
  stable : Bool
  stateRes : Nat               -- 1 = v1, 2 = v2, 3 = v2.1
  eventFormat : Nat            -- 1 = prev/auth events as (id, hash) references + event_id in the event; 2 = lists of IDs, no event_id
  eventIDFormat : Nat          -- 1 = "$random:domain", 2 = "$" ++ unpadded standard base64 of the reference hash, 3 = URL-safe base64
  redaction : Nat              -- redaction algorithm generation 1 (v1) 2 (v6) 3 (v8) 4 (v9) 5 (v11)
  strictValidity : Bool        -- signing-key validity: valid_until_ts must cover the event (capped 7 days ahead)
  enforcedCanonicalJSON : Bool -- integers only, within ±(2^53-1)
  powerLevelRules : Nat        -- power-level event check generation 1 (v1) 2 (v6: notifications) 3 (v12: creators)
  integerPowerLevels : Bool    -- power levels must be JSON integers (no strings / floats)
  knocking : Bool
  restrictedJoinAllowed : Bool     -- join rule `restricted` usable
  restrictedJoinCheck : Bool       -- joins are checked against the allow list
  restrictedJoinServername : Bool  -- join_authorised_via_users_server names a required signer
  createEventRules : Nat       -- 1 (creator required) 2 (v11: no creator) 3 (v12: no room_id, additional_creators)
  untrustedParser : Nat        -- parse-function generation 1 (format 1) 2 (format 2) 3 (format 2, domainless room IDs)
  trustedParser : Nat
  trustedWithIDParser : Nat
  domainlessRoomIDs : Bool
  privilegedCreators : Bool
  deriving DecidableEq, Repr

def lookup (tbl : List (String × Nat)) (k : String) : Option Nat := (tbl.find? (·.1 == k)).map (·.2)

def lookupB (yes no : String) (k : String) : Option Bool :=
  if k == yes then some true else if k == no then some false else none

/-- the semantic reading of a regenerated row; `none` if a column is nil ("") or names an unknown function -/
def traitsOfRow (r : VGen.VersionRow) : Option Traits := do
  let redaction ← lookup [("redactEventJSONV1", 1), ("redactEventJSONV2", 2), ("redactEventJSONV3", 3),
    ("redactEventJSONV4", 4), ("redactEventJSONV5", 5)] r.redactionAlgorithm
  let strict ← lookupB "StrictValiditySignatureCheck" "NoStrictValidityCheck" r.signatureValidityCheckFunc
  let canon ← lookupB "verifyEnforcedCanonicalJSON" "noVerifyCanonicalJSON" r.canonicalJSONCheck
  let pl ← lookup [("checkPowerLevelEventV1", 1), ("checkPowerLevelEventV2", 2), ("checkPowerLevelEventV3", 3)] r.checkPowerLevelEvent
  let intPL ← lookupB "parseIntegerPowerLevels" "parsePowerLevels" r.parsePowerLevelsFunc
  let knock ← lookupB "checkKnocking" "disallowKnocking" r.checkKnockingAllowedFunc
  let rjA ← lookupB "allowRestrictedJoins" "disallowRestrictedJoins" r.checkRestrictedJoinAllowedFunc
  let rjC ← lookupB "checkRestrictedJoin" "noCheckRestrictedJoin" r.checkRestrictedJoin
  let rjS ← lookupB "extractAuthorisedViaServerName" "emptyAuthorisedViaServerName" r.restrictedJoinServernameFunc
  let create ← lookup [("checkCreateEventV1", 1), ("checkCreateEventV2", 2), ("checkCreateEventV3", 3)] r.checkCreateEvent
  let pu ← lookup [("newEventFromUntrustedJSONV1", 1), ("newEventFromUntrustedJSONV2", 2), ("newEventFromUntrustedJSONV3", 3)] r.newEventFromUntrustedJSONFunc
  let pt ← lookup [("newEventFromTrustedJSONV1", 1), ("newEventFromTrustedJSONV2", 2), ("newEventFromTrustedJSONV3", 3)] r.newEventFromTrustedJSONFunc
  let pw ← lookup [("newEventFromTrustedJSONWithEventIDV1", 1), ("newEventFromTrustedJSONWithEventIDV2", 2),
    ("newEventFromTrustedJSONWithEventIDV3", 3)] r.newEventFromTrustedJSONWithEventIDFunc
  pure { stable := r.stable, stateRes := r.stateResAlgorithm, eventFormat := r.eventFormat, eventIDFormat := r.eventIDFormat,
         redaction := redaction, strictValidity := strict, enforcedCanonicalJSON := canon, powerLevelRules := pl,
         integerPowerLevels := intPL, knocking := knock, restrictedJoinAllowed := rjA, restrictedJoinCheck := rjC,
         restrictedJoinServername := rjS, createEventRules := create, untrustedParser := pu, trustedParser := pt,
         trustedWithIDParser := pw, domainlessRoomIDs := r.domainlessRoomID, privilegedCreators := r.privilegedCreators }

/-- every function-valued column of a row -/
def functionColumns (r : VGen.VersionRow) : List String :=
  [r.redactionAlgorithm, r.signatureValidityCheckFunc, r.canonicalJSONCheck, r.checkPowerLevelEvent,
   r.restrictedJoinServernameFunc, r.checkRestrictedJoin, r.parsePowerLevelsFunc, r.checkKnockingAllowedFunc,
   r.checkRestrictedJoinAllowedFunc, r.checkCreateEvent, r.newEventFromUntrustedJSONFunc,
   r.newEventFromTrustedJSONFunc, r.newEventFromTrustedJSONWithEventIDFunc]

/-! ## What a probe through the public API observes, as a function of the traits -/

def b01 (b : Bool) : String := if b then "1" else "0"

/-- Version(), Stable(), StateResAlgorithm(), EventFormat(), EventIDFormat(), DomainlessRoomIDs(), PrivilegedCreators() -/
def metaLine (ver : String) (t : Traits) : String :=
  s!"ver={ver};stable={b01 t.stable};sr={t.stateRes};ef={t.eventFormat};eid={t.eventIDFormat};dl={b01 t.domainlessRoomIDs};pc={b01 t.privilegedCreators}"

def sevenDaysMs : Nat := 7 * 24 * 3600 * 1000

/-- SignatureValidityCheck(atTS, validUntil) at wall-clock time `now` (all in ms since the epoch) -/
def sigValid (t : Traits) (now atTS validUntil : Nat) : Bool :=
  if !t.strictValidity then true
  else if validUntil == 0 then false                      -- PublicKeyNotValid
  else
    let cap := now + sevenDaysMs
    let vu := if validUntil > cap then cap else validUntil
    !(atTS > vu)

/-- CheckCanonicalJSON on a probe whose verdict under enforcement is `okIfEnforced` -/
def canonOk (t : Traits) (okIfEnforced : Bool) : Bool := !t.enforcedCanonicalJSON || okIfEnforced

/-- CheckKnockingAllowed(_, sender, target, joinRule, prevMembership).  `knock_restricted` is honoured
    wherever knocking is (documented departure D9 of DESIGN.md §6.1: MSC3787 comment in checkKnocking). -/
def knockOk (t : Traits) (joinRule prev : String) : Bool :=
  t.knocking && (joinRule == "knock" || joinRule == "knock_restricted") &&
  !(prev == "join" || prev == "invite" || prev == "ban")

/-- RestrictedJoinServername(content): `authorised` is the value of join_authorised_via_users_server
    if that key is present.  some name / none = error (no '@' sigil, no ':', or nothing after the ':'). -/
def rjServer (t : Traits) (authorised : Option Ident.BS) : Option Ident.BS :=
  if !t.restrictedJoinServername then some []
  else match authorised with
    | none => some []
    | some v => match Ident.splitID 0x40 v with
      | .ok _ d => if d.isEmpty then none else some d   -- an empty server name is an error (/repo d4c4559)
      | _ => none

/-- ParsePowerLevels on the probe contents {"ban": <literal>} : (literal, value if lenient, value if integer-only) -/
def plProbes : List (String × Option Int × Option Int) := [
  ("50", some 50, some 50),
  ("\"50\"", some 50, none),
  ("\" 7 \"", some 7, none),
  ("50.5", some 50, none),
  ("50.0", some 50, none),
  ("-3", some (-3), some (-3)),
  ("\"x\"", none, none),
  ("true", none, none),
  ("1e2", some 100, none)]

def parsePL (t : Traits) (literal : String) : Option (Option Int) :=
  (plProbes.find? (·.1 == literal)).map (fun p => if t.integerPowerLevels then p.2.2 else p.2.1)

/-- the format of an event built for the version: how prev_events are written, whether the JSON carries
    event_id, what the event ID is -/
def builtLine (t : Traits) : String :=
  let prev := if t.eventFormat == 1 then "ref" else "str"
  let inJSON := if t.eventFormat == 1 then "1" else "0"
  let id := if t.eventFormat == 1 then "domain"
            else if t.eventIDFormat == 2 then "hash-std" else if t.eventIDFormat == 3 then "hash-url" else "unsupported"
  s!"prev={prev};eid_in_json={inJSON};id={id}"

/-! ### redaction: which keys survive -/

structure KeepLists where
  top : List String                       -- top-level keys kept (when present)
  content : List (String × List String)   -- per event type; an empty list = keep the whole content
  deriving Repr, DecidableEq

def survivors (k : KeepLists) (type : String) (topKeys contentKeys : List String) : List String × List String :=
  let top := topKeys.filter (k.top.contains ·)
  let content := match k.content.find? (·.1 == type) with
    | some (_, []) => contentKeys
    | some (_, keep) => contentKeys.filter (keep.contains ·)
    | none => []
  (top, content)

def sameSet (a b : List String) : Bool := a.all (b.contains ·) && b.all (a.contains ·)

/-- the same top-level keys, the same protected event types, and per type the same content keys (as sets) -/
def KeepLists.equiv (c s : KeepLists) : Bool :=
  sameSet c.top s.top && sameSet (c.content.map (·.1)) (s.content.map (·.1)) &&
  s.content.all (fun t => match c.content.find? (·.1 == t.1) with
    | some ct => sameSet ct.2 t.2 && (ct.2.isEmpty == t.2.isEmpty)
    | none => false)

/-- the keep lists the CODE uses for a redaction function name (regenerated: VGen.Redact) -/
def keepListsOfName (fn : String) : Option KeepLists := do
  let (_, st, ct) ← VGen.redactionAlgorithms.find? (·.1 == fn)
  let top ← if st == "unredactableEventFieldsV1" then some VGen.unredactableEventFieldsV1
            else if st == "unredactableEventFieldsV2" then some VGen.unredactableEventFieldsV2 else none
  let content ← if ct == "unredactableContentFieldsV1" then some VGen.unredactableContentFieldsV1
                else if ct == "unredactableContentFieldsV2" then some VGen.unredactableContentFieldsV2
                else if ct == "unredactableContentFieldsV3" then some VGen.unredactableContentFieldsV3
                else if ct == "unredactableContentFieldsV4" then some VGen.unredactableContentFieldsV4
                else if ct == "unredactableContentFieldsV5" then some VGen.unredactableContentFieldsV5 else none
  pure { top := top.map (·.1), content := content }

/-- the parameters of the size-limit decision (VModel.Limits) for a registered version, read off the
    regenerated facts: constants, lenient set, CheckFields' exemption, and which parse function the row names -/
def limitsParams (ver : String) : Option Limits.Params := do
  let row ← VGen.roomVersions.find? (·.key == ver)
  let rc ← if row.newEventFromTrustedJSONFunc == "newEventFromTrustedJSONV1" || row.newEventFromTrustedJSONFunc == "newEventFromTrustedJSONV2"
             then some Limits.RoomCheck.checkID
           else if row.newEventFromTrustedJSONFunc == "newEventFromTrustedJSONV3" then some Limits.RoomCheck.prefixOnly
           else none
  pure { maxID := VGen.maxIDLength, maxEvent := VGen.maxEventLength,
         lenient := VGen.lenientByteLimitRoomVersions.contains row.ver,
         senderExempt := VGen.senderCheckExempt.contains row.ver, roomCheck := rc }

/-! ## SPECIFICATION: the traits the Matrix specification assigns to each room version

  Written from the room-version pages of the Matrix specification ("Room Version N" = version N-1 plus
  the listed changes), as far as I know them; no copy of the specification is available offline.

  Unstable versions have no page in the specification.  Their rows are DEFINED by the library's own
  comments in eventversion.go, and every cell where a decision was needed is listed here:
   * org.matrix.msc3667 "based on room version 7": = v7 + integer-only power levels (MSC3667 is the
     integer power-level proposal; that is the one change it makes to v7).  Decided cells: everything
     else as v7 (in particular: no restricted joins, redaction as v6/v7).
   * org.matrix.msc3787 "roughly, the union of v7 and v9": = v9 (which already contains v7's knocking) with
     knock_restricted (not a column).  Decided cells: power levels NOT integer-only (v9, not v10);
     redaction generation 4 (v9); restricted joins allowed / checked / signed (v9).
   * org.matrix.msc4014 "currently, just a copy of V10": = v10, unstable.  (CheckFields additionally exempts
     its senders from the user-ID check: not a column.)
   * org.matrix.hydra.11: no comment on the row; the MSC4289/4291/4297 "hydra" rules on a v11 base, i.e.
     exactly v12's row, unstable.  Decided cells: all as v12.
  All four are `stable := false`.
-/
namespace Spec

def v1 : Traits :=
  { stable := true, stateRes := 1, eventFormat := 1, eventIDFormat := 1, redaction := 1, strictValidity := false,
    enforcedCanonicalJSON := false, powerLevelRules := 1, integerPowerLevels := false, knocking := false,
    restrictedJoinAllowed := false, restrictedJoinCheck := false, restrictedJoinServername := false,
    createEventRules := 1, untrustedParser := 1, trustedParser := 1, trustedWithIDParser := 1,
    domainlessRoomIDs := false, privilegedCreators := false }
/-- v2: state resolution v2 -/
def v2 : Traits := { v1 with stateRes := 2 }
/-- v3: event IDs are the reference hash (standard base64); events no longer carry event_id; prev/auth events are ID lists -/
def v3 : Traits := { v2 with eventFormat := 2, eventIDFormat := 2, untrustedParser := 2, trustedParser := 2, trustedWithIDParser := 2 }
/-- v4: URL-safe base64 event IDs -/
def v4 : Traits := { v3 with eventIDFormat := 3 }
/-- v5: signing-key validity periods are enforced -/
def v5 : Traits := { v4 with strictValidity := true }
/-- v6: m.room.aliases loses its redaction protection and auth rule, `notifications` power levels are
    checked, canonical JSON is enforced strictly -/
def v6 : Traits := { v5 with redaction := 2, enforcedCanonicalJSON := true, powerLevelRules := 2 }
/-- v7: knocking -/
def v7 : Traits := { v6 with knocking := true }
/-- v8: restricted joins; redaction keeps `allow` of m.room.join_rules -/
def v8 : Traits := { v7 with redaction := 3, restrictedJoinAllowed := true, restrictedJoinCheck := true, restrictedJoinServername := true }
/-- v9: redaction keeps `join_authorised_via_users_server` of m.room.member -/
def v9 : Traits := { v8 with redaction := 4 }
/-- v10: power levels must be integers; knock_restricted join rule -/
def v10 : Traits := { v9 with integerPowerLevels := true }
/-- v11: redaction overhaul; `creator` removed from m.room.create -/
def v11 : Traits := { v10 with redaction := 5, createEventRules := 2 }
/-- v12: state resolution v2.1, room ID = create event ID (no domain, no room_id on the create event),
    creators have infinite power level, additional_creators -/
def v12 : Traits :=
  { v11 with stateRes := 3, powerLevelRules := 3, createEventRules := 3, untrustedParser := 3, trustedParser := 3,
             trustedWithIDParser := 3, domainlessRoomIDs := true, privilegedCreators := true }

def msc3667 : Traits := { v7 with stable := false, integerPowerLevels := true }
def msc3787 : Traits := { v9 with stable := false }
def msc4014 : Traits := { v10 with stable := false }
def hydra : Traits := { v12 with stable := false }

/-- sorted by key (as the regenerated table is) -/
def table : List (String × Traits) := [
  ("1", v1), ("10", v10), ("11", v11), ("12", v12), ("2", v2), ("3", v3), ("4", v4), ("5", v5), ("6", v6), ("7", v7),
  ("8", v8), ("9", v9), ("org.matrix.hydra.11", hydra), ("org.matrix.msc3667", msc3667),
  ("org.matrix.msc3787", msc3787), ("org.matrix.msc4014", msc4014)]

def traitsOf (ver : String) : Option Traits := (table.find? (·.1 == ver)).map (·.2)

/-! ### redaction keep-lists per algorithm generation (Matrix spec, "Redactions" of each room version) -/

def topV1 : List String :=
  ["event_id", "type", "room_id", "sender", "state_key", "content", "hashes", "signatures", "depth", "prev_events",
   "prev_state", "auth_events", "origin", "origin_server_ts", "membership"]
/-- v11 drops origin, membership, prev_state -/
def topV11 : List String :=
  ["event_id", "type", "room_id", "sender", "state_key", "content", "hashes", "signatures", "depth", "prev_events",
   "auth_events", "origin_server_ts"]

def plKeys : List String := ["ban", "events", "events_default", "kick", "redact", "state_default", "users", "users_default"]

def contentGen1 : List (String × List String) := [
  ("m.room.member", ["membership"]), ("m.room.create", ["creator"]), ("m.room.join_rules", ["join_rule"]),
  ("m.room.power_levels", plKeys), ("m.room.aliases", ["aliases"]), ("m.room.history_visibility", ["history_visibility"])]
/-- v6: m.room.aliases is no longer protected -/
def contentGen2 : List (String × List String) := contentGen1.filter (·.1 != "m.room.aliases")
/-- v8: join_rules keeps allow -/
def contentGen3 : List (String × List String) :=
  contentGen2.map (fun p => if p.1 == "m.room.join_rules" then (p.1, ["join_rule", "allow"]) else p)
/-- v9: member keeps join_authorised_via_users_server -/
def contentGen4 : List (String × List String) :=
  contentGen3.map (fun p => if p.1 == "m.room.member" then (p.1, ["membership", "join_authorised_via_users_server"]) else p)
/-- v11: create keeps everything, power_levels keeps invite, redaction keeps redacts
    (member also keeps third_party_invite.signed: a nested key, checked under C05, not probed here) -/
def contentGen5 : List (String × List String) :=
  (contentGen4.map (fun p =>
    if p.1 == "m.room.create" then (p.1, [])
    else if p.1 == "m.room.power_levels" then (p.1, plKeys ++ ["invite"]) else p)) ++ [("m.room.redaction", ["redacts"])]

def keepLists (generation : Nat) : Option KeepLists :=
  match generation with
  | 1 => some { top := topV1, content := contentGen1 }
  | 2 => some { top := topV1, content := contentGen2 }
  | 3 => some { top := topV1, content := contentGen3 }
  | 4 => some { top := topV1, content := contentGen4 }
  | 5 => some { top := topV11, content := contentGen5 }
  | _ => none

end Spec
end V.Vertable
