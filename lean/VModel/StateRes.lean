/-
  VModel.StateRes — executable model of stateresolution.go (v1 resolver, entry points, split) and
  stateresolutionv2.go (+heaps): auth difference / conflicted subgraph, control set, Kahn orderings,
  iterative auth checks with auth-event fallback, mainline ordering, final assembly.  Core Lean only.

  Go maps are association lists keyed by event ID / (type, state_key).  Wherever Go ranges over a map the
  model uses first-insertion order; the property theorems (C11) show that the RESULT SET does not depend
  on that choice.  Loops over the auth graph take fuel = number of events supplied (+ 1 or 2), which is enough for
  every input, cyclic or not: closures add at least one new event per round, the two mainline recursions never
  descend into an event they are inside of.
-/
import VModel.Auth
namespace V.StateRes
open V Json GoJson Auth

abbrev ID := Bytes

/-! ## Small map helpers -/

def findByID (m : List Event) (id : ID) : Option Event := m.find? (fun e => e.eventID == id)

/-- `eventMapFromEvents`: first occurrence per event ID -/
def eventMapFromEvents (evs : List Event) : List Event :=
  evs.foldl (fun acc e => if (findByID acc e.eventID).isSome then acc else acc ++ [e]) []

def insertID (s : List ID) (id : ID) : List ID := if s.contains id then s else s ++ [id]

def unionIDs (a b : List ID) : List ID := b.foldl insertID a

def isPLEvent (e : Event) : Bool := e.type == b!"m.room.power_levels" && e.stateKeyEquals []

/-! ## Resolved state: one event per (type, state_key) -/

abbrev State := List ((Bytes × Bytes) × Event)

def State.get (s : State) (t k : Bytes) : Option Event := (s.find? (fun x => x.1 == (t, k))).map (·.2)

def State.set (s : State) (t k : Bytes) (e : Event) : State :=
  if (s.find? (fun x => x.1 == (t, k))).isSome then s.map (fun x => if x.1 == (t, k) then ((t, k), e) else x)
  else s ++ [((t, k), e)]

/-- `applyEvents`: state events overwrite their (type, state_key) slot -/
def applyEvents (s : State) (evs : List Event) : State :=
  evs.foldl (fun st e => match e.stateKey with
    | none => st
    | some k => st.set e.type k e) s

/-! ## splitConflictedUnconflicted -/

def countID (sets : List (List Event)) (id : ID) : Nat :=
  (sets.map (fun s => (s.filter (fun e => e.eventID == id)).length)).foldl (· + ·) 0

/-- distinct state events in first-seen order -/
def distinctStateEvents (sets : List (List Event)) : List Event :=
  (eventMapFromEvents sets.flatten).filter (fun e => e.stateKey.isSome)

def groupByKey (evs : List Event) : List ((Bytes × Bytes) × List Event) :=
  evs.foldl (fun acc e => match e.stateKey with
    | none => acc
    | some k =>
      let key := (e.type, k)
      if (acc.find? (fun g => g.1 == key)).isSome then acc.map (fun g => if g.1 == key then (g.1, g.2 ++ [e]) else g)
      else acc ++ [(key, [e])]) []

/-- (conflicted, notConflicted) -/
def splitConflictedUnconflicted (v1 : Bool) (sets : List (List Event)) : List Event × List Event :=
  let groups := groupByKey (distinctStateEvents sets)
  groups.foldl (fun (acc : List Event × List Event) g =>
    if g.2.length > 1 then (acc.1 ++ g.2, acc.2)
    else if v1 then (acc.1, acc.2 ++ g.2)
    else g.2.foldl (fun (a : List Event × List Event) e =>
      if countID sets e.eventID == sets.length then (a.1, a.2 ++ g.2) else (a.1 ++ [e], a.2)) acc) ([], [])

/-! ## Auth chains, auth difference, conflicted subgraph -/

/-- one step of the auth-chain closure: auth events (found in the auth map) of the given events -/
def authParents (authMap : List Event) (e : Event) : List Event :=
  e.authEventIDs.filterMap (findByID authMap)

/-- events reachable through auth_events (via the auth map) from `start`, excluding `start` itself unless reachable -/
def authClosure (authMap : List Event) : Nat → List Event → List ID → List ID
  | 0, _, seen => seen
  | fuel + 1, frontier, seen =>
    let next := (frontier.map (authParents authMap)).flatten
    let fresh := (eventMapFromEvents next).filter (fun e => !seen.contains e.eventID)
    if fresh.isEmpty then seen
    else authClosure authMap fuel fresh (seen ++ fresh.map (·.eventID))

def fullAuthChain (authMap : List Event) (stateSet : List Event) : List ID :=
  authClosure authMap (authMap.length + 1) stateSet []

/-- reflexive closure: the event itself and everything reachable from it -/
def reachFrom (authMap : List Event) (e : Event) : List ID :=
  insertID (authClosure authMap (authMap.length + 1) [e] []) e.eventID

/-- v2.1: events on an auth path from a conflicted event of this state set to a conflicted event -/
def conflictedSubgraph (authMap : List Event) (conflictedIDs : List ID) (stateSet : List Event) : List ID :=
  let origins := stateSet.filter (fun e => conflictedIDs.contains e.eventID)
  -- candidates: the origins and everything reachable from them
  let cand : List Event := eventMapFromEvents (origins ++
    ((origins.map (reachFrom authMap)).flatten.filterMap (findByID authMap)))
  (cand.filter (fun x => (reachFrom authMap x).any (fun id => conflictedIDs.contains id))).map (·.eventID)

/-- `calculateAuthDifferenceNew`: events (resolved through the auth map, or the conflicted events themselves) -/
def authDifferenceNew (algo : Nat) (authMap conflicted : List Event) (sets : List (List Event)) : List Event :=
  let chains := sets.map (fullAuthChain authMap)
  let union := chains.foldl unionIDs []
  let inter := match chains with
    | [] => []
    | c :: cs => c.filter (fun id => cs.all (fun d => d.contains id))
  let diff := union.filter (fun id => !inter.contains id)
  let conflictedIDs := conflicted.map (·.eventID)
  let sub := if algo == 3 then (sets.map (conflictedSubgraph authMap conflictedIDs)).foldl unionIDs [] else []
  let ids := unionIDs diff sub
  ids.filterMap (fun id => match findByID authMap id with
    | some e => some e
    | none => findByID conflicted id)

/-! ## Control events -/

def isControlEvent (e : Event) : Bool :=
  if e.type == b!"m.room.power_levels" then e.stateKeyEquals []
  else if e.type == b!"m.room.join_rules" then e.stateKeyEquals []
  else if e.type == b!"m.room.member" then
    match e.stateKey with
    | none => false
    | some k =>
      if k.isEmpty then false
      else if k == e.sender then false
      else match decodeMemberContentFull e.content with
        | none => false
        | some m => m == b!"leave" || m == b!"ban"
  else false
where
  /-- json.Unmarshal(exactMembersOnly(content), &MemberContent{}) must succeed entirely (no fallback here); returns the
      membership.  Member names are exact (`lookupExact`), as in `NewMemberContentFromEvent`. -/
  decodeMemberContentFull (c : Option JVal) : Option Bytes :=
    match c with
    | none => none
    | some .null => some []
    | some (.obj kvs) =>
      let m := decString (lookupExact kvs b!"membership")
      let other := (decString (lookupExact kvs b!"displayname")).err || (decString (lookupExact kvs b!"avatar_url")).err
        || (decString (lookupExact kvs b!"reason")).err || (decBool false (lookupExact kvs b!"is_direct")).err
        || (decodeThirdParty (lookupExact kvs b!"third_party_invite")).err
        || (decString (lookupExact kvs b!"join_authorised_via_users_server")).err
        || (decodeMxidMapping (lookupExact kvs b!"mxid_mapping")).1.err
      if m.err || other then none else some m.val
    | some _ => none

/-- closure of a control event through auth events that are themselves in the conflicted map (R3) -/
def controlClosure (confMap : List Event) : Nat → List Event → List ID → List ID
  | 0, _, seen => seen
  | fuel + 1, frontier, seen =>
    let next := (frontier.map (fun e => e.authEventIDs.filterMap (findByID confMap))).flatten
    let fresh := (eventMapFromEvents next).filter (fun e => !seen.contains e.eventID)
    if fresh.isEmpty then seen
    else controlClosure confMap fuel fresh (seen ++ fresh.map (·.eventID))

/-! ## Power of the sender, comparators, Kahn -/

def creatorsOrNone (ce : Event) : List Bytes :=
  ce.sender :: ((decodeCreateContent ce.content).map (·.additionalCreators)).getD []

/-- `getPowerLevelFromAuthEvents` -/
def senderPower (authMap : List Event) (createEv : Option Event) (e : Event) : Int :=
  let priv := (e.row.map (·.privilegedCreators)).getD false
  let isCreator := priv && (match createEv with
    | some ce => (creatorsOrNone ce).contains e.sender
    | none => false)
  if isCreator then creatorPowerLevel
  else
    match (e.authEventIDs.filterMap (findByID authMap)).find? isPLEvent with
    | none => 0
    | some pe =>
      match powerLevelsFromEvent pe with
      | .ok pl => pl.userLevel e.sender
      | .error _ => 0

structure PowerKey where
  power : Int
  ts : Nat
  id : ID
  deriving Repr, DecidableEq

/-- `sortStateResV2ConflictedPowerLevelHeap a b < 0`: higher power first, then earlier, then smaller ID -/
def powerLt (a b : PowerKey) : Bool :=
  if a.power > b.power then true else if a.power < b.power then false
  else if a.ts < b.ts then true else if a.ts > b.ts then false
  else bytesLt a.id b.id

structure OtherKey where
  pos : Nat
  steps : Nat
  ts : Nat
  id : ID
  deriving Repr, DecidableEq

/-- `sortStateResV2ConflictedOtherHeap a b < 0` -/
def otherLt (a b : OtherKey) : Bool :=
  if a.pos < b.pos then true else if a.pos > b.pos then false
  else if a.steps < b.steps then true else if a.steps > b.steps then false
  else if a.ts < b.ts then true else if a.ts > b.ts then false
  else bytesLt a.id b.id

/-- insertion sort by a strict comparator (stable; for distinct keys the result is the unique sorted list) -/
def insertBy {α} (lt : α → α → Bool) (x : α) : List α → List α
  | [] => [x]
  | y :: ys => if lt x y then x :: y :: ys else y :: insertBy lt x ys

def sortBy {α} (lt : α → α → Bool) : List α → List α
  | [] => []
  | x :: xs => insertBy lt x (sortBy lt xs)

/-- Kahn's algorithm as written in the library, generic in the key and in the parent relation.
    Duplicates in `events` count once. -/
structure KNode (κ : Type) where
  ev : Event
  key : κ

def kahnLoop {κ} (lt : κ → κ → Bool) (parents : Event → List ID) :
    Nat → List (KNode κ) → List (ID × Nat) → List (KNode κ) → List (KNode κ) → List (KNode κ) × List (KNode κ)
  | 0, remaining, _, _, graph => (remaining, graph)
  | fuel + 1, remaining, inDeg, noIncoming, graph =>
    match noIncoming.reverse with
    | [] => (remaining, graph)
    | node :: restRev =>
      let noInc := restRev.reverse
      -- decrement parents one by one, pushing those that reach zero and are still waiting
      let step := (parents node.ev).foldl (fun (acc : List (ID × Nat) × List (KNode κ) × List (KNode κ)) pid =>
        let (deg, rem, ni) := acc
        let deg' := deg.map (fun d => if d.1 == pid then (d.1, d.2 - 1) else d)
        let now := (deg'.find? (fun d => d.1 == pid)).map (·.2)
        if now == some 0 then
          match rem.find? (fun n => n.ev.eventID == pid) with
          | some n => (deg', rem.filter (fun m => m.ev.eventID != pid), ni ++ [n])
          | none => (deg', rem, ni)
        else (deg', rem, ni)) (inDeg, remaining, noInc)
      let (deg2, rem2, ni2) := step
      kahnLoop lt parents fuel rem2 deg2 (sortBy (fun a b => lt a.key b.key) ni2) (node :: graph)

def kahn {κ} (lt : κ → κ → Bool) (parents : Event → List ID) (nodes0 : List (KNode κ)) : List Event :=
  -- an event listed more than once counts once (first occurrence)
  let nodes : List (KNode κ) := nodes0.foldl (fun acc n =>
    if acc.any (fun m => m.ev.eventID == n.ev.eventID) then acc else acc ++ [n]) []
  let bump (deg : List (ID × Nat)) (id : ID) (by_ : Nat) : List (ID × Nat) :=
    if (deg.find? (fun d => d.1 == id)).isSome then deg.map (fun d => if d.1 == id then (d.1, d.2 + by_) else d)
    else deg ++ [(id, by_)]
  let inDeg : List (ID × Nat) := nodes.foldl (fun deg n =>
    (parents n.ev).foldl (fun d pid => bump d pid 1) (bump deg n.ev.eventID 0)) []
  let zero := nodes.filter (fun n => (inDeg.find? (fun d => d.1 == n.ev.eventID)).map (·.2) == some 0)
  let remaining := nodes.filter (fun n => !((inDeg.find? (fun d => d.1 == n.ev.eventID)).map (·.2) == some 0))
  let (rem, graph) := kahnLoop lt parents (nodes.length + 1) remaining inDeg (sortBy (fun a b => lt a.key b.key) zero) []
  ((sortBy (fun a b => lt a.key b.key) rem) ++ graph).map (·.ev)

/-- `reverseTopologicalOrdering(events, TopologicalOrderByAuthEvents)` -/
def reverseTopoAuth (authMap : List Event) (createEv : Option Event) (evs : List Event) : List Event :=
  kahn powerLt (fun e => e.authEventIDs)
    (evs.map (fun e => { ev := e, key := { power := senderPower authMap createEv e, ts := e.originServerTS, id := e.eventID } }))

/-! ## Mainline -/

/-- `createPowerLevelMainline`: every power-levels auth ancestor is recursed into, each prepended on entry.
    `path` = the IDs of the power-levels events the iterator is currently inside (the Go closure's `visiting` set,
    filled before a descent and emptied after it): an event is not descended into from within itself, so cyclic
    `auth_events` (room versions 1 and 2: the sender chooses the event IDs) end the walk instead of looping.
    For an acyclic auth map the guard never fires (`VProofs/StateResSpecMainline.lean`), and the fuel
    `|auth map| + 2` is never exhausted, cyclic or not (`VProofs/StateResNoPanic.lean`: the path holds distinct IDs of
    the auth map). -/
def mainlineIter (authMap : List Event) : Nat → List ID → Event → List Event → List Event
  | 0, _, _, acc => acc
  | fuel + 1, path, e, acc =>
    (e.authEventIDs.filterMap (findByID authMap)).foldl
      (fun a p => if isPLEvent p && !path.contains p.eventID then mainlineIter authMap fuel (p.eventID :: path) p a else a)
      (e :: acc)

def createMainline (authMap : List Event) (resolvedPL : Option Event) : List Event :=
  match resolvedPL with
  | none => []
  | some pl => mainlineIter authMap (authMap.length + 2) [] pl []

/-- position map: later positions overwrite earlier ones -/
def mainlinePos (mainline : List Event) (id : ID) : Option Nat :=
  (mainline.zipIdx.foldl (fun (acc : Option Nat) (x : Event × Nat) => if x.1.eventID == id then some x.2 else acc) none)

/-- `getFirstPowerLevelMainlineEvent`: returns (position, steps); the search continues in the caller's loop
    after a recursive call returns, exactly as the closure in the Go code does.  `path` = the closure's `visiting`
    set, as in `mainlineIter`: a power-levels auth event that is not on the mainline and is already being searched is
    skipped (no step is counted for it). -/
def firstMainline (authMap mainline : List Event) : Nat → List ID → Event → Nat × Nat → Nat × Nat
  | 0, _, _, st => st
  | fuel + 1, path, e, st =>
    let rec go (ps : List Event) (st : Nat × Nat) : Nat × Nat :=
      match ps with
      | [] => st
      | p :: rest =>
        if !isPLEvent p then go rest st
        else match mainlinePos mainline p.eventID with
          | some pos => (pos, st.2)          -- found: this invocation returns
          | none =>
            if path.contains p.eventID then go rest st
            else go rest (firstMainline authMap mainline fuel (p.eventID :: path) p (st.1, st.2 + 1))
    go (e.authEventIDs.filterMap (findByID authMap)) st

def otherKey (authMap mainline : List Event) (e : Event) : OtherKey :=
  let (pos, steps) := firstMainline authMap mainline (authMap.length + 2) [] e (0, 0)
  { pos := pos, steps := steps, ts := e.originServerTS, id := e.eventID }

/-- `mainlineOrdering` -/
def mainlineOrdering (authMap mainline : List Event) (evs : List Event) : List Event :=
  (sortBy (fun (a b : Event × OtherKey) => otherLt a.2 b.2) (evs.map (fun e => (e, otherKey authMap mainline e)))).map (·.1)

/-- `reverseTopologicalOrdering(events, TopologicalOrderByPrevEvents)` as the public entry point runs it
    (empty auth map and mainline: position 0, steps 0) -/
def reverseTopoPrev (evs : List Event) : List Event :=
  kahn otherLt (fun e => e.prevEventIDs)
    (evs.map (fun e => { ev := e, key := ({ pos := 0, steps := 0, ts := e.originServerTS, id := e.eventID } : OtherKey) }))

/-! ## StateNeededForAuth -/

structure Needed where
  create : Bool := false
  joinRules : Bool := false
  powerLevels : Bool := false
  member : List Bytes := []
  thirdPartyInvite : List Bytes := []
  deriving Repr

/-- `StateNeededForAuth([]PDU{e})` (errors ignored as the code does) -/
def stateNeeded (e : Event) : Needed :=
  if e.type == b!"m.room.create" then {}
  else if e.type == b!"m.room.aliases" then { create := true }
  else if e.type == b!"m.room.member" then
    -- `var content *membershipContent; _ = json.Unmarshal(exactMembersOnly(bytes), &content)`: nil for absent / null
    -- content; the members of an object are matched by their exact names
    match e.content with
    | none => {}
    | some .null => {}
    | some c =>
      let kvs := match c with | .obj k => k | _ => []
      let m := (decString (lookupExact kvs b!"membership")).val
      let tp := (decodeThirdParty (lookupExact kvs b!"third_party_invite")).val
      let av := (decString (lookupExact kvs b!"join_authorised_via_users_server")).val
      let base : List Bytes := [e.sender] ++ (match e.stateKey with | some k => [k] | none => [])
      let jr := m == b!"join" || m == b!"knock" || m == b!"invite"
      -- the authorising user is named before the third-party token is looked at (e67b893)
      let members := base ++ (if av.isEmpty then [] else [av])
      match tp with
      | some s =>
        if s.token.isEmpty then
          -- thirdPartyInviteToken fails: accumulateStateNeeded returns after the fields set so far
          { create := true, powerLevels := true, member := members, joinRules := jr }
        else { create := true, powerLevels := true, member := members, joinRules := jr, thirdPartyInvite := [s.token] }
      | none => { create := true, powerLevels := true, member := members, joinRules := jr }
  else { create := true, powerLevels := true, member := [e.sender] }

/-! ## Iterative auth checks -/

/-- the event's own non-rejected auth events of the wanted (type, state_key), in the order the event lists them:
    `addFromAuthEventsIfNotRejected` calls `AddEvent` for EVERY match, so the last one ends up in the slot and the room ID
    of every one is recorded in the provider (`Provider.ofEvents`), which matters to `Valid()` -/
def fromAuthEvents (authMap : List Event) (rejected : List ID) (e : Event) (t k : Bytes) : List Event :=
  ((e.authEventIDs.filter (fun id => !rejected.contains id)).filterMap (findByID authMap)).filter
    (fun a => a.type == t && a.stateKeyEquals k)

def lookupState (s : State) (t k : Bytes) : Option Event :=
  -- resolvedMembers / resolvedThirdPartyInvites never hold an empty state key
  if (t == b!"m.room.member" || t == b!"m.room.third_party_invite") && k.isEmpty then none else s.get t k

/-- the events `authAndApplyEvents` adds to the provider for one event, in the order it adds them -/
def providerFor (authMap : List Event) (rejected : List ID) (s : State) (e : Event) : List Event :=
  let n := stateNeeded e
  let want : List (Bytes × Bytes) :=
    (if n.create then [(b!"m.room.create", [])] else []) ++
    (if n.joinRules then [(b!"m.room.join_rules", [])] else []) ++
    (if n.powerLevels then [(b!"m.room.power_levels", [])] else []) ++
    n.member.map (fun m => (b!"m.room.member", m)) ++
    n.thirdPartyInvite.map (fun t => (b!"m.room.third_party_invite", t))
  want.flatMap (fun tk => match lookupState s tk.1 tk.2 with
    | some r => [r]
    | none => fromAuthEvents authMap rejected e tk.1 tk.2)

/-- `authAndApplyEvents` -/
def authAndApply (authMap : List Event) (rejected : List ID) (s : State) (evs : List Event) : State :=
  evs.foldl (fun st e =>
    match allowedFreshNoValid e (Provider.ofEvents (providerFor authMap rejected st e)) false with
    | .ok => applyEvents st [e]
    | _ => st) s

/-! ## ResolveStateConflictsV2New -/

def getCreateEvent (evs : List Event) : Option Event := evs.find? (fun e => e.isCreate)

structure Stages where
  conflicted : List ID
  unconflicted : List ID
  authDiff : List ID
  control : List ID
  others : List ID
  controlOrder : List ID
  othersOrder : List ID
  result : List ID
  deriving Repr

def resolveV2New (algo : Nat) (sets : List (List Event)) (auth : List Event) (rejected : List ID) : Stages :=
  let (conflicted, unconflicted) := splitConflictedUnconflicted false sets
  if conflicted.isEmpty && unconflicted.isEmpty && auth.isEmpty then
    { conflicted := [], unconflicted := [], authDiff := [], control := [], others := [], controlOrder := [],
      othersOrder := [], result := [] }
  else
  let authMap := eventMapFromEvents auth
  let confMap := eventMapFromEvents conflicted
  let createEv := match getCreateEvent unconflicted with
    | some c => some c
    | none => match getCreateEvent auth with
      | some c => some c
      | none => getCreateEvent conflicted
  let unconfIDs := unconflicted.map (·.eventID)
  let authDiff := authDifferenceNew algo authMap conflicted sets
  let fullConflicted := conflicted ++ authDiff
  let roots := fullConflicted.filter (fun p => !unconfIDs.contains p.eventID && isControlEvent p)
  let controlIDs := controlClosure confMap (confMap.length + 1) roots (eventMapFromEvents roots |>.map (·.eventID))
  let lookupAny (id : ID) : Option Event := match findByID fullConflicted id with
    | some e => some e
    | none => findByID confMap id
  let controlEvents := controlIDs.filterMap lookupAny
  let others := (eventMapFromEvents fullConflicted).filter (fun p =>
    !unconfIDs.contains p.eventID && !isControlEvent p && !controlIDs.contains p.eventID)
  let s0 : State := []
  -- v2 applies the unconflicted state first (in reverse topological order, no auth checks)
  let s1 := if algo == 2 then applyEvents s0 (reverseTopoAuth authMap (s0.get b!"m.room.create" [] |>.orElse (fun _ => createEv)) unconflicted) else s0
  let createFor (s : State) : Option Event := match s.get b!"m.room.create" [] with
    | some c => some c
    | none => createEv
  let controlOrder := reverseTopoAuth authMap (createFor s1) controlEvents
  let s2 := authAndApply authMap rejected s1 controlOrder
  let mainline := createMainline authMap (s2.get b!"m.room.power_levels" [])
  let othersOrder := mainlineOrdering authMap mainline others
  let s3 := authAndApply authMap rejected s2 othersOrder
  let s4 := applyEvents s3 unconflicted
  { conflicted := conflicted.map (·.eventID), unconflicted := unconfIDs, authDiff := authDiff.map (·.eventID),
    control := controlIDs, others := others.map (·.eventID), controlOrder := controlOrder.map (·.eventID),
    othersOrder := othersOrder.map (·.eventID), result := s4.map (·.2.eventID) }

/-! ## Version 1 (stateresolution.go) -/

/-- The SHA-1 of the event ID is an oracle (a function of the ID): supplied per event by the harness. -/
structure V1Key where
  depth : Int
  sha1 : Bytes
  deriving Repr

/-- `conflictedEventSorter.Less` -/
def v1Lt (a b : V1Key) : Bool :=
  if a.depth == b.depth then bytesLt b.sha1 a.sha1 else a.depth < b.depth

structure V1State where
  create : Option Event := none
  pl : Option Event := none
  jr : Option Event := none
  members : List (Bytes × Option Event) := []
  tpis : List (Bytes × Option Event) := []

def setOpt (m : List (Bytes × Option Event)) (k : Bytes) (v : Option Event) : List (Bytes × Option Event) :=
  (m.filter (fun x => x.1 != k)) ++ [(k, v)]

def V1State.addAuthEvent (s : V1State) (e : Event) : V1State :=
  if e.stateKey.isNone then s     -- only state events can be auth events
  else if e.type == b!"m.room.create" then (if e.stateKeyEquals [] then { s with create := some e } else s)
  else if e.type == b!"m.room.power_levels" then (if e.stateKeyEquals [] then { s with pl := some e } else s)
  else if e.type == b!"m.room.join_rules" then (if e.stateKeyEquals [] then { s with jr := some e } else s)
  else if e.type == b!"m.room.member" then { s with members := setOpt s.members (e.stateKey.getD []) (some e) }
  else if e.type == b!"m.room.third_party_invite" then { s with tpis := setOpt s.tpis (e.stateKey.getD []) (some e) }
  else s

def V1State.removeAuthEvent (s : V1State) (t k : Bytes) : V1State :=
  if t == b!"m.room.create" then (if k.isEmpty then { s with create := none } else s)
  else if t == b!"m.room.power_levels" then (if k.isEmpty then { s with pl := none } else s)
  else if t == b!"m.room.join_rules" then (if k.isEmpty then { s with jr := none } else s)
  else if t == b!"m.room.member" then { s with members := setOpt s.members k none }
  else if t == b!"m.room.third_party_invite" then { s with tpis := setOpt s.tpis k none }
  else s

/-- `authEventAt`: the auth event currently registered for (type, state_key), if any (a nil map entry counts as none) -/
def V1State.authEventAt (s : V1State) (t k : Bytes) : Option Event :=
  if t == b!"m.room.create" then (if k.isEmpty then s.create else none)
  else if t == b!"m.room.power_levels" then (if k.isEmpty then s.pl else none)
  else if t == b!"m.room.join_rules" then (if k.isEmpty then s.jr else none)
  else if t == b!"m.room.member" then s.members.findSome? (fun x => if x.1 == k then x.2 else none)
  else if t == b!"m.room.third_party_invite" then s.tpis.findSome? (fun x => if x.1 == k then x.2 else none)
  else none

/-- the resolver seen as an auth event provider -/
def V1State.provider (s : V1State) (valid : Bool) : Provider :=
  let evs := s.create.toList ++ s.pl.toList ++ s.jr.toList ++ (s.members.filterMap (·.2)) ++ (s.tpis.filterMap (·.2))
  { events := evs, roomIDs := if valid then [] else [[], [0]], ident := 1 }

def v1Allowed (s : V1State) (valid : Bool) (e : Event) : Bool :=
  allowedFresh e (s.provider valid) false == .ok

def sortV1 (sha : ID → Bytes) (evs : List Event) : List Event :=
  (sortBy (fun (a b : Event × V1Key) => v1Lt a.2 b.2) (evs.map (fun e => (e, ({ depth := e.depth, sha1 := sha e.eventID } : V1Key))))).map (·.1)

/-- `resolveAuthBlock`: returns the winner and the state with the slot restored to what it held before the block -/
def resolveAuthBlock (sha : ID → Bytes) (valid : Bool) (s : V1State) (evs : List Event) : Option Event × V1State :=
  match sortV1 sha evs with
  | [] => (none, s)
  | first :: rest =>
    let rec go (s : V1State) (result : Event) (rest : List Event) : Event × V1State :=
      match rest with
      | [] => (result, s)
      | e :: more => if v1Allowed s valid e then go (s.addAuthEvent e) e more else (result, s)
    -- what the caller supplied for this slot is put back once the block is resolved
    let prev := s.authEventAt first.type (first.stateKey.getD [])
    let (result, s') := go (s.addAuthEvent first) first rest
    let s'' := s'.removeAuthEvent result.type (result.stateKey.getD [])
    (some result, match prev with
      | some p => s''.addAuthEvent p
      | none => s'')

/-- `resolveNormalBlock` -/
def resolveNormalBlock (sha : ID → Bytes) (valid : Bool) (s : V1State) (evs : List Event) : Option Event :=
  match sortV1 sha evs with
  | [] => none
  | first :: rest =>
    match (rest.reverse).find? (fun e => v1Allowed s valid e) with
    | some e => some e
    | none => some first

/-- `resolveAndAddAuthBlocks` -/
def resolveAndAddAuthBlocks (sha : ID → Bytes) (valid : Bool) (s : V1State) (blocks : List (List Event)) : V1State × List Event :=
  let (s', results) := blocks.foldl (fun (acc : V1State × List Event) block =>
    if block.isEmpty then acc else
    match resolveAuthBlock sha valid acc.1 block with
    | (some e, st) => (st, acc.2 ++ [e])
    | (none, st) => (st, acc.2)) (s, [])
  (results.foldl (fun st e => st.addAuthEvent e) s', results)

/-- `ResolveStateConflicts` -/
def resolveV1 (sha : ID → Bytes) (conflicted auth : List Event) : List Event :=
  let groups := groupByKey conflicted
  let isKey (t : Bytes) (g : (Bytes × Bytes) × List Event) : Bool := g.1.1 == t
  let single (t : Bytes) : List Event := ((groups.filter (fun g => g.1 == (t, []))).map (·.2)).flatten
  let creates := single b!"m.room.create"
  let pls := single b!"m.room.power_levels"
  let jrs := single b!"m.room.join_rules"
  let special (g : (Bytes × Bytes) × List Event) : Bool :=
    g.1 == (b!"m.room.create", []) || g.1 == (b!"m.room.power_levels", []) || g.1 == (b!"m.room.join_rules", [])
  let tpis := (groups.filter (fun g => !special g && isKey b!"m.room.third_party_invite" g)).map (·.2)
  let members := (groups.filter (fun g => !special g && isKey b!"m.room.member" g)).map (·.2)
  let others := (groups.filter (fun g => !special g && !isKey b!"m.room.third_party_invite" g && !isKey b!"m.room.member" g)).map (·.2)
  -- addAuthEvent for the supplied auth events; `valid` = all in one room
  let roomIDs := auth.foldl (fun acc (e : Event) => if acc.contains e.roomID then acc else acc ++ [e.roomID]) ([] : List Bytes)
  let valid := roomIDs.length ≤ 1
  let s0 := auth.foldl (fun (st : V1State) e => st.addAuthEvent e) {}
  let (s1, r1) := resolveAndAddAuthBlocks sha valid s0 [creates]
  let (s2, r2) := resolveAndAddAuthBlocks sha valid s1 [pls]
  let (s3, r3) := resolveAndAddAuthBlocks sha valid s2 [jrs]
  let (s4, r4) := resolveAndAddAuthBlocks sha valid s3 tpis
  let (s5, r5) := resolveAndAddAuthBlocks sha valid s4 members
  let r6 := others.filterMap (resolveNormalBlock sha valid s5)
  r1 ++ r2 ++ r3 ++ r4 ++ r5 ++ r6

/-- `ResolveConflictsNew` -/
def resolveConflictsNew (sha : ID → Bytes) (ver : Bytes) (sets : List (List Event)) (auth : List Event) (rejected : List ID) :
    Option (List ID) :=
  match versionRow? ver with
  | none => none
  | some row =>
    if row.stateResAlgorithm == 1 then
      let (conflicted, notConflicted) := splitConflictedUnconflicted true sets
      some ((resolveV1 sha conflicted auth ++ notConflicted).map (·.eventID))
    else if row.stateResAlgorithm == 2 || row.stateResAlgorithm == 3 then
      some (resolveV2New row.stateResAlgorithm sets auth rejected).result
    else none

/-! ## The deprecated entry points (`ResolveStateConflictsV2`, `ResolveConflicts`) -/

/-- `calculateAuthDifference` (the old routine).  `authSets[c]` = the auth events (of the auth map) reachable from the
    conflicted event `c`; it exists only when that set is not empty.  An auth event is in the difference iff
    `isInAllAuthLists` answers false for it: it is itself a conflicted event with a non-empty `authSets` entry, and some
    member `k` of that entry has no entry of its own or is not a member of its own entry. -/
def authDifferenceOld (authMap confMap : List Event) : List Event :=
  let sets (id : ID) : Option (List ID) :=
    match findByID confMap id with
    | none => none
    | some c =>
      let ch := authClosure authMap (authMap.length + 1) [c] []
      if ch.isEmpty then none else some ch
  authMap.filter (fun a => match sets a.eventID with
    | none => false
    | some ch => !(ch.all (fun k => match sets k with
        | none => false
        | some chk => chk.contains k)))

/-- `ResolveStateConflictsV2` (deprecated): the caller supplies the conflicted / unconflicted split; nothing is returned when the
    auth events lack a create event; the unconflicted events are applied first in the order given; the create event for the
    creator bonus of the power ordering is the resolved one only (`r.createEvent` is never set here). -/
def resolveV2Old (conflicted unconflicted auth : List Event) (rejected : List ID) : List ID :=
  match getCreateEvent auth with
  | none => []
  | some _ =>
    let authMap := eventMapFromEvents auth
    let confMap := eventMapFromEvents conflicted
    let unconfIDs := unconflicted.map (·.eventID)
    let authDiff := authDifferenceOld authMap confMap
    let fullConflicted := conflicted ++ authDiff
    let roots := fullConflicted.filter (fun p => !unconfIDs.contains p.eventID && isControlEvent p)
    let controlIDs := controlClosure confMap (confMap.length + 1) roots (eventMapFromEvents roots |>.map (·.eventID))
    let lookupAny (id : ID) : Option Event := match findByID fullConflicted id with
      | some e => some e
      | none => findByID confMap id
    let controlEvents := controlIDs.filterMap lookupAny
    let others := (eventMapFromEvents fullConflicted).filter (fun p =>
      !unconfIDs.contains p.eventID && !isControlEvent p && !controlIDs.contains p.eventID)
    let s1 := applyEvents [] unconflicted
    let controlOrder := reverseTopoAuth authMap (s1.get b!"m.room.create" []) controlEvents
    let s2 := authAndApply authMap rejected s1 controlOrder
    let mainline := createMainline authMap (s2.get b!"m.room.power_levels" [])
    let othersOrder := mainlineOrdering authMap mainline others
    let s3 := authAndApply authMap rejected s2 othersOrder
    let s4 := applyEvents s3 unconflicted
    s4.map (·.2.eventID)

/-- `ResolveConflicts` (deprecated): "conflicted" is decided by key multiplicity over the distinct input events -/
def resolveConflictsOld (sha : ID → Bytes) (ver : Bytes) (events auth : List Event) (rejected : List ID) :
    Option (List ID) :=
  match versionRow? ver with
  | none => none
  | some row =>
    let (conflicted, notConflicted) := splitConflictedUnconflicted true [events]
    if row.stateResAlgorithm == 1 then
      some ((resolveV1 sha conflicted auth ++ notConflicted).map (·.eventID))
    else if row.stateResAlgorithm == 2 || row.stateResAlgorithm == 3 then
      some (resolveV2Old conflicted notConflicted auth rejected)
    else none

end V.StateRes
