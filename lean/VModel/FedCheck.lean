/-
  VModel.FedCheck — executable model of the federation-response filters:
    authstate.go  CheckStateResponse, checkAllowedByAuthEvents, CheckSendJoinResponse, VerifyAuthRulesAtState
    authchain.go  VerifyEventAuthChain
    load.go       EventsLoader.LoadAndVerify
    backfill.go   RequestBackfill
    json.go       EventJSONs.UntrustedEvents
  as FILTERS OVER ORACLES.  Core Lean only.

  Oracles (all parameters; the theorems of C14 quantify over them):
    * `sigOk e`            — `VerifyEventSignatures(e, keyRing) == nil` (the scripted JSONVerifier's answer)
    * `P, empty, add`      — the `AuthEvents` provider object: `NewAuthEvents(nil)` and `AddEvent`
    * `allowedBy e p`      — `Allowed(e, p, userIDForSender) == nil`
    * `Parsed`             — the class `NewEventFromUntrustedJSON` assigns to a raw message (C04's business)
    * `EventProvider`      — the caller's `EventProvider` as a function of the requested ID list
    * `StateProvider`      — `StateIDsBeforeEvent` / `StateBeforeEvent`
    * `order`              — `ReverseTopologicalOrdering` (modelled by another property: given)
  Assumptions made by the model (recorded in props/C14.py): the context is never cancelled, the
  EventProvider handed to VerifyEventAuthChain / CheckStateResponse answers as a function of the
  requested IDs (stateless; `handedOut` reads what it returned off the requests), `VerifyAllEventSignatures`
  returns one answer per event (it does: eventcrypto.go appends exactly one per event).

  Mirrors the code after the repairs of findings R1 (VerifyAuthRulesAtState: the WHOLE returned state is
  added to the provider), R2 (VerifyEventAuthChain: what the single-ID retry of checkAllowedByAuthEvents
  fetches is pushed on the verification stack) and R3 (CheckStateResponse: failures per event, not per ID).

  The Go maps `eventsByID` (ID ↦ event-or-nil) are association lists with the newest binding in front;
  only lookups by key are performed on them, so iteration order never matters.
-/
import VModel.Event
namespace V.FedCheck
open V

/-- the auth oracles; `P` is the `AuthEvents` provider object -/
structure Oracles (P : Type) where
  sigOk : Event → Bool
  empty : P
  add : P → Event → P
  allowedBy : Event → P → Bool

/-- answer of the caller's `EventProvider` -/
inductive ProvAns where
  | events (es : List Event)
  | error
  deriving Inhabited

abbrev EventProvider := List Bytes → ProvAns

/-- calls made to the caller's providers (the observable trace) -/
inductive Call where
  | events (ids : List Bytes)      -- EventProvider(ver, ids)
  | stateIDs (ev : Bytes)          -- StateProvider.StateIDsBeforeEvent(ev)
  | state (ev : Bytes)             -- StateProvider.StateBeforeEvent(ev)
  | backfill (server : Nat)        -- BackfillClient.Backfill(servers[i])
  deriving Inhabited, DecidableEq

abbrev Log := List Call

/-- `map[string]PDU` with possibly-nil values: newest binding first -/
abbrev IdMap := List (Bytes × Option Event)

/-! ## checkAllowedByAuthEvents -/

/-- `for _, e := range ev { if AddEvent(e) == nil { eventsByID[id] = e } else { eventsByID[id] = nil } }` -/
def addProvided {P} (O : Oracles P) : List Event → IdMap → P → IdMap × P
  | [], m, acc => (m, acc)
  | e :: es, m, acc =>
    if e.stateKey.isSome then addProvided O es ((e.eventID, some e) :: m) (O.add acc e)
    else addProvided O es ((e.eventID, none) :: m) acc

/-- `if _, got := eventsByID[ae]; !got { eventsByID[ae] = nil }`: after the provider's events were added,
    the requested ID is recorded as missing unless one of them carried it -/
def ensureKey (ae : Bytes) (m : IdMap) : IdMap :=
  match m.lookup ae with
  | none => (ae, none) :: m
  | some _ => m

inductive Step (P : Type) where
  | next (m : IdMap) (acc : P) (log : Log)
  | fail (m : IdMap) (log : Log)          -- AddEvent refused an event found in eventsByID (no state key)
  | outOfFuel (m : IdMap) (log : Log)     -- the `goto retryEvent` loop did not finish within the fuel (unreachable with fuel ≥ 2: C14.retry_terminates)

/-- one auth event ID of the `for _, ae := range event.AuthEventIDs()` loop, including the
    `retryEvent:` label.  Each `goto retryEvent` consumes one unit of fuel. -/
def retryAE {P} (O : Oracles P) (prov : Option EventProvider) (ae : Bytes) :
    Nat → IdMap → P → Log → Step P
  | 0, m, _, log => .outOfFuel m log
  | fuel + 1, m, acc, log =>
    match m.lookup ae with
    | some (some a) => if a.stateKey.isSome then .next m (O.add acc a) log else .fail m log
    | some none => .next m acc log
    | none =>
      match prov with
      | none => .next m acc log
      | some p =>
        match p [ae] with
        | .events (e :: es) =>
          retryAE O prov ae fuel (ensureKey ae (addProvided O (e :: es) m acc).1) (addProvided O (e :: es) m acc).2 (log ++ [.events [ae]])
        | _ => retryAE O prov ae fuel ((ae, none) :: m) acc (log ++ [.events [ae]])

def loopAE {P} (O : Oracles P) (prov : Option EventProvider) (fuel : Nat) :
    List Bytes → IdMap → P → Log → Step P
  | [], m, acc, log => .next m acc log
  | ae :: rest, m, acc, log =>
    match retryAE O prov ae fuel m acc log with
    | .next m' acc' log' => loopAE O prov fuel rest m' acc' log'
    | r => r

inductive CAOut where
  | ok
  | notAllowed     -- Allowed(...) refused
  | addErr         -- AddEvent error (an auth event found in the map is not a state event)
  | outOfFuel
  deriving DecidableEq, Repr, Inhabited

/-- `checkAllowedByAuthEvents(event, eventsByID, missingAuth, _)`; returns the verdict, the mutated
    map and the provider calls. -/
def checkAllowed {P} (O : Oracles P) (prov : Option EventProvider) (fuel : Nat) (e : Event)
    (m : IdMap) (log : Log) : CAOut × IdMap × Log :=
  match loopAE O prov fuel e.authEventIDs m O.empty log with
  | .next m' acc log' => (if O.allowedBy e acc then .ok else .notAllowed, m', log')
  | .fail m' log' => (.addErr, m', log')
  | .outOfFuel m' log' => (.outOfFuel, m', log')

/-! ## EventJSONs.UntrustedEvents -/

/-- what `NewEventFromUntrustedJSON` made of one raw message -/
inductive Parsed where
  | ok (e : Event)
  | persistable (e : Event)    -- EventValidationError with Persistable = true (event returned too)
  | bad                        -- any other error
  deriving Inhabited

/-- `EventJSONs.UntrustedEvents`: keeps clean events and "too large but persistable" ones -/
def untrusted : List Parsed → List Event
  | [] => []
  | .ok e :: r => e :: untrusted r
  | .persistable e :: r => e :: untrusted r
  | .bad :: r => untrusted r

/-! ## CheckStateResponse -/

/-- the loop over the state events: every one needs a state key, no (type, state_key) twice.
    `true` = passed. -/
def checkStateTuples : List Event → List (Bytes × Bytes) → Bool
  | [], _ => true
  | e :: es, seen =>
    match e.stateKey with
    | none => false
    | some sk => if seen.contains (e.type, sk) then false else checkStateTuples es ((e.type, sk) :: seen)

/-- `eventsByID` after "Collect a map of event reference to event": every event whose OWN signature check
    passed (`!failed[i]`), later ones overwriting earlier ones with the same ID. -/
def verifiedMap {P} (O : Oracles P) (all : List Event) : IdMap :=
  ((all.filter (fun e => O.sigOk e)).map (fun e => (e.eventID, some e))).reverse

/-- "Check whether the events are allowed by the auth rules": ONE shared `eventsByID` for all events.
    Returns, per event (position in `allEvents`), whether checkAllowedByAuthEvents accepted it;
    `none` when a retry loop ran out of fuel. -/
def authLoop {P} (O : Oracles P) (prov : Option EventProvider) (fuel : Nat) :
    List Event → IdMap → Log → Option (List Bool × IdMap × Log)
  | [], m, log => some ([], m, log)
  | e :: es, m, log =>
    match checkAllowed O prov fuel e m log with
    | (.outOfFuel, _, _) => none
    | (v, m', log') =>
      match authLoop O prov fuel es m' log' with
      | none => none
      | some (oks, m'', log'') => some ((v == .ok) :: oks, m'', log'')

/-- `keep(events, offset)`: the events whose flag is set (flags are per position) -/
def keepBy : List Event → List Bool → List Event
  | e :: es, b :: bs => if b then e :: keepBy es bs else keepBy es bs
  | _, _ => []

inductive SROut where
  | ok (auth state : List Event)
  | error                  -- "does not have a state key" / "duplicate state key tuple"
  | outOfFuel
  deriving Inhabited

/-- `CheckStateResponse` on the already-parsed lists (`UntrustedEvents` applied by the caller of this
    function: see `checkStateResponseRaw`).  `failed[i]` = the signature check of event i failed or
    checkAllowedByAuthEvents refused it: failures are per EVENT (position in `allEvents` = auth events
    followed by state events), not per event ID. -/
def checkStateResponse {P} (O : Oracles P) (prov : Option EventProvider) (fuel : Nat)
    (A S : List Event) (log : Log) : SROut × Log :=
  if A.any (fun e => e.stateKey.isNone) then (.error, log)
  else if !checkStateTuples S [] then (.error, log)
  else
    match authLoop O prov fuel (A ++ S) (verifiedMap O (A ++ S)) log with
    | none => (.outOfFuel, log)
    | some (oks, _, log') =>
      let keep := List.zipWith (fun e ok => O.sigOk e && ok) (A ++ S) oks
      (.ok (keepBy A (keep.take A.length)) (keepBy S (keep.drop A.length)), log')

def checkStateResponseRaw {P} (O : Oracles P) (prov : Option EventProvider) (fuel : Nat)
    (A S : List Parsed) (log : Log) : SROut × Log :=
  checkStateResponse O prov fuel (untrusted A) (untrusted S) log

/-! ## CheckSendJoinResponse -/

inductive SJOut where
  | ok (auth state : List Event)
  | error                  -- CheckStateResponse failed
  | notAllowedByAuth       -- join event refused by its auth events (or AddEvent error there)
  | stateAddErr            -- AddEvent of a returned state event failed
  | notAllowedByState      -- join event refused by the returned state
  | outOfFuel
  deriving Inhabited

/-- all events of a list keyed by ID, later ones overwriting earlier ones -/
def mapOfEvents (es : List Event) : IdMap := (es.map (fun e => (e.eventID, some e))).reverse

/-- `authEventProvider.AddEvent` over the returned state; `none` = AddEvent error -/
def addAll {P} (O : Oracles P) : List Event → P → Option P
  | [], acc => some acc
  | e :: es, acc => if e.stateKey.isSome then addAll O es (O.add acc e) else none

def checkSendJoin {P} (O : Oracles P) (prov : Option EventProvider) (fuel : Nat)
    (A S : List Event) (join : Event) (log : Log) : SJOut × Log :=
  match checkStateResponse O prov fuel A S log with
  | (.error, log') => (.error, log')
  | (.outOfFuel, log') => (.outOfFuel, log')
  | (.ok A' S', log') =>
    match checkAllowed O prov fuel join (mapOfEvents (A' ++ S')) log' with
    | (.outOfFuel, _, log'') => (.outOfFuel, log'')
    | (.notAllowed, _, log'') => (.notAllowedByAuth, log'')
    | (.addErr, _, log'') => (.notAllowedByAuth, log'')
    | (.ok, _, log'') =>
      match addAll O S' O.empty with
      | none => (.stateAddErr, log'')
      | some p => if O.allowedBy join p then (.ok A' S', log'') else (.notAllowedByState, log'')

/-! ## VerifyEventAuthChain -/

inductive ChainOut where
  | ok
  | provErr          -- provideEvents returned an error
  | authFail         -- checkAllowedByAuthEvents failed for some event of the chain
  | outOfFuel
  deriving DecidableEq, Repr, Inhabited

structure ChainSt where
  stack : List Event        -- head = top of the Go slice-stack
  m : IdMap
  verified : List Bytes

/-- `eventsByID[id] == nil`: absent or nil -/
def isNilIn (m : IdMap) (id : Bytes) : Bool :=
  match m.lookup id with
  | some (some _) => false
  | _ => true

/-- `for i := range newEvents { eventsByID[newEvents[i].EventID()] = newEvents[i] }` -/
def putAll : List Event → IdMap → IdMap
  | [], m => m
  | e :: es, m => putAll es ((e.eventID, some e) :: m)

/-- "work out which events we need to fetch, if any" -/
def needOf (m : IdMap) (curr : Event) : List Bytes := curr.authEventIDs.filter (isNilIn m)

/-- "fetch the events": `none` = the provider failed; no call is made for an empty list -/
def fetchNeeded (prov : EventProvider) (need : List Bytes) (log : Log) : Option (List Event × Log) :=
  if need.isEmpty then some ([], log)
  else match prov need with
    | .error => none
    | .events es => some (es, log ++ [.events need])

/-- one iteration of the `for len(eventsToVerify) > 0` loop -/
inductive ChainStep where
  | done (r : ChainOut) (log : Log)
  | cont (st : ChainSt) (log : Log)

/-- the events the provider handed out in the calls of a log.  The provider is stateless (its answers are a
    function of the request: assumption recorded in props/C14.py), so what it returned can be read off the
    requests. -/
def handedOut (prov : EventProvider) : Log → List Event
  | [] => []
  | .events ids :: r =>
    (match prov ids with
     | .events es => es
     | .error => []) ++ handedOut prov r
  | _ :: r => handedOut prov r

/-- `caFuel` is the fuel of the retry loops inside checkAllowedByAuthEvents.
    `append(eventsToVerify, newEvents...)` makes the LAST new event the top of the stack.
    checkAllowedByAuthEvents is handed `fetchAndVerify`: the caller's provider, which ALSO appends whatever it
    returns to `eventsToVerify` — so the events obtained by the single-ID retries (`handedOut` of the calls
    checkAllowedByAuthEvents made) lie above the batch-fetched ones on the stack, the last one on top. -/
def chainStep {P} (O : Oracles P) (prov : EventProvider) (caFuel : Nat) (st : ChainSt) (log : Log) : ChainStep :=
  match st.stack with
  | [] => .done .ok log
  | curr :: rest =>
    if st.verified.contains curr.eventID then .cont { st with stack := rest } log
    else
      match fetchNeeded prov (needOf st.m curr) log with
      | none => .done .provErr (log ++ [.events (needOf st.m curr)])
      | some (newEvents, log1) =>
        match checkAllowed O (some prov) caFuel curr (putAll newEvents st.m) [] with
        | (.ok, m2, calls) =>
          .cont { stack := (handedOut prov calls).reverse ++ newEvents.reverse ++ rest, m := m2,
                  verified := curr.eventID :: st.verified } (log1 ++ calls)
        | (.outOfFuel, _, calls) => .done .outOfFuel (log1 ++ calls)
        | (_, _, calls) => .done .authFail (log1 ++ calls)

/-- the loop; one unit of `fuel` per iteration -/
def chainLoop {P} (O : Oracles P) (prov : EventProvider) (caFuel : Nat) : Nat → ChainSt → Log → ChainOut × Log
  | 0, _, log => (.outOfFuel, log)
  | fuel + 1, st, log =>
    match chainStep O prov caFuel st log with
    | .done r log' => (r, log')
    | .cont st' log' => chainLoop O prov caFuel fuel st' log'

def verifyEventAuthChain {P} (O : Oracles P) (prov : EventProvider) (caFuel fuel : Nat) (e : Event) (log : Log) :
    ChainOut × Log :=
  chainLoop O prov caFuel fuel { stack := [e], m := [(e.eventID, some e)], verified := [] } log

/-! ## VerifyAuthRulesAtState -/

structure StateProvider where
  /-- `StateIDsBeforeEvent`; `none` = error -/
  ids : Event → Option (List Bytes)
  /-- `StateBeforeEvent(ver, event, ids)`: the returned `map[string]PDU` as key/event pairs (distinct keys);
      `none` = error -/
  state : Event → List Bytes → Option (List (Bytes × Event))

inductive ASOut where
  | ok
  | idsErr
  | stateErr
  | notAllowed        -- refused by the state (or an entry of the state is not a state event)
  | outOfFuel         -- (no longer produced: the slow path has no retry loop)
  deriving DecidableEq, Repr, Inhabited

/-- the same event twice (same ID, same JSON): what the slot check of `VerifyAuthRulesAtState` lets pass -/
def sameEvent (a b : Event) : Bool :=
  a.eventID == b.eventID && Json.encodeCanon (.obj a.obj) == Json.encodeCanon (.obj b.obj)

/-- Some (type, state_key) slot is held by two DIFFERENT events of the list.  The Go loop visits the returned
    `map[string]PDU` in a random order and refuses at the first event whose slot is already taken by another
    event: whatever the order, it refuses exactly when such a pair exists. -/
def slotClash (S : List Event) : Bool :=
  S.any (fun a => a.stateKey.isSome &&
    S.any (fun b => b.stateKey.isSome && ((b.type == a.type && b.stateKey == a.stateKey) && !sameEvent a b)))

/-- the slow path: "fetch the events at this state and check auth": EVERY event of the returned state is
    added to a fresh `AuthEvents` provider (an event without a state key makes `AddEvent` fail: refused; an
    event whose (type, state_key) slot is already held by a different event: refused — before that repair the
    survivor, hence the verdict, depended on the iteration order of the Go map), then `Allowed`.  `kvs` lists the
    returned `map[string]PDU` in the order the Go loop happens to visit it; with no two different events in one
    slot the resulting provider answers every lookup alike whatever the order. -/
def atStateSlow {P} (O : Oracles P) (sp : StateProvider) (e : Event) (ids : List Bytes) (log : Log) : ASOut × Log :=
  match sp.state e ids with
  | none => (.stateErr, log ++ [.state e.eventID])
  | some kvs =>
    if slotClash (kvs.map (·.2)) then (.notAllowed, log ++ [.state e.eventID]) else
    match addAll O (kvs.map (·.2)) O.empty with
    | none => (.notAllowed, log ++ [.state e.eventID])
    | some p => (if O.allowedBy e p then .ok else .notAllowed, log ++ [.state e.eventID])

def verifyAuthRulesAtState {P} (O : Oracles P) (sp : StateProvider) (e : Event) (allowValidation : Bool)
    (log : Log) : ASOut × Log :=
  match sp.ids e with
  | none => (.idsErr, log ++ [.stateIDs e.eventID])
  | some ids =>
    if allowValidation && e.authEventIDs.all (fun a => ids.contains a) then (.ok, log ++ [.stateIDs e.eventID])
    else atStateSlow O sp e ids (log ++ [.stateIDs e.eventID])

/-! ## EventsLoader.LoadAndVerify -/

inductive LoadClass where
  | ok
  | parseErr         -- NewEventFromUntrustedJSON returned an error, or the event ID is a repeat (placed at the end of the slice)
  | signatureErr
  | authChainErr
  | authRulesErr
  | empty            -- zero value: neither event nor error (slot never written)
  deriving DecidableEq, Repr, Inhabited

structure LoadResult where
  cls : LoadClass
  event : Option Event
  deriving Inhabited

/-- the parse loop of LoadAndVerify: events that parsed without ANY error (a persistable validation
    error is an error here) and whose event ID was not seen before; `seen` = IDs kept so far -/
def parsedCleanFrom : List Parsed → List Bytes → List Event
  | [], _ => []
  | .ok e :: r, seen =>
    if seen.contains e.eventID then parsedCleanFrom r seen else e :: parsedCleanFrom r (e.eventID :: seen)
  | _ :: r, seen => parsedCleanFrom r seen

/-- number of entries of `errs`: parse failures and repeated event IDs -/
def parseErrCountFrom : List Parsed → List Bytes → Nat
  | [], _ => 0
  | .ok e :: r, seen =>
    if seen.contains e.eventID then parseErrCountFrom r seen + 1 else parseErrCountFrom r (e.eventID :: seen)
  | _ :: r, seen => parseErrCountFrom r seen + 1

def parsedClean (raw : List Parsed) : List Event := parsedCleanFrom raw []
def parseErrCount (raw : List Parsed) : Nat := parseErrCountFrom raw []

/-- steps 2, 4, 5 for one event -/
def classifyOne {P} (O : Oracles P) (prov : EventProvider) (sp : StateProvider) (caFuel fuel : Nat)
    (e : Event) (log : Log) : Option (LoadClass × Log) :=
  if !O.sigOk e then some (.signatureErr, log)
  else match verifyEventAuthChain O prov caFuel fuel e log with
    | (.outOfFuel, _) => none
    | (.ok, log1) =>
      (match verifyAuthRulesAtState O sp e true log1 with
       | (.ok, log2) => some (.ok, log2)
       | (.outOfFuel, _) => none
       | (_, log2) => some (.authRulesErr, log2))
    | (_, log1) => some (.authChainErr, log1)

def loadLoop {P} (O : Oracles P) (prov : EventProvider) (sp : StateProvider) (caFuel fuel : Nat) :
    List Event → Log → Option (List LoadResult × Log)
  | [], log => some ([], log)
  | e :: es, log =>
    match classifyOne O prov sp caFuel fuel e log with
    | none => none
    | some (c, log1) =>
      match loadLoop O prov sp caFuel fuel es log1 with
      | none => none
      | some (rs, log2) => some ({ cls := c, event := some e } :: rs, log2)

/-- `LoadAndVerify`: `order` is `ReverseTopologicalOrdering(·, sortOrder)` (given).  The result slice has
    `len(rawEvents)` slots: the ordered events' results first, the parse errors last; when `order`
    returns FEWER events than it was given (it drops events whose ID repeats) the slots in between
    keep their zero value.  When it returned MORE, Go would index out of range: `none`-free model
    requires `(order evs).length ≤ evs.length`, which the driver checks (`panic` outcome otherwise). -/
def emptyResult : LoadResult := { cls := .empty, event := none }
def parseErrResult : LoadResult := { cls := .parseErr, event := none }

/-- the result slice: `n` slots, the events' results first, the parse errors last, zero values between -/
def layout (n nerr : Nat) (rs : List LoadResult) : List LoadResult :=
  rs ++ List.replicate (n - nerr - rs.length) emptyResult ++ List.replicate nerr parseErrResult

def loadAndVerify {P} (O : Oracles P) (prov : EventProvider) (sp : StateProvider) (caFuel fuel : Nat)
    (order : List Event → List Event) (raw : List Parsed) (log : Log) : Option (List LoadResult × Log) :=
  match loadLoop O prov sp caFuel fuel (order (parsedClean raw)) log with
  | none => none
  | some (rs, log') => some (layout raw.length (parseErrCount raw) rs, log')

/-! ## RequestBackfill -/

inductive BFOut where
  | done (events : List Event) (lastErr : Bool)
  | panic (site : String)
  | outOfFuel
  deriving Inhabited

/-- what one server answers to `Backfill`: `none` = error -/
abbrev ServerAns := Option (List Parsed)

def collect : List LoadResult → List Bytes → List Event → Except String (List Bytes × List Event)
  | [], have_, res => .ok (have_, res)
  | r :: rs, have_, res =>
    match r.cls with
    | .ok | .signatureErr | .empty =>
      -- `case nil, SignatureErr:` falls through to `res.Event.EventID()`
      (match r.event with
       | none => .error "backfill.go:RequestBackfill:res.Event.EventID() on a nil Event"
       | some e =>
         if have_.contains e.eventID then collect rs have_ res
         else collect rs (e.eventID :: have_) (res ++ [e]))
    | _ => collect rs have_ res

def backfillLoop {P} (O : Oracles P) (prov : EventProvider) (sp : StateProvider) (caFuel fuel : Nat)
    (order : List Event → List Event) (limit : Nat) :
    List ServerAns → Nat → List Bytes → List Event → Bool → Log → BFOut × Log
  | [], _, _, res, lastErr, log => (.done res lastErr, log)
  | s :: rest, i, have_, res, lastErr, log =>
    if res.length ≥ limit then (.done res lastErr, log)
    else
      match s with
      | none => backfillLoop O prov sp caFuel fuel order limit rest (i + 1) have_ res true (log ++ [.backfill i])
      | some raw =>
        match loadAndVerify O prov sp caFuel fuel order raw (log ++ [.backfill i]) with
        | none => (.outOfFuel, log ++ [.backfill i])
        | some (rs, log2) =>
          match collect rs have_ res with
          | .error site => (.panic site, log2)
          | .ok (have', res') => backfillLoop O prov sp caFuel fuel order limit rest (i + 1) have' res' lastErr log2

/-- `RequestBackfill` (for a non-empty `fromEventIDs`; with an empty one it returns nil, nil at once).
    The final `ReverseTopologicalOrdering(result)` is applied by `order`. -/
def requestBackfill {P} (O : Oracles P) (prov : EventProvider) (sp : StateProvider) (caFuel fuel : Nat)
    (order : List Event → List Event) (limit : Nat) (servers : List ServerAns) (log : Log) : BFOut × Log :=
  match backfillLoop O prov sp caFuel fuel order limit servers 0 [] [] false log with
  | (.done res lastErr, log') => (.done (order res) lastErr, log')
  | r => r

end V.FedCheck
