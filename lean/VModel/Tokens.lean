/-
  VModel.Tokens — executable model of tokens/tokens.go and tokens/tokens_handlers.go (C20).
  Core Lean only.

  * A macaroon is (id, caveats, sig).  `sig` lives in an abstract type `K` of MAC values; the
    keyed function is a parameter (`MacScheme`): `derive` is macaroon.v2's `makeKey`
    (HMAC-SHA256 keyed by the constant "macaroons-key-generator"), `mac` is `keyedHash`
    (HMAC-SHA256).  Nothing is assumed about them here; the idealisation used by some C20 theorems
    is the explicit hypothesis structure `IdealMac` (VProofs/Tokens.lean).
  * The clock is the parameter `now : Int` (the code reads `int(time.Now().Unix())`; which function
    of the clock it reads is a regenerated fact, VGen.C20).
  * Strings are byte lists (Go strings are byte sequences; V2 macaroons carry arbitrary bytes).
-/
import VModel.Json
namespace V.Tokens
open V

/-! ## Constants of tokens.go (regenerated copies: VGen.C20; equality is an obligation of VProps.C20) -/

/-- `Gen = "gen = 1"` -/
def Gen : Bytes := [103, 101, 110, 32, 61, 32, 49]
/-- `UserPrefix = "user_id = "` -/
def UserPrefix : Bytes := [117, 115, 101, 114, 95, 105, 100, 32, 61, 32]
/-- `TimePrefix = "time < "` -/
def TimePrefix : Bytes := [116, 105, 109, 101, 32, 60, 32]
/-- `defaultDuration = 2 * 60` -/
def defaultDuration : Int := 120

/-! ## strconv.Atoi / strconv.Itoa on byte strings, Go `int` = int64 -/

def minInt64 : Int := -9223372036854775808
def maxInt64 : Int := 9223372036854775807

/-- value of an ASCII digit -/
def digitVal (b : UInt8) : Option Nat :=
  if 48 ≤ b.toNat ∧ b.toNat ≤ 57 then some (b.toNat - 48) else none

/-- decimal digits, most significant first, accumulating (ParseUint's loop without the overflow cut-off,
    which `atoi` applies afterwards on the unbounded value) -/
def parseDigits : List UInt8 → Nat → Option Nat
  | [], acc => some acc
  | b :: rest, acc =>
    match digitVal b with
    | none => none
    | some d => parseDigits rest (acc * 10 + d)

/-- `strconv.Atoi`: optional sign, at least one digit, digits only (no underscores in base 10),
    value within int64; anything else is an error (`none`). -/
def atoi (s : Bytes) : Option Int :=
  match s with
  | [] => none
  | c :: rest =>
    let neg := c == 45
    let ds := if c == 45 || c == 43 then rest else s
    match ds with
    | [] => none
    | _ :: _ =>
      match parseDigits ds 0 with
      | none => none
      | some n =>
        let v : Int := if neg then -(n : Int) else (n : Int)
        if minInt64 ≤ v ∧ v ≤ maxInt64 then some v else none

/-- decimal digits of a natural number, most significant first ("0" for 0) -/
def natDigits (n : Nat) : List UInt8 :=
  if h : n < 10 then [UInt8.ofNat (48 + n)]
  else natDigits (n / 10) ++ [UInt8.ofNat (48 + n % 10)]
termination_by n
decreasing_by omega

/-- `strconv.Itoa` -/
def itoa (v : Int) : Bytes :=
  if v < 0 then 45 :: natDigits v.natAbs else natDigits v.natAbs

/-- Go's wrapping int64 addition result for an exact integer -/
def wrap64 (x : Int) : Int := (x + 9223372036854775808) % 18446744073709551616 - 9223372036854775808

/-! ## Macaroons -/

/-- The two keyed functions of gopkg.in/macaroon.v2/crypto.go, abstract. -/
structure MacScheme (K : Type) where
  derive : Bytes → K
  mac : K → Bytes → K

/-- A caveat: `vid` non-empty = third-party caveat. -/
structure Caveat where
  cid : Bytes
  vid : Bytes := []
  deriving Repr, DecidableEq, Inhabited

/-- The decoded macaroon (the unauthenticated location hint is not part of it). -/
structure Token (K : Type) where
  id : Bytes
  caveats : List Caveat
  sig : K

/-- signature chain over first-party caveat conditions: `New` then `AddFirstPartyCaveat`* -/
def chain {K} (S : MacScheme K) (key : Bytes) (id : Bytes) (conds : List Bytes) : K :=
  conds.foldl S.mac (S.mac (S.derive key) id)

inductive VErr where
  | options     -- GenerateLoginToken: invalid TokenOptions
  | decode      -- "Token does not represent a valid macaroon"
  | sig         -- "Provided token was not issued by this server"
  | caveats     -- "Provided token not authorized"
  deriving Repr, DecidableEq, Inhabited

/-- `Macaroon.VerifySignature(rootKey, nil)` → first-party conditions in order, or failure.
    Mirrors `verify0`: caveats are walked in order; a third-party caveat fails at once (there are no
    discharges: `decrypt` or `findDischarge` errors); the signature is compared at the end. -/
def verifySigLoop {K} [DecidableEq K] (S : MacScheme K) (want : K) : K → List Caveat → List Bytes → Option (List Bytes)
  | cur, [], acc => if cur = want then some acc.reverse else none
  | cur, c :: rest, acc =>
    if c.vid ≠ [] then none
    else verifySigLoop S want (S.mac cur c.cid) rest (c.cid :: acc)

def verifySig {K} [DecidableEq K] (S : MacScheme K) (key : Bytes) (t : Token K) : Option (List Bytes) :=
  verifySigLoop S t.sig (S.mac (S.derive key) t.id) t.caveats []

/-! ## tokens_handlers.go -/

/-- `verifyExpiry(t, now)` -/
def verifyExpiry (t : Bytes) (now : Int) : Bool :=
  match atoi t with
  | none => false
  | some expiry => decide (now < expiry)

inductive CavErr where
  | wrongUser | expired | unknown | duplicate | missing
  deriving Repr, DecidableEq, Inhabited

/-- The `switch` of verifyCaveats for one caveat: the bit of its kind, or the early return. -/
def classify (caveat userID : Bytes) (now : Int) : Except CavErr Nat :=
  if caveat = Gen then .ok 1
  else if UserPrefix.isPrefixOf caveat then
    if caveat.drop UserPrefix.length ≠ userID then .error .wrongUser else .ok 2
  else if TimePrefix.isPrefixOf caveat then
    if !verifyExpiry (caveat.drop TimePrefix.length) now then .error .expired else .ok 4
  else .error .unknown

/-- The `for` loop of verifyCaveats with the bitmap `verified`. -/
def caveatLoop (userID : Bytes) (now : Int) : List Bytes → Nat → Except CavErr Unit
  | [], verified => if verified = 7 then .ok () else .error .missing
  | caveat :: rest, verified =>
    match classify caveat userID now with
    | .error e => .error e
    | .ok bit =>
      if verified &&& bit ≠ 0 then .error .duplicate
      else caveatLoop userID now rest (verified ||| bit)

/-- `verifyCaveats(caveats, userID)` at clock reading `now` -/
def verifyCaveats (caveats : List Bytes) (userID : Bytes) (now : Int) : Except CavErr Unit :=
  caveatLoop userID now caveats 0

/-- TokenOptions; `key = none` is a nil `ServerPrivateKey` -/
structure TokenOptions where
  key : Option Bytes
  serverName : Bytes
  user : Bytes
  duration : Int := 0
  deriving Repr, DecidableEq, Inhabited

/-- the root key bytes handed to the macaroon library (`nil` and empty are the same key) -/
def TokenOptions.keyBytes (op : TokenOptions) : Bytes := op.key.getD []

/-- `isValidTokenOptions` -/
def validOptions (op : TokenOptions) : Bool :=
  !(op.key.isNone || op.serverName.isEmpty || op.user.isEmpty)

/-- the duration GenerateLoginToken uses: 0 is `defaultDuration` -/
def effDuration (op : TokenOptions) : Int := if op.duration = 0 then defaultDuration else op.duration

/-- the caveat conditions of an issued token -/
def issuedConds (op : TokenOptions) (now : Int) : List Bytes :=
  [Gen, UserPrefix ++ op.user, TimePrefix ++ itoa (wrap64 (now + effDuration op))]

/-- `GenerateLoginToken(op)` at clock reading `now` (the decoded token; the codec is the macaroon library) -/
def generate {K} (S : MacScheme K) (op : TokenOptions) (now : Int) : Except VErr (Token K) :=
  if !validOptions op then .error .options
  else
    let conds := issuedConds op now
    .ok { id := op.user, caveats := conds.map (fun c => { cid := c }), sig := chain S op.keyBytes op.user conds }

/-- `ValidateToken(op, token)` on a token that decoded (`none` = deSerializeMacaroon failed) -/
def validate {K} [DecidableEq K] (S : MacScheme K) (op : TokenOptions) (tok : Option (Token K)) (now : Int) : Except VErr Unit :=
  match tok with
  | none => .error .decode
  | some t =>
    match verifySig S op.keyBytes t with
    | none => .error .sig
    | some conds =>
      match verifyCaveats conds op.user now with
      | .error _ => .error .caveats
      | .ok () => .ok ()

/-- `GetUserFromToken` on a token that decoded -/
def getUser {K} (tok : Option (Token K)) : Except VErr Bytes :=
  match tok with
  | none => .error .decode
  | some t => .ok t.id

/-! ## A concrete scheme for the driver and for non-vacuity examples

  `derive k = (k, [])`, `mac (k, h) m = (k, m :: h)`: the MAC value is the whole history, so the
  scheme is injective in everything (it satisfies `IdealMac`).  The driver uses it to evaluate the
  model on abstract tokens whose signature provenance the harness established with the real HMAC. -/

abbrev ToyK := Bytes × List Bytes

def toy : MacScheme ToyK where
  derive k := (k, [])
  mac s m := (s.1, m :: s.2)

/-! ## Specification (what C20 demands of a validation), independent of the loop and of the MAC chain

  `prov` says how the token's signature relates to its content, as established outside:
  `some key` = the signature is the chain of exactly this token's id and caveats under `key`;
  `none` = it is not (altered content, foreign signature, garbage). -/
namespace Spec

def count (p : Bytes → Bool) (l : List Bytes) : Nat := (l.filter p).length

/-- a `time < s` caveat whose `s` Atoi reads as an instant after `now` -/
def timeOk (now : Int) (c : Bytes) : Bool :=
  TimePrefix.isPrefixOf c && (match atoi (c.drop TimePrefix.length) with
                              | some e => decide (now < e) | none => false)

/-- The property's demand: right key, unaltered, exactly the three caveats (any order) for the right
    user, not yet expired. -/
def validOk (opKey opUser : Bytes) (now : Int) (prov : Option Bytes) (id : Bytes) (cavs : List Caveat) : Bool :=
  let _ := id
  prov == some opKey
  && cavs.all (fun c => c.vid.isEmpty)
  && cavs.length == 3
  && count (· == Gen) (cavs.map (·.cid)) == 1
  && count (· == UserPrefix ++ opUser) (cavs.map (·.cid)) == 1
  && count (timeOk now) (cavs.map (·.cid)) == 1

end Spec

end V.Tokens
