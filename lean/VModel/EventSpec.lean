/-
  VModel.EventSpec — what C04 demands of `NewEventFromUntrustedJSON`, written directly from the
  property's words and independently of the constructor model (`VModel.EventParse.parseUntrusted`):

    strip the keys other servers may have added; if `hashes.sha256` is the hash of the hashed fields
    the event is returned as it is, not marked redacted; otherwise what is returned is the event's
    redacted form (the room version's redaction, C05), marked redacted.  Accessors read the
    returned JSON.  The event ID (ID formats 2 and 3) is the hash of the redacted form without
    `signatures` and `unsigned`.

  Readers here use exact key lookups on the final object; the constructor model goes through the
  struct decoding of encoding/json.  Core Lean only.
-/
import VModel.EventParse
namespace V
namespace EventSpec
open Json GoJson Redact

abbrev Obj := List (Bytes × JVal)

structure Expect where
  eid : Bytes
  rid : Bytes
  type : Bytes
  sk : Option Bytes
  sender : Bytes
  redacted : Bool
  depth : Int
  ts : Nat
  prev : Option (List Bytes)
  auth : Option (List Bytes)
  content : Option JVal
  unsigned : Option JVal
  json : JVal

def get (o : Obj) (k : Bytes) : Option JVal := (o.find? (fun kv => kv.1 == k)).map (·.2)

def getStr (o : Obj) (k : Bytes) : Bytes :=
  match get o k with
  | some (.str s) => s
  | _ => []

/-- the JSON names the event structs (`eventFields`, `eventV1`, `eventV2`) give a meaning to -/
def eventStructNames : List Bytes := [b!"room_id", b!"sender", b!"type", b!"state_key", b!"content", b!"redacts", b!"depth",
  b!"unsigned", b!"origin_server_ts", b!"event_id", b!"prev_events", b!"auth_events", b!"msc4354_sticky", b!"sticky"]

/-- Does the event carry a member whose name is a case variant (Unicode simple case folding: `Type`, `SENDER`,
    `ſtate_key`, `stic\u212Ay`, …) of a name the event structs read, without being that name?  Such a member is not
    the field: an accessor that reported its value would report something that is not the member of `JSON()`. -/
def hasStructVariant (o : Obj) : Bool :=
  o.any (fun kv => eventStructNames.any (fun n => foldBytes n == foldBytes kv.1 && n != kv.1))

/-- **Texts that must be refused on receipt**, from the properties' words (independently of the constructors):
    * C04 "returned … with every field intact", C03 "identity is a function of the redacted content", C06 "signed by
      every required server": an event text in which some object — at any depth — has two members with the same name
      does not denote ONE value (readers that take the first and readers that take the last occurrence see different
      events: another `hashes`, `unsigned`, `content`, `join_authorised_via_users_server`, …), so it cannot be returned
      "intact";
    * C04 / C17 / C18 "observable through any accessor": an accessor must report the exact member of `JSON()`; a
      top-level member that is only a case variant of an event field (`Type`, `Room_id`, `ſender`, …) must not be read
      as that field — honest servers never send such members, so the event is refused.
    `none` = the text is not refused for these reasons. -/
def mustRefuse (j : JVal) : Option String :=
  if !j.noDupKeys then some "duplicate member name in some object"
  else match j with
    | .obj o => if hasStructVariant o then some "case variant of an event-struct member name" else none
    | _ => none

def refIDs (format : Nat) (v : Option JVal) : Option (List Bytes) :=
  match v with
  | some (.arr xs) =>
    some (xs.map (fun x =>
      if format == 1 then
        match x with
        | .arr (.str s :: _) => s
        | _ => []
      else
        match x with
        | .str s => s
        | _ => []))
  | _ => none

/-- the keys a receiving server removes before looking at the event -/
def strippedKeys (format : Nat) : List Bytes :=
  [b!"outlier", b!"destinations", b!"age_ts", b!"unsigned"] ++ (if format == 1 then [] else [b!"event_id"])

def hashOk (H : Bytes → Bytes) (o : Obj) : Bool :=
  match get o b!"hashes" with
  | some (.obj m) =>
    match get m b!"sha256" with
    | some (.str s) =>
      match B64.decode s with
      | some d => d == H (encodeCanon (.obj (o.filter (fun kv => ![b!"signatures", b!"unsigned", b!"hashes"].contains kv.1))))
      | none => false
    | _ => false
  | _ => false

/-- The event C04 expects back, or the reason the input is outside the property's quantifier. -/
def untrustedExpect (H : Bytes → Bytes) (ver : Bytes) (t : Bytes) : Except String Expect :=
  match rowOf ver, parse t with
  | some row, some p =>
    match p.toJVal with
    | .obj o0 =>
      if (mustRefuse (.obj o0)).isSome then .error "must be refused (see mustRefuse)" else
      let o := o0.filter (fun kv => !(strippedKeys row.eventFormat).contains kv.1)
      let ok := hashOk H o
      let final : Except String Obj :=
        if ok then .ok o
        else match redactJSON ver (.obj o) with
          | .ok (.obj r) => .ok (if row.eventFormat == 1 then r else r.filter (fun kv => kv.1 != b!"event_id"))
          | _ => .error "redaction fails or is not modelled"
      match final with
      | .error w => .error w
      | .ok f =>
        -- the identity: the redacted form without signatures / unsigned
        let idv : Except String Bytes :=
          if row.eventIDFormat == 1 then .ok (getStr f b!"event_id")
          else match redactJSON ver (.obj f) with
            | .ok (.obj r) =>
              let d := H (encodeCanon (.obj (r.filter (fun kv => !(kv.1 == b!"signatures" || kv.1 == b!"unsigned")))))
              .ok (0x24 :: B64.encodeWith (if row.eventIDFormat == 3 then B64.urlAlphabet else B64.stdAlphabet) d)
            | _ => .error "redaction fails or is not modelled"
        match idv with
        | .error w => .error w
        | .ok eid =>
          let ty := getStr f b!"type"
          let sk : Option Bytes := match get f b!"state_key" with
            | some (.str s) => some s
            | _ => none
          let create := ty == b!"m.room.create" && sk == some []
          let room := getStr f b!"room_id"
          let auth0 := (let a := refIDs row.eventFormat (get f b!"auth_events"); if row.eventFormat == 1 then some (a.getD []) else a)
          .ok { eid := eid,
                rid := if row.domainlessRoomID && create then 0x21 :: eid.drop 1 else room,
                type := ty, sk := sk, sender := getStr f b!"sender", redacted := !ok,
                depth := match get f b!"depth" with
                  | some (.num lit) => (parseInt64 lit).getD 0
                  | _ => 0,
                ts := match get f b!"origin_server_ts" with
                  | some (.num lit) => (parseUint64 lit).getD 0
                  | _ => 0,
                prev := (let pr := refIDs row.eventFormat (get f b!"prev_events"); if row.eventFormat == 1 then some (pr.getD []) else pr),
                auth := if row.domainlessRoomID then
                    (if create then some [] else some ((0x24 :: room.drop 1) :: auth0.getD []))
                  else auth0,
                content := get f b!"content", unsigned := get f b!"unsigned", json := .obj f }
    | _ => .error "not an object"
  | _, _ => .error "unknown version or not JSON"

end EventSpec
end V
