/-
  VModel.Sign — executable model of signing.go (SignJSON, VerifyJSON, ListKeyIDs) over JSON values,
  including the glue the Go code really has:

  * the top level is decoded into `map[string]json.RawMessage` (exact keys; a later duplicate overwrites an
    earlier one; `null` gives a nil map); only the exact members `signatures` (decoded into the non-nil
    `preserve.Signatures` map: an object is merged into it, `null` sets it to nil) and `unsigned` (raw) are
    read — case variants such as "Signatures" are ordinary members of the signed payload (they used to be
    read through encoding/json's case-folded struct matching; fixed in /repo commit 0fb2afd);
  * `sjson.DeleteBytes` removes the exact keys `signatures` and `unsigned`;
  * nil maps (`"signatures": null`, `"signatures": {"<signer>": null}`) are replaced by fresh maps before
    the signature is stored (they used to panic; fixed in /repo commit d8b0e36);
  * `spec.Base64Bytes`: unpadded base64, URL alphabet iff the string contains `-` or `_`, CR/LF ignored,
    trailing bits not checked; re-encoded with the standard alphabet on output;
  * `VerifyJSON` decodes into `map[string]*json.RawMessage` (exact keys; `null` member = nil pointer),
    decodes `signatures` on its own (no case folding), checks lengths, re-marshals the map (sorted keys, HTML
    escaping — undone by CanonicalJSON's compaction) and verifies over the canonical bytes.

  * since round 3 (K7) `SignJSON` and `VerifyJSON` begin with `checkStrictJSON`: a message with duplicate member
    names (any depth), lone surrogate escapes or invalid UTF-8 is refused before it is read — section "The text
    gate" below (`strictJSON`, `signJSONText`, `verifyJSONText`); the value-level functions keep their names and types.

  The signed payload is `encodeCanon` of the object minus the exact keys `signatures` and `unsigned`
  (C01: `canonical t = encodeCanon (parse t)` on texts with well-formed Unicode).

  Cryptography is a parameter (`SigScheme`), never an axiom.  Core Lean only.
-/
import VModel.GoJson
namespace V.Sign
open V V.Json V.GoJson

/-! ## Signature schemes (abstract) -/

/-- A signature scheme over byte strings.  For ed25519: `sigSizeOk s = (s.length = 64)`,
    `pkSizeOk k = (k.length = 32)` (the two length guards of `VerifyJSON`). -/
structure SigScheme where
  SK : Type
  pk : SK → Bytes
  sign : SK → Bytes → Bytes
  verify : Bytes → Bytes → Bytes → Bool      -- public key, message, signature
  sigSizeOk : Bytes → Bool
  pkSizeOk : Bytes → Bool

/-- What completeness needs: signatures made with a key verify under its public key and have the sizes
    the scheme's guards expect. -/
structure SigCorrect (S : SigScheme) : Prop where
  correct : ∀ sk m, S.verify (S.pk sk) m (S.sign sk m) = true
  sig_size : ∀ sk m, S.sigSizeOk (S.sign sk m) = true
  pk_size : ∀ sk, S.pkSizeOk (S.pk sk) = true

/-- The symbolic (Dolev–Yao) idealisation of unforgeability: a signature verifies only for the message
    it was made over and only under the key pair it was made with. -/
structure IdealSig (S : SigScheme) : Prop extends SigCorrect S where
  msg_binding : ∀ pk' m' sk m, S.verify pk' m' (S.sign sk m) = true → m' = m
  key_binding : ∀ pk' m' sk m, S.verify pk' m' (S.sign sk m) = true → pk' = S.pk sk

/-! ## Base64 as `spec.Base64Bytes` reads and writes it -/

/-- standard alphabet, value `n < 64` -/
def stdChar (n : Nat) : UInt8 :=
  if n < 26 then UInt8.ofNat (0x41 + n)
  else if n < 52 then UInt8.ofNat (0x61 + (n - 26))
  else if n < 62 then UInt8.ofNat (0x30 + (n - 52))
  else if n == 62 then 0x2B else 0x2F

/-- value of a character in the standard (`url = false`) or URL-safe alphabet -/
def b64Val (url : Bool) (c : UInt8) : Option Nat :=
  if 0x41 ≤ c && c ≤ 0x5A then some (c.toNat - 0x41)
  else if 0x61 ≤ c && c ≤ 0x7A then some (c.toNat - 0x61 + 26)
  else if 0x30 ≤ c && c ≤ 0x39 then some (c.toNat - 0x30 + 52)
  else if url then (if c == 0x2D then some 62 else if c == 0x5F then some 63 else none)
  else (if c == 0x2B then some 62 else if c == 0x2F then some 63 else none)

/-- `base64.RawStdEncoding.EncodeToString` -/
def b64Encode : Bytes → Bytes
  | [] => []
  | [a] => [stdChar (a.toNat / 4), stdChar (a.toNat % 4 * 16)]
  | [a, b] => [stdChar (a.toNat / 4), stdChar (a.toNat % 4 * 16 + b.toNat / 16), stdChar (b.toNat % 16 * 4)]
  | a :: b :: c :: rest =>
    stdChar (a.toNat / 4) :: stdChar (a.toNat % 4 * 16 + b.toNat / 16) ::
    stdChar (b.toNat % 16 * 4 + c.toNat / 64) :: stdChar (c.toNat % 64) :: b64Encode rest

def b64Vals (url : Bool) : Bytes → Option (List Nat)
  | [] => some []
  | c :: rest =>
    match b64Val url c, b64Vals url rest with
    | some v, some vs => some (v :: vs)
    | _, _ => none

/-- sextets to bytes; a trailing single sextet is an error, trailing bits are dropped (non-strict). -/
def b64Bytes : List Nat → Option Bytes
  | [] => some []
  | [_] => none
  | [s0, s1] => some [UInt8.ofNat (s0 * 4 + s1 / 16)]
  | [s0, s1, s2] => some [UInt8.ofNat (s0 * 4 + s1 / 16), UInt8.ofNat (s1 % 16 * 16 + s2 / 4)]
  | s0 :: s1 :: s2 :: s3 :: rest =>
    match b64Bytes rest with
    | some r => some (UInt8.ofNat (s0 * 4 + s1 / 16) :: UInt8.ofNat (s1 % 16 * 16 + s2 / 4) ::
                      UInt8.ofNat (s2 % 4 * 64 + s3) :: r)
    | none => none

def isCRLF (c : UInt8) : Bool := c == 0x0D || c == 0x0A
def isURLMark (c : UInt8) : Bool := c == 0x2D || c == 0x5F

/-- `Base64Bytes.Decode`: URL alphabet iff the string contains `-` or `_`; Go's decoder skips CR and LF. -/
def b64Decode (s : Bytes) : Option Bytes :=
  match b64Vals (s.any isURLMark) (s.filter (fun c => !isCRLF c)) with
  | some vs => b64Bytes vs
  | none => none

/-! ## Go maps as association lists -/

def mapGet {α : Type} : List (Bytes × α) → Bytes → Option α
  | [], _ => none
  | (k', v) :: rest, k => if k' == k then some v else mapGet rest k

/-- assignment `m[k] = v`: at most one entry per key is kept -/
def mapSet {α : Type} (m : List (Bytes × α)) (k : Bytes) (v : α) : List (Bytes × α) :=
  m.filter (fun kv => kv.1 != k) ++ [(k, v)]

/-- Exact-key member of a JSON object as a Go map sees it (a later duplicate overwrites an earlier one). -/
def getLast {α : Type} : List (Bytes × α) → Bytes → Option α
  | [], _ => none
  | (k', v) :: rest, k =>
    match getLast rest k with
    | some x => some x
    | none => if k' == k then some v else none

def eraseKey {α : Type} (k : Bytes) (o : List (Bytes × α)) : List (Bytes × α) := o.filter (fun kv => kv.1 != k)

def kSignatures : Bytes := b!"signatures"
def kUnsigned : Bytes := b!"unsigned"

/-- The members the signature covers: everything but the exact keys `signatures` and `unsigned`. -/
def body (o : List (Bytes × JVal)) : List (Bytes × JVal) := eraseKey kUnsigned (eraseKey kSignatures o)

/-- The bytes that are signed / verified. -/
def payload (o : List (Bytes × JVal)) : Bytes := encodeCanon (.obj (body o))

/-! ## Decoding `map[string]map[KeyID]T` -/

/-- inner map, `none` = nil map -/
abbrev Inner (α : Type) := Option (List (Bytes × α))
abbrev SigMapG (α : Type) := List (Bytes × Inner α)

/-- entries of one inner object, in document order -/
def decodeEntries {α : Type} (dv : JVal → Option α) : List (Bytes × JVal) → List (Bytes × α) → Option (List (Bytes × α))
  | [], acc => some acc
  | (kid, v) :: rest, acc =>
    match dv v with
    | some x => decodeEntries dv rest (mapSet acc kid x)
    | none => none

/-- one inner value: `null` -> nil map, object -> fresh map, anything else a type error -/
def decodeInner {α : Type} (dv : JVal → Option α) : JVal → Option (Inner α)
  | .null => some none
  | .obj es => (decodeEntries dv es []).map some
  | _ => none

def decodeNames {α : Type} (dv : JVal → Option α) : List (Bytes × JVal) → SigMapG α → Option (SigMapG α)
  | [], acc => some acc
  | (name, v) :: rest, acc =>
    match decodeInner dv v with
    | some i => decodeNames dv rest (mapSet acc name i)
    | none => none

/-- Decoding a value into an outer map variable currently holding `base` (`none` = nil):
    `null` sets it to nil, an object is merged into the existing map (allocated if nil). -/
def decodeOuterInto {α : Type} (dv : JVal → Option α) (base : Option (SigMapG α)) : JVal → Option (Option (SigMapG α))
  | .null => some none
  | .obj ms => (decodeNames dv ms (base.getD [])).map some
  | _ => none

/-- `spec.Base64Bytes.UnmarshalJSON`: a JSON string holding base64 (null reads as the empty string). -/
def decodeSigVal : JVal → Option Bytes
  | .null => some []
  | .str s => b64Decode s
  | _ => none

abbrev SigMap := SigMapG Bytes

/-- the `preserve` struct of SignJSON -/
structure Preserve where
  sigs : Option SigMap
  unsigned : Option JVal
  deriving Inhabited

/-- Reading the two preserved members by their exact names; `none` = `signatures` does not decode. -/
def readPreserve (o : List (Bytes × JVal)) : Option Preserve :=
  let sigs? : Option (Option SigMap) := match getLast o kSignatures with
    | none => some (some [])
    | some v => decodeOuterInto decodeSigVal (some []) v
  sigs?.map (fun s => ⟨s, getLast o kUnsigned⟩)

/-- `json.Marshal(preserve.Signatures)` as a value -/
def innerToJVal : Inner Bytes → JVal
  | none => .null
  | some es => .obj (es.map (fun e => (e.1, JVal.str (b64Encode e.2))))

def sigMapToJVal (m : SigMap) : JVal := .obj (m.map (fun e => (e.1, innerToJVal e.2)))

def errUnmarshal : Err := .other "json"

/-- the object SignJSON returns: the signed members, `signatures`, and `unsigned` when there was one
    (`sjson.SetRawBytes` ×2; the final CanonicalJSON orders the members) -/
def assemble (b : List (Bytes × JVal)) (sigs : JVal) (uns : Option JVal) : List (Bytes × JVal) :=
  b ++ [(kSignatures, sigs)] ++ (match uns with
    | some u => [(kUnsigned, u)]
    | none => [])

def membersOf : JVal → List (Bytes × JVal)
  | .obj b => b
  | _ => []

/-- Model of `SignJSON(name, kid, sk, message)` on the value the message denotes. -/
def signJSON (S : SigScheme) (name kid : Bytes) (sk : S.SK) (v : JVal) : Except Err JVal :=
  -- json.Unmarshal(message, &object) into map[string]json.RawMessage: an object, or `null` (nil map: no
  -- members); anything else is a type error.  Then the exact members `signatures` / `unsigned`.
  let dec : Option (Preserve × JVal) := match v with
    | .obj o => (readPreserve o).map (fun p => (p, JVal.obj (body o)))
    | .null => some (⟨some [], none⟩, JVal.null)
    | _ => none
  match dec with
  | none => .error errUnmarshal
  | some (p, stripped) =>
    -- sjson.DeleteBytes ×2, CanonicalJSON, ed25519.Sign
    let sig := S.sign sk (encodeCanon stripped)
    -- a nil outer map ("signatures": null) is replaced by an empty one (commit d8b0e36)
    let m := p.sigs.getD []
    -- preserve.Signatures[signingName][keyID] = signature; a fresh inner map when the name is absent or
    -- its map is nil ("signatures": {"<signer>": null})
    match mapGet m name with
    | some (some inner) =>
      .ok (.obj (assemble (membersOf stripped) (sigMapToJVal (mapSet m name (some (mapSet inner kid sig)))) p.unsigned))
    | _ =>
      .ok (.obj (assemble (membersOf stripped) (sigMapToJVal (mapSet m name (some [(kid, sig)]))) p.unsigned))

/-! ## VerifyJSON -/

/-- Outcome of looking up `signatures[name][kid]` the way VerifyJSON does. -/
inductive SigLookup where
  | jsonErr            -- `signatures` does not decode as map[string]map[KeyID]Base64
  | noSigs             -- no `signatures` member (or null)
  | noSig              -- no entry for (name, kid)
  | found (sig : Bytes)
  deriving Repr, DecidableEq

def sigLookup (o : List (Bytes × JVal)) (name kid : Bytes) : SigLookup :=
  match getLast o kSignatures with
  | none => .noSigs
  | some .null => .noSigs          -- nil *json.RawMessage
  | some sv =>
    match decodeOuterInto decodeSigVal none sv with
    | none => .jsonErr
    | some none => .noSig          -- unreachable for non-null sv; a nil map has no entries
    | some (some m) =>
      match mapGet m name with
      | some (some inner) =>
        match mapGet inner kid with
        | some sig => .found sig
        | none => .noSig
      | _ => .noSig

/-- the part of VerifyJSON after the signature has been found -/
def verifyCore (S : SigScheme) (pk : Bytes) (l : SigLookup) (msg : Bytes) : Except Err Unit :=
  match l with
  | .jsonErr => .error errUnmarshal
  | .noSigs => .error (.other "nosigs")
  | .noSig => .error (.other "nosig")
  | .found sig =>
    if !S.sigSizeOk sig then .error (.other "siglen")
    else if !S.pkSizeOk pk then .error (.other "pklen")
    else if S.verify pk msg sig then .ok () else .error (.other "badsig")

/-- Model of `VerifyJSON(name, kid, pk, message)`. -/
def verifyJSON (S : SigScheme) (name kid pk : Bytes) (v : JVal) : Except Err Unit :=
  match v with
  | .obj o => verifyCore S pk (sigLookup o name kid) (payload o)
  | .null => .error (.other "nosigs")      -- nil map: object["signatures"] == nil
  | _ => .error errUnmarshal

/-! ## ListKeyIDs -/

/-- Model of `ListKeyIDs(name, message)` (`none` = error): the exact member `signatures` decoded into
    `map[string]map[KeyID]json.RawMessage`; the order of the result is Go's map order, i.e. unspecified:
    callers and the correspondence treat it as a set. -/
def listKeyIDs (name : Bytes) (v : JVal) : Option (List Bytes) :=
  match v with
  | .obj o =>
    match getLast o kSignatures with
    | none => some []
    | some sv =>
      match decodeOuterInto (fun x => some x) none sv with
      | none => none
      | some none => some []
      | some (some m) =>
        match mapGet m name with
        | some (some inner) => some (inner.map (·.1))
        | _ => some []
  | .null => some []
  | _ => none

/-! ## The text gate (signing.go: checkStrictJSON / checkStrictValue / checkStrictString)

`SignJSON` and `VerifyJSON` begin by refusing every message its readers would not all understand the same
way: encoding/json keeps the LAST of two members with one name, gjson / sjson see the FIRST; `CompactJSON`
DROPS the escape of a lone surrogate where the decoders read U+FFFD; encoding/json rewrites invalid UTF-8
in member names to U+FFFD.  The gate walks the gjson view of the whole message (every depth, the
`signatures` and `unsigned` members included): no object may have two members whose decoded names are equal,
and in every string and member name the surrogate escapes must come in proper pairs (VerifyJSON: everywhere but
inside the value of the top-level `unsigned` member, `pruneUnsigned`).  `VerifyJSON`
(`requireUTF8 = true`) also demands that every string and member name is valid UTF-8 (`checkStrictString` =
`rawStringWellFormed`); `SignJSON` does not — `PDU.Sign` panics when signing fails, and the event constructors
accept events with invalid UTF-8 in fields that redaction keeps — so on such input it behaves as before.
What passes VerifyJSON's gate is exactly the domain C01 quantifies over. -/

mutual
/-- `checkStrictValue(value, false) == nil` apart from duplicate names: every surrogate escape is half of a pair -/
def pairedOk : PVal → Bool
  | .str raw _ => surrogatesPaired raw
  | .arr xs => pairedOkList xs
  | .obj kvs => pairedOkMembers kvs
  | _ => true
def pairedOkList : List PVal → Bool
  | [] => true
  | x :: xs => pairedOk x && pairedOkList xs
def pairedOkMembers : List (Bytes × Bytes × PVal) → Bool
  | [] => true
  | (raw, _, v) :: kvs => surrogatesPaired raw && pairedOk v && pairedOkMembers kvs
end

/-! ### The depth limit (`json.Valid`, the first statement of `checkStrictJSON`)

The gate begins with `json.Valid(message)`: encoding/json's scanner is a loop over the bytes with an explicit state
stack and refuses a text whose arrays / objects are nested deeper than 10000 (`maxNestingDepth`).  Only then do
`gjson.ValidBytes` (recursive) and the one-pass walk for duplicate names / ill-formed strings run, so nothing that
recurses ever sees a text nested deeper than that.  (Between fix 185cb68 and its repair the recursive walk came
FIRST: 8 000 000 opening brackets ended the process with a stack overflow, 100 000 took 20 s.)  `depthOk` is that
bound on its own: a linear scan counting the brackets outside strings.  On a text that is not JSON its answer does
not matter — such a text is refused by the grammar check (`parse`) with the same error. -/

/-- encoding/json: `maxNestingDepth` -/
def maxNestingDepth : Nat := 10000

/-- no array / object of the text is nested deeper than `limit`: `d` = current depth, `inStr` = inside a string,
    `esc` = right after a backslash inside a string -/
def depthWithin (limit : Nat) : Bytes → (d : Nat) → (inStr esc : Bool) → Bool
  | [], _, _, _ => true
  | c :: cs, d, true, esc =>
    if esc then depthWithin limit cs d true false
    else if c == 0x5C then depthWithin limit cs d true true
    else if c == 0x22 then depthWithin limit cs d false false
    else depthWithin limit cs d true false
  | c :: cs, d, false, _ =>
    if c == 0x22 then depthWithin limit cs d true false
    else if c == 0x7B || c == 0x5B then (if d + 1 > limit then false else depthWithin limit cs (d + 1) false false)
    else if c == 0x7D || c == 0x5D then depthWithin limit cs (d - 1) false false
    else depthWithin limit cs d false false

/-- `json.Valid` does not fail on account of the nesting depth -/
def depthOk (t : Bytes) : Bool := depthWithin maxNestingDepth t 0 false false

/-- The message as VerifyJSON's gate looks at it: the VALUE of a top-level member named exactly `unsigned` is not
    looked into (`jsonWalk.skipMember`) — it is not signed, VerifyJSON reads nothing of it, and a signed object has
    to verify whatever `unsigned` is changed to.  The member's NAME is still one of the top-level names. -/
def pruneUnsigned : PVal → PVal
  | .obj kvs => .obj (kvs.map (fun m => if m.2.1 == kUnsigned then (m.1, m.2.1, PVal.null) else m))
  | p => p

/-- `checkStrictJSON(message, true, true) == nil`: the gate of VerifyJSON -/
def strictJSON (t : Bytes) : Bool :=
  depthOk t &&                            -- json.Valid: the depth limit
  match parse t with
  | none => false                         -- json.Valid / gjson.ValidBytes: the grammar
  | some p => (pruneUnsigned p).wellFormed && (pruneUnsigned p).noDupKeys

/-- `checkStrictJSON(message, false, false) == nil`: the gate of SignJSON (no UTF-8 clause; the whole message, the
    inside of `unsigned` included: SignJSON re-emits it) -/
def signStrictJSON (t : Bytes) : Bool :=
  depthOk t &&
  match parse t with
  | none => false
  | some p => pairedOk p && p.noDupKeys

/-- the whole message is one definite value for every reader (what the gate of VerifyJSON demanded before the value of
    `unsigned` was exempted): implies both gates, `V.C02.strict_signStrict` -/
def wholeStrictJSON (t : Bytes) : Bool :=
  depthOk t &&
  match parse t with
  | none => false
  | some p => p.wellFormed && p.noDupKeys

/-- the error of the gate (any error of SignJSON / VerifyJSON before the signature is looked at) -/
def errAmbiguous : Err := .other "json"

/-- Model of `SignJSON(name, kid, sk, message)` on the message TEXT: the gate, then `signJSON` on the value
    the text denotes. -/
def signJSONText (S : SigScheme) (name kid : Bytes) (sk : S.SK) (t : Bytes) : Except Err JVal :=
  if !depthOk t then .error errAmbiguous else
  match parse t with
  | none => .error errAmbiguous
  | some p => if !(pairedOk p && p.noDupKeys) then .error errAmbiguous else signJSON S name kid sk p.toJVal

/-- Model of `VerifyJSON(name, kid, pk, message)` on the message TEXT. -/
def verifyJSONText (S : SigScheme) (name kid pk : Bytes) (t : Bytes) : Except Err Unit :=
  if !depthOk t then .error errAmbiguous else
  match parse t with
  | none => .error errAmbiguous
  | some p =>
    if !((pruneUnsigned p).wellFormed && (pruneUnsigned p).noDupKeys) then .error errAmbiguous
    else verifyJSON S name kid pk p.toJVal

/-! ## Specification (what C02 demands, written without the glue)

`Spec.signJSON`: the object with the signer's entry set under the exact key `signatures`, every other
member — `unsigned` included — untouched; signature values are compared as the bytes they encode.
`null` where a map is expected counts as an empty map.  Only the exact keys count. -/
namespace Spec

/-- Is the value a well-formed signature object: name -> (key ID -> base64 string) (or null for a map)? -/
def wellFormedInner : JVal → Bool
  | .null => true
  | .obj es => es.all (fun e => match e.2 with
      | .str s => (b64Decode s).isSome
      | _ => false)
  | _ => false

def wellFormedSigs : Option JVal → Bool
  | none => true
  | some .null => true
  | some (.obj ms) => ms.all (fun m => wellFormedInner m.2)
  | some _ => false

/-- re-encode the signatures already there (their bytes are what must be preserved) -/
def normInner : JVal → JVal
  | .obj es => .obj (es.map (fun e => (e.1, match e.2 with
      | .str s => JVal.str (b64Encode ((b64Decode s).getD []))
      | x => x)))
  | x => x

def setSig (sigs : Option JVal) (name kid sig : Bytes) : JVal :=
  let ms : List (Bytes × JVal) := match sigs with
    | some (.obj ms) => ms.map (fun m => (m.1, normInner m.2))
    | _ => []
  let inner : List (Bytes × JVal) := match mapGet ms name with
    | some (.obj es) => es
    | _ => []
  .obj (mapSet ms name (.obj (mapSet inner kid (.str (b64Encode sig)))))

/-- the signed object the property describes; `none` = outside the property's quantifier -/
def signJSON (S : SigScheme) (name kid : Bytes) (sk : S.SK) (v : JVal) : Option JVal :=
  match v with
  | .obj o =>
    if !wellFormedSigs (getLast o kSignatures) then none
    else
      let sig := S.sign sk (payload o)
      some (.obj (mapSet o kSignatures (setSig (getLast o kSignatures) name kid sig)))
  | _ => none

/-- the signature stored for (name, kid), as bytes -/
def sigOf (o : List (Bytes × JVal)) (name kid : Bytes) : Option Bytes :=
  match getLast o kSignatures with
  | some (.obj ms) =>
    match getLast ms name with
    | some (.obj es) =>
      match getLast es kid with
      | some (.str s) => b64Decode s
      | _ => none
    | _ => none
  | _ => none

/-- The property's acceptance condition: the object carries, for (name, kid), a signature that verifies
    under `pk` over the canonical form of the object minus `signatures` and `unsigned`. -/
def accepts (S : SigScheme) (name kid pk : Bytes) (v : JVal) : Bool :=
  match v with
  | .obj o =>
    match sigOf o name kid with
    | some sig => S.sigSizeOk sig && S.pkSizeOk pk && S.verify pk (payload o) sig
    | none => false
  | _ => false

/-- Do the SIGNED members of a parsed message (everything but the members named `signatures` / `unsigned`)
    denote one definite value for every reader?  Distinct member names at every depth, every string valid
    UTF-8 with properly paired surrogate escapes.  Where this fails the property's "any change to any member
    ... fails verification" cannot hold for all readers at once, so the specification demands refusal
    (signing: no signature; verification: not accepted).  Ambiguities confined to `signatures` / `unsigned`
    (a second `signatures` member, a duplicate inside `unsigned`) are outside the property's text. -/
def definitePayload : PVal → Bool
  | .obj kvs =>
    let pm := kvs.filter (fun m => m.2.1 != kSignatures && m.2.1 != kUnsigned)
    noDupIn (pm.map (·.2.1)) && wellFormedMembers pm && noDupKeysMembers pm
  | p => p.wellFormed && p.noDupKeys

/-- The same without the UTF-8 clause (duplicate names / unpaired surrogate escapes among the signed members): where
    this fails the specification demands that SignJSON refuses.  (Signing a text that is not valid UTF-8 is outside
    the property: JSON texts are Unicode.) -/
def definitePayloadSign : PVal → Bool
  | .obj kvs =>
    let pm := kvs.filter (fun m => m.2.1 != kSignatures && m.2.1 != kUnsigned)
    noDupIn (pm.map (·.2.1)) && pairedOkMembers pm && noDupKeysMembers pm
  | p => pairedOk p && p.noDupKeys

end Spec

end V.Sign
