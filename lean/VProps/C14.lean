/-
  C14 — Only events that pass signature and auth checks leave federation verification.

  The theorems relate the executable model VModel.FedCheck (what the driver runs against the Go code)
  to the specification VModel.FedCheckSpec, for EVERY signature oracle, every `AuthEvents`-like
  provider object with idempotent `AddEvent` (`AddIdem`), every auth predicate `allowedBy`, and every
  EventProvider satisfying the contract `ProvOK` ("answers with the requested event or nothing") — for
  VerifyEventAuthChain: `TableLike` (single-ID requests answered exactly from a table, batch answers possibly
  leaving events out).  Statements after the repairs of findings R1 (state-at-event check against the WHOLE
  state), R2 (every event the provider hands out is verified) and R3 (events are dropped one by one).
-/
import VModel.FedCheck
import VModel.FedCheckSpec
import VModel.FedCheckInst
import VProofs.FedCheck
import VProofs.FedCheckLog
import VProofs.FedCheckChain
namespace V.C14
open V V.FedCheck V.FedCheck.Spec

/-! ## CheckStateResponse fails exactly on non-state events and duplicate state keys -/

theorem checkStateTuples_iff (S : List Event) (seen : List (Bytes × Bytes)) :
    checkStateTuples S seen = true ↔
      (∀ e ∈ S, e.stateKey.isSome = true) ∧ nodupB (S.map tupleOf) = true ∧ ∀ e ∈ S, seen.contains (tupleOf e) = false := by
  induction S generalizing seen with
  | nil => simp [checkStateTuples, nodupB]
  | cons e es ih =>
    unfold checkStateTuples
    cases hsk : e.stateKey with
    | none => simp [hsk]
    | some sk =>
      have ht : tupleOf e = (e.type, sk) := by simp [tupleOf, hsk]
      simp only
      by_cases hc : seen.contains (e.type, sk) = true
      · simp only [hc, if_true]
        constructor
        · intro h; cases h
        · intro ⟨_, _, h3⟩
          have := h3 e List.mem_cons_self
          rw [ht, hc] at this
          cases this
      · have hc' : seen.contains (e.type, sk) = false := by simpa using hc
        simp only [hc', Bool.false_eq_true, if_false]
        rw [ih]
        simp only [List.map_cons, nodupB, List.mem_cons, forall_eq_or_imp, hsk, Option.isSome_some, true_and, ht, hc',
          Bool.and_eq_true, Bool.not_eq_true']
        constructor
        · intro ⟨h1, h2, h3⟩
          refine ⟨h1, ⟨?_, h2⟩, fun a ha => ?_⟩
          · cases hcon : (es.map tupleOf).contains (e.type, sk)
            · rfl
            · rw [List.contains_iff_mem, List.mem_map] at hcon
              obtain ⟨a, ha, hta⟩ := hcon
              have := h3 a ha
              rw [hta] at this
              simp at this
          · have := h3 a ha
            rw [List.contains_cons] at this
            simp only [Bool.or_eq_false_iff] at this
            exact this.2
        · intro ⟨h1, ⟨h2, h2'⟩, h3⟩
          refine ⟨h1, h2', fun a ha => ?_⟩
          rw [List.contains_cons]
          simp only [Bool.or_eq_false_iff]
          refine ⟨?_, h3 a ha⟩
          cases hta : (tupleOf a == (e.type, sk))
          · rfl
          · have : tupleOf a = (e.type, sk) := by simpa using hta
            have hm : (es.map tupleOf).contains (e.type, sk) = true := by
              rw [List.contains_iff_mem, List.mem_map]
              exact ⟨a, ha, this⟩
            rw [hm] at h2
            cases h2

theorem checkStateTuples_false_iff (S : List Event) :
    checkStateTuples S [] = false ↔ (S.any (fun e => e.stateKey.isNone) = true ∨ nodupB (S.map tupleOf) = false) := by
  have h := checkStateTuples_iff S []
  constructor
  · intro hf
    cases hn : nodupB (S.map tupleOf)
    · exact Or.inr rfl
    · left
      cases ha : S.any (fun e => e.stateKey.isNone)
      · exfalso
        have : checkStateTuples S [] = true := by
          rw [h]
          refine ⟨fun e he => ?_, hn, fun _ _ => by simp⟩
          rw [List.any_eq_false] at ha
          have := ha e he
          cases hs : e.stateKey <;> simp_all
        rw [hf] at this
        cases this
      · rfl
  · intro hor
    cases hc : checkStateTuples S []
    · rfl
    · exfalso
      obtain ⟨h1, h2, _⟩ := h.mp hc
      rcases hor with ha | hn
      · rw [List.any_eq_true] at ha
        obtain ⟨e, he, hne⟩ := ha
        have := h1 e he
        cases hs : e.stateKey <;> simp_all
      · rw [h2] at hn
        cases hn

/-- `state_response_fails_iff`: CheckStateResponse returns an error exactly when the response contains a
    non-state event (in either list) or two state events with the same (type, state_key) — whatever the
    signatures, the auth verdicts and the provider do. -/
theorem state_response_fails_iff {P} (O : Oracles P) (prov : Option EventProvider) (fuel : Nat) (A S : List Event) (log : Log) :
    (∃ log', checkStateResponse O prov fuel A S log = (.error, log')) ↔ responseMalformed A S = true := by
  unfold checkStateResponse responseMalformed
  by_cases hA : A.any (fun e => e.stateKey.isNone) = true
  · simp [hA]
  · have hA' : A.any (fun e => e.stateKey.isNone) = false := by simpa using hA
    simp only [hA', Bool.false_eq_true, if_false, Bool.false_or]
    cases hT : checkStateTuples S []
    · have := (checkStateTuples_false_iff S).mp hT
      simp only [Bool.not_false, if_true]
      constructor
      · intro _
        rcases this with h | h
        · simp [h]
        · simp [h]
      · intro _; exact ⟨log, rfl⟩
    · simp only [Bool.not_true, Bool.false_eq_true, if_false]
      have hT' : ¬ (S.any (fun e => e.stateKey.isNone) = true ∨ nodupB (S.map tupleOf) = false) := by
        intro h
        have := (checkStateTuples_false_iff S).mpr h
        rw [hT] at this
        cases this
      constructor
      · intro ⟨log', h⟩
        split at h
        · cases h
        · cases h
      · intro h
        exfalso
        apply hT'
        simp only [Bool.or_eq_true, Bool.not_eq_true'] at h
        exact h

/-! ## The map of verified events -/

theorem lookup_map_events (l : List Event) (id : Bytes) :
    (l.map (fun e => (e.eventID, some e))).lookup id = (l.find? (fun e => e.eventID == id)).map some := by
  induction l with
  | nil => rfl
  | cons e es ih =>
    by_cases h : id = e.eventID
    · subst h
      simp [List.lookup]
    · have h1 : (id == e.eventID) = false := by simpa using h
      have h2 : (e.eventID == id) = false := by simpa using fun h' => h h'.symm
      simp [List.lookup, h1, h2, ih]

theorem mapOfEvents_lookup (l : List Event) (id : Bytes) :
    (mapOfEvents l).lookup id = (lastWithID l id).map some := by
  unfold mapOfEvents lastWithID
  rw [← List.map_reverse, lookup_map_events]

theorem find?_ext {α} (l : List α) (p q : α → Bool) (h : ∀ x ∈ l, p x = q x) : l.find? p = l.find? q := by
  induction l with
  | nil => rfl
  | cons x xs ih =>
    simp only [List.find?_cons, h x List.mem_cons_self]
    rw [ih (fun y hy => h y (List.mem_cons_of_mem _ hy))]

/-- the lookup table of CheckStateResponse binds an ID to the last event of the response that carries it and
    whose own signature verified -/
theorem verifiedMap_lookup {P} (O : Oracles P) (all : List Event) (id : Bytes) :
    (verifiedMap O all).lookup id = (verified O all id).map some := by
  unfold verifiedMap verified
  rw [← List.map_reverse, lookup_map_events, ← List.filter_reverse, List.find?_filter]
  congr 1
  apply find?_ext
  intro e _
  cases h1 : O.sigOk e <;> cases h2 : (e.eventID == id) <;> simp [h1, h2]

theorem verified_mem {P} (O : Oracles P) (all : List Event) (id : Bytes) (e : Event) (h : verified O all id = some e) : e ∈ all := by
  unfold verified at h
  have := List.mem_of_find?_eq_some h
  simpa using this

theorem lastWithID_mem (l : List Event) (id : Bytes) (e : Event) (h : lastWithID l id = some e) : e ∈ l := by
  unfold lastWithID at h
  have := List.mem_of_find?_eq_some h
  simpa using this

theorem resM_of_lookup (prov : Option EventProvider) (m : IdMap) (base : Bytes → Option Event)
    (h : ∀ id, m.lookup id = (base id).map some) (id : Bytes) : resM prov m id = resolve base prov id := by
  unfold resM resolve
  rw [h id]
  cases base id <;> rfl

theorem badIn_of_lookup (m : IdMap) (base : Bytes → Option Event)
    (h : ∀ id, m.lookup id = (base id).map some) (hsk : ∀ id e, base id = some e → e.stateKey.isSome = true) (id : Bytes) :
    badIn m id = false := by
  unfold badIn
  rw [h id]
  cases hb : base id with
  | none => rfl
  | some e =>
    have := hsk id e hb
    simp only [Option.map_some]
    cases hs : e.stateKey <;> simp_all

/-- the verdict of checkAllowedByAuthEvents on a map that is `base` lifted, all of whose events are state events -/
theorem caVerdict_of_lookup {P} (O : Oracles P) (prov : Option EventProvider) (m : IdMap) (base : Bytes → Option Event)
    (h : ∀ id, m.lookup id = (base id).map some) (hsk : ∀ id e, base id = some e → e.stateKey.isSome = true) (e : Event) :
    caVerdict O prov e m = if O.allowedBy e (authOf O (resolve base prov) e) then .ok else .notAllowed := by
  unfold caVerdict
  have h1 : e.authEventIDs.any (badIn m) = false := by
    rw [List.any_eq_false]
    intro id _
    simp [badIn_of_lookup m base h hsk id]
  have h2 : resM prov m = resolve base prov := funext (resM_of_lookup prov m base h)
  rw [h1, h2]
  simp

/-! ## The auth pass over all events -/

theorem authLoop_contract {P} (O : Oracles P) (hidem : AddIdem O) (prov : Option EventProvider) (hprov : ProvOK prov) (n : Nat)
    (es : List Event) (m : IdMap) (log : Log) :
    ∃ m' log', authLoop O prov (n + 2) es m log =
        some (es.map (fun e => caVerdict O prov e m == .ok), m', log') ∧ Ext prov (fun _ => True) m m' := by
  induction es generalizing m log with
  | nil => exact ⟨m, log, by simp [authLoop], Ext.refl prov _ m⟩
  | cons e es ih =>
    unfold authLoop
    obtain ⟨m1, log1, hc, hext0⟩ := checkAllowed_contract O hidem prov hprov n e m log
    have hext : Ext prov (fun _ => True) m m1 := hext0.mono (fun _ _ => trivial)
    rw [hc]
    have hrest : ∀ x, caVerdict O prov x m1 = caVerdict O prov x m := fun x => caVerdict_ext O hext x
    have hmap : es.map (fun x => caVerdict O prov x m1 == .ok) = es.map (fun x => caVerdict O prov x m == .ok) := by
      congr 1; funext x; rw [hrest]
    obtain ⟨m2, log2, h2, he2⟩ := ih m1 log1
    cases hv : caVerdict O prov e m with
    | outOfFuel =>
      exfalso
      unfold caVerdict at hv
      split at hv
      · cases hv
      · split at hv <;> cases hv
    | ok => exact ⟨m2, log2, by simp [hv, h2, hmap], hext.trans he2⟩
    | notAllowed => exact ⟨m2, log2, by simp [hv, h2, hmap], hext.trans he2⟩
    | addErr => exact ⟨m2, log2, by simp [hv, h2, hmap], hext.trans he2⟩

theorem keepBy_map (l : List Event) (f : Event → Bool) : keepBy l (l.map f) = l.filter f := by
  induction l with
  | nil => rfl
  | cons e es ih =>
    simp only [List.map_cons, keepBy, List.filter_cons, ih]

theorem zipWith_map_right {α β γ} (f : α → β → γ) (g : α → β) (l : List α) :
    List.zipWith f l (l.map g) = l.map (fun a => f a (g a)) := by
  induction l with
  | nil => rfl
  | cons a as ih => simp [ih]

/-- `state_response_exact`: under the provider contract CheckStateResponse returns exactly the two input
    lists filtered by `good e := sigOk e ∧ allowedBy e (verified-or-provided auth events of e)` — EXACTLY
    the events failing one of the two checks are dropped, each on its own account (an event that shares
    its ID with a failing one stays) —, it fails exactly on a malformed response, and it always
    terminates (fuel 2). -/
theorem state_response_exact {P} (O : Oracles P) (hidem : AddIdem O) (prov : Option EventProvider) (hprov : ProvOK prov)
    (n : Nat) (A S : List Event) (log : Log) :
    (checkStateResponse O prov (n + 2) A S log).1 =
      match stateResponse O prov A S with
      | none => .error
      | some (a, s) => .ok a s := by
  unfold stateResponse
  cases hmal : responseMalformed A S
  · simp only [Bool.false_eq_true, if_false]
    unfold checkStateResponse
    have hA : A.any (fun e => e.stateKey.isNone) = false := by
      unfold responseMalformed at hmal
      simp only [Bool.or_eq_false_iff] at hmal
      exact hmal.1.1
    have hS : S.any (fun e => e.stateKey.isNone) = false := by
      unfold responseMalformed at hmal
      simp only [Bool.or_eq_false_iff] at hmal
      exact hmal.1.2
    have hT : checkStateTuples S [] = true := by
      cases hc : checkStateTuples S []
      · have := (checkStateTuples_false_iff S).mp hc
        unfold responseMalformed at hmal
        simp only [Bool.or_eq_false_iff, Bool.not_eq_false'] at hmal
        rcases this with h | h
        · rw [hS] at h; cases h
        · rw [hmal.2] at h; cases h
      · rfl
    simp only [hA, hT, Bool.false_eq_true, if_false, Bool.not_true]
    have hsk : ∀ id e, verified O (A ++ S) id = some e → e.stateKey.isSome = true := by
      intro id e he
      have hm := verified_mem O (A ++ S) id e he
      rw [List.mem_append] at hm
      rcases hm with hm | hm
      · rw [List.any_eq_false] at hA
        have := hA e hm
        cases hs : e.stateKey <;> simp_all
      · rw [List.any_eq_false] at hS
        have := hS e hm
        cases hs : e.stateKey <;> simp_all
    obtain ⟨m', log', hl, _⟩ := authLoop_contract O hidem prov hprov n (A ++ S) (verifiedMap O (A ++ S)) log
    rw [hl]
    simp only
    have hgood : ∀ e, (O.sigOk e && (caVerdict O prov e (verifiedMap O (A ++ S)) == .ok)) = good O prov (A ++ S) e := by
      intro e
      rw [caVerdict_of_lookup O prov _ _ (verifiedMap_lookup O (A ++ S)) hsk e]
      unfold good
      cases O.allowedBy e (authOf O (resolve (verified O (A ++ S)) prov) e) <;> simp
    rw [zipWith_map_right]
    have hfun : (fun a => O.sigOk a && (caVerdict O prov a (verifiedMap O (A ++ S)) == .ok)) = good O prov (A ++ S) :=
      funext hgood
    rw [hfun, List.map_append, List.take_left' (by simp), List.drop_left' (by simp), keepBy_map, keepBy_map]
  · simp only [if_true]
    obtain ⟨log', h⟩ := (state_response_fails_iff O prov (n + 2) A S log).mpr hmal
    rw [h]

/-- The property's wording: every event CheckStateResponse returns has verified signatures and is allowed by
    those of its auth events that arrived with verified signatures or were obtained from the caller's
    provider; and an input event is absent from the output only if IT fails one of the two checks
    ("exactly the events failing one of these two checks are dropped"). -/
theorem state_response_sound {P} (O : Oracles P) (hidem : AddIdem O) (prov : Option EventProvider) (hprov : ProvOK prov)
    (n : Nat) (A S A' S' : List Event) (log : Log) (h : (checkStateResponse O prov (n + 2) A S log).1 = .ok A' S') :
    (∀ e ∈ A' ++ S', (e ∈ A ++ S) ∧ O.sigOk e = true ∧ O.allowedBy e (authOf O (resolve (verified O (A ++ S)) prov) e) = true) ∧
    (∀ e ∈ A, e ∉ A' → good O prov (A ++ S) e = false) ∧
    (∀ e ∈ S, e ∉ S' → good O prov (A ++ S) e = false) := by
  rw [state_response_exact O hidem prov hprov] at h
  unfold stateResponse at h
  cases hmal : responseMalformed A S
  · simp only [hmal, Bool.false_eq_true, if_false] at h
    cases h
    refine ⟨fun e he => ?_, fun e he hne => ?_, fun e he hne => ?_⟩
    · rw [List.mem_append] at he
      have hmem : e ∈ A ++ S ∧ good O prov (A ++ S) e = true := by
        rcases he with he | he
        · rw [List.mem_filter] at he
          exact ⟨List.mem_append_left _ he.1, he.2⟩
        · rw [List.mem_filter] at he
          exact ⟨List.mem_append_right _ he.1, he.2⟩
      have hg := hmem.2
      unfold good at hg
      simp only [Bool.and_eq_true] at hg
      exact ⟨hmem.1, hg.1, hg.2⟩
    · cases hg : good O prov (A ++ S) e
      · rfl
      · exact absurd (List.mem_filter.mpr ⟨he, hg⟩) hne
    · cases hg : good O prov (A ++ S) e
      · rfl
      · exact absurd (List.mem_filter.mpr ⟨he, hg⟩) hne
  · simp only [hmal, if_true] at h
    cases h

/-- the witness of finding R3, abstractly: a good event and a same-ID copy whose signature fails.  The
    specification keeps the good one; the by-ID bookkeeping the code had before the repair dropped both. -/
example {P} (O : Oracles P) (prov : Option EventProvider) (g t : Event) (hid : t.eventID = g.eventID)
    (hg : O.sigOk g = true) (ht : O.sigOk t = false) :
    droppedByID O prov [g, t] g.eventID = true ∧ good O prov [g, t] t = false := by
  constructor
  · unfold droppedByID goodByID
    simp [hid, ht]
  · unfold good
    simp [ht]

/-! ## CheckSendJoinResponse -/

def sjAccepted : SJOut → Option (List Event × List Event)
  | .ok a s => some (a, s)
  | _ => none

theorem addAll_of_stateKeys {P} (O : Oracles P) (S : List Event) (acc : P) (h : ∀ e ∈ S, e.stateKey.isSome = true) :
    addAll O S acc = some (S.foldl O.add acc) := by
  induction S generalizing acc with
  | nil => rfl
  | cons e es ih =>
    unfold addAll
    rw [h e List.mem_cons_self]
    simp only [if_true, List.foldl_cons]
    exact ih _ (fun x hx => h x (List.mem_cons_of_mem _ hx))

theorem stateKeys_of_wellformed {A S : List Event} (h : responseMalformed A S = false) :
    ∀ e ∈ A ++ S, e.stateKey.isSome = true := by
  unfold responseMalformed at h
  simp only [Bool.or_eq_false_iff] at h
  intro e he
  rw [List.mem_append] at he
  rcases he with he | he
  · have := (List.any_eq_false.mp h.1.1) e he
    cases hs : e.stateKey <;> simp_all
  · have := (List.any_eq_false.mp h.1.2) e he
    cases hs : e.stateKey <;> simp_all

/-- `send_join_accept_iff`: under the provider contract CheckSendJoinResponse accepts — and then returns
    exactly the filtered lists of CheckStateResponse — iff the response is accepted as a /state response,
    the join event is allowed by its returned-or-provided auth events, AND it is allowed by the returned
    state; in every other case it returns an error (and it always terminates). -/
theorem send_join_accept_iff {P} (O : Oracles P) (hidem : AddIdem O) (prov : Option EventProvider) (hprov : ProvOK prov)
    (n : Nat) (A S : List Event) (j : Event) (log : Log) :
    sjAccepted (checkSendJoin O prov (n + 2) A S j log).1 = sendJoin O prov A S j := by
  unfold checkSendJoin sendJoin
  have hex := state_response_exact O hidem prov hprov n A S log
  cases hr : checkStateResponse O prov (n + 2) A S log with
  | mk out log1 =>
    rw [hr] at hex
    simp only at hex
    cases hsp : stateResponse O prov A S with
    | none =>
      rw [hsp] at hex
      simp only at hex
      subst hex
      rfl
    | some as =>
      obtain ⟨A', S'⟩ := as
      rw [hsp] at hex
      simp only at hex
      subst hex
      simp only
      -- the returned events are state events
      have hmal : responseMalformed A S = false := by
        unfold stateResponse at hsp
        cases hm : responseMalformed A S
        · rfl
        · simp [hm] at hsp
      have hsub : ∀ e ∈ A' ++ S', e.stateKey.isSome = true := by
        unfold stateResponse at hsp
        simp only [hmal, Bool.false_eq_true, if_false, Option.some.injEq, Prod.mk.injEq] at hsp
        intro e he
        apply stateKeys_of_wellformed hmal e
        rw [List.mem_append] at he ⊢
        rcases he with he | he
        · rw [← hsp.1] at he; exact Or.inl (List.mem_filter.mp he).1
        · rw [← hsp.2] at he; exact Or.inr (List.mem_filter.mp he).1
      obtain ⟨m', log2, hc, _⟩ := checkAllowed_contract O hidem prov hprov n j (mapOfEvents (A' ++ S')) log1
      rw [hc]
      have hv := caVerdict_of_lookup O prov (mapOfEvents (A' ++ S')) (lastWithID (A' ++ S')) (mapOfEvents_lookup (A' ++ S'))
        (fun id e he => hsub e (lastWithID_mem _ id e he)) j
      rw [hv]
      cases h1 : O.allowedBy j (authOf O (resolve (lastWithID (A' ++ S')) prov) j)
      · simp [sjAccepted]
      · simp only [if_true, Bool.true_and]
        rw [addAll_of_stateKeys O S' O.empty (fun e he => hsub e (List.mem_append_right _ he))]
        simp only [stateProviderOf]
        by_cases h2 : O.allowedBy j (S'.foldl O.add O.empty) = true
        · simp [sjAccepted, h2]
        · simp [sjAccepted, h2]

/-! ## Termination of the retry loop (fixed finding 778c3d3)

  Before the fix, a provider answering a request for `ae` with a NON-EMPTY list of OTHER events made the
  `goto retryEvent` loop spin forever (nothing was recorded for `ae`).  The code now records the requested
  ID as missing in that case; the loop jumps back at most once whatever the provider answers. -/

/-- `retry_terminates`: for EVERY provider (no contract needed) and every fuel ≥ 2 the retry loop of
    checkAllowedByAuthEvents finishes. -/
theorem retry_terminates {P} (O : Oracles P) (prov : Option EventProvider) (ae : Bytes) (n : Nat) (m : IdMap) (acc : P) (log : Log) :
    ∀ m' log', retryAE O prov ae (n + 2) m acc log ≠ .outOfFuel m' log' :=
  retryAE_terminates O prov ae n m acc log

theorem loopAE_terminates {P} (O : Oracles P) (prov : Option EventProvider) (n : Nat) (ids : List Bytes) (m : IdMap) (acc : P) (log : Log) :
    ∀ m' log', loopAE O prov (n + 2) ids m acc log ≠ .outOfFuel m' log' := by
  induction ids generalizing m acc log with
  | nil => intro m' log' h; cases h
  | cons ae rest ih =>
    intro m' log'
    unfold loopAE
    cases hr : retryAE O prov ae (n + 2) m acc log with
    | next m1 acc1 log1 => exact ih m1 acc1 log1 m' log'
    | fail m1 log1 => intro h; cases h
    | outOfFuel m1 log1 => exact absurd hr (retry_terminates O prov ae n m acc log m1 log1)

/-- checkAllowedByAuthEvents terminates for every provider -/
theorem checkAllowed_terminates {P} (O : Oracles P) (prov : Option EventProvider) (n : Nat) (e : Event) (m : IdMap) (log : Log) :
    (checkAllowed O prov (n + 2) e m log).1 ≠ .outOfFuel := by
  unfold checkAllowed
  cases hl : loopAE O prov (n + 2) e.authEventIDs m O.empty log with
  | next m' acc log' => simp only; split <;> (intro h; cases h)
  | fail m' log' => intro h; cases h
  | outOfFuel m' log' => exact absurd hl (loopAE_terminates O prov n e.authEventIDs m O.empty log m' log')

/-- the old behaviour, for the record: without the fix (`ensureKey` = identity) the map still lacks `ae`
    after the provider's other events were added -/
example : ([] : IdMap).lookup b!"$x" = none ∧ (ensureKey b!"$x" []).lookup b!"$x" = some none := by
  constructor <;> rfl

/-! ## The oracles the driver runs satisfy `AddIdem` (non-vacuity of the hypotheses) -/

theorem padd_idem (p : Auth.Provider) (a : Event) : padd (padd p a) a = padd p a := by
  unfold padd
  have hf : (!(a.type == a.type && a.stateKey == a.stateKey)) = false := by simp
  have hev : List.filter (fun x => !(x.type == a.type && x.stateKey == a.stateKey))
      (List.filter (fun x => !(x.type == a.type && x.stateKey == a.stateKey)) p.events ++ [a]) ++ [a]
      = List.filter (fun x => !(x.type == a.type && x.stateKey == a.stateKey)) p.events ++ [a] := by
    rw [List.filter_append, List.filter_filter]
    simp only [Bool.and_self, List.filter_cons, hf, Bool.false_eq_true, if_false, List.filter_nil, List.append_nil]
  have hr : (if (if p.roomIDs.contains a.roomID then p.roomIDs else p.roomIDs ++ [a.roomID]).contains a.roomID
      then (if p.roomIDs.contains a.roomID then p.roomIDs else p.roomIDs ++ [a.roomID])
      else (if p.roomIDs.contains a.roomID then p.roomIDs else p.roomIDs ++ [a.roomID]) ++ [a.roomID])
      = (if p.roomIDs.contains a.roomID then p.roomIDs else p.roomIDs ++ [a.roomID]) := by
    cases hc : p.roomIDs.contains a.roomID
    · simp
    · simp only [if_true, hc]
  simp only [hev, hr]

theorem authOracles_addIdem (bad : List Bytes) : AddIdem (authOracles bad) := fun p a => padd_idem p a

/-- a contract-abiding provider: a table of events keyed by their own IDs -/
theorem tableProvider_provOK (table : Bytes → Option Event) (errs : Bytes → Bool)
    (htable : ∀ id e, table id = some e → e.eventID = id) : ProvOK (some (tableProvider table errs)) := by
  intro p hp id
  cases hp
  unfold tableProvider
  cases he : errs id
  · cases ht : table id with
    | none => right; left; simp [he, ht]
    | some e => right; right; exact ⟨e, by simp [he, ht], htable id e ht⟩
  · left; simp [he]

theorem provOK_none : ProvOK none := fun p hp => by cases hp

/-! ## VerifyAuthRulesAtState -/

def asCoarse : ASOut → Option Bool
  | .ok => some true
  | .notAllowed => some false
  | _ => none

theorem lookup_map_kvs (kvs : List (Bytes × Event)) (id : Bytes) :
    (kvs.map (fun kv => (kv.1, some kv.2))).lookup id = (stateLookup kvs id).map some := by
  unfold stateLookup
  induction kvs with
  | nil => rfl
  | cons kv rest ih =>
    by_cases h : id = kv.1
    · subst h
      simp [List.lookup]
    · have h1 : (id == kv.1) = false := by simpa using h
      have h2 : (kv.1 == id) = false := by simpa using fun h' => h h'.symm
      simp [List.lookup, h1, h2, ih]

theorem addAll_none_of_nonstate {P} (O : Oracles P) (S : List Event) (acc : P) (h : S.any (fun e => e.stateKey.isNone) = true) :
    addAll O S acc = none := by
  induction S generalizing acc with
  | nil => simp at h
  | cons e es ih =>
    unfold addAll
    cases hs : e.stateKey with
    | none => simp
    | some sk =>
      simp only [Option.isSome_some, if_true]
      apply ih
      simpa [hs] using h

/-- with state events only, the slot check of the code is the specification's "two different events for one
    (type, state_key)" -/
theorem slotClash_of_allState (S : List Event) (hs : ∀ x ∈ S, x.stateKey.isSome = true) :
    slotClash S = S.any (fun a => S.any (fun b => (b.type == a.type && b.stateKey == a.stateKey) && !sameEvent a b)) := by
  unfold slotClash
  rw [Bool.eq_iff_iff]
  simp only [List.any_eq_true, Bool.and_eq_true]
  constructor
  · rintro ⟨a, ha, _, b, hb, _, h⟩
    exact ⟨a, ha, b, hb, h⟩
  · rintro ⟨a, ha, b, hb, h⟩
    exact ⟨a, ha, hs a ha, b, hb, hs b hb, h⟩

/-- `at_state_iff`: VerifyAuthRulesAtState accepts exactly when (validation is permitted and every auth
    event ID of the event is among the state IDs before it) or the event is allowed by THE STATE before it —
    every event of the returned state takes part, whether or not the event cites it —; a failing provider
    call is reported as such; the check always terminates. -/
theorem at_state_iff {P} (O : Oracles P) (sp : StateProvider) (e : Event) (allow : Bool) (log : Log) :
    (verifyAuthRulesAtState O sp e allow log).1 ≠ .outOfFuel ∧
    asCoarse (verifyAuthRulesAtState O sp e allow log).1 = atState O sp e allow ∧
    ((verifyAuthRulesAtState O sp e allow log).1 = .idsErr ↔ sp.ids e = none) := by
  unfold verifyAuthRulesAtState atState
  cases hids : sp.ids e with
  | none => simp [asCoarse]
  | some ids =>
    simp only
    by_cases hshort : (allow && e.authEventIDs.all (fun a => ids.contains a)) = true
    · simp only [hshort, if_true]
      simp [asCoarse]
    · simp only [hshort, Bool.false_eq_true, if_false]
      unfold atStateSlow
      cases hst : sp.state e ids with
      | none => simp [asCoarse]
      | some kvs =>
        simp only
        cases hns : kvs.any (fun kv => kv.2.stateKey.isNone)
        · have hall : ∀ x ∈ kvs.map (·.2), x.stateKey.isSome = true := by
            intro x hx
            obtain ⟨kv, hkv, rfl⟩ := List.mem_map.mp hx
            have := (List.any_eq_false.mp hns) kv hkv
            cases hs : kv.2.stateKey <;> simp_all
          have hallB : (kvs.map (·.2)).all (fun a => a.stateKey.isSome) = true := List.all_eq_true.mpr hall
          rw [slotClash_of_allState _ hall]
          unfold formsState
          rw [hallB]
          cases hcl : (kvs.map (·.2)).any (fun a => (kvs.map (·.2)).any (fun b =>
              (b.type == a.type && b.stateKey == a.stateKey) && !sameEvent a b))
          · simp only [Bool.false_eq_true, if_false, Bool.not_false, Bool.and_self, Bool.not_true]
            rw [addAll_of_stateKeys O _ O.empty hall]
            simp only [stateProviderOf]
            cases hal : O.allowedBy e ((kvs.map (·.2)).foldl O.add O.empty) <;> simp [asCoarse]
          · simp [asCoarse]
        · have hnot : (kvs.map (·.2)).all (fun a => a.stateKey.isSome) = false := by
            rw [List.all_eq_false]
            obtain ⟨kv, hkv, hk⟩ := List.any_eq_true.mp hns
            refine ⟨kv.2, List.mem_map.mpr ⟨kv, hkv, rfl⟩, ?_⟩
            cases hs : kv.2.stateKey <;> simp_all
          have : (kvs.map (·.2)).any (fun x => x.stateKey.isNone) = true := by
            rw [List.any_map]; exact hns
          unfold formsState
          rw [hnot, addAll_none_of_nonstate O _ O.empty this]
          cases slotClash (kvs.map (·.2)) <;> simp [asCoarse]

/-- What the check computed before the repair of finding R1 differs from the specification exactly through
    the state events the event does not cite.  Abstract witness: the state holds a power-levels event `pl`
    that refuses `e`; `e` cites nothing.  The old definition (`atStateCited`) accepts, the specification and
    the model refuse. -/
example (pl e : Event) (hpl : pl.stateKey = some []) (he : e.authEventIDs = []) :
    let O : Oracles (List Event) := { sigOk := fun _ => true, empty := [], add := fun p a => a :: p, allowedBy := fun _ p => p.isEmpty }
    let sp : StateProvider := { ids := fun _ => some [], state := fun _ _ => some [(pl.eventID, pl)] }
    atStateCited O sp e false = some true ∧ atState O sp e false = some false ∧
      (verifyAuthRulesAtState O sp e false []).1 = .notAllowed := by
  simp [atStateCited, atState, verifyAuthRulesAtState, atStateSlow, addAll, stateLookup, citesNonState, authOf, stateProviderOf, he, hpl]

/-- The formerly order-dependent input (second audit, X2): the returned "state" holds two DIFFERENT events for one
    (type, state_key) — say the power levels before and after `events_default` was raised.  The survivor of the Go map
    iteration used to decide (22 accepts / 178 rejects over 200 identical calls); now the call is refused, by the
    specification and by the model alike, whatever the oracles and whatever the event. -/
example {P} (O : Oracles P) (pl1 pl2 e : Event) (h1 : pl1.stateKey = some []) (h2 : pl2.stateKey = some [])
    (ht : pl2.type = pl1.type) (hd : sameEvent pl1 pl2 = false) :
    let sp : StateProvider := { ids := fun _ => some [], state := fun _ _ => some [(pl1.eventID, pl1), (pl2.eventID, pl2)] }
    atState O sp e false = some false ∧ (verifyAuthRulesAtState O sp e false []).1 = .notAllowed := by
  simp [atState, verifyAuthRulesAtState, atStateSlow, formsState, slotClash, h1, h2, ht, hd]

/-- where the event cites exactly the state, the two readings agree -/
theorem atStateCited_eq {P} (O : Oracles P) (sp : StateProvider) (e : Event) (allow : Bool)
    (hcite : ∀ ids kvs, sp.ids e = some ids → sp.state e ids = some kvs →
      formsState (kvs.map (·.2)) = true ∧ authOf O (stateLookup kvs) e = stateProviderOf O (kvs.map (·.2)) ∧
      citesNonState kvs e = false) :
    atStateCited O sp e allow = atState O sp e allow := by
  unfold atStateCited atState
  cases hids : sp.ids e with
  | none => rfl
  | some ids =>
    simp only
    split
    · rfl
    · cases hst : sp.state e ids with
      | none => rfl
      | some kvs =>
        obtain ⟨h1, h2, h3⟩ := hcite ids kvs hids hst
        simp only [h1, h3, Bool.not_true, Bool.false_eq_true, if_false]
        rw [h2]

/-! ## EventsLoader.LoadAndVerify -/

/-- the class the pipeline assigns to a parsed event: the FIRST check it fails (signature, auth chain,
    auth rules at the state before it); `none` = a retry loop diverges -/
def classOf {P} (O : Oracles P) (prov : EventProvider) (sp : StateProvider) (caFuel fuel : Nat) (e : Event) : Option LoadClass :=
  if !O.sigOk e then some .signatureErr
  else match (verifyEventAuthChain O prov caFuel fuel e []).1 with
    | .outOfFuel => none
    | .ok => (match atState O sp e true with
        | some true => some .ok
        | _ => some .authRulesErr)
    | _ => some .authChainErr

theorem classifyOne_classOf {P} (O : Oracles P) (prov : EventProvider) (sp : StateProvider) (caFuel fuel : Nat)
    (e : Event) (log log' : Log) (c : LoadClass) (h : classifyOne O prov sp caFuel fuel e log = some (c, log')) :
    classOf O prov sp caFuel fuel e = some c := by
  unfold classifyOne at h
  unfold classOf
  by_cases hs : (!O.sigOk e) = true
  · simp only [hs, if_true] at h ⊢
    cases h; rfl
  · simp only [hs, Bool.false_eq_true, if_false] at h ⊢
    rw [← verifyEventAuthChain_log O prov caFuel fuel e log]
    cases hc : verifyEventAuthChain O prov caFuel fuel e log with
    | mk v lg1 =>
      rw [hc] at h
      cases v with
      | outOfFuel => simp at h
      | provErr => simp at h; simp [h.1]
      | authFail => simp at h; simp [h.1]
      | ok =>
        simp only at h ⊢
        obtain ⟨hne, hco, _⟩ := at_state_iff O sp e true lg1
        cases ha : verifyAuthRulesAtState O sp e true lg1 with
        | mk a lg2 =>
          rw [ha] at h hne hco
          simp only at hne hco h
          rw [← hco]
          cases a with
          | ok => simp only [Option.some.injEq, Prod.mk.injEq] at h; simp [asCoarse, h.1]
          | outOfFuel => exact absurd rfl hne
          | idsErr => simp only [Option.some.injEq, Prod.mk.injEq] at h; simp [asCoarse, h.1]
          | stateErr => simp only [Option.some.injEq, Prod.mk.injEq] at h; simp [asCoarse, h.1]
          | notAllowed => simp only [Option.some.injEq, Prod.mk.injEq] at h; simp [asCoarse, h.1]

theorem loadLoop_classified {P} (O : Oracles P) (prov : EventProvider) (sp : StateProvider) (caFuel fuel : Nat)
    (evs : List Event) (log : Log) (rs : List LoadResult) (log' : Log)
    (h : loadLoop O prov sp caFuel fuel evs log = some (rs, log')) :
    rs.map (·.event) = evs.map some ∧ rs.map (fun r => some r.cls) = evs.map (classOf O prov sp caFuel fuel) := by
  induction evs generalizing log rs log' with
  | nil =>
    simp only [loadLoop, Option.some.injEq, Prod.mk.injEq] at h
    rw [← h.1]
    exact ⟨rfl, rfl⟩
  | cons e es ih =>
    unfold loadLoop at h
    cases hc : classifyOne O prov sp caFuel fuel e log with
    | none => simp [hc] at h
    | some cl =>
      obtain ⟨c, log1⟩ := cl
      simp only [hc] at h
      cases hl : loadLoop O prov sp caFuel fuel es log1 with
      | none => simp [hl] at h
      | some r2 =>
        obtain ⟨rs2, log2⟩ := r2
        simp only [hl, Option.some.injEq, Prod.mk.injEq] at h
        rw [← h.1]
        obtain ⟨h1, h2⟩ := ih log1 rs2 log2 hl
        simp [List.map_cons, h1, h2, classifyOne_classOf O prov sp caFuel fuel e log log1 c hc]

theorem parsed_count (raw : List Parsed) (seen : List Bytes) :
    (parsedCleanFrom raw seen).length + parseErrCountFrom raw seen = raw.length := by
  induction raw generalizing seen with
  | nil => rfl
  | cons r rest ih =>
    cases r with
    | ok e =>
      unfold parsedCleanFrom parseErrCountFrom
      by_cases hc : seen.contains e.eventID = true
      · simp only [hc, if_true, List.length_cons]
        have := ih seen
        omega
      · simp only [hc, Bool.false_eq_true, if_false, List.length_cons]
        have := ih (e.eventID :: seen)
        omega
    | persistable e =>
      unfold parsedCleanFrom parseErrCountFrom
      simp only [List.length_cons]
      have := ih seen
      omega
    | bad =>
      unfold parsedCleanFrom parseErrCountFrom
      simp only [List.length_cons]
      have := ih seen
      omega

/-- `load_classification`: when the ordering returns as many events as it was given (it is a permutation of
    events with pairwise distinct IDs), LoadAndVerify returns exactly one result per input: first, in the
    order of the ordering, one result per event that parsed (and whose ID is not a repeat), carrying the
    event and the class of the FIRST check it fails; then one parse-error result per rejected input. -/
theorem load_classification {P} (O : Oracles P) (prov : EventProvider) (sp : StateProvider) (caFuel fuel : Nat)
    (order : List Event → List Event) (raw : List Parsed) (log log' : Log) (rs : List LoadResult)
    (hord : (order (parsedClean raw)).length = (parsedClean raw).length)
    (h : loadAndVerify O prov sp caFuel fuel order raw log = some (rs, log')) :
    rs.length = raw.length ∧
    ∃ pre, rs = pre ++ List.replicate (parseErrCount raw) parseErrResult ∧
      pre.map (·.event) = (order (parsedClean raw)).map some ∧
      pre.map (fun r => some r.cls) = (order (parsedClean raw)).map (classOf O prov sp caFuel fuel) := by
  unfold loadAndVerify at h
  cases hl : loadLoop O prov sp caFuel fuel (order (parsedClean raw)) log with
  | none => simp [hl] at h
  | some r =>
    obtain ⟨pre, lg⟩ := r
    simp only [hl, Option.some.injEq, Prod.mk.injEq] at h
    have hf := loadLoop_classified O prov sp caFuel fuel _ log pre lg hl
    have hlen : pre.length = (parsedClean raw).length := by
      rw [← hord]
      have := congrArg List.length hf.1
      simpa using this
    have hcount := parsed_count raw []
    have hgap : raw.length - parseErrCount raw - pre.length = 0 := by
      unfold parsedClean at hlen
      unfold parseErrCount
      omega
    have hrs : rs = pre ++ List.replicate (parseErrCount raw) parseErrResult := by
      rw [← h.1]
      unfold layout
      rw [hgap]
      simp
    refine ⟨?_, pre, hrs, hf.1, hf.2⟩
    rw [hrs, List.length_append, List.length_replicate, hlen]
    unfold parsedClean parseErrCount
    omega

/-- without that hypothesis a slot stays empty (the zero value: no event, no error): what happened before
    LoadAndVerify rejected repeated event IDs itself — kept as the witness of the fixed finding -/
example : layout 2 0 [⟨.ok, some default⟩] = [⟨.ok, some default⟩, emptyResult] := by rfl

/-! ## VerifyEventAuthChain -/

/-- `auth_chain_iff`: against a provider that answers from a table of events keyed by their own IDs (`errs id`:
    asking for `id` makes the call fail; `TableLike`: single-ID requests are answered exactly, batch answers
    may LEAVE EVENTS OUT — a limit per call, say), VerifyEventAuthChain — whenever its loop finishes within
    the fuel — accepts EXACTLY when the event and, recursively, every auth event the provider supplies for it
    (`Reach`) passes: no needed ID makes the provider fail, every resolved auth event is a state event,
    and the event is allowed by its resolved auth events (`chainGood`) — whichever request (the batch request
    or the single-ID retry of checkAllowedByAuthEvents) obtained the auth event.  No acyclicity is needed: the
    `verifiedEvents` set and the lookup table make the loop skip events it has seen (a cycle of mutually
    citing events is verified once each).  IDs the provider has nothing for are simply left out of the auth
    events handed to `Allowed` — "failing to provide all the requested events will fail this function"
    (authchain.go) holds only in so far as `Allowed` then refuses. -/
theorem auth_chain_iff {P} (O : Oracles P) (hidem : AddIdem O) (root : Event) (table : Bytes → Option Event) (errs : Bytes → Bool)
    (prov : EventProvider) (htl : TableLike table errs prov)
    (htable : ∀ id e, table id = some e → e.eventID = id) (n fuel : Nat) (log : Log)
    (hfuel : (verifyEventAuthChain O prov (n + 2) fuel root log).1 ≠ .outOfFuel) :
    (verifyEventAuthChain O prov (n + 2) fuel root log).1 = .ok ↔
      ∀ e, Reach root table e → chainGood O root table errs e = true := by
  have hp := chainLoop_post O root table errs hidem htl htable n fuel
    { stack := [root], m := [(root.eventID, some root)], verified := [] } log (chainInv_init O root table errs)
  unfold verifyEventAuthChain at hfuel ⊢
  cases hv : (chainLoop O prov (n + 2) fuel { stack := [root], m := [(root.eventID, some root)], verified := [] } log).1 with
  | ok =>
    rw [hv] at hp
    exact ⟨fun _ => hp, fun _ => rfl⟩
  | outOfFuel => exact absurd hv hfuel
  | provErr =>
    rw [hv] at hp
    obtain ⟨e, hr, hg⟩ := hp
    exact ⟨fun h => (by cases h), fun h => (by rw [h e hr] at hg; cases hg)⟩
  | authFail =>
    rw [hv] at hp
    obtain ⟨e, hr, hg⟩ := hp
    exact ⟨fun h => (by cases h), fun h => (by rw [h e hr] at hg; cases hg)⟩

/-- the provider that returns everything it has for a request -/
theorem auth_chain_iff_table {P} (O : Oracles P) (hidem : AddIdem O) (root : Event) (table : Bytes → Option Event) (errs : Bytes → Bool)
    (htable : ∀ id e, table id = some e → e.eventID = id) (n fuel : Nat) (log : Log)
    (hfuel : (verifyEventAuthChain O (tableProvider table errs) (n + 2) fuel root log).1 ≠ .outOfFuel) :
    (verifyEventAuthChain O (tableProvider table errs) (n + 2) fuel root log).1 = .ok ↔
      ∀ e, Reach root table e → chainGood O root table errs e = true :=
  auth_chain_iff O hidem root table errs _ (tableProvider_tableLike table errs) htable n fuel log hfuel

/-- a provider that hands out at most k + 1 events per call (finding R2: what the batch request leaves out
    reaches the lookup table through the single-ID retry, and is verified all the same): the verdict is the
    one of the complete table -/
theorem auth_chain_iff_capped {P} (O : Oracles P) (hidem : AddIdem O) (root : Event) (table : Bytes → Option Event) (errs : Bytes → Bool)
    (htable : ∀ id e, table id = some e → e.eventID = id) (hstate : ∀ id e, table id = some e → e.stateKey.isSome = true)
    (k n fuel : Nat) (log : Log)
    (hfuel : (verifyEventAuthChain O (capProvider table errs (k + 1)) (n + 2) fuel root log).1 ≠ .outOfFuel) :
    (verifyEventAuthChain O (capProvider table errs (k + 1)) (n + 2) fuel root log).1 = .ok ↔
      ∀ e, Reach root table e → chainGood O root table errs e = true :=
  auth_chain_iff O hidem root table errs _ (capProvider_tableLike table errs k hstate) htable n fuel log hfuel

/-! ## RequestBackfill

  RequestBackfill keeps, per server, the events whose load result is `nil` OR `SignatureErr` ("the signature
  of the event might not be valid anymore", backfill.go) and drops the auth failures and parse errors.  So an
  event that FAILED its signature check — and was therefore never auth-checked — is handed on: this is what
  the code says it intends, it is outside the statement of C14 (which speaks of CheckStateResponse,
  CheckSendJoinResponse, VerifyEventAuthChain, VerifyAuthRulesAtState and LoadAndVerify) but at odds with
  its title; reported, not hidden. -/

/-- every event RequestBackfill collects from a batch of load results was classified `ok` or
    `signatureErr` (or sits in a slot LoadAndVerify never wrote: impossible now, see `load_classification`) -/
theorem collect_mem (rs : List LoadResult) (have_ : List Bytes) (res : List Event) (have' : List Bytes) (res' : List Event)
    (h : collect rs have_ res = .ok (have', res')) (e : Event) (he : e ∈ res') :
    e ∈ res ∨ ∃ r ∈ rs, r.event = some e ∧ (r.cls = .ok ∨ r.cls = .signatureErr ∨ r.cls = .empty) := by
  induction rs generalizing have_ res with
  | nil =>
    simp only [collect, Except.ok.injEq, Prod.mk.injEq] at h
    rw [← h.2] at he
    exact Or.inl he
  | cons r rs ih =>
    unfold collect at h
    have step : ∀ (hv : List Bytes) (rr : List Event), collect rs hv rr = .ok (have', res') →
        (∀ x ∈ rr, x ∈ res ∨ (r.event = some x ∧ (r.cls = .ok ∨ r.cls = .signatureErr ∨ r.cls = .empty))) →
        e ∈ res ∨ ∃ r' ∈ r :: rs, r'.event = some e ∧ (r'.cls = .ok ∨ r'.cls = .signatureErr ∨ r'.cls = .empty) := by
      intro hv rr hc hrr
      rcases ih hv rr hc with h1 | ⟨r', hr', h2⟩
      · rcases hrr e h1 with h3 | h3
        · exact Or.inl h3
        · exact Or.inr ⟨r, List.mem_cons_self, h3⟩
      · exact Or.inr ⟨r', List.mem_cons_of_mem _ hr', h2⟩
    have keep : ∀ x ∈ res, x ∈ res ∨ (r.event = some x ∧ (r.cls = .ok ∨ r.cls = .signatureErr ∨ r.cls = .empty)) :=
      fun x hx => Or.inl hx
    cases hcls : r.cls <;> simp only [hcls] at h
    case parseErr => exact step _ _ h keep
    case authChainErr => exact step _ _ h keep
    case authRulesErr => exact step _ _ h keep
    all_goals
      cases hev : r.event with
      | none => simp [hev] at h
      | some x =>
        simp only [hev] at h
        split at h
        · exact step _ _ h keep
        · refine step _ _ h (fun y hy => ?_)
          rcases List.mem_append.mp hy with h1 | h1
          · exact Or.inl h1
          · have : y = x := by simpa using h1
            subst this
            exact Or.inr ⟨hev, by rw [hcls]; simp⟩

/-- the dereference of a nil event cannot happen on load results that carry an event whenever they are not
    errors of the dropped kinds (what `load_classification` guarantees) -/
theorem collect_no_panic (rs : List LoadResult) (have_ : List Bytes) (res : List Event)
    (h : ∀ r ∈ rs, (r.cls = .ok ∨ r.cls = .signatureErr ∨ r.cls = .empty) → r.event.isSome = true) :
    ∃ x, collect rs have_ res = .ok x := by
  induction rs generalizing have_ res with
  | nil => exact ⟨_, rfl⟩
  | cons r rs ih =>
    unfold collect
    have ih' := fun hv rr => ih hv rr (fun r' hr' => h r' (List.mem_cons_of_mem _ hr'))
    have hr := h r List.mem_cons_self
    cases hcls : r.cls <;> simp only [hcls]
    case parseErr => exact ih' _ _
    case authChainErr => exact ih' _ _
    case authRulesErr => exact ih' _ _
    all_goals
      have := hr (by simp [hcls])
      cases hev : r.event with
      | none => simp [hev] at this
      | some x =>
        simp only
        split
        · exact ih' _ _
        · exact ih' _ _

/-- a signature-failed event is passed on by RequestBackfill -/
example (e : Event) : collect [⟨.signatureErr, some e⟩] [] [] = .ok ([e.eventID], [e]) := by
  simp [collect]

/-- `backfill_sound`: every event the RequestBackfill loop hands on was collected from the LoadAndVerify results
    of some answering server, where it was classified `ok` or `signatureErr` (`empty`: a slot never written —
    excluded by `load_classification`).  With `load_classification` (the class is the FIRST failing check): a
    returned event either failed its signature check or passed the auth-chain and the state-at-event check —
    the clause the `fedcheck.backfill_props` op evaluates on the implementation's answer. -/
theorem backfill_sound {P} (O : Oracles P) (prov : EventProvider) (sp : StateProvider) (caFuel fuel : Nat)
    (order : List Event → List Event) (limit : Nat) (servers : List ServerAns) (i : Nat) (have_ : List Bytes)
    (res0 : List Event) (lastErr : Bool) (log : Log) (res : List Event) (le : Bool) (log' : Log)
    (h : backfillLoop O prov sp caFuel fuel order limit servers i have_ res0 lastErr log = (.done res le, log'))
    (e : Event) (he : e ∈ res) :
    e ∈ res0 ∨ ∃ raw, some raw ∈ servers ∧ ∃ lg rs lg', loadAndVerify O prov sp caFuel fuel order raw lg = some (rs, lg') ∧
      ∃ r ∈ rs, r.event = some e ∧ (r.cls = .ok ∨ r.cls = .signatureErr ∨ r.cls = .empty) := by
  induction servers generalizing i have_ res0 lastErr log with
  | nil =>
    simp only [backfillLoop, Prod.mk.injEq, BFOut.done.injEq] at h
    rw [← h.1.1] at he
    exact Or.inl he
  | cons s rest ih =>
    unfold backfillLoop at h
    split at h
    · simp only [Prod.mk.injEq, BFOut.done.injEq] at h
      rw [← h.1.1] at he
      exact Or.inl he
    · cases s with
      | none =>
        simp only at h
        rcases ih _ _ _ _ _ h with h1 | ⟨raw, hm, hx⟩
        · exact Or.inl h1
        · exact Or.inr ⟨raw, List.mem_cons_of_mem _ hm, hx⟩
      | some raw =>
        simp only at h
        cases hl : loadAndVerify O prov sp caFuel fuel order raw (log ++ [.backfill i]) with
        | none => rw [hl] at h; simp at h
        | some x =>
          obtain ⟨rs, log2⟩ := x
          rw [hl] at h
          simp only at h
          cases hc : collect rs have_ res0 with
          | error site => rw [hc] at h; simp at h
          | ok y =>
            obtain ⟨have', res'⟩ := y
            rw [hc] at h
            simp only at h
            rcases ih _ _ _ _ _ h with h1 | ⟨raw', hm, hx⟩
            · rcases collect_mem rs have_ res0 have' res' hc e h1 with h2 | ⟨r, hr, h3⟩
              · exact Or.inl h2
              · exact Or.inr ⟨raw, List.mem_cons_self, _, rs, log2, hl, r, hr, h3⟩
            · exact Or.inr ⟨raw', List.mem_cons_of_mem _ hm, hx⟩

/-- the hypothesis of `backfill_sound` is satisfiable (whatever the oracles): a server that fails and one whose
    only PDU does not parse -/
example {P} (O : Oracles P) (prov : EventProvider) (sp : StateProvider) :
    backfillLoop O prov sp 2 10 id 5 [none, some [.bad]] 0 [] [] false [] = (.done [] true, [.backfill 0, .backfill 1]) := by
  simp [backfillLoop, loadAndVerify, parsedClean, parsedCleanFrom, parseErrCount, parseErrCountFrom, loadLoop, layout, collect, parseErrResult]

/-- the oracles the driver runs with a per-event signature verdict satisfy the hypothesis of the exactness theorems -/
theorem authOraclesBy_addIdem (bad : Event → Bool) : AddIdem (authOraclesBy bad) := fun p a => padd_idem p a

end V.C14
