/-
  C04 — Untrusted events whose content hash fails surface only their redacted form.

  Model: `V.EventParse.parseUntrusted H ver text` (newEventFromUntrustedJSONV1/V2/V3), with SHA-256 a
  parameter `H`.  The redaction itself is C05's (`V.Redact.redactJSON`; `V.C05.redact_exact` says which
  keys it leaves).

  * `accessors_only_see_json`   every event a constructor returns reports, through its accessors,
                                what is decoded from the JSON it holds; `JSON()` of an untrusted event is
                                the canonical encoding of that value; the v3+ event ID is the reference hash
                                of that value
  * `hash_match_intact`         hash matches ⇒ not redacted, JSON = canonical form of the stripped input
  * `hash_mismatch_redacted`    hash does not match ⇒ flagged redacted, JSON = canonical form of the
                                redaction of the stripped input (so only kept keys, `redact_exact`)
  * `tamper_redactable_same_identity`  two received events whose redacted forms agree get the same event ID
                                and the same signature verdicts — no side condition (redaction matches keys
                                exactly, so a case variant such as `Event_id` is dropped, not re-emitted)
  * `identity_of_accepted`      the redaction and the ID of an accepted event are those of the stripped input
  * `same_redaction_same_identity_intact`  the instance "both passed the hash check"
-/
import VProofs.EventParse
import VProofs.EventTamper
import VProps.C05
namespace V.C04
open V V.Json V.GoJson V.Redact V.EventParse V.RedactProofs V.EventProofs

/-- the stages of `parseUntrusted` that every accepted input has passed -/
structure Received (H : Bytes → Bytes) (ver text : Bytes) (row : VGen.VersionRow) (fmt : Fmt) (p : PVal) (e0 : PDU) : Prop where
  hrow : rowOf ver = some row
  hfmt : fmtOfName row.newEventFromUntrustedJSONFunc = some fmt
  hparse : parse text = some p
  noHeader : hasUnderscoreKey p.toJVal = false
  noDup : p.toJVal.noDupKeys = true
  noVariant : hasFieldVariant p.toJVal = false
  hcons : construct fmt ver false (encodeCanon (stripped fmt p.toJVal)) (stripped fmt p.toJVal) = .ok e0

theorem parseUntrusted_ok {H : Bytes → Bytes} {ver text : Bytes} {e : PDU} (h : parseUntrusted H ver text = .ok e) :
    ∃ row fmt p e0, Received H ver text row fmt p e0 ∧
      finishUntrusted H row fmt ver (encodeCanon (stripped fmt p.toJVal)) (resetID fmt e0) = .ok e := by
  unfold parseUntrusted at h
  split at h
  · cases h
  · rename_i row hrow
    split at h
    · rename_i fmt enf hfmt henf
      split at h
      · cases h
      · rename_i p hp
        split at h
        · cases h
        · rename_i h1
          split at h
          · cases h
          · split at h
            · cases h
            · rename_i h3
              split at h
              · cases h
              · rename_i h4
                split at h
                · cases h
                · rename_i e0 hc
                  exact ⟨row, fmt, p, e0, ⟨hrow, hfmt, hp, by simpa using h1, by simpa using h3, by simpa using h4, hc⟩, h⟩
    · cases h

/-- the decoded event `finishUntrusted` starts from -/
theorem resetID_facts {fmt : Fmt} {ver : Bytes} {text : Bytes} {j : JVal} {e0 : PDU}
    (hc : construct fmt ver false text j = .ok e0) :
    ∃ kvs, j = .obj kvs ∧
    (resetID fmt e0).ver = ver ∧ (resetID fmt e0).fmt = fmt ∧ (resetID fmt e0).redacted = false ∧
    (resetID fmt e0).json = text ∧ (resetID fmt e0).obj = kvs ∧ FieldsFrom fmt (resetID fmt e0) ∧
    (fmt ≠ .v1 → (resetID fmt e0).f.eventIDRaw = []) := by
  obtain ⟨kvs, hj, h1, h2, h3, h4, h5, h6⟩ := construct_ok hc
  refine ⟨kvs, hj, ?_⟩
  unfold resetID
  by_cases hv : fmt = .v1
  · subst hv
    simp only [beq_self_eq_true, if_true]
    exact ⟨h1, h2, h3, h4, h5, by unfold FieldsFrom; rw [h5, h6], by simp⟩
  · have : (fmt == Fmt.v1) = false := by simp [hv]
    simp only [this, Bool.false_eq_true, if_false]
    exact ⟨h1, h2, h3, h4, h5, by unfold FieldsFrom; simp only [h5, h6], fun _ => trivial⟩

/-- the outcome of `finishUntrusted`, by branch -/
inductive Outcome (H : Bytes → Bytes) (row : VGen.VersionRow) (fmt : Fmt) (ver text' : Bytes) (e1 e : PDU) : Prop where
  | intact (hh : contentHashOk H e1.obj = true) (hid : idAndChecks H row e1 = .ok e)
  | redactedSame (hh : contentHashOk H e1.obj = false) (r0 : JVal) (hr : redactJSON ver (.obj e1.obj) = .ok r0)
      (hsame : encodeCanon (dropEventID fmt r0) = text') (hid : idAndChecks H row { e1 with redacted := true } = .ok e)
  | redactedReparsed (hh : contentHashOk H e1.obj = false) (r0 : JVal) (hr : redactJSON ver (.obj e1.obj) = .ok r0)
      (hdiff : encodeCanon (dropEventID fmt r0) ≠ text')
      (ht : trustedCore H row ver true (encodeCanon (dropEventID fmt r0)) (dropEventID fmt r0) = .ok e)
      (hcf : checkFields e = .ok ())

theorem finishUntrusted_ok {H : Bytes → Bytes} {row : VGen.VersionRow} {fmt : Fmt} {ver text' : Bytes} {e1 e : PDU}
    (h : finishUntrusted H row fmt ver text' e1 = .ok e) :
    text'.length ≤ maxEventLength ∧ Outcome H row fmt ver text' e1 e := by
  unfold finishUntrusted at h
  split at h
  · cases h
  · rename_i hlen
    refine ⟨by omega, ?_⟩
    split at h
    · rename_i hh
      split at h
      · cases h
      · exact .intact hh h
    · rename_i hh
      have hh : contentHashOk H e1.obj = false := by simpa using hh
      unfold onMismatch at h
      split at h
      · split at h <;> cases h
      · cases h
      · rename_i r0 hr
        simp only at h
        split at h
        · rename_i hne
          split at h
          · cases h
          · rename_i e' ht
            split at h
            · cases h
            · rename_i hcf
              cases h
              exact .redactedReparsed hh r0 hr (by simpa using hne) ht hcf
        · rename_i heq
          exact .redactedSame hh r0 hr (by simpa using heq) h

/-! ## Table facts -/

/-- every version's trusted and untrusted constructors fill the same struct, and every keep struct
    has an `event_id` field -/
theorem table_facts : ∀ row ∈ VGen.roomVersions,
    (fmtOfName row.newEventFromUntrustedJSONFunc == fmtOfName row.newEventFromTrustedJSONFunc &&
     (fmtOfName row.newEventFromUntrustedJSONFunc).isSome &&
     (match algoByName row.redactionAlgorithm with
      | some a => a.fields.any (fun f => f.name == b!"event_id")
      | none => false)) = true := by
  decide

theorem row_facts {ver : Bytes} {row : VGen.VersionRow} (h : rowOf ver = some row) :
    fmtOfName row.newEventFromUntrustedJSONFunc = fmtOfName row.newEventFromTrustedJSONFunc ∧
    ∃ a, algoOf ver = some a ∧ a.fields.any (fun f => f.name == b!"event_id") = true := by
  have hmem : row ∈ VGen.roomVersions := List.mem_of_find?_eq_some h
  have := table_facts row hmem
  simp only [Bool.and_eq_true, beq_iff_eq] at this
  obtain ⟨⟨h1, _⟩, h3⟩ := this
  refine ⟨h1, ?_⟩
  cases ha : algoByName row.redactionAlgorithm with
  | none => rw [ha] at h3; cases h3
  | some a =>
    rw [ha] at h3
    exact ⟨a, by simp [algoOf, h, ha], h3⟩

/-- what every accepted untrusted event satisfies -/
structure Accepted (H : Bytes → Bytes) (ver : Bytes) (e : PDU) : Prop where
  hjson : e.json = encodeCanon (.obj e.obj)
  hfields : FieldsFromJSON e
  hver : e.ver = ver
  hid : e.fmt ≠ .v1 → ∃ row, rowOf ver = some row ∧ referenceID H row ver (.obj e.obj) = .ok e.f.eventIDRaw

theorem accepted_of_idAndChecks {H : Bytes → Bytes} {ver : Bytes} {row : VGen.VersionRow} (hrow : rowOf ver = some row)
    {e1 e : PDU} {kvs : EventParse.Obj} (hv : e1.ver = ver) (hj : e1.json = encodeCanon (.obj kvs)) (ho : e1.obj = kvs)
    {sfmt : Fmt} (hf : FieldsFrom sfmt e1) (hid0 : e1.fmt ≠ .v1 → e1.f.eventIDRaw = [])
    (h : idAndChecks H row e1 = .ok e) :
    Accepted H ver e ∧ e.obj = kvs ∧ e.redacted = e1.redacted ∧ e.fmt = e1.fmt ∧ FieldsFrom sfmt e := by
  obtain ⟨hs, hidv, _⟩ := idAndChecks_ok h
  have hobj : e.obj = e1.obj := by rw [hs]
  have hjson : e.json = e1.json := by rw [hs]
  have hver : e.ver = e1.ver := by rw [hs]
  have hfmt : e.fmt = e1.fmt := by rw [hs]
  have hred : e.redacted = e1.redacted := by rw [hs]
  refine ⟨⟨by rw [hjson, hobj, hj, ho], ⟨sfmt, sameButID_fieldsFrom hs hf⟩, by rw [hver, hv], ?_⟩, by rw [hobj, ho], hred, hfmt,
    sameButID_fieldsFrom hs hf⟩
  intro hne
  rw [hfmt] at hne
  refine ⟨row, hrow, ?_⟩
  have := hidv hne (hid0 hne)
  rw [hv] at this
  rw [hobj]; exact this

theorem redactJSON_obj {ver : Bytes} {j r0 : JVal} (h : redactJSON ver j = .ok r0) :
    ∃ a kvs rk, algoOf ver = some a ∧ redactObj a kvs = .ok (.obj rk) ∧ r0 = .obj rk := by
  unfold redactJSON at h
  cases ha : algoOf ver with
  | none => rw [ha] at h; cases h
  | some a =>
    rw [ha] at h
    simp only at h
    unfold redactWith at h
    split at h
    · obtain ⟨tf, cf, _, hv⟩ := redactObj_ok h
      exact ⟨a, _, _, rfl, by rw [← hv]; exact h, hv⟩
    · obtain ⟨tf, cf, _, hv⟩ := redactObj_ok h
      exact ⟨a, _, _, rfl, by rw [← hv]; exact h, hv⟩
    · cases h

/-- The common part of the three theorems: what `parseUntrusted` returns, by branch. -/
theorem parseUntrusted_cases {H : Bytes → Bytes} {ver text : Bytes} {e : PDU} (h : parseUntrusted H ver text = .ok e) :
    ∃ row fmt p kvs, rowOf ver = some row ∧ fmtOfName row.newEventFromUntrustedJSONFunc = some fmt ∧
      parse text = some p ∧ stripped fmt p.toJVal = .obj kvs ∧ Accepted H ver e ∧ e.fmt = fmt ∧
      ((contentHashOk H kvs = true ∧ e.redacted = false ∧ e.obj = kvs ∧ FieldsFrom fmt e) ∨
       (contentHashOk H kvs = false ∧ e.redacted = true ∧
          ∃ r0, redactJSON ver (.obj kvs) = .ok r0 ∧ e.json = encodeCanon (dropEventID fmt r0) ∧
            (e.obj = kvs ∨ dropEventID fmt r0 = .obj e.obj))) := by
  obtain ⟨row, fmt, p, e0, R, hfin⟩ := parseUntrusted_ok h
  obtain ⟨kvs, hj, f1, f2, f3, f4, f5, f6, f7⟩ := resetID_facts R.hcons
  obtain ⟨_, out⟩ := finishUntrusted_ok hfin
  refine ⟨row, fmt, p, kvs, R.hrow, R.hfmt, R.hparse, hj, ?_⟩
  rw [hj] at f4
  cases out with
  | intact hh hid =>
    obtain ⟨hA, hobj, hred, hfmt, hff⟩ := accepted_of_idAndChecks R.hrow f1 f4 f5 f6 (by rw [f2]; exact f7) hid
    exact ⟨hA, by rw [hfmt, f2], Or.inl ⟨by rw [← f5]; exact hh, by rw [hred, f3], hobj, hff⟩⟩
  | redactedSame hh r0 hr hsame hid =>
    have f6' : FieldsFrom fmt { resetID fmt e0 with redacted := true } := f6
    obtain ⟨hA, hobj, hred, hfmt, _⟩ := accepted_of_idAndChecks (e1 := { resetID fmt e0 with redacted := true }) R.hrow f1 f4 f5 f6'
      (by show (resetID fmt e0).fmt ≠ .v1 → _; rw [f2]; exact f7) hid
    refine ⟨hA, by rw [hfmt]; exact f2, Or.inr ⟨by rw [← f5]; exact hh, by rw [hred], r0, by rw [← f5]; exact hr, ?_, Or.inl hobj⟩⟩
    rw [hA.hjson, hobj, hsame, hj]
  | redactedReparsed hh r0 hr hdiff ht hcf =>
    obtain ⟨fmt', e0', hf', hc', hs, hidv⟩ := trustedCore_ok ht
    obtain ⟨kvs', gj, g1, g2, g3, g4, g5, g6⟩ := construct_ok hc'
    have hobj : e.obj = e0'.obj := by rw [hs]
    have hjson : e.json = e0'.json := by rw [hs]
    have hver : e.ver = e0'.ver := by rw [hs]
    have hfmt : e.fmt = e0'.fmt := by rw [hs]
    have hred : e.redacted = e0'.redacted := by rw [hs]
    obtain ⟨hfeq, a, ha, hev⟩ := row_facts R.hrow
    have hff : fmt' = fmt := by
      have := R.hfmt; rw [hfeq, hf'] at this; exact Option.some.inj this
    have hA : Accepted H ver e := by
      refine ⟨by rw [hjson, hobj, g4, g5, gj], sameButID_fields hs ⟨fmt', by unfold FieldsFrom; rw [g5, g6]⟩, by rw [hver, g1], ?_⟩
      intro hne
      rw [hfmt, g2, hff] at hne
      refine ⟨row, R.hrow, ?_⟩
      -- the stored ID of the re-parsed redacted JSON is empty: `event_id` was dropped
      have hraw : e0'.f.eventIDRaw = [] := by
        rw [g6]
        obtain ⟨a', kvs0, rk, ha', hro, hr0⟩ := redactJSON_obj hr
        have haa : a' = a := by rw [ha] at ha'; exact (Option.some.inj ha').symm
        subst haa
        obtain ⟨hT, _⟩ := C05.algoOf_ok ha
        have hdrop : dropEventID fmt r0 = .obj (deleteFirst b!"event_id" rk) := by
          unfold dropEventID
          have : (fmt == Fmt.v1) = false := by simp [hne]
          rw [if_neg (by simp [this]), hr0]
        rw [hdrop] at gj
        have hk : kvs' = deleteFirst b!"event_id" rk := by injection gj with h1; exact h1.symm
        have hm := no_event_id_member hT hev hro
        rw [← hk] at hm
        simp only [decodeFields, hm, seqString, List.foldl_nil]
      have := hidv (by rw [g2, hff]; exact hne)
      rw [g1] at this
      rw [hobj]; exact this
    refine ⟨hA, by rw [hfmt, g2, hff], Or.inr ⟨by rw [← f5]; exact hh, by rw [hred, g3], r0, by rw [← f5]; exact hr, ?_, Or.inr ?_⟩⟩
    · rw [hjson, g4]
    · rw [hobj, g5, gj]

/-! ## The property theorems -/

/-- **Accessors only see the JSON.**  An event returned by `NewEventFromUntrustedJSON` holds as
    `JSON()` the canonical encoding of a value `e.obj`; every accessor other than the event ID
    reports what the struct decoding reads from that value; in the later formats the event ID is the
    reference hash of that value.  (So a key that is not in the JSON is not observable.) -/
theorem accessors_only_see_json {H : Bytes → Bytes} {ver text : Bytes} {e : PDU} (h : parseUntrusted H ver text = .ok e) :
    e.json = encodeCanon (.obj e.obj) ∧ FieldsFromJSON e ∧ e.ver = ver ∧
    (e.fmt ≠ .v1 → ∃ row, rowOf ver = some row ∧ referenceID H row ver (.obj e.obj) = .ok e.f.eventIDRaw) := by
  obtain ⟨_, _, _, _, _, _, _, _, hA, _, _⟩ := parseUntrusted_cases h
  exact ⟨hA.hjson, hA.hfields, hA.hver, hA.hid⟩

/-- **Hash matches ⇒ intact.**  If `hashes.sha256` is the hash of the hashed fields, the event is
    returned not redacted and holds exactly the stripped input (every member intact; `JSON()` is
    its canonical form). -/
theorem hash_match_intact {H : Bytes → Bytes} {ver text : Bytes} {e : PDU} (h : parseUntrusted H ver text = .ok e)
    {row : VGen.VersionRow} {fmt : Fmt} {p : PVal} {kvs : EventParse.Obj}
    (hrow : rowOf ver = some row) (hfmt : fmtOfName row.newEventFromUntrustedJSONFunc = some fmt)
    (hp : parse text = some p) (hs : stripped fmt p.toJVal = .obj kvs) (hh : contentHashOk H kvs = true) :
    e.redacted = false ∧ e.obj = kvs ∧ e.json = encodeCanon (.obj kvs) := by
  obtain ⟨row', fmt', p', kvs', hrow', hfmt', hp', hs', hA, _, hcase⟩ := parseUntrusted_cases h
  have e1 : row' = row := by rw [hrow] at hrow'; exact (Option.some.inj hrow').symm
  subst e1
  have e2 : fmt' = fmt := by rw [hfmt] at hfmt'; exact (Option.some.inj hfmt').symm
  subst e2
  have e3 : p' = p := by rw [hp] at hp'; exact (Option.some.inj hp').symm
  subst e3
  have e4 : kvs' = kvs := by rw [hs] at hs'; injection hs' with h1; exact h1.symm
  subst e4
  rcases hcase with ⟨_, hr, ho, _⟩ | ⟨hf, _⟩
  · exact ⟨hr, ho, by rw [hA.hjson, ho]⟩
  · rw [hh] at hf; cases hf

/-- **Hash mismatch ⇒ redacted form only.**  If the hash does not match, the event is flagged
    redacted and its `JSON()` is the canonical encoding of the room version's redaction of the
    stripped input (`dropEventID fmt r0 = r0`: `dropEventID_noop` below): by `C05.redact_exact` /
    `C05.redact_drops_unlisted` no top-level key and no content key outside the keep-lists is in it, and by `accessors_only_see_json` no
    accessor reports anything that is not in that JSON. -/
theorem hash_mismatch_redacted {H : Bytes → Bytes} {ver text : Bytes} {e : PDU} (h : parseUntrusted H ver text = .ok e)
    {row : VGen.VersionRow} {fmt : Fmt} {p : PVal} {kvs : EventParse.Obj}
    (hrow : rowOf ver = some row) (hfmt : fmtOfName row.newEventFromUntrustedJSONFunc = some fmt)
    (hp : parse text = some p) (hs : stripped fmt p.toJVal = .obj kvs) (hh : contentHashOk H kvs = false) :
    e.redacted = true ∧ ∃ r0, redactJSON ver (.obj kvs) = .ok r0 ∧ e.json = encodeCanon (dropEventID fmt r0) ∧
      encodeCanon (.obj e.obj) = encodeCanon (dropEventID fmt r0) := by
  obtain ⟨row', fmt', p', kvs', hrow', hfmt', hp', hs', hA, _, hcase⟩ := parseUntrusted_cases h
  have e1 : row' = row := by rw [hrow] at hrow'; exact (Option.some.inj hrow').symm
  subst e1
  have e2 : fmt' = fmt := by rw [hfmt] at hfmt'; exact (Option.some.inj hfmt').symm
  subst e2
  have e3 : p' = p := by rw [hp] at hp'; exact (Option.some.inj hp').symm
  subst e3
  have e4 : kvs' = kvs := by rw [hs] at hs'; injection hs' with h1; exact h1.symm
  subst e4
  rcases hcase with ⟨hf, _⟩ | ⟨_, hr, r0, hred, hj, _⟩
  · rw [hh] at hf; cases hf
  · exact ⟨hr, r0, hred, hj, by rw [← hA.hjson, hj]⟩

/-- what an accepted event redacts to, given what the stripped input redacts to -/
theorem redaction_of_accepted {H : Bytes → Bytes} {ver text : Bytes} {e : PDU} (h : parseUntrusted H ver text = .ok e)
    {row : VGen.VersionRow} {fmt : Fmt} {p : PVal} {kvs : EventParse.Obj}
    (hrow : rowOf ver = some row) (hfmt : fmtOfName row.newEventFromUntrustedJSONFunc = some fmt)
    (hp : parse text = some p) (hs : stripped fmt p.toJVal = .obj kvs)
    {rk : EventParse.Obj} (hr : redactJSON ver (.obj kvs) = .ok (.obj rk)) (hnoid : lookupExact rk b!"event_id" = none) :
    redactJSON ver (.obj e.obj) = .ok (.obj rk) ∧ e.fmt = fmt ∧
    (e.fmt ≠ .v1 → referenceID H row ver (.obj e.obj) = .ok e.f.eventIDRaw) := by
  obtain ⟨row', fmt', p', kvs', hrow', hfmt', hp', hs', hA, hef, hcase⟩ := parseUntrusted_cases h
  have e1 : row' = row := by rw [hrow] at hrow'; exact (Option.some.inj hrow').symm
  subst e1
  have e2 : fmt' = fmt := by rw [hfmt] at hfmt'; exact (Option.some.inj hfmt').symm
  subst e2
  have e3 : p' = p := by rw [hp] at hp'; exact (Option.some.inj hp').symm
  subst e3
  have e4 : kvs' = kvs := by rw [hs] at hs'; injection hs' with h1; exact h1.symm
  subst e4
  have hidr : e.fmt ≠ .v1 → referenceID H row' ver (.obj e.obj) = .ok e.f.eventIDRaw := by
    intro hne
    obtain ⟨row2, hrow2, hid⟩ := hA.hid hne
    have : row2 = row' := by rw [hrow] at hrow2; exact (Option.some.inj hrow2).symm
    subst this
    exact hid
  refine ⟨?_, hef, hidr⟩
  rcases hcase with ⟨_, _, ho, _⟩ | ⟨_, _, r0, hred, _, ho | hdrop⟩
  · rw [ho]; exact hr
  · rw [ho]; exact hr
  · have hr0 : r0 = .obj rk := by rw [hr] at hred; injection hred with h1; exact h1.symm
    subst hr0
    have hsame : dropEventID fmt' (.obj rk) = .obj rk := by
      unfold dropEventID
      split
      · rfl
      · simp only [deleteFirst_absent _ _ hnoid]
    rw [hsame] at hdrop
    have : e.obj = rk := by injection hdrop with h1; exact h1.symm
    rw [this]
    exact C05.redact_idem hr

/-! ### no `event_id` in the redaction of a received event -/

/-- the text of an accepted event has no duplicate keys (the model's domain) -/
theorem parseUntrusted_nodup {H : Bytes → Bytes} {ver text : Bytes} {e : PDU} (h : parseUntrusted H ver text = .ok e)
    {p : PVal} (hp : parse text = some p) : p.toJVal.noDupKeys = true := by
  obtain ⟨_, _, p', _, R, _⟩ := parseUntrusted_ok h
  have : p' = p := by have := R.hparse; rw [hp] at this; exact (Option.some.inj this).symm
  subst this
  exact R.noDup

/-- For the formats with a computed ID, the redaction of the stripped form of an accepted event has no
    `event_id` member: the exact key was deleted on receipt and redaction matches keys exactly — a case
    variant such as `Event_id` is not re-emitted (it was, before the repair of `redactEventJSON`). -/
theorem redaction_no_event_id {H : Bytes → Bytes} {ver text : Bytes} {e : PDU} (h : parseUntrusted H ver text = .ok e)
    {fmt : Fmt} (hv : fmt ≠ .v1) {p : PVal} {kvs : EventParse.Obj}
    (hp : parse text = some p) (hs : stripped fmt p.toJVal = .obj kvs)
    {rk : EventParse.Obj} (hr : redactJSON ver (.obj kvs) = .ok (.obj rk)) : lookupExact rk b!"event_id" = none := by
  have hnd := parseUntrusted_nodup h hp
  have hno : lookupExact kvs b!"event_id" = none := by
    cases hj : p.toJVal with
    | obj kvs0 => rw [hj] at hs hnd; exact stripped_no_event_id hv hnd hs
    | null => rw [hj] at hs; cases hs
    | bool b => rw [hj] at hs; cases hs
    | num n => rw [hj] at hs; cases hs
    | str x => rw [hj] at hs; cases hs
    | arr xs => rw [hj] at hs; cases hs
  exact C05.redact_drops_unlisted hr (by decide) (by decide) hno

/-- The later formats delete `event_id` from the redacted JSON (`dropEventID`; eventV2.go keeps that statement):
    on the redaction of a received event it removes nothing, so in `hash_mismatch_redacted` the returned JSON is
    the canonical encoding of the redaction itself. -/
theorem dropEventID_noop {H : Bytes → Bytes} {ver text : Bytes} {e : PDU} (h : parseUntrusted H ver text = .ok e)
    {fmt : Fmt} {p : PVal} {kvs : EventParse.Obj} (hp : parse text = some p) (hs : stripped fmt p.toJVal = .obj kvs)
    {r0 : JVal} (hred : redactJSON ver (.obj kvs) = .ok r0) : dropEventID fmt r0 = r0 := by
  unfold dropEventID
  split
  · rfl
  · rename_i hv
    have hv' : fmt ≠ .v1 := by simpa using hv
    obtain ⟨_, _, rk, _, _, hr0⟩ := redactJSON_obj hred
    subst hr0
    simp only [deleteFirst_absent _ _ (redaction_no_event_id h hv' hp hs hred)]

/-- An event received through `NewEventFromUntrustedJSON` in a format with a computed ID holds no
    `event_id` member: the key is deleted on receipt, and a redacted event is (re-parsed from) a redaction,
    which has none (`redaction_no_event_id`). -/
theorem accepted_no_event_id {H : Bytes → Bytes} {ver text : Bytes} {e : PDU} (h : parseUntrusted H ver text = .ok e)
    (hv : e.fmt ≠ .v1) : lookupExact e.obj b!"event_id" = none := by
  obtain ⟨row, fmt, p, kvs, hrow, hfmt, hp, hs, hA, hef, hcase⟩ := parseUntrusted_cases h
  rw [hef] at hv
  have hnd := parseUntrusted_nodup h hp
  have hno : lookupExact kvs b!"event_id" = none := by
    cases hj : p.toJVal with
    | obj kvs0 => rw [hj] at hs hnd; exact stripped_no_event_id hv hnd hs
    | null => rw [hj] at hs; cases hs
    | bool b => rw [hj] at hs; cases hs
    | num n => rw [hj] at hs; cases hs
    | str x => rw [hj] at hs; cases hs
    | arr xs => rw [hj] at hs; cases hs
  rcases hcase with ⟨_, _, ho, _⟩ | ⟨_, _, r0, hred, _, ho | hdrop⟩
  · rw [ho]; exact hno
  · rw [ho]; exact hno
  · obtain ⟨_, _, rk, _, _, hr0⟩ := redactJSON_obj hred
    subst hr0
    have hn := redaction_no_event_id h hv hp hs hred
    unfold dropEventID at hdrop
    rw [if_neg (by simp [hv])] at hdrop
    simp only [deleteFirst_absent _ _ hn] at hdrop
    have : e.obj = rk := by injection hdrop with h1; exact h1.symm
    rw [this]; exact hn

/-- What the identity of an accepted event (formats with a computed ID) is computed from: the
    redaction of the stripped input.  No side condition: whether the event passed the hash check or
    was redacted, and whatever case variants of `event_id` it carries, its redaction is that of the
    stripped input and its ID is the reference hash of that redaction. -/
theorem identity_of_accepted {H : Bytes → Bytes} {ver text : Bytes} {e : PDU} (h : parseUntrusted H ver text = .ok e)
    {row : VGen.VersionRow} {fmt : Fmt} {p : PVal} {kvs : EventParse.Obj}
    (hrow : rowOf ver = some row) (hfmt : fmtOfName row.newEventFromUntrustedJSONFunc = some fmt) (hv : fmt ≠ .v1)
    (hp : parse text = some p) (hs : stripped fmt p.toJVal = .obj kvs)
    {rk : EventParse.Obj} (hr : redactJSON ver (.obj kvs) = .ok (.obj rk)) :
    redactJSON ver (.obj e.obj) = .ok (.obj rk) ∧
    referenceID H row ver (.obj e.obj) = .ok e.f.eventIDRaw := by
  obtain ⟨h1, hef, h3⟩ := redaction_of_accepted h hrow hfmt hp hs hr (redaction_no_event_id h hv hp hs hr)
  exact ⟨h1, h3 (by rw [hef]; exact hv)⟩

/-- **Tampering with redactable material keeps the identity.**  Two received events (same room
    version, event-ID format 2 or 3) whose stripped forms have the same redaction get the same event
    ID, and every signature check gives the same verdict on both — whichever of them passed the
    content-hash check, and whatever else they carry (extra top-level keys, case variants of protected
    keys such as `Event_id`, other content).

    No side condition any more.  Before the repair of `redactEventJSON` (keys matched to the keep struct
    case-insensitively) this needed "an event that passed the hash check carries no case variant of
    `event_id`", and was FALSE without it (a sender-made `{"Event_id":"$x", valid hash}` and its
    content-tampered copy: same redaction, different IDs — the pair below, now with equal IDs). -/
theorem tamper_redactable_same_identity {H : Bytes → Bytes} {ver t1 t2 : Bytes} {e1 e2 : PDU}
    (h1 : parseUntrusted H ver t1 = .ok e1) (h2 : parseUntrusted H ver t2 = .ok e2)
    {row : VGen.VersionRow} {fmt : Fmt} {p1 p2 : PVal} {k1 k2 : EventParse.Obj}
    (hrow : rowOf ver = some row) (hfmt : fmtOfName row.newEventFromUntrustedJSONFunc = some fmt) (hv : fmt ≠ .v1)
    (hp1 : parse t1 = some p1) (hp2 : parse t2 = some p2)
    (hs1 : stripped fmt p1.toJVal = .obj k1) (hs2 : stripped fmt p2.toJVal = .obj k2)
    {rk : EventParse.Obj} (hr1 : redactJSON ver (.obj k1) = .ok (.obj rk)) (hr2 : redactJSON ver (.obj k2) = .ok (.obj rk)) :
    e1.f.eventIDRaw = e2.f.eventIDRaw ∧
    ∀ verify name kid pk, C05.sigValid verify ver (.obj e1.obj) name kid pk = C05.sigValid verify ver (.obj e2.obj) name kid pk := by
  obtain ⟨ha1, hi1⟩ := identity_of_accepted h1 hrow hfmt hv hp1 hs1 hr1
  obtain ⟨ha2, hi2⟩ := identity_of_accepted h2 hrow hfmt hv hp2 hs2 hr2
  constructor
  · simp only [referenceID, ha1] at hi1
    simp only [referenceID, ha2] at hi2
    rw [hi1] at hi2
    injection hi2
  · intro verify name kid pk
    simp only [C05.sigValid, signingPayload, referenceBytes, signaturesOf, ha1, ha2]

/-- The instance "both passed the hash check" (kept under its name; before the repair it was the one
    case provable without the side condition). -/
theorem same_redaction_same_identity_intact {H : Bytes → Bytes} {ver t1 t2 : Bytes} {e1 e2 : PDU}
    (h1 : parseUntrusted H ver t1 = .ok e1) (h2 : parseUntrusted H ver t2 = .ok e2)
    {row : VGen.VersionRow} {fmt : Fmt} {p1 p2 : PVal} {k1 k2 : EventParse.Obj}
    (hrow : rowOf ver = some row) (hfmt : fmtOfName row.newEventFromUntrustedJSONFunc = some fmt) (hv : fmt ≠ .v1)
    (hp1 : parse t1 = some p1) (hp2 : parse t2 = some p2)
    (hs1 : stripped fmt p1.toJVal = .obj k1) (hs2 : stripped fmt p2.toJVal = .obj k2)
    {rk : EventParse.Obj} (hr1 : redactJSON ver (.obj k1) = .ok (.obj rk)) (hr2 : redactJSON ver (.obj k2) = .ok (.obj rk))
    (_hi1 : e1.redacted = false) (_hi2 : e2.redacted = false) :
    e1.f.eventIDRaw = e2.f.eventIDRaw ∧
    ∀ verify name kid pk, C05.sigValid verify ver (.obj e1.obj) name kid pk = C05.sigValid verify ver (.obj e2.obj) name kid pk :=
  tamper_redactable_same_identity h1 h2 hrow hfmt hv hp1 hp2 hs1 hs2 hr1 hr2

/-! ## Refusal on receipt: texts that do not denote one event, members that are not the field they look like

C04 "returned … with every field intact", C03 "identity is a function of the redacted content", C06, C17, C18: the
library's JSON readers disagree on a text that repeats a member name (gjson / sjson: first occurrence; encoding/json:
last), and the struct decoding reads a case variant of a field name as the field.  Since /repo 7c511f2 and 849cf70 the
untrusted constructors refuse both (`checkUntrustedEventJSON`). -/

/-- **A text that repeats a member name in some object — at any depth — is refused**, in every room version, whatever
    its content hash. -/
theorem refuses_repeated_member (H : Bytes → Bytes) {ver text : Bytes} {p : PVal} (hp : parse text = some p)
    (hd : p.toJVal.noDupKeys = false) : ∀ e, parseUntrusted H ver text ≠ .ok e := by
  intro e h
  have := parseUntrusted_nodup h hp
  rw [hd] at this
  cases this

/-- **A text with a top-level member whose name is a case variant of an event-struct field name** (`Type`, `Room_id`,
    `SENDER`, `ſtate_key`, … — equal under Unicode simple case folding, not equal) **is refused.** -/
theorem refuses_field_variant (H : Bytes → Bytes) {ver text : Bytes} {p : PVal} (hp : parse text = some p)
    (hv : hasFieldVariant p.toJVal = true) : ∀ e, parseUntrusted H ver text ≠ .ok e := by
  intro e h
  obtain ⟨_, _, p', _, R, _⟩ := parseUntrusted_ok h
  have : p' = p := by have := R.hparse; rw [hp] at this; exact (Option.some.inj this).symm
  subst this
  have := R.noVariant
  rw [hv] at this
  cases this

theorem deleteKeys_keys_nodup (ks : List Bytes) : ∀ (l : EventParse.Obj), (keysOf l).Nodup → (keysOf (deleteKeys ks l)).Nodup := by
  induction ks with
  | nil => intro l h; exact h
  | cons k rest ih =>
    intro l h
    exact ih _ (deleteFirst_keys_nodup k l h)

/-- the object an accepted event holds has no repeated key -/
theorem accepted_keys_nodup {H : Bytes → Bytes} {ver text : Bytes} {e : PDU} (h : parseUntrusted H ver text = .ok e) :
    (keysOf e.obj).Nodup := by
  obtain ⟨row, fmt, p, kvs, hrow, hfmt, hp, hs, hA, hef, hcase⟩ := C04.parseUntrusted_cases h
  have hnd := C04.parseUntrusted_nodup h hp
  have hk : (keysOf kvs).Nodup := by
    cases hpj : p.toJVal with
    | obj kvs0 =>
      rw [hpj] at hs hnd
      simp only [stripped, JVal.obj.injEq] at hs
      subst hs
      exact deleteKeys_keys_nodup _ _ (keys_nodup_of_noDupKeys hnd)
    | _ => rw [hpj] at hs; simp [stripped] at hs
  rcases hcase with ⟨_, _, ho, _⟩ | ⟨_, _, r0, hr0, _, ho | hdrop⟩
  · rw [ho]; exact hk
  · rw [ho]; exact hk
  · obtain ⟨a, kvs', rk, ha, hro, hrk⟩ := C04.redactJSON_obj hr0
    subst hrk
    obtain ⟨hT, _⟩ := C05.algoOf_ok ha
    obtain ⟨hdist, _, _, _⟩ := tablesOk_parts hT
    obtain ⟨tf, cf, _, hv⟩ := redactObj_ok hro
    have hr : rk = outputOf a kvs' tf cf := by injection hv
    have hrn : (keysOf rk).Nodup := by rw [hr]; exact output_keys_nodup hdist kvs' tf cf
    unfold dropEventID at hdrop
    split at hdrop
    · have : e.obj = rk := by injection hdrop with h1; exact h1.symm
      rw [this]; exact hrn
    · simp only [JVal.obj.injEq] at hdrop
      rw [← hdrop]
      exact deleteFirst_keys_nodup _ _ hrn


/-- no name of a redaction keep struct is a case variant of an event-struct field name (regenerated tables) -/
theorem keep_names_no_variant : ∀ row ∈ VGen.roomVersions,
    (match algoByName row.redactionAlgorithm with
     | some a => a.fields.all (fun f => !(structFieldNames.any (fun n => f.name != n && foldBytes f.name == foldBytes n)))
     | none => false) = true := by
  decide

theorem deleteKeys_sub (ks : List Bytes) : ∀ (l : EventParse.Obj), ∀ kv ∈ deleteKeys ks l, kv ∈ l := by
  unfold deleteKeys
  induction ks with
  | nil => intro l kv h; exact h
  | cons k ks ih =>
    intro l kv h
    simp only [List.foldl_cons] at h
    exact deleteFirst_sub k l kv (ih _ kv h)

theorem any_sublist {α : Type} (q : α → Bool) {l l' : List α} (hs : ∀ x ∈ l', x ∈ l) (h : l.any q = false) : l'.any q = false := by
  rw [List.any_eq_false] at h ⊢
  intro x hx
  exact h x (hs x hx)

/-- **The object an accepted event holds has no case variant of a struct field name either**: it is the stripped input,
    or the redaction of it (whose keys are names of the keep struct). -/
theorem accepted_no_variant {H : Bytes → Bytes} {ver text : Bytes} {e : PDU} (h : parseUntrusted H ver text = .ok e) :
    hasFieldVariant (.obj e.obj) = false := by
  obtain ⟨row, fmt, p, kvs, hrow, hfmt, hp, hs, hA, hef, hcase⟩ := parseUntrusted_cases h
  obtain ⟨_, _, p', _, R, _⟩ := parseUntrusted_ok h
  have hpp : p' = p := by have := R.hparse; rw [hp] at this; exact (Option.some.inj this).symm
  subst hpp
  have hk : hasFieldVariant (.obj kvs) = false := by
    cases hpj : p'.toJVal with
    | obj kvs0 =>
      have hv0 := R.noVariant
      rw [hpj] at hs hv0
      simp only [stripped, JVal.obj.injEq] at hs
      subst hs
      exact any_sublist _ (deleteKeys_sub _ _) hv0
    | _ => rw [hpj] at hs; simp [stripped] at hs
  rcases hcase with ⟨_, _, ho, _⟩ | ⟨_, _, r0, hr0, _, ho | hdrop⟩
  · rw [ho]; exact hk
  · rw [ho]; exact hk
  · obtain ⟨a, kvs', rk, ha, hro, hrk⟩ := redactJSON_obj hr0
    subst hrk
    obtain ⟨tf, cf, _, hv⟩ := redactObj_ok hro
    have hr : rk = outputOf a kvs' tf cf := by injection hv
    -- the keys of the redaction are names of the keep struct
    have hkeep : ∀ kv ∈ rk, ∃ f ∈ a.fields, kv.1 = f.name := by
      intro kv hkv; rw [hr] at hkv; exact output_keys hkv
    have htab : a.fields.all (fun f => !(structFieldNames.any (fun n => f.name != n && foldBytes f.name == foldBytes n))) = true := by
      have := keep_names_no_variant row (List.mem_of_find?_eq_some hrow)
      have ha' : algoByName row.redactionAlgorithm = some a := by simpa [algoOf, hrow] using ha
      rw [ha'] at this
      exact this
    have hrkv : hasFieldVariant (.obj rk) = false := by
      simp only [hasFieldVariant, List.any_eq_false]
      intro kv hkv
      obtain ⟨f, hf, hkf⟩ := hkeep kv hkv
      have := List.all_eq_true.mp htab f hf
      rw [hkf]
      simpa using this
    unfold dropEventID at hdrop
    split at hdrop
    · have : e.obj = rk := by injection hdrop with h1; exact h1.symm
      rw [this]; exact hrkv
    · simp only [JVal.obj.injEq] at hdrop
      rw [← hdrop]
      exact any_sublist _ (deleteFirst_sub _ _) hrkv

/-- On an object without repeated keys in which no key is a case variant of `n`, the members the struct decoding reads
    into the field named `n` are exactly the member with that name. -/
theorem members_exact {n : Bytes} : ∀ {kvs : EventParse.Obj}, (keysOf kvs).Nodup →
    (∀ kv ∈ kvs, kv.1 ≠ n → foldBytes kv.1 ≠ foldBytes n) → members kvs n = (lookupExact kvs n).toList
  | [], _, _ => rfl
  | x :: rest, hnd, hnv => by
    have hn := List.nodup_cons.mp (show (x.1 :: keysOf rest).Nodup from hnd)
    have ih := members_exact (n := n) hn.2 (fun kv hkv => hnv kv (List.mem_cons_of_mem _ hkv))
    rw [lookupExact_eq, lastSome_cons, ← lookupExact_eq]
    by_cases hx : x.1 = n
    · have hm : matchesField x.1 n = true := by rw [hx]; exact matchesField_self n
      have hrest : ∀ kv ∈ rest, matchesField kv.1 n = false := by
        intro kv hkv
        have hne : kv.1 ≠ n := by
          intro he; apply hn.1; rw [hx, ← he]; exact List.mem_map.mpr ⟨kv, hkv, rfl⟩
        have hf := hnv kv (List.mem_cons_of_mem _ hkv) hne
        simp only [matchesField, Bool.or_eq_false_iff, beq_eq_false_iff_ne, ne_eq]
        exact ⟨hne, hf⟩
      have hmr : members rest n = [] := by
        unfold members; rw [filter_eq_nil_of _ _ hrest]; rfl
      have hlr : lookupExact rest n = none := by
        cases hl : lookupExact rest n with
        | none => rfl
        | some v => rw [hl, hmr] at ih; cases ih
      have hmm : members (x :: rest) n = x.2 :: members rest n := by
        unfold members; simp only [List.filter_cons, hm, if_true, List.map_cons]
      rw [hmm, hmr, hlr]
      simp [hx]
    · have hf := hnv x List.mem_cons_self hx
      have hm : matchesField x.1 n = false := by
        simp only [matchesField, Bool.or_eq_false_iff, beq_eq_false_iff_ne, ne_eq]
        exact ⟨hx, hf⟩
      have hmm : members (x :: rest) n = members rest n := by
        unfold members; simp only [List.filter_cons, hm, Bool.false_eq_true, if_false]
      rw [hmm, ih]
      have hb : (x.1 == n) = false := by simpa using hx
      cases lookupExact rest n <;> simp [hb]

/-- **Every accessor reports the exact member of `JSON()`.**  For an event `NewEventFromUntrustedJSON` returned and
    every field name `n` of the event structs, the members of `e.obj` (the value `JSON()` denotes) that the struct
    decoding reads into the field are: the member named exactly `n`, if there is one, and nothing else.  With
    `accessors_only_see_json` (every field is decoded from `e.obj`): `Type()`, `SenderID()`, `RoomID()`, `StateKey()`,
    `Content()`, `Depth()`, … are functions of the members `type`, `sender`, `room_id`, … of the event's JSON — the JSON
    that is hashed, signed, redacted and stored — and of nothing else; the length limits of `CheckFields` are checked on
    those members. -/
theorem accessors_read_exact_members {H : Bytes → Bytes} {ver text : Bytes} {e : PDU} (h : parseUntrusted H ver text = .ok e) :
    ∀ n ∈ structFieldNames, members e.obj n = (lookupExact e.obj n).toList := by
  intro n hn
  have hnv := accepted_no_variant h
  simp only [hasFieldVariant, List.any_eq_false] at hnv
  apply members_exact (accepted_keys_nodup h)
  intro kv hkv hne hfold
  have := hnv kv hkv
  apply this
  rw [List.any_eq_true]
  exact ⟨n, hn, by simp [hne, hfold]⟩

/-! ## Non-vacuity: concrete received events (room version 10, toy hash `H0 _ = []`) -/

def exText (h : String) : Bytes :=
  ("{\"auth_events\":[],\"content\":{\"body\":\"x\"},\"depth\":1,\"hashes\":{\"sha256\":\"" ++ h ++
   "\"},\"origin_server_ts\":1,\"prev_events\":[],\"room_id\":\"!r:h\",\"sender\":\"@a:h\",\"type\":\"m.x\",\"unsigned\":{\"age\":1}}"
  ).toList.flatMap (fun c => utf8Encode c.toNat)

def H0 : Bytes → Bytes := fun _ => []

/-- hash matches (`""` decodes to the empty digest `H0` returns): accepted, not redacted, content intact -/
example : (match parseUntrusted H0 b!"10" (exText "") with
  | .ok e => !e.redacted && e.f.type == b!"m.x" && (e.f.content.map encodeCanon == some b!"{\"body\":\"x\"}") && e.f.unsigned.isNone
  | _ => false) = true := by decide +kernel

/-- hash does not match: accepted, redacted, content emptied -/
example : (match parseUntrusted H0 b!"10" (exText "QUJD") with
  | .ok e => e.redacted && e.f.type == b!"m.x" && (e.f.content.map encodeCanon == some b!"{}")
  | _ => false) = true := by decide +kernel

/-! ## `tamper_redactable_same_identity`: instances

Toy hash `H1 b = [length of b mod 256]` (enough to tell the reference bytes apart).  Room version 10. -/

def H1 : Bytes → Bytes := fun b => [UInt8.ofNat b.length]

/-- an event with an optional extra member, a content body and a declared hash -/
def exEv (extra : String) (body h : String) : Bytes :=
  ("{" ++ extra ++ "\"auth_events\":[],\"content\":{\"body\":\"" ++ body ++
   "\"},\"depth\":1,\"hashes\":{\"sha256\":\"" ++ h ++
   "\"},\"origin_server_ts\":1,\"prev_events\":[],\"room_id\":\"!r:h\",\"sender\":\"@a:h\",\"type\":\"m.x\"}"
  ).toList.flatMap (fun c => utf8Encode c.toNat)

/-- canonical bytes of the redaction of the stripped form of a text (room version 10) -/
def exRedaction (t : Bytes) : Option Bytes :=
  match parse t with
  | some p =>
    match redactJSON b!"10" (stripped .v2 p.toJVal) with
    | .ok (.obj rk) => some (encodeCanon (.obj rk))
    | _ => none
  | none => none

/-- A genuine event (hash matches) and a copy to which a member outside every keep-list was added (`Origin_`, not a
    case variant of any struct field).  The copy fails the hash check and is redacted; the extra member is dropped by
    the redaction, the two redactions are equal — and both get the same event ID, as the theorem says. -/
example : (match parseUntrusted H1 b!"10" (exEv "" "x" "hw"), parseUntrusted H1 b!"10" (exEv "\"Origin_\":\"$x\"," "x" "hw") with
  | .ok e, .ok t => !e.redacted && t.redacted && e.f.eventIDRaw == t.f.eventIDRaw && !e.f.eventIDRaw.isEmpty
  | _, _ => false) = true := by decide +kernel

example : (match exRedaction (exEv "" "x" "hw"), exRedaction (exEv "\"Origin_\":\"$x\"," "x" "hw") with
  | some r1, some r2 => r1 == r2
  | _, _ => false) = true := by decide +kernel

/-- A genuine event and a copy with only redactable content altered (hash mismatch, returned redacted): the same
    redaction and the same event ID. -/
example : (match parseUntrusted H1 b!"10" (exEv "" "x" "hw"), parseUntrusted H1 b!"10" (exEv "" "yy" "hw") with
  | .ok a, .ok b => !a.redacted && b.redacted && a.f.eventIDRaw == b.f.eventIDRaw && !a.f.eventIDRaw.isEmpty
  | _, _ => false) = true := by decide +kernel

example : (match exRedaction (exEv "" "x" "hw"), exRedaction (exEv "" "yy" "hw") with
  | some r1, some r2 => r1 == r2
  | _, _ => false) = true := by decide +kernel

/-! ## Texts that are refused (`checkUntrustedEventJSON`): the witnesses of `corpus/C04/event.ops`

The pair that was the counter-example of `tamper_redactable_same_identity` before the redaction repair — an event
whose SENDER put a case variant `Event_id` into it and hashed it — is no longer received at all; neither is an event
with a second `hashes` member (the content-forgery shape), nor one with a case variant of `type` or `room_id`. -/

def refused (r : Except Err PDU) : Bool :=
  match r with
  | .error .badJSON => true
  | _ => false

example : refused (parseUntrusted H1 b!"10" (exEv "\"Event_id\":\"$x\"," "x" "lw")) = true := by decide +kernel
example : refused (parseUntrusted H1 b!"10" (exEv "\"hashes\":{\"sha256\":\"lw\"}," "x" "hw")) = true := by decide +kernel
example : refused (parseUntrusted H1 b!"10" (exEv "\"Type\":\"m.room.power_levels\"," "x" "hw")) = true := by decide +kernel
example : refused (parseUntrusted H1 b!"10" (exEv "\"Room_id\":\"!q:h\"," "x" "hw")) = true := by decide +kernel
example : refused (parseUntrusted H1 b!"10" (exEv "\"unsigned\":{},\"unsigned\":{\"a\":{\"k\":1,\"k\":2}}," "x" "hw")) = true := by decide +kernel

end V.C04
