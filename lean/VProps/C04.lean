/-
  C04 — Untrusted events whose content hash fails surface only their redacted form.

  Model: `V.EventParse.parseUntrusted H ver text` (newEventFromUntrustedJSONV1/V2/V3), with SHA-256 a
  parameter `H`.  The redaction itself is C05's (`V.Redact.redactJSON`; `V.C05.redact_exact` says which
  keys it leaves).

  * `accessors_only_see_json`   every event a constructor returns reports, through its accessors,
                                what is decoded from the JSON it holds; `JSON()` of an untrusted event is
                                the canonical encoding of that value; the v3+ event ID is the reference hash
                                of that value
  * `hash_match_intact`         hash matches ⇒ not redacted, JSON = canonical form of the stripped input
  * `hash_mismatch_redacted`    hash does not match ⇒ flagged redacted, JSON = canonical form of the
                                redaction of the stripped input (so only kept keys, `redact_exact`)
  * `tamper_redactable_same_identity`  two received events whose redacted forms agree (up to the
                                `event_id` member the keep struct re-emits for a case variant such as
                                `Event_id`) get the same event ID and the same signature verdicts —
                                provided an event that passed the hash check carries no such variant
                                (needed: kernel-evaluated counter-example at the end of the file)
  * `same_redaction_same_identity_intact`  … and so do two events that both passed the hash check
  * `tamper_redactable_same_identity_partial`  the earlier form (no `event_id` in the redaction), a corollary
-/
import VProofs.EventParse
import VProofs.EventTamper
import VProps.C05
namespace V.C04
open V V.Json V.GoJson V.Redact V.EventParse V.RedactProofs V.EventProofs

/-- the stages of `parseUntrusted` that every accepted input has passed -/
structure Received (H : Bytes → Bytes) (ver text : Bytes) (row : VGen.VersionRow) (fmt : Fmt) (p : PVal) (e0 : PDU) : Prop where
  hrow : rowOf ver = some row
  hfmt : fmtOfName row.newEventFromUntrustedJSONFunc = some fmt
  hparse : parse text = some p
  noHeader : hasUnderscoreKey p.toJVal = false
  noDup : p.toJVal.noDupKeys = true
  hcons : construct fmt ver false (encodeCanon (stripped fmt p.toJVal)) (stripped fmt p.toJVal) = .ok e0

theorem parseUntrusted_ok {H : Bytes → Bytes} {ver text : Bytes} {e : PDU} (h : parseUntrusted H ver text = .ok e) :
    ∃ row fmt p e0, Received H ver text row fmt p e0 ∧
      finishUntrusted H row fmt ver (encodeCanon (stripped fmt p.toJVal)) (resetID fmt e0) = .ok e := by
  unfold parseUntrusted at h
  split at h
  · cases h
  · rename_i row hrow
    split at h
    · rename_i fmt enf hfmt henf
      split at h
      · cases h
      · rename_i p hp
        split at h
        · cases h
        · rename_i h1
          split at h
          · cases h
          · split at h
            · cases h
            · rename_i h3
              split at h
              · cases h
              · rename_i e0 hc
                exact ⟨row, fmt, p, e0, ⟨hrow, hfmt, hp, by simpa using h1, by simpa using h3, hc⟩, h⟩
    · cases h

/-- the decoded event `finishUntrusted` starts from -/
theorem resetID_facts {fmt : Fmt} {ver : Bytes} {text : Bytes} {j : JVal} {e0 : PDU}
    (hc : construct fmt ver false text j = .ok e0) :
    ∃ kvs, j = .obj kvs ∧
    (resetID fmt e0).ver = ver ∧ (resetID fmt e0).fmt = fmt ∧ (resetID fmt e0).redacted = false ∧
    (resetID fmt e0).json = text ∧ (resetID fmt e0).obj = kvs ∧ FieldsFrom fmt (resetID fmt e0) ∧
    (fmt ≠ .v1 → (resetID fmt e0).f.eventIDRaw = []) := by
  obtain ⟨kvs, hj, h1, h2, h3, h4, h5, h6⟩ := construct_ok hc
  refine ⟨kvs, hj, ?_⟩
  unfold resetID
  by_cases hv : fmt = .v1
  · subst hv
    simp only [beq_self_eq_true, if_true]
    exact ⟨h1, h2, h3, h4, h5, by unfold FieldsFrom; rw [h5, h6], by simp⟩
  · have : (fmt == Fmt.v1) = false := by simp [hv]
    simp only [this, Bool.false_eq_true, if_false]
    exact ⟨h1, h2, h3, h4, h5, by unfold FieldsFrom; simp only [h5, h6], fun _ => trivial⟩

/-- the outcome of `finishUntrusted`, by branch -/
inductive Outcome (H : Bytes → Bytes) (row : VGen.VersionRow) (fmt : Fmt) (ver text' : Bytes) (e1 e : PDU) : Prop where
  | intact (hh : contentHashOk H e1.obj = true) (hid : idAndChecks H row e1 = .ok e)
  | redactedSame (hh : contentHashOk H e1.obj = false) (r0 : JVal) (hr : redactJSON ver (.obj e1.obj) = .ok r0)
      (hsame : encodeCanon (dropEventID fmt r0) = text') (hid : idAndChecks H row { e1 with redacted := true } = .ok e)
  | redactedReparsed (hh : contentHashOk H e1.obj = false) (r0 : JVal) (hr : redactJSON ver (.obj e1.obj) = .ok r0)
      (hdiff : encodeCanon (dropEventID fmt r0) ≠ text')
      (ht : trustedCore H row ver true (encodeCanon (dropEventID fmt r0)) (dropEventID fmt r0) = .ok e)
      (hcf : checkFields e = .ok ())

theorem finishUntrusted_ok {H : Bytes → Bytes} {row : VGen.VersionRow} {fmt : Fmt} {ver text' : Bytes} {e1 e : PDU}
    (h : finishUntrusted H row fmt ver text' e1 = .ok e) :
    text'.length ≤ maxEventLength ∧ Outcome H row fmt ver text' e1 e := by
  unfold finishUntrusted at h
  split at h
  · cases h
  · rename_i hlen
    refine ⟨by omega, ?_⟩
    split at h
    · rename_i hh
      split at h
      · cases h
      · exact .intact hh h
    · rename_i hh
      have hh : contentHashOk H e1.obj = false := by simpa using hh
      unfold onMismatch at h
      split at h
      · split at h <;> cases h
      · cases h
      · rename_i r0 hr
        simp only at h
        split at h
        · rename_i hne
          split at h
          · cases h
          · rename_i e' ht
            split at h
            · cases h
            · rename_i hcf
              cases h
              exact .redactedReparsed hh r0 hr (by simpa using hne) ht hcf
        · rename_i heq
          exact .redactedSame hh r0 hr (by simpa using heq) h

/-! ## Table facts -/

/-- every version's trusted and untrusted constructors fill the same struct, and every keep struct
    has an `event_id` field -/
theorem table_facts : ∀ row ∈ VGen.roomVersions,
    (fmtOfName row.newEventFromUntrustedJSONFunc == fmtOfName row.newEventFromTrustedJSONFunc &&
     (fmtOfName row.newEventFromUntrustedJSONFunc).isSome &&
     (match algoByName row.redactionAlgorithm with
      | some a => a.fields.any (fun f => f.name == b!"event_id")
      | none => false)) = true := by
  decide

theorem row_facts {ver : Bytes} {row : VGen.VersionRow} (h : rowOf ver = some row) :
    fmtOfName row.newEventFromUntrustedJSONFunc = fmtOfName row.newEventFromTrustedJSONFunc ∧
    ∃ a, algoOf ver = some a ∧ a.fields.any (fun f => f.name == b!"event_id") = true := by
  have hmem : row ∈ VGen.roomVersions := List.mem_of_find?_eq_some h
  have := table_facts row hmem
  simp only [Bool.and_eq_true, beq_iff_eq] at this
  obtain ⟨⟨h1, _⟩, h3⟩ := this
  refine ⟨h1, ?_⟩
  cases ha : algoByName row.redactionAlgorithm with
  | none => rw [ha] at h3; cases h3
  | some a =>
    rw [ha] at h3
    exact ⟨a, by simp [algoOf, h, ha], h3⟩

/-- what every accepted untrusted event satisfies -/
structure Accepted (H : Bytes → Bytes) (ver : Bytes) (e : PDU) : Prop where
  hjson : e.json = encodeCanon (.obj e.obj)
  hfields : FieldsFromJSON e
  hver : e.ver = ver
  hid : e.fmt ≠ .v1 → ∃ row, rowOf ver = some row ∧ referenceID H row ver (.obj e.obj) = .ok e.f.eventIDRaw

theorem accepted_of_idAndChecks {H : Bytes → Bytes} {ver : Bytes} {row : VGen.VersionRow} (hrow : rowOf ver = some row)
    {e1 e : PDU} {kvs : EventParse.Obj} (hv : e1.ver = ver) (hj : e1.json = encodeCanon (.obj kvs)) (ho : e1.obj = kvs)
    {sfmt : Fmt} (hf : FieldsFrom sfmt e1) (hid0 : e1.fmt ≠ .v1 → e1.f.eventIDRaw = [])
    (h : idAndChecks H row e1 = .ok e) :
    Accepted H ver e ∧ e.obj = kvs ∧ e.redacted = e1.redacted ∧ e.fmt = e1.fmt ∧ FieldsFrom sfmt e := by
  obtain ⟨hs, hidv, _⟩ := idAndChecks_ok h
  have hobj : e.obj = e1.obj := by rw [hs]
  have hjson : e.json = e1.json := by rw [hs]
  have hver : e.ver = e1.ver := by rw [hs]
  have hfmt : e.fmt = e1.fmt := by rw [hs]
  have hred : e.redacted = e1.redacted := by rw [hs]
  refine ⟨⟨by rw [hjson, hobj, hj, ho], ⟨sfmt, sameButID_fieldsFrom hs hf⟩, by rw [hver, hv], ?_⟩, by rw [hobj, ho], hred, hfmt,
    sameButID_fieldsFrom hs hf⟩
  intro hne
  rw [hfmt] at hne
  refine ⟨row, hrow, ?_⟩
  have := hidv hne (hid0 hne)
  rw [hv] at this
  rw [hobj]; exact this

theorem redactJSON_obj {ver : Bytes} {j r0 : JVal} (h : redactJSON ver j = .ok r0) :
    ∃ a kvs rk, algoOf ver = some a ∧ redactObj a kvs = .ok (.obj rk) ∧ r0 = .obj rk := by
  unfold redactJSON at h
  cases ha : algoOf ver with
  | none => rw [ha] at h; cases h
  | some a =>
    rw [ha] at h
    simp only at h
    unfold redactWith at h
    split at h
    · obtain ⟨tf, cf, _, hv⟩ := redactObj_ok h
      exact ⟨a, _, _, rfl, by rw [← hv]; exact h, hv⟩
    · obtain ⟨tf, cf, _, hv⟩ := redactObj_ok h
      exact ⟨a, _, _, rfl, by rw [← hv]; exact h, hv⟩
    · cases h

/-- The common part of the three theorems: what `parseUntrusted` returns, by branch. -/
theorem parseUntrusted_cases {H : Bytes → Bytes} {ver text : Bytes} {e : PDU} (h : parseUntrusted H ver text = .ok e) :
    ∃ row fmt p kvs, rowOf ver = some row ∧ fmtOfName row.newEventFromUntrustedJSONFunc = some fmt ∧
      parse text = some p ∧ stripped fmt p.toJVal = .obj kvs ∧ Accepted H ver e ∧ e.fmt = fmt ∧
      ((contentHashOk H kvs = true ∧ e.redacted = false ∧ e.obj = kvs ∧ FieldsFrom fmt e) ∨
       (contentHashOk H kvs = false ∧ e.redacted = true ∧
          ∃ r0, redactJSON ver (.obj kvs) = .ok r0 ∧ e.json = encodeCanon (dropEventID fmt r0) ∧
            (e.obj = kvs ∨ dropEventID fmt r0 = .obj e.obj))) := by
  obtain ⟨row, fmt, p, e0, R, hfin⟩ := parseUntrusted_ok h
  obtain ⟨kvs, hj, f1, f2, f3, f4, f5, f6, f7⟩ := resetID_facts R.hcons
  obtain ⟨_, out⟩ := finishUntrusted_ok hfin
  refine ⟨row, fmt, p, kvs, R.hrow, R.hfmt, R.hparse, hj, ?_⟩
  rw [hj] at f4
  cases out with
  | intact hh hid =>
    obtain ⟨hA, hobj, hred, hfmt, hff⟩ := accepted_of_idAndChecks R.hrow f1 f4 f5 f6 (by rw [f2]; exact f7) hid
    exact ⟨hA, by rw [hfmt, f2], Or.inl ⟨by rw [← f5]; exact hh, by rw [hred, f3], hobj, hff⟩⟩
  | redactedSame hh r0 hr hsame hid =>
    have f6' : FieldsFrom fmt { resetID fmt e0 with redacted := true } := f6
    obtain ⟨hA, hobj, hred, hfmt, _⟩ := accepted_of_idAndChecks (e1 := { resetID fmt e0 with redacted := true }) R.hrow f1 f4 f5 f6'
      (by show (resetID fmt e0).fmt ≠ .v1 → _; rw [f2]; exact f7) hid
    refine ⟨hA, by rw [hfmt]; exact f2, Or.inr ⟨by rw [← f5]; exact hh, by rw [hred], r0, by rw [← f5]; exact hr, ?_, Or.inl hobj⟩⟩
    rw [hA.hjson, hobj, hsame, hj]
  | redactedReparsed hh r0 hr hdiff ht hcf =>
    obtain ⟨fmt', e0', hf', hc', hs, hidv⟩ := trustedCore_ok ht
    obtain ⟨kvs', gj, g1, g2, g3, g4, g5, g6⟩ := construct_ok hc'
    have hobj : e.obj = e0'.obj := by rw [hs]
    have hjson : e.json = e0'.json := by rw [hs]
    have hver : e.ver = e0'.ver := by rw [hs]
    have hfmt : e.fmt = e0'.fmt := by rw [hs]
    have hred : e.redacted = e0'.redacted := by rw [hs]
    obtain ⟨hfeq, a, ha, hev⟩ := row_facts R.hrow
    have hff : fmt' = fmt := by
      have := R.hfmt; rw [hfeq, hf'] at this; exact Option.some.inj this
    have hA : Accepted H ver e := by
      refine ⟨by rw [hjson, hobj, g4, g5, gj], sameButID_fields hs ⟨fmt', by unfold FieldsFrom; rw [g5, g6]⟩, by rw [hver, g1], ?_⟩
      intro hne
      rw [hfmt, g2, hff] at hne
      refine ⟨row, R.hrow, ?_⟩
      -- the stored ID of the re-parsed redacted JSON is empty: `event_id` was dropped
      have hraw : e0'.f.eventIDRaw = [] := by
        rw [g6]
        obtain ⟨a', kvs0, rk, ha', hro, hr0⟩ := redactJSON_obj hr
        have haa : a' = a := by rw [ha] at ha'; exact (Option.some.inj ha').symm
        subst haa
        obtain ⟨hT, _⟩ := C05.algoOf_ok ha
        have hdrop : dropEventID fmt r0 = .obj (deleteFirst b!"event_id" rk) := by
          unfold dropEventID
          have : (fmt == Fmt.v1) = false := by simp [hne]
          rw [if_neg (by simp [this]), hr0]
        rw [hdrop] at gj
        have hk : kvs' = deleteFirst b!"event_id" rk := by injection gj with h1; exact h1.symm
        have hm := no_event_id_member hT hev hro
        rw [← hk] at hm
        simp only [decodeFields, hm, seqString, List.foldl_nil]
      have := hidv (by rw [g2, hff]; exact hne) hraw
      rw [g1] at this
      rw [hobj]; exact this
    refine ⟨hA, by rw [hfmt, g2, hff], Or.inr ⟨by rw [← f5]; exact hh, by rw [hred, g3], r0, by rw [← f5]; exact hr, ?_, Or.inr ?_⟩⟩
    · rw [hjson, g4]
    · rw [hobj, g5, gj]

/-! ## The property theorems -/

/-- **Accessors only see the JSON.**  An event returned by `NewEventFromUntrustedJSON` holds as
    `JSON()` the canonical encoding of a value `e.obj`; every accessor other than the event ID
    reports what the struct decoding reads from that value; in the later formats the event ID is the
    reference hash of that value.  (So a key that is not in the JSON is not observable.) -/
theorem accessors_only_see_json {H : Bytes → Bytes} {ver text : Bytes} {e : PDU} (h : parseUntrusted H ver text = .ok e) :
    e.json = encodeCanon (.obj e.obj) ∧ FieldsFromJSON e ∧ e.ver = ver ∧
    (e.fmt ≠ .v1 → ∃ row, rowOf ver = some row ∧ referenceID H row ver (.obj e.obj) = .ok e.f.eventIDRaw) := by
  obtain ⟨_, _, _, _, _, _, _, _, hA, _, _⟩ := parseUntrusted_cases h
  exact ⟨hA.hjson, hA.hfields, hA.hver, hA.hid⟩

/-- **Hash matches ⇒ intact.**  If `hashes.sha256` is the hash of the hashed fields, the event is
    returned not redacted and holds exactly the stripped input (every member intact; `JSON()` is
    its canonical form). -/
theorem hash_match_intact {H : Bytes → Bytes} {ver text : Bytes} {e : PDU} (h : parseUntrusted H ver text = .ok e)
    {row : VGen.VersionRow} {fmt : Fmt} {p : PVal} {kvs : EventParse.Obj}
    (hrow : rowOf ver = some row) (hfmt : fmtOfName row.newEventFromUntrustedJSONFunc = some fmt)
    (hp : parse text = some p) (hs : stripped fmt p.toJVal = .obj kvs) (hh : contentHashOk H kvs = true) :
    e.redacted = false ∧ e.obj = kvs ∧ e.json = encodeCanon (.obj kvs) := by
  obtain ⟨row', fmt', p', kvs', hrow', hfmt', hp', hs', hA, _, hcase⟩ := parseUntrusted_cases h
  have e1 : row' = row := by rw [hrow] at hrow'; exact (Option.some.inj hrow').symm
  subst e1
  have e2 : fmt' = fmt := by rw [hfmt] at hfmt'; exact (Option.some.inj hfmt').symm
  subst e2
  have e3 : p' = p := by rw [hp] at hp'; exact (Option.some.inj hp').symm
  subst e3
  have e4 : kvs' = kvs := by rw [hs] at hs'; injection hs' with h1; exact h1.symm
  subst e4
  rcases hcase with ⟨_, hr, ho, _⟩ | ⟨hf, _⟩
  · exact ⟨hr, ho, by rw [hA.hjson, ho]⟩
  · rw [hh] at hf; cases hf

/-- **Hash mismatch ⇒ redacted form only.**  If the hash does not match, the event is flagged
    redacted and its `JSON()` is the canonical encoding of the room version's redaction of the
    stripped input (with `event_id` dropped in the later formats): by `C05.redact_exact` no top-level
    key and no content key outside the keep-lists is in it, and by `accessors_only_see_json` no
    accessor reports anything that is not in that JSON. -/
theorem hash_mismatch_redacted {H : Bytes → Bytes} {ver text : Bytes} {e : PDU} (h : parseUntrusted H ver text = .ok e)
    {row : VGen.VersionRow} {fmt : Fmt} {p : PVal} {kvs : EventParse.Obj}
    (hrow : rowOf ver = some row) (hfmt : fmtOfName row.newEventFromUntrustedJSONFunc = some fmt)
    (hp : parse text = some p) (hs : stripped fmt p.toJVal = .obj kvs) (hh : contentHashOk H kvs = false) :
    e.redacted = true ∧ ∃ r0, redactJSON ver (.obj kvs) = .ok r0 ∧ e.json = encodeCanon (dropEventID fmt r0) ∧
      encodeCanon (.obj e.obj) = encodeCanon (dropEventID fmt r0) := by
  obtain ⟨row', fmt', p', kvs', hrow', hfmt', hp', hs', hA, _, hcase⟩ := parseUntrusted_cases h
  have e1 : row' = row := by rw [hrow] at hrow'; exact (Option.some.inj hrow').symm
  subst e1
  have e2 : fmt' = fmt := by rw [hfmt] at hfmt'; exact (Option.some.inj hfmt').symm
  subst e2
  have e3 : p' = p := by rw [hp] at hp'; exact (Option.some.inj hp').symm
  subst e3
  have e4 : kvs' = kvs := by rw [hs] at hs'; injection hs' with h1; exact h1.symm
  subst e4
  rcases hcase with ⟨hf, _⟩ | ⟨_, hr, r0, hred, hj, _⟩
  · rw [hh] at hf; cases hf
  · exact ⟨hr, r0, hred, hj, by rw [← hA.hjson, hj]⟩

/-- what an accepted event redacts to, given what the stripped input redacts to -/
theorem redaction_of_accepted {H : Bytes → Bytes} {ver text : Bytes} {e : PDU} (h : parseUntrusted H ver text = .ok e)
    {row : VGen.VersionRow} {fmt : Fmt} {p : PVal} {kvs : EventParse.Obj}
    (hrow : rowOf ver = some row) (hfmt : fmtOfName row.newEventFromUntrustedJSONFunc = some fmt)
    (hp : parse text = some p) (hs : stripped fmt p.toJVal = .obj kvs)
    {rk : EventParse.Obj} (hr : redactJSON ver (.obj kvs) = .ok (.obj rk)) (hnoid : lookupExact rk b!"event_id" = none) :
    redactJSON ver (.obj e.obj) = .ok (.obj rk) ∧ e.fmt = fmt ∧
    (e.fmt ≠ .v1 → referenceID H row ver (.obj e.obj) = .ok e.f.eventIDRaw) := by
  obtain ⟨row', fmt', p', kvs', hrow', hfmt', hp', hs', hA, hef, hcase⟩ := parseUntrusted_cases h
  have e1 : row' = row := by rw [hrow] at hrow'; exact (Option.some.inj hrow').symm
  subst e1
  have e2 : fmt' = fmt := by rw [hfmt] at hfmt'; exact (Option.some.inj hfmt').symm
  subst e2
  have e3 : p' = p := by rw [hp] at hp'; exact (Option.some.inj hp').symm
  subst e3
  have e4 : kvs' = kvs := by rw [hs] at hs'; injection hs' with h1; exact h1.symm
  subst e4
  have hidr : e.fmt ≠ .v1 → referenceID H row' ver (.obj e.obj) = .ok e.f.eventIDRaw := by
    intro hne
    obtain ⟨row2, hrow2, hid⟩ := hA.hid hne
    have : row2 = row' := by rw [hrow] at hrow2; exact (Option.some.inj hrow2).symm
    subst this
    exact hid
  refine ⟨?_, hef, hidr⟩
  rcases hcase with ⟨_, _, ho, _⟩ | ⟨_, _, r0, hred, _, ho | hdrop⟩
  · rw [ho]; exact hr
  · rw [ho]; exact hr
  · have hr0 : r0 = .obj rk := by rw [hr] at hred; injection hred with h1; exact h1.symm
    subst hr0
    have hsame : dropEventID fmt' (.obj rk) = .obj rk := by
      unfold dropEventID
      split
      · rfl
      · simp only [deleteFirst_absent _ _ hnoid]
    rw [hsame] at hdrop
    have : e.obj = rk := by injection hdrop with h1; exact h1.symm
    rw [this]
    exact C05.redact_idem hr

/-! ### the `event_id` re-emitted by the keep struct -/

/-- the keep struct's `event_id` field of a registered version: present, and a raw pass-through -/
theorem event_id_field {ver : Bytes} {a : Algo} (ha : algoOf ver = some a)
    (hev : a.fields.any (fun f => f.name == b!"event_id") = true) :
    tablesOk a = true ∧ ∃ g ∈ a.fields, g.name = b!"event_id" ∧ g.kind = .raw := by
  obtain ⟨hT, hS⟩ := C05.algoOf_ok ha
  obtain ⟨g, hg, hgn⟩ := List.any_eq_true.mp hev
  have hgn' : g.name = b!"event_id" := by simpa using hgn
  refine ⟨hT, g, hg, hgn', ?_⟩
  have hall : a.fields.all (fun f => f.kind == .raw || f.name == b!"type" || f.name == b!"content") = true := by
    simp only [C05.shapeOk, Bool.and_eq_true] at hS; exact hS.1.2
  have := List.all_eq_true.mp hall g hg
  rw [hgn'] at this
  simpa using this

theorem deleteKeys_sub (ks : List Bytes) (kvs : EventParse.Obj) : ∀ kv ∈ deleteKeys ks kvs, kv ∈ kvs := by
  unfold deleteKeys
  induction ks generalizing kvs with
  | nil => intro kv h; exact h
  | cons k rest ih =>
    intro kv h
    simp only [List.foldl_cons] at h
    exact deleteFirst_sub k kvs kv (ih _ kv h)

/-- the members left after the receiver's stripping carry grammatical number literals -/
theorem stripped_numsOk {fmt : Fmt} {text : Bytes} {p : PVal} {kvs : EventParse.Obj} (hp : parse text = some p)
    (hs : stripped fmt p.toJVal = .obj kvs) : numsOkMembers kvs = true := by
  have hn := parse_numsOk hp
  unfold stripped at hs
  split at hs
  · rename_i kvs0 hj
    rw [hj] at hn
    simp only [JVal.numsOk] at hn
    have hk : kvs = deleteKeys (stripKeys fmt) kvs0 := by injection hs with h; exact h.symm
    rw [allNums_iff, hk]
    intro kv hkv
    exact (allNums_iff kvs0).mp hn kv (deleteKeys_sub _ _ kv hkv)
  · rename_i hno
    exact absurd hs (hno _)

/-- What the identity of an accepted event (formats with a computed ID) is computed from: the
    redaction of the stripped input with the re-emitted `event_id` dropped — provided an event that is
    returned *not redacted* carries no case variant of `event_id` (`hclean`).  A redacted event never
    keeps one: it is either re-parsed from its redaction without `event_id`, or its redaction changed
    nothing, and then there was no variant (`no_variant_of_same_canon`). -/
theorem identity_of_accepted {H : Bytes → Bytes} {ver text : Bytes} {e : PDU} (h : parseUntrusted H ver text = .ok e)
    {row : VGen.VersionRow} {fmt : Fmt} {p : PVal} {kvs : EventParse.Obj}
    (hrow : rowOf ver = some row) (hfmt : fmtOfName row.newEventFromUntrustedJSONFunc = some fmt) (hv : fmt ≠ .v1)
    (hp : parse text = some p) (hs : stripped fmt p.toJVal = .obj kvs)
    {rk : EventParse.Obj} (hr : redactJSON ver (.obj kvs) = .ok (.obj rk))
    (hclean : e.redacted = false → lookupExact rk b!"event_id" = none) :
    redactJSON ver (.obj e.obj) = .ok (.obj (deleteFirst b!"event_id" rk)) ∧
    referenceID H row ver (.obj e.obj) = .ok e.f.eventIDRaw := by
  obtain ⟨row', fmt', p', kvs', hrow', hfmt', hp', hs', hA, hef, hcase⟩ := parseUntrusted_cases h
  have e1 : row' = row := by rw [hrow] at hrow'; exact (Option.some.inj hrow').symm
  subst e1
  have e2 : fmt' = fmt := by rw [hfmt] at hfmt'; exact (Option.some.inj hfmt').symm
  subst e2
  have e3 : p' = p := by rw [hp] at hp'; exact (Option.some.inj hp').symm
  subst e3
  have e4 : kvs' = kvs := by rw [hs] at hs'; injection hs' with h1; exact h1.symm
  subst e4
  have hidr : referenceID H row' ver (.obj e.obj) = .ok e.f.eventIDRaw := by
    obtain ⟨row2, hrow2, hid⟩ := hA.hid (by rw [hef]; exact hv)
    have : row2 = row' := by rw [hrow] at hrow2; exact (Option.some.inj hrow2).symm
    subst this
    exact hid
  refine ⟨?_, hidr⟩
  obtain ⟨_, a, ha, hev⟩ := row_facts hrow
  obtain ⟨hT, g, hg, hgn, hgk⟩ := event_id_field ha hev
  have hro : redactObj a kvs' = .ok (.obj rk) := by simpa [redactJSON, ha, redactWith] using hr
  have hdrop : ∀ r, dropEventID fmt' (.obj r) = .obj (deleteFirst b!"event_id" r) := by
    intro r; unfold dropEventID
    rw [if_neg (by simp [hv])]
  -- an event that keeps its received members has no variant of `event_id`
  have hkeep : lookupExact rk b!"event_id" = none → redactJSON ver (.obj kvs') = .ok (.obj (deleteFirst b!"event_id" rk)) := by
    intro hn; rw [deleteFirst_absent _ _ hn]; exact hr
  rcases hcase with ⟨_, hred, ho, _⟩ | ⟨_, _, r0, hredj, hj, ho | hdropped⟩
  · rw [ho]; exact hkeep (hclean hred)
  · have hr0 : r0 = .obj rk := by rw [hr] at hredj; injection hredj with h1; exact h1.symm
    subst hr0
    rw [ho]
    apply hkeep
    apply no_variant_of_same_canon hT hg hgn hgk (stripped_numsOk hp hs) hro
    rw [← hdrop, ← hj, hA.hjson, ho]
  · have hr0 : r0 = .obj rk := by rw [hr] at hredj; injection hredj with h1; exact h1.symm
    subst hr0
    rw [hdrop] at hdropped
    have ho : e.obj = deleteFirst b!"event_id" rk := by injection hdropped with h1; exact h1.symm
    -- the reference of the re-parsed event was computed, so its redaction succeeded
    rw [ho] at hidr ⊢
    unfold referenceID at hidr
    split at hidr
    · cases hidr
    · rename_i r hrr
      have hrr' : redactObj a (deleteFirst b!"event_id" rk) = .ok (.obj r) := by
        simpa [redactJSON, ha, redactWith] using hrr
      rw [hrr, redactObj_dropEventID hT hg hgn hgk hro hrr']
    · cases hidr

/-- **Tampering with redactable material keeps the identity.**  Two received events (same room
    version, event-ID format 2 or 3) whose stripped forms have the same redaction — up to the
    `event_id` member that the keep struct re-emits for a case variant such as `Event_id`
    (`hsame`) — get the same event ID, and every signature check gives the same verdict on both,
    whichever of them passed the content-hash check.

    Side condition (`hc1`, `hc2`): an event that is returned *not redacted* (its content hash matched)
    carries no case variant of `event_id`.  It holds of every event `EventBuilder.Build` produces and of
    every copy of such an event whose hashed part is untouched, i.e. of the "original" and of every
    hash-preserving tampering the property quantifies over; a tampered copy that *adds* `Event_id`
    fails the hash check, is redacted, and is covered (its variant is dropped: commit c0dfbd8).
    The condition cannot be removed: see `tamper_identity_variant_counterexample` below. -/
theorem tamper_redactable_same_identity {H : Bytes → Bytes} {ver t1 t2 : Bytes} {e1 e2 : PDU}
    (h1 : parseUntrusted H ver t1 = .ok e1) (h2 : parseUntrusted H ver t2 = .ok e2)
    {row : VGen.VersionRow} {fmt : Fmt} {p1 p2 : PVal} {k1 k2 : EventParse.Obj}
    (hrow : rowOf ver = some row) (hfmt : fmtOfName row.newEventFromUntrustedJSONFunc = some fmt) (hv : fmt ≠ .v1)
    (hp1 : parse t1 = some p1) (hp2 : parse t2 = some p2)
    (hs1 : stripped fmt p1.toJVal = .obj k1) (hs2 : stripped fmt p2.toJVal = .obj k2)
    {rk1 rk2 : EventParse.Obj} (hr1 : redactJSON ver (.obj k1) = .ok (.obj rk1)) (hr2 : redactJSON ver (.obj k2) = .ok (.obj rk2))
    (hsame : deleteFirst b!"event_id" rk1 = deleteFirst b!"event_id" rk2)
    (hc1 : e1.redacted = false → lookupExact rk1 b!"event_id" = none)
    (hc2 : e2.redacted = false → lookupExact rk2 b!"event_id" = none) :
    e1.f.eventIDRaw = e2.f.eventIDRaw ∧
    ∀ verify name kid pk, C05.sigValid verify ver (.obj e1.obj) name kid pk = C05.sigValid verify ver (.obj e2.obj) name kid pk := by
  obtain ⟨ha1, hi1⟩ := identity_of_accepted h1 hrow hfmt hv hp1 hs1 hr1 hc1
  obtain ⟨ha2, hi2⟩ := identity_of_accepted h2 hrow hfmt hv hp2 hs2 hr2 hc2
  rw [hsame] at ha1
  constructor
  · simp only [referenceID, ha1] at hi1
    simp only [referenceID, ha2] at hi2
    rw [hi1] at hi2
    injection hi2
  · intro verify name kid pk
    simp only [C05.sigValid, signingPayload, referenceBytes, signaturesOf, ha1, ha2]

/-- The case the side condition of `tamper_redactable_same_identity` leaves out and in which the
    conclusion still holds: two events that both passed the hash check and have the same redaction
    (whatever it contains) have the same ID and signature verdicts. -/
theorem same_redaction_same_identity_intact {H : Bytes → Bytes} {ver t1 t2 : Bytes} {e1 e2 : PDU}
    (h1 : parseUntrusted H ver t1 = .ok e1) (h2 : parseUntrusted H ver t2 = .ok e2)
    {row : VGen.VersionRow} {fmt : Fmt} {p1 p2 : PVal} {k1 k2 : EventParse.Obj}
    (hrow : rowOf ver = some row) (hfmt : fmtOfName row.newEventFromUntrustedJSONFunc = some fmt) (hv : fmt ≠ .v1)
    (hp1 : parse t1 = some p1) (hp2 : parse t2 = some p2)
    (hs1 : stripped fmt p1.toJVal = .obj k1) (hs2 : stripped fmt p2.toJVal = .obj k2)
    {rk : EventParse.Obj} (hr1 : redactJSON ver (.obj k1) = .ok (.obj rk)) (hr2 : redactJSON ver (.obj k2) = .ok (.obj rk))
    (hi1 : e1.redacted = false) (hi2 : e2.redacted = false) :
    e1.f.eventIDRaw = e2.f.eventIDRaw ∧
    ∀ verify name kid pk, C05.sigValid verify ver (.obj e1.obj) name kid pk = C05.sigValid verify ver (.obj e2.obj) name kid pk := by
  have key : ∀ {t : Bytes} {e : PDU} {p : PVal} {k : EventParse.Obj}, parseUntrusted H ver t = .ok e → parse t = some p →
      stripped fmt p.toJVal = .obj k → redactJSON ver (.obj k) = .ok (.obj rk) → e.redacted = false →
      redactJSON ver (.obj e.obj) = .ok (.obj rk) ∧ referenceID H row ver (.obj e.obj) = .ok e.f.eventIDRaw := by
    intro t e p k h hp hs hr hi
    obtain ⟨row', fmt', p', kvs', hrow', hfmt', hp', hs', hA, hef, hcase⟩ := parseUntrusted_cases h
    have e1 : row' = row := by rw [hrow] at hrow'; exact (Option.some.inj hrow').symm
    subst e1
    have e2 : fmt' = fmt := by rw [hfmt] at hfmt'; exact (Option.some.inj hfmt').symm
    subst e2
    have e3 : p' = p := by rw [hp] at hp'; exact (Option.some.inj hp').symm
    subst e3
    have e4 : kvs' = k := by rw [hs] at hs'; injection hs' with h1; exact h1.symm
    subst e4
    have hidr : referenceID H row' ver (.obj e.obj) = .ok e.f.eventIDRaw := by
      obtain ⟨row2, hrow2, hid⟩ := hA.hid (by rw [hef]; exact hv)
      have : row2 = row' := by rw [hrow] at hrow2; exact (Option.some.inj hrow2).symm
      subst this
      exact hid
    rcases hcase with ⟨_, _, ho, _⟩ | ⟨_, hred, _⟩
    · rw [ho]; exact ⟨hr, by rw [← ho]; exact hidr⟩
    · rw [hi] at hred; cases hred
  obtain ⟨ha1, hd1⟩ := key h1 hp1 hs1 hr1 hi1
  obtain ⟨ha2, hd2⟩ := key h2 hp2 hs2 hr2 hi2
  constructor
  · simp only [referenceID, ha1] at hd1
    simp only [referenceID, ha2] at hd2
    rw [hd1] at hd2
    injection hd2
  · intro verify name kid pk
    simp only [C05.sigValid, signingPayload, referenceBytes, signaturesOf, ha1, ha2]

/-- The earlier, weaker form (kept under its name): the same redaction on both sides and no `event_id`
    member in it, i.e. neither event carries a case variant of `event_id`.  A corollary of
    `tamper_redactable_same_identity`. -/
theorem tamper_redactable_same_identity_partial {H : Bytes → Bytes} {ver t1 t2 : Bytes} {e1 e2 : PDU}
    (h1 : parseUntrusted H ver t1 = .ok e1) (h2 : parseUntrusted H ver t2 = .ok e2)
    {row : VGen.VersionRow} {fmt : Fmt} {p1 p2 : PVal} {k1 k2 : EventParse.Obj}
    (hrow : rowOf ver = some row) (hfmt : fmtOfName row.newEventFromUntrustedJSONFunc = some fmt) (hv : fmt ≠ .v1)
    (hp1 : parse t1 = some p1) (hp2 : parse t2 = some p2)
    (hs1 : stripped fmt p1.toJVal = .obj k1) (hs2 : stripped fmt p2.toJVal = .obj k2)
    {rk : EventParse.Obj} (hr1 : redactJSON ver (.obj k1) = .ok (.obj rk)) (hr2 : redactJSON ver (.obj k2) = .ok (.obj rk))
    (hnoid : lookupExact rk b!"event_id" = none) :
    e1.f.eventIDRaw = e2.f.eventIDRaw ∧
    ∀ verify name kid pk, C05.sigValid verify ver (.obj e1.obj) name kid pk = C05.sigValid verify ver (.obj e2.obj) name kid pk :=
  tamper_redactable_same_identity h1 h2 hrow hfmt hv hp1 hp2 hs1 hs2 hr1 hr2 rfl (fun _ => hnoid) (fun _ => hnoid)

/-! ## Non-vacuity: concrete received events (room version 10, toy hash `H0 _ = []`) -/

def exText (h : String) : Bytes :=
  ("{\"auth_events\":[],\"content\":{\"body\":\"x\"},\"depth\":1,\"hashes\":{\"sha256\":\"" ++ h ++
   "\"},\"origin_server_ts\":1,\"prev_events\":[],\"room_id\":\"!r:h\",\"sender\":\"@a:h\",\"type\":\"m.x\",\"unsigned\":{\"age\":1}}"
  ).toList.flatMap (fun c => utf8Encode c.toNat)

def H0 : Bytes → Bytes := fun _ => []

/-- hash matches (`""` decodes to the empty digest `H0` returns): accepted, not redacted, content intact -/
example : (match parseUntrusted H0 b!"10" (exText "") with
  | .ok e => !e.redacted && e.f.type == b!"m.x" && (e.f.content.map encodeCanon == some b!"{\"body\":\"x\"}") && e.f.unsigned.isNone
  | _ => false) = true := by decide +kernel

/-- hash does not match: accepted, redacted, content emptied -/
example : (match parseUntrusted H0 b!"10" (exText "QUJD") with
  | .ok e => e.redacted && e.f.type == b!"m.x" && (e.f.content.map encodeCanon == some b!"{}")
  | _ => false) = true := by decide +kernel

/-! ## `tamper_redactable_same_identity`: an instance, and why its side condition is needed

Toy hash `H1 b = [length of b mod 256]` (enough to tell the reference bytes apart).  Room version 10. -/

def H1 : Bytes → Bytes := fun b => [UInt8.ofNat b.length]

/-- an event with an optional case variant `Event_id`, a content body and a declared hash -/
def exEv (variant : Bool) (body h : String) : Bytes :=
  ("{" ++ (if variant then "\"Event_id\":\"$x\"," else "") ++ "\"auth_events\":[],\"content\":{\"body\":\"" ++ body ++
   "\"},\"depth\":1,\"hashes\":{\"sha256\":\"" ++ h ++
   "\"},\"origin_server_ts\":1,\"prev_events\":[],\"room_id\":\"!r:h\",\"sender\":\"@a:h\",\"type\":\"m.x\"}"
  ).toList.flatMap (fun c => utf8Encode c.toNat)

/-- canonical bytes of the redaction of the stripped form of a text (room version 10): as it is, and with `event_id` dropped -/
def exRedaction (t : Bytes) : Option (Bytes × Bytes) :=
  match parse t with
  | some p =>
    match redactJSON b!"10" (stripped .v2 p.toJVal) with
    | .ok (.obj rk) => some (encodeCanon (.obj rk), encodeCanon (.obj (deleteFirst b!"event_id" rk)))
    | _ => none
  | none => none

/-- The hypotheses of `tamper_redactable_same_identity` with DIFFERENT redactions on the two sides (the case the
    `_partial` form did not cover): a genuine event (hash matches, no variant) and a copy to which `Event_id` was
    added.  The copy fails the hash check, its redaction carries the re-emitted `event_id`, the two redactions
    agree once it is dropped — and both get the same event ID, as the theorem says. -/
example : (match parseUntrusted H1 b!"10" (exEv false "x" "hw"), parseUntrusted H1 b!"10" (exEv true "x" "hw") with
  | .ok e, .ok t => !e.redacted && t.redacted && e.f.eventIDRaw == t.f.eventIDRaw && !e.f.eventIDRaw.isEmpty
  | _, _ => false) = true := by decide +kernel

example : (match exRedaction (exEv false "x" "hw"), exRedaction (exEv true "x" "hw") with
  | some (r1, d1), some (r2, d2) => r1 != r2 && d1 == d2
  | _, _ => false) = true := by decide +kernel

/-- **Why the side condition is needed** (`tamper_identity_variant_counterexample`).  An event whose SENDER put
    a case variant `Event_id` into it and hashed it (the hash matches: it is returned not redacted, so `hc1`
    fails), and a copy of it with only redactable content altered (hash mismatch).  The two have the SAME
    redaction, yet get DIFFERENT event IDs: the intact event's reference hash covers the re-emitted `event_id`,
    the re-parsed redacted copy's does not.  Replayed on the Go code (room version 10, real SHA-256):
    `$si3leqN6sEe5uZjub5Omi8dQwFNHlF8rnB0tETZ34wI` vs `$3zoncHWlgVBMjowEQsafT_q1-qgCFhrIfJOdLmHvsJ4`.
    Such an event is not one `EventBuilder.Build` produces; the root is that the redaction keep struct matches
    keys case-insensitively (C05's stated domain restriction). -/
example : (match parseUntrusted H1 b!"10" (exEv true "x" "lw"), parseUntrusted H1 b!"10" (exEv true "yy" "lw") with
  | .ok a, .ok b => !a.redacted && b.redacted && a.f.eventIDRaw != b.f.eventIDRaw
  | _, _ => false) = true := by decide +kernel

example : (match exRedaction (exEv true "x" "lw"), exRedaction (exEv true "yy" "lw") with
  | some (r1, _), some (r2, _) => r1 == r2
  | _, _ => false) = true := by decide +kernel

end V.C04
