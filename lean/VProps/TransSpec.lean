/-
  Translated-function obligations for spec/servername.go.
-/
import VGen.TransSpec
import VModel.Ident
import VModel.Event
namespace V.Trans.Spec

/-- `isDNSNameChar` as translated from the Go source = the model's predicate, on every byte (a rune below 256) -/
theorem isDNSNameChar_eq_model (c : UInt8) :
    VGen.TransSpec.isDNSNameChar (Int.ofNat c.toNat) = V.Ident.isDNSNameChar c := by
  revert c; apply GoSem.forall_uint8; decide +kernel

/-- … and the event-parsing model's copy of it -/
theorem isDNSNameChar_eq_event_model (c : UInt8) :
    VGen.TransSpec.isDNSNameChar (Int.ofNat c.toNat) = V.isDNSNameChar c := by
  revert c; apply GoSem.forall_uint8; decide +kernel

/-- for every rune (any integer): exactly ASCII letters, digits, `-` and `.`; in particular no rune ≥ 128 -/
theorem isDNSNameChar_iff (r : Int) :
    VGen.TransSpec.isDNSNameChar r = true ↔
      (65 ≤ r ∧ r ≤ 90) ∨ (97 ≤ r ∧ r ≤ 122) ∨ (48 ≤ r ∧ r ≤ 57) ∨ r = 45 ∨ r = 46 := by
  unfold VGen.TransSpec.isDNSNameChar
  by_cases h1 : (65 ≤ r ∧ r ≤ 90) <;> by_cases h2 : (97 ≤ r ∧ r ≤ 122) <;> by_cases h3 : (48 ≤ r ∧ r ≤ 57) <;>
    by_cases h4 : r = 45 <;> by_cases h5 : r = 46 <;> simp_all <;> omega

end V.Trans.Spec
