/-
  C20 — Login tokens authenticate the issuing server and user, and expire.

  Model: VModel.Tokens (macaroon = (id, caveats, sig), abstract keyed function, clock parameter).
  Part 1: regenerated obligations — what tokens.go / tokens_handlers.go say NOW is what the model mirrors.
  Part 2: the property theorems.
-/
import VModel.Tokens
import VProofs.Tokens
import VGen.C20
namespace V.C20
open V V.Tokens List

/-! ## Part 1 — regenerated obligations (tools/extract/c20.go → VGen.C20) -/

/-- The clock is read as Unix seconds at issue and at validation (not, e.g., `.Second()`): this is what
    makes the model's `now : Int` with `now' - now` = elapsed seconds the right abstraction. -/
theorem clock_is_unix_seconds :
    VGen.tokensNowExprIssue = "int(time.Now().Unix())" ∧ VGen.tokensNowExprVerify = "int(time.Now().Unix())" :=
  ⟨rfl, rfl⟩

theorem consts_match_model :
    VGen.tokensGenBytes = Gen ∧ VGen.tokensUserPrefixBytes = UserPrefix ∧ VGen.tokensTimePrefixBytes = TimePrefix
    ∧ VGen.tokensDefaultDuration = defaultDuration ∧ VGen.tokensMacaroonVersion = "macaroon.V2"
    ∧ VGen.tokensGen = "gen = 1" ∧ VGen.tokensUserPrefix = "user_id = " ∧ VGen.tokensTimePrefix = "time < " :=
  ⟨rfl, rfl, rfl, rfl, rfl, rfl, rfl, rfl⟩

/-- `verifyCaveats` is, statement for statement, the loop `caveatLoop`/`classify` mirrors: the three
    kinds with bits 1, 2, 4, early return on a failing / unknown caveat, duplicate rejection, `== 7`. -/
theorem verifyCaveats_source : VGen.tokensSkelVerifyCaveats = [
  "var verified uint8",
  "now := int(time.Now().Unix())",
  "for _, caveat := range caveats {",
  "var bit uint8",
  "switch {",
  "case caveat == Gen:",
  "bit = 1",
  "case strings.HasPrefix(caveat, UserPrefix):",
  "if caveat[len(UserPrefix):] != userID {",
  "return errors.New(\"Token was issued for a different user\")",
  "}",
  "bit = 2",
  "case strings.HasPrefix(caveat, TimePrefix):",
  "if !verifyExpiry(caveat[len(TimePrefix):], now) {",
  "return errors.New(\"Token has expired\")",
  "}",
  "bit = 4",
  "default:",
  "return errors.New(\"Unknown caveat present\")",
  "}",
  "if verified&bit != 0 {",
  "return errors.New(\"Duplicate caveat present\")",
  "}",
  "verified |= bit",
  "}",
  "if verified == 7 {",
  "return nil",
  "}",
  "return errors.New(\"Required caveats not present\")"] := rfl

theorem verifyExpiry_source : VGen.tokensSkelVerifyExpiry = [
  "expiry, err := strconv.Atoi(t)",
  "if err != nil {",
  "return false",
  "}",
  "return now < expiry"] := rfl

theorem validate_source : VGen.tokensSkelValidate = [
  "mac, err := deSerializeMacaroon(token)",
  "if err != nil {",
  "return errors.New(\"Token does not represent a valid macaroon\")",
  "}",
  "caveats, err := mac.VerifySignature(op.ServerPrivateKey, nil)",
  "if err != nil {",
  "return errors.New(\"Provided token was not issued by this server\")",
  "}",
  "err = verifyCaveats(caveats, op.UserID)",
  "if err != nil {",
  "return errors.New(\"Provided token not authorized\")",
  "}",
  "return nil"] := rfl

theorem generate_source :
    VGen.tokensSkelGenerate = [
      "if !isValidTokenOptions(op) {",
      "return \"\", errors.New(\"The given TokenOptions is invalid\")",
      "}",
      "mac, err := generateBaseMacaroon(op.ServerPrivateKey, op.ServerName, op.UserID)",
      "if err != nil {",
      "return \"\", err",
      "}",
      "if op.Duration == 0 {",
      "op.Duration = defaultDuration",
      "}",
      "now := int(time.Now().Unix())",
      "expiryCaveat := TimePrefix + strconv.Itoa(now+op.Duration)",
      "err = mac.AddFirstPartyCaveat([]byte(expiryCaveat))",
      "if err != nil {",
      "return \"\", macaroonError(err)",
      "}",
      "urlSafeEncode, err := serializeMacaroon(*mac)",
      "if err != nil {",
      "return \"\", macaroonError(err)",
      "}",
      "return urlSafeEncode, nil"]
    ∧ VGen.tokensSkelBase = [
      "mac, err := macaroon.New(secret, []byte(userID), ServerName, macaroonVersion)",
      "if err != nil {",
      "return nil, macaroonError(err)",
      "}",
      "err = mac.AddFirstPartyCaveat([]byte(Gen))",
      "if err != nil {",
      "return nil, macaroonError(err)",
      "}",
      "err = mac.AddFirstPartyCaveat([]byte(UserPrefix + userID))",
      "if err != nil {",
      "return nil, macaroonError(err)",
      "}",
      "return mac, nil"]
    ∧ VGen.tokensSkelValidOptions = [
      "if op.ServerPrivateKey == nil || op.ServerName == \"\" || op.UserID == \"\" {",
      "return false",
      "}",
      "return true"]
    ∧ VGen.tokensSkelGetUser = [
      "mac, err := deSerializeMacaroon(token)",
      "if err != nil {",
      "return",
      "}",
      "user = string(mac.Id()[:])",
      "return"] :=
  ⟨rfl, rfl, rfl, rfl⟩

/-! ## Part 2 — property theorems -/

section
variable {K : Type} [DecidableEq K] (S : MacScheme K)

/-- **Exact characterisation of acceptance.**  A decoded token validates for `op` at clock reading `now`
    iff its signature is the chain of its own identifier and caveats under `op`'s key, it carries no
    third-party caveat, and its caveats are — in any order, nothing else — `gen = 1`, `user_id = <op.user>`
    and one `time < s` with `s` a decimal int64 strictly after `now`.  (No idealisation needed.) -/
theorem validate_iff (op : TokenOptions) (t : Token K) (now : Int) :
    validate S op (some t) now = .ok () ↔
      t.sig = chain S op.keyBytes t.id (t.caveats.map (·.cid)) ∧ (∀ c ∈ t.caveats, c.vid = []) ∧
      ∃ s e, atoi s = some e ∧ now < e ∧ t.caveats.map (·.cid) ~ [Gen, UserPrefix ++ op.user, TimePrefix ++ s] := by
  unfold validate
  simp only
  constructor
  · intro h
    split at h
    · cases h
    · rename_i conds hs
      obtain ⟨h1, rfl, h3⟩ := (verifySig_iff S _ t conds).1 hs
      split at h
      · cases h
      · rename_i hc
        obtain ⟨s, hx, hp⟩ := (verifyCaveats_iff _ _ _).1 hc
        obtain ⟨e, he, hlt⟩ := (verifyExpiry_iff s now).1 hx
        exact ⟨h3, h1, s, e, he, hlt, hp⟩
  · rintro ⟨h3, h1, s, e, he, hlt, hp⟩
    have hs : verifySig S op.keyBytes t = some (t.caveats.map (·.cid)) := (verifySig_iff S _ t _).2 ⟨h1, rfl, h3⟩
    have hc : verifyCaveats (t.caveats.map (·.cid)) op.user now = .ok () :=
      (verifyCaveats_iff _ _ _).2 ⟨s, (verifyExpiry_iff s now).2 ⟨e, he, hlt⟩, hp⟩
    simp [hs, hc]

/-- an undecodable token is refused -/
theorem undecodable_refused (op : TokenOptions) (now : Int) : validate S op (none : Option (Token K)) now ≠ .ok () := by
  simp [validate]

omit [DecidableEq K] in
/-- what `GenerateLoginToken` issues -/
theorem generate_eq (op : TokenOptions) (now : Int) (hv : validOptions op = true) :
    generate S op now = .ok { id := op.user, caveats := (issuedConds op now).map (fun c => { cid := c }),
                              sig := chain S op.keyBytes op.user (issuedConds op now) } := by
  simp [generate, hv]

theorem issued_cids (op : TokenOptions) (now : Int) :
    ((issuedConds op now).map (fun c => ({ cid := c } : Caveat))).map (·.cid) = issuedConds op now := by
  simp [issuedConds]

/-- **Issued tokens validate until they expire.**  With valid options and `now + duration` inside int64
    (Go's `now+op.Duration` would wrap otherwise), the token issued at `now` validates under the same
    options at every instant `now'` before `now + duration` (duration 0 = 120 s). -/
theorem issued_validates (op : TokenOptions) (now now' : Int) (hv : validOptions op = true)
    (hr : minInt64 ≤ now + effDuration op ∧ now + effDuration op ≤ maxInt64) (hlt : now' < now + effDuration op) :
    ∃ tok, generate S op now = .ok tok ∧ validate S op (some tok) now' = .ok () := by
  refine ⟨_, generate_eq S op now hv, ?_⟩
  rw [validate_iff]
  refine ⟨by simp only [issued_cids], by simp [issuedConds], itoa (wrap64 (now + effDuration op)), now + effDuration op, ?_, hlt, ?_⟩
  · have : wrap64 (now + effDuration op) = now + effDuration op := by
      unfold wrap64; unfold minInt64 maxInt64 at hr; omega
    rw [this]; exact atoi_itoa _ hr.1 hr.2
  · simp only [issued_cids]; exact Perm.refl _

/-- the time caveat of a validating token is unique -/
theorem time_caveat_unique {cs : List Bytes} {u s s' : Bytes}
    (hp : cs ~ [Gen, UserPrefix ++ u, TimePrefix ++ s]) (hm : TimePrefix ++ s' ∈ cs) : s' = s := by
  have := hp.mem_iff.1 hm
  simp only [mem_cons, not_mem_nil, or_false] at this
  rcases this with h | h | h
  · exact absurd h (time_ne_gen s')
  · have : UserPrefix.isPrefixOf (TimePrefix ++ s') = true := by rw [h]; exact isPrefixOf_append _ _
    rw [time_not_user] at this; cases this
  · exact List.append_cancel_left h

/-- **Expiry.**  Once `duration` seconds have elapsed (`now' ≥ now + duration`) the issued token validates
    under no options at all. -/
theorem expires (op op' : TokenOptions) (now now' : Int) (tok : Token K)
    (hr : minInt64 ≤ now + effDuration op ∧ now + effDuration op ≤ maxInt64)
    (hg : generate S op now = .ok tok) (hge : now' ≥ now + effDuration op) :
    validate S op' (some tok) now' ≠ .ok () := by
  intro h
  have hv : validOptions op = true := by
    unfold generate at hg; split at hg
    · cases hg
    · rename_i hn; simpa using hn
  rw [generate_eq S op now hv] at hg
  cases hg
  rw [validate_iff] at h
  obtain ⟨_, _, s, e, he, hlt, hp⟩ := h
  simp only [issued_cids] at hp
  have hm : TimePrefix ++ itoa (wrap64 (now + effDuration op)) ∈ issuedConds op now := by simp [issuedConds]
  have hs := time_caveat_unique hp hm
  have hw : wrap64 (now + effDuration op) = now + effDuration op := by
    unfold wrap64; unfold minInt64 maxInt64 at hr; omega
  rw [← hs, hw, atoi_itoa _ hr.1 hr.2] at he
  cases he
  omega

/-- the default lifetime is 120 seconds -/
theorem default_duration (op : TokenOptions) (h : op.duration = 0) : effDuration op = 120 := by
  simp [effDuration, h, defaultDuration]

/-- **Altered signature**: a token whose signature is not the chain of its own content under the
    validating key is refused. -/
theorem altered_sig (op : TokenOptions) (t : Token K) (now : Int)
    (h : t.sig ≠ chain S op.keyBytes t.id (t.caveats.map (·.cid))) : validate S op (some t) now ≠ .ok () := by
  intro hv; exact h ((validate_iff S op t now).1 hv).1

/-- **Altered content** (`IdealMac`): if the signature was computed for (key₀, id₀, conds₀) and anything
    of it differs from the validating key, the token's identifier or its caveat list — a caveat dropped,
    reordered, rewritten, appended without extending the chain, a changed identifier — the token is refused. -/
theorem altered_content (I : IdealMac S) (op : TokenOptions) (t : Token K) (now : Int)
    (k0 id0 : Bytes) (conds0 : List Bytes) (hs : t.sig = chain S k0 id0 conds0)
    (hne : ¬ (k0 = op.keyBytes ∧ id0 = t.id ∧ conds0 = t.caveats.map (·.cid))) :
    validate S op (some t) now ≠ .ok () := by
  intro hv
  have h := ((validate_iff S op t now).1 hv).1
  rw [hs] at h
  exact hne (chain_inj I h)

/-- **Wrong key** (`IdealMac`): a token minted under a key other than the validating one is refused,
    whatever its caveats. -/
theorem wrong_key (I : IdealMac S) (op : TokenOptions) (t : Token K) (now : Int) (k0 : Bytes)
    (hs : t.sig = chain S k0 t.id (t.caveats.map (·.cid))) (hk : k0 ≠ op.keyBytes) :
    validate S op (some t) now ≠ .ok () :=
  altered_content S I op t now k0 t.id _ hs (fun h => hk h.1)

/-- … in particular a token issued by `GenerateLoginToken` under another secret. -/
theorem wrong_key_issued (I : IdealMac S) (op op' : TokenOptions) (now now' : Int) (tok : Token K)
    (hg : generate S op now = .ok tok) (hk : op.keyBytes ≠ op'.keyBytes) :
    validate S op' (some tok) now' ≠ .ok () := by
  have hv : validOptions op = true := by
    unfold generate at hg; split at hg
    · cases hg
    · rename_i hn; simpa using hn
  rw [generate_eq S op now hv] at hg; cases hg
  exact wrong_key S I op' _ now' op.keyBytes (by simp only [issued_cids]) hk

/-- **Wrong user**: a validating token's `user_id` caveat names the validating user. -/
theorem wrong_user (op : TokenOptions) (t : Token K) (now : Int) (u : Bytes)
    (hm : UserPrefix ++ u ∈ t.caveats.map (·.cid)) (hu : u ≠ op.user) : validate S op (some t) now ≠ .ok () := by
  intro hv
  obtain ⟨_, _, s, e, _, _, hp⟩ := (validate_iff S op t now).1 hv
  have := hp.mem_iff.1 hm
  simp only [mem_cons, not_mem_nil, or_false] at this
  rcases this with h | h | h
  · exact user_ne_gen u h
  · exact hu (List.append_cancel_left h)
  · have h2 : UserPrefix.isPrefixOf (TimePrefix ++ s) = true := by rw [← h]; exact isPrefixOf_append _ _
    rw [time_not_user] at h2; cases h2

/-- … in particular a token issued for one user never validates for another, under any key, at any time. -/
theorem wrong_user_issued (op op' : TokenOptions) (now now' : Int) (tok : Token K)
    (hg : generate S op now = .ok tok) (hu : op.user ≠ op'.user) : validate S op' (some tok) now' ≠ .ok () := by
  have hv : validOptions op = true := by
    unfold generate at hg; split at hg
    · cases hg
    · rename_i hn; simpa using hn
  rw [generate_eq S op now hv] at hg; cases hg
  exact wrong_user S op' _ now' op.user (by simp [issuedConds]) hu

/-- **Additional caveat**: a validating token has exactly three caveats … -/
theorem exactly_three (op : TokenOptions) (t : Token K) (now : Int) (hv : validate S op (some t) now = .ok ()) :
    t.caveats.length = 3 := by
  obtain ⟨_, _, s, e, _, _, hp⟩ := (validate_iff S op t now).1 hv
  simpa using hp.length_eq

/-- … so an issued token with any further caveat appended — with the chain properly extended, as any
    holder can do, or with any other signature — is refused under all options at all times. -/
theorem extra_caveat (op op' : TokenOptions) (now now' : Int) (tok : Token K) (c : Caveat) (sg : K)
    (hg : generate S op now = .ok tok) :
    validate S op' (some { tok with caveats := tok.caveats ++ [c], sig := sg }) now' ≠ .ok () := by
  intro hv
  have h3 := exactly_three S op' _ now' hv
  have hvo : validOptions op = true := by
    unfold generate at hg; split at hg
    · cases hg
    · rename_i hn; simpa using hn
  rw [generate_eq S op now hvo] at hg; cases hg
  simp [issuedConds] at h3

/-- **Unknown caveat**: every caveat of a validating token is one of the three kinds (so a token
    carrying anything else, or a third-party caveat, is refused). -/
theorem unknown_caveat (op : TokenOptions) (t : Token K) (now : Int) (hv : validate S op (some t) now = .ok ()) :
    ∀ c ∈ t.caveats, c.vid = [] ∧
      (c.cid = Gen ∨ c.cid = UserPrefix ++ op.user ∨ ∃ s e, c.cid = TimePrefix ++ s ∧ atoi s = some e ∧ now < e) := by
  obtain ⟨_, h1, s, e, he, hlt, hp⟩ := (validate_iff S op t now).1 hv
  intro c hc
  refine ⟨h1 c hc, ?_⟩
  have := hp.mem_iff.1 (List.mem_map_of_mem (f := (·.cid)) hc)
  simp only [mem_cons, not_mem_nil, or_false] at this
  rcases this with h | h | h
  · exact Or.inl h
  · exact Or.inr (Or.inl h)
  · exact Or.inr (Or.inr ⟨s, e, h, he, hlt⟩)

/-- **Missing caveat**: a validating token carries all three required caveats. -/
theorem missing_caveat (op : TokenOptions) (t : Token K) (now : Int) (hv : validate S op (some t) now = .ok ()) :
    Gen ∈ t.caveats.map (·.cid) ∧ UserPrefix ++ op.user ∈ t.caveats.map (·.cid) ∧
      ∃ s e, TimePrefix ++ s ∈ t.caveats.map (·.cid) ∧ atoi s = some e ∧ now < e := by
  obtain ⟨_, _, s, e, he, hlt, hp⟩ := (validate_iff S op t now).1 hv
  exact ⟨hp.mem_iff.2 (by simp), hp.mem_iff.2 (by simp), s, e, hp.mem_iff.2 (by simp), he, hlt⟩

omit [DecidableEq K] in
/-- **GetUserFromToken** reveals the user the token was issued for. -/
theorem get_user (op : TokenOptions) (now : Int) (tok : Token K) (hg : generate S op now = .ok tok) :
    getUser (some tok) = .ok op.user := by
  have hv : validOptions op = true := by
    unfold generate at hg; split at hg
    · cases hg
    · rename_i hn; simpa using hn
  rw [generate_eq S op now hv] at hg; cases hg
  rfl

end

/-- **The specification stream of the check is this property.**  `Spec.validOk` — the independent
    definition the driver prints as the third stream (signature provenance established outside, caveats
    counted rather than looped over) — accepts exactly the tokens `validate` accepts, whenever the
    provenance `prov` says truthfully whether the signature is the chain of the token's own content
    under the validating key. -/
theorem spec_validOk_iff {K : Type} [DecidableEq K] (S : MacScheme K) (op : TokenOptions) (t : Token K) (now : Int)
    (prov : Option Bytes)
    (hprov : prov = some op.keyBytes ↔ t.sig = chain S op.keyBytes t.id (t.caveats.map (·.cid))) :
    Spec.validOk op.keyBytes op.user now prov t.id t.caveats = true ↔ validate S op (some t) now = .ok () := by
  rw [validate_iff]
  unfold Spec.validOk
  simp only [Bool.and_eq_true, beq_iff_eq, all_eq_true, List.isEmpty_iff]
  have hc := spec_caveats_iff (t.caveats.map (·.cid)) op.user now
  simp only [length_map] at hc
  constructor
  · rintro ⟨⟨⟨⟨⟨h1, h2⟩, h3⟩, h4⟩, h5⟩, h6⟩
    obtain ⟨s, hs, hp⟩ := hc.1 ⟨h3, h4, h5, h6⟩
    obtain ⟨e, he, hlt⟩ := (verifyExpiry_iff s now).1 hs
    exact ⟨hprov.1 h1, h2, s, e, he, hlt, hp⟩
  · rintro ⟨h1, h2, s, e, he, hlt, hp⟩
    obtain ⟨h3, h4, h5, h6⟩ := hc.2 ⟨s, (verifyExpiry_iff s now).2 ⟨e, he, hlt⟩, hp⟩
    exact ⟨⟨⟨⟨⟨hprov.2 h1, h2⟩, h3⟩, h4⟩, h5⟩, h6⟩

/-! ### Non-vacuity: the hypotheses are satisfiable -/

/-- `IdealMac` is satisfiable -/
example : IdealMac toy := toy_ideal

def exOp : TokenOptions := { key := some [1, 2, 3], serverName := [115], user := [64, 97, 58, 98], duration := 0 }
def exOp2 : TokenOptions := { exOp with key := some [9] }
def exOp3 : TokenOptions := { exOp with user := [64, 98, 58, 98] }

example : ∃ tok, generate toy exOp 1700000000 = .ok tok ∧ validate toy exOp (some tok) 1700000119 = .ok () :=
  issued_validates toy exOp 1700000000 1700000119 (by decide) (by decide) (by decide)

example (tok : Token ToyK) (hg : generate toy exOp 1700000000 = .ok tok) : validate toy exOp (some tok) 1700000120 ≠ .ok () :=
  expires toy exOp exOp 1700000000 1700000120 tok (by decide) hg (by decide)

example (tok : Token ToyK) (hg : generate toy exOp 1700000000 = .ok tok) : validate toy exOp2 (some tok) 1700000001 ≠ .ok () :=
  wrong_key_issued toy toy_ideal exOp exOp2 1700000000 1700000001 tok hg (by decide)

example (tok : Token ToyK) (hg : generate toy exOp 1700000000 = .ok tok) : validate toy exOp3 (some tok) 1700000001 ≠ .ok () :=
  wrong_user_issued toy exOp exOp3 1700000000 1700000001 tok hg (by decide)

/-- the old behaviour (bits OR-ed, no duplicate rejection) accepted alice's token with an appended
    `user_id = bob` caveat for bob; the loop as it is now refuses it (`extra_caveat`). -/
example : verifyCaveats [Gen, UserPrefix ++ [97], TimePrefix ++ [57], UserPrefix ++ [98]] [98] 0 = .error .wrongUser := by rfl

end V.C20
