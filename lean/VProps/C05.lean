/-
  C05 — Redaction follows the room version's algorithm, is idempotent, keeps signatures.

  The model is `V.Redact.redactJSON ver : JVal → Except Err JVal` (VModel/Redact.lean), driven by the
  tables regenerated from redactevent.go / eventversion.go; the specification's tables are in
  VModel/RedactSpec.lean.  Helper lemmas: VProofs/Redact*.lean.

  * `keep_tables_eq_spec_partial`  regenerated tables = specification tables for every registered
    version, except the one entry `keep_tables_v11_member_deviates` pins down (known finding).
  * `algos_ok`                     structural facts about the regenerated tables the proofs use.
  * `redact_exact`                 exactly the kept keys (compared as exact strings: a case variant such as
                                   `Event_id` or `Sender` is dropped like any other unlisted key), values unchanged;
                                   needs only: `type` a string, `content` an object without duplicate keys.
  * `redact_drops_unlisted`        a key the event does not have (as an exact key) is not in the redaction.
  * `redact_idem`                  redacting a redacted event succeeds and changes nothing.
  * `redact_preserves_ids`         type, sender, room_id, state_key as every struct decoder reads them (for events
                                   without duplicate keys / case variants of struct fields: the event structs' own
                                   decoding is encoding/json's lenient one).
  * `redact_preserves_reference`   reference hash input / event ID of the redacted event = the original's.
  * `redact_preserves_signatures`  `signatures` kept verbatim, signing payload unchanged, hence every
                                   signature check has the same outcome on the redacted event.
-/
import VModel.Redact
import VModel.RedactSpec
import VModel.EventParse
import VProofs.RedactExact
namespace V.C05
open V V.Json V.GoJson V.Redact V.RedactProofs

/-! ## The regenerated keep tables against the specification's -/

/-- the library's reading of a content-table entry: an empty list keeps everything -/
def libRule (keys : List Bytes) : List (List Bytes) ⊕ Unit :=
  if keys.isEmpty then .inr () else .inl (keys.map (fun k => [k]))

def specRule : RedactSpec.Rule → List (List Bytes) ⊕ Unit
  | .all => .inr ()
  | .paths ps => .inl (ps.map (fun p => p.map RedactSpec.sb))

def sameSet (a b : List (List Bytes)) : Bool := a.all (fun x => b.contains x) && b.all (fun x => a.contains x)

def sameRule : List (List Bytes) ⊕ Unit → List (List Bytes) ⊕ Unit → Bool
  | .inr _, .inr _ => true
  | .inl a, .inl b => sameSet a b
  | _, _ => false

def sameKeys (a b : List Bytes) : Bool := a.all (fun x => b.contains x) && b.all (fun x => a.contains x)

/-- Does the algorithm the version's row names agree with the specification's algorithm for that
    version: same top-level keep list, same protected event types, same rule for every type
    outside `except`. -/
def rowAgrees (row : VGen.VersionRow) (except : Bytes → Bool) : Bool :=
  match algoByName row.redactionAlgorithm, RedactSpec.specFor row.key with
  | some a, some s =>
    sameKeys (a.fields.map (·.name)) (s.top.map RedactSpec.sb) &&
    (a.ctable.map (·.1) == s.content.map (fun x => RedactSpec.sb x.1)) &&
    (a.ctable.zip s.content).all (fun p => except p.1.1 || sameRule (libRule p.1.2) (specRule p.2.2))
  | _, _ => false

/-- the one entry where library and specification are known to differ -/
def isV5Member (row : VGen.VersionRow) (ty : Bytes) : Bool :=
  row.redactionAlgorithm == "redactEventJSONV5" && ty == b!"m.room.member"

/-- Every registered room version uses the top-level keep list and the per-type content keep
    lists of the specification's algorithm for that version — except `m.room.member` under the v11
    algorithm (see `keep_tables_v11_member_deviates`).  Re-checked against the regenerated tables on
    every run.

    Full-strength statement (FALSE on the unchanged tree, known finding C05/v11-member-tpi-signed):
      ∀ row ∈ VGen.roomVersions, rowAgrees row (fun _ => false) = true -/
theorem keep_tables_eq_spec_partial : ∀ row ∈ VGen.roomVersions, rowAgrees row (isV5Member row) = true := by
  decide

/-- The deviation, exactly: for the three versions using `redactEventJSONV5` the library keeps
    `membership` and `join_authorised_via_users_server` of an `m.room.member` content, the
    specification (v11 "Redactions") additionally keeps `third_party_invite.signed`. -/
theorem keep_tables_v11_member_deviates :
    (VGen.roomVersions.filter (fun row => !rowAgrees row (fun _ => false))).map (·.key) = ["11", "12", "org.matrix.hydra.11"] ∧
    (mapGet (ctableOf VGen.unredactableContentFieldsV5) b!"m.room.member" = some [b!"membership", b!"join_authorised_via_users_server"]) ∧
    RedactSpec.ruleFor RedactSpec.v11 b!"m.room.member" =
      .paths [["membership"], ["join_authorised_via_users_server"], ["third_party_invite", "signed"]] := by
  decide

/-! ## Structural facts about the regenerated tables -/

/-- the type field is `type`, the content field is `content`, every other field is a raw pass-through,
    and `sender`, `room_id`, `state_key`, `signatures`, `hashes` are among them -/
def shapeOk (a : Algo) : Bool :=
  (typeField a.fields).map (·.name) == some b!"type" &&
  (contentField a.fields).map (·.name) == some b!"content" &&
  a.fields.all (fun f => f.kind == .raw || f.name == b!"type" || f.name == b!"content") &&
  [b!"sender", b!"room_id", b!"state_key", b!"signatures", b!"hashes"].all
    (fun n => a.fields.any (fun f => f.name == n && f.kind == .raw))

theorem algos_ok : ∀ row ∈ VGen.roomVersions,
    (match algoByName row.redactionAlgorithm with
     | some a => tablesOk a && shapeOk a
     | none => false) = true := by
  decide

theorem algoOf_ok {ver : Bytes} {a : Algo} (h : algoOf ver = some a) : tablesOk a = true ∧ shapeOk a = true := by
  unfold algoOf at h
  cases hr : rowOf ver with
  | none => rw [hr] at h; cases h
  | some row =>
    rw [hr] at h
    simp only [Option.bind_some] at h
    have hmem : row ∈ VGen.roomVersions := List.mem_of_find?_eq_some hr
    have := algos_ok row hmem
    rw [h] at this
    simpa using this

/-- the top-level keys the version's algorithm keeps -/
def keepTop (a : Algo) : List Bytes := a.fields.map (·.name)

/-! ## Exactness -/

/-- The domain of `redact_exact`: `type` is a string and `content` an object without duplicate keys
    (of several top-level members with the same key the last one counts, as `lookupExact` reads it).
    Nothing is assumed about the other top-level keys: duplicates and case variants of protected
    keys are inside the quantifier since the repair of `redactEventJSON` (exact key matching). -/
structure WfEvent (kvs : Obj) (ty : Bytes) (m : Obj) : Prop where
  type : lookupExact kvs b!"type" = some (.str ty)
  content : lookupExact kvs b!"content" = some (.obj m)
  mnodup : (keysOf m).Nodup

theorem shape_names {a : Algo} (h : shapeOk a = true) :
    ∃ tf cf, typeField a.fields = some tf ∧ contentField a.fields = some cf ∧ tf.name = b!"type" ∧ cf.name = b!"content" := by
  simp only [shapeOk, Bool.and_eq_true, beq_iff_eq] at h
  obtain ⟨⟨⟨h1, h2⟩, _⟩, _⟩ := h
  cases htf : typeField a.fields with
  | none => rw [htf] at h1; cases h1
  | some tf =>
    cases hcf : contentField a.fields with
    | none => rw [hcf] at h2; cases h2
    | some cf =>
      rw [htf] at h1; rw [hcf] at h2
      simp only [Option.map_some, Option.some.injEq] at h1 h2
      exact ⟨tf, cf, rfl, rfl, h1, h2⟩

/-- **Exactness.**  Redacting an event keeps exactly the top-level keys the version's algorithm
    lists (`type` and `content` always, the others when present), with unchanged values, and inside
    `content` exactly the keys the algorithm lists for the event's type, with unchanged values;
    nothing else survives — in particular no member under a case variant of a listed key, and no
    listed key that the event did not carry under exactly that name. -/
theorem redact_exact {ver : Bytes} {a : Algo} (ha : algoOf ver = some a) {kvs : Obj} {ty : Bytes} {m : Obj}
    (W : WfEvent kvs ty m) {v : JVal} (h : redactJSON ver (.obj kvs) = .ok v) :
    ∃ r kept, v = .obj r ∧
      (∀ kv ∈ r, kv.1 ∈ keepTop a) ∧
      lookupExact r b!"type" = some (.str ty) ∧
      lookupExact r b!"content" = some (.obj kept) ∧
      (∀ k ∈ keepTop a, k ≠ b!"type" → k ≠ b!"content" → lookupExact r k = lookupExact kvs k) ∧
      (∀ k, mapGet kept k = if keeps a.ctable ty k then mapGet m k else none) := by
  obtain ⟨hT, hS⟩ := algoOf_ok ha
  obtain ⟨tf, cf, htf, hcf, hn1, hn2⟩ := shape_names hS
  have h' : redactWith a (.obj kvs) = .ok v := by
    simpa [redactJSON, ha] using h
  obtain ⟨r, kept, hv, e1, e2, e3, e4, e5⟩ :=
    redactWith_exact hT htf hcf (ty := ty) (m := m) (by rw [hn1]; exact W.type) (by rw [hn2]; exact W.content) W.mnodup h'
  refine ⟨r, kept, hv, ?_, by rw [← hn1]; exact e1, by rw [← hn2]; exact e2, ?_, e3⟩
  · intro kv hkv
    obtain ⟨f, hf, hk⟩ := e5 kv hkv
    rw [hk]; exact List.mem_map.mpr ⟨f, hf, rfl⟩
  · intro k hk hk1 hk2
    obtain ⟨f, hf, rfl⟩ := List.mem_map.mp hk
    have hall : a.fields.all (fun f => f.kind == .raw || f.name == b!"type" || f.name == b!"content") = true := by
      simp only [shapeOk, Bool.and_eq_true] at hS; exact hS.1.2
    have := List.all_eq_true.mp hall f hf
    simp only [Bool.or_eq_true, beq_iff_eq] at this
    rcases this with (hraw | ht) | hc
    · exact e4 f hf hraw
    · exact absurd ht hk1
    · exact absurd hc hk2

/-- **Nothing is invented.**  For EVERY event the library can redact (no side condition): a key other
    than `type` and `content` that the event does not carry — as that exact string — is not in the
    redaction.  (Before the repair a member `Event_id` came out as `event_id`.) -/
theorem redact_drops_unlisted {ver : Bytes} {kvs r : Obj} (h : redactJSON ver (.obj kvs) = .ok (.obj r))
    {k : Bytes} (hk1 : k ≠ b!"type") (hk2 : k ≠ b!"content") (hk : lookupExact kvs k = none) : lookupExact r k = none := by
  cases ha : algoOf ver with
  | none => simp [redactJSON, ha] at h
  | some a =>
    obtain ⟨hT, hS⟩ := algoOf_ok ha
    have h' : redactWith a (.obj kvs) = .ok (.obj r) := by simpa [redactJSON, ha] using h
    apply redactWith_absent hT h' hk
    intro f hf hfn
    have hall : a.fields.all (fun f => f.kind == .raw || f.name == b!"type" || f.name == b!"content") = true := by
      simp only [shapeOk, Bool.and_eq_true] at hS; exact hS.1.2
    have := List.all_eq_true.mp hall f hf
    simp only [Bool.or_eq_true, beq_iff_eq] at this
    rcases this with (hraw | ht) | hc
    · exact hraw
    · exact absurd (hfn ▸ ht) hk1
    · exact absurd (hfn ▸ hc) hk2

/-! ## Idempotence -/

/-- **Idempotence.**  Whatever `RedactEventJSON` returns, redacting it again succeeds and returns it
    unchanged (the same members in the same order). -/
theorem redact_idem {ver : Bytes} {j v : JVal} (h : redactJSON ver j = .ok v) : redactJSON ver v = .ok v := by
  unfold redactJSON at h ⊢
  cases ha : algoOf ver with
  | none => rw [ha] at h; cases h
  | some a =>
    rw [ha] at h
    simp only at h ⊢
    obtain ⟨hT, _⟩ := algoOf_ok ha
    exact redactWith_idem hT h

/-! ## Identity fields -/

theorem members_eq_sel (kvs : Obj) (n : Bytes) : EventParse.members kvs n = (sel n kvs).map (·.2) := rfl

/-- in an event without duplicate keys / case variants of protected keys and in its redaction, a kept
    raw field selects the same members -/
theorem members_redacted {ver : Bytes} {a : Algo} (ha : algoOf ver = some a) {kvs : Obj}
    (T : WfTop a.fields kvs) {r : Obj} (h : redactJSON ver (.obj kvs) = .ok (.obj r))
    {n : Bytes} (hn : a.fields.any (fun f => f.name == n && f.kind == .raw) = true) :
    EventParse.members r n = EventParse.members kvs n := by
  obtain ⟨hT, hS⟩ := algoOf_ok ha
  obtain ⟨f, hf, hfn⟩ := List.any_eq_true.mp hn
  simp only [Bool.and_eq_true, beq_iff_eq] at hfn
  obtain ⟨hname, hraw⟩ := hfn
  subst hname
  have h' : redactObj a (exactFields a.fields kvs) = .ok (.obj r) := by simpa [redactJSON, ha, redactWith] using h
  obtain ⟨tf, cf, F, hv⟩ := redactObj_ok h'
  obtain ⟨hdist, _, _, _⟩ := tablesOk_parts hT
  have hr : r = outputOf a (exactFields a.fields kvs) tf cf := by injection hv
  rw [members_eq_sel, members_eq_sel, hr]
  have hsel := sel_flatMap_emit (emitField (exactFields a.fields kvs) (decType tf.name (exactFields a.fields kvs)).val
      (newContent a.ctable (decType tf.name (exactFields a.fields kvs)).val (decContent cf.name (exactFields a.fields kvs)).val))
      (fun g kv hkv => emitField_name hkv) a.fields hdist f hf
  have : sel f.name (outputOf a (exactFields a.fields kvs) tf cf) = _ := hsel
  rw [this, sel_wf T hf]
  simp only [emitField, hraw]
  rw [lookupField_eq_exact (exactFields_wf hdist kvs) hf, lookupExact_exactFields (names_nodup hdist) kvs hf]
  cases lookupExact kvs f.name <;> rfl

theorem shape_has {a : Algo} (h : shapeOk a = true) (n : Bytes)
    (hn : n ∈ [b!"sender", b!"room_id", b!"state_key", b!"signatures", b!"hashes"]) :
    a.fields.any (fun f => f.name == n && f.kind == .raw) = true := by
  simp only [shapeOk, Bool.and_eq_true] at h
  exact List.all_eq_true.mp h.2 n hn

/-- **Identity fields.**  Redaction never changes what the event structs read as type, sender, room
    ID and state key (for every struct format, i.e. whatever decoder is applied to those members).

    Side condition `T` (no duplicate top-level keys, no case variant of a protected key): it is about
    the event structs, not about redaction — `eventV1` / `eventV2` are filled by encoding/json, which
    reads `Sender` or a second `sender` member into the sender field; redaction keeps the exact key
    `sender` only (the last one).  Without `T` the statement is false in both directions of the repair:
    before it, `{"sender":"@a:h","Sender":"@b:h"}` kept only one of the two; after it, an event whose
    only sender member is spelt `Sender` reads as sent by nobody once redacted. -/
theorem redact_preserves_ids {ver : Bytes} {a : Algo} (ha : algoOf ver = some a) {kvs : Obj} {ty : Bytes} {m : Obj}
    (T : WfTop a.fields kvs) (W : WfEvent kvs ty m) {r : Obj} (h : redactJSON ver (.obj kvs) = .ok (.obj r)) (fmt : EventParse.Fmt) :
    (EventParse.decodeFields fmt r).f.type = (EventParse.decodeFields fmt kvs).f.type ∧
    (EventParse.decodeFields fmt r).f.sender = (EventParse.decodeFields fmt kvs).f.sender ∧
    (EventParse.decodeFields fmt r).f.roomID = (EventParse.decodeFields fmt kvs).f.roomID ∧
    (EventParse.decodeFields fmt r).f.stateKey = (EventParse.decodeFields fmt kvs).f.stateKey := by
  obtain ⟨hT, hS⟩ := algoOf_ok ha
  have hs := members_redacted ha T h (shape_has hS b!"sender" (by simp))
  have hr := members_redacted ha T h (shape_has hS b!"room_id" (by simp))
  have hk := members_redacted ha T h (shape_has hS b!"state_key" (by simp))
  -- the type: both sides hold the single member `.str ty`
  obtain ⟨tf, cf, htf, hcf, hn1, hn2⟩ := shape_names hS
  obtain ⟨htfm, htfk⟩ := typeField_mem htf
  obtain ⟨hdist, _, htfo, _⟩ := tablesOk_parts hT
  have ht : EventParse.members r b!"type" = EventParse.members kvs b!"type" := by
    obtain ⟨r', kept, hv, hkeys, e1, _, _, _⟩ := redact_exact ha W h
    have hr' : r = r' := by injection hv
    subst hr'
    -- `r` has no duplicate keys and no case variants, so `type` selects the one member `lookupExact` finds
    have h' : redactObj a (exactFields a.fields kvs) = .ok (.obj r) := by simpa [redactJSON, ha, redactWith] using h
    obtain ⟨tf', cf', F, hv'⟩ := redactObj_ok h'
    have hro : r = outputOf a (exactFields a.fields kvs) tf' cf' := by injection hv'
    have Wr : WfTop a.fields r := by
      rw [hro, ← exactFields_output hdist]
      exact exactFields_wf hdist _
    rw [members_eq_sel, members_eq_sel, ← hn1, sel_wf Wr htfm, sel_wf T htfm, hn1, e1, W.type]
  simp only [EventParse.decodeFields, ht, hs, hr, hk, and_self]

/-! ## Reference hash, event ID, signatures -/

/-- **The reference (hence, in v3+, the event ID) of the redacted event is the original's**: both
    are computed from the redacted form, and redaction is idempotent. -/
theorem redact_preserves_reference {ver : Bytes} {j v : JVal} (h : redactJSON ver j = .ok v)
    (H : Bytes → Bytes) (row : VGen.VersionRow) :
    EventParse.referenceBytes ver v = EventParse.referenceBytes ver j ∧
    EventParse.referenceID H row ver v = EventParse.referenceID H row ver j := by
  have h2 := redact_idem h
  simp only [EventParse.referenceBytes, EventParse.referenceID, h, h2, and_self]

/-- A signature check on an event as `VerifyEventSignatures` / `VerifyJSON` perform it: the
    signature of (`name`, `kid`) in the redacted event's `signatures`, checked by `verify pk payload sig`
    against the signing payload.  `verify` is any function (ed25519 in the library). -/
def sigValid (verify : Bytes → Bytes → Bytes → Bool) (ver : Bytes) (j : JVal) (name kid pk : Bytes) : Bool :=
  match EventParse.signingPayload ver j, EventParse.signaturesOf ver j with
  | .ok payload, .ok (some (.obj sigs)) =>
    match mapGet sigs name with
    | some (.obj ks) =>
      match mapGet ks kid with
      | some (.str s) =>
        match B64.decode s with
        | some sig => verify pk payload sig
        | none => false
      | _ => false
    | _ => false
  | _, _ => false

/-- **Signatures survive redaction**: the signing payload and the `signatures` member a verifier
    reads are the same for an event and for its redaction, so every signature that verifies on the
    original verifies on the redacted event (and conversely), for any verification function. -/
theorem redact_preserves_signatures {ver : Bytes} {j v : JVal} (h : redactJSON ver j = .ok v) :
    EventParse.signingPayload ver v = EventParse.signingPayload ver j ∧
    EventParse.signaturesOf ver v = EventParse.signaturesOf ver j ∧
    ∀ verify name kid pk, sigValid verify ver v name kid pk = sigValid verify ver j name kid pk := by
  have h2 := redact_idem h
  have hp : EventParse.signingPayload ver v = EventParse.signingPayload ver j := by
    simp only [EventParse.signingPayload, EventParse.referenceBytes, h, h2]
  have hs : EventParse.signaturesOf ver v = EventParse.signaturesOf ver j := by
    simp only [EventParse.signaturesOf, h, h2]
  refine ⟨hp, hs, ?_⟩
  intro verify name kid pk
  simp only [sigValid, hp, hs]

/-- The `signatures` and `hashes` members are kept verbatim. -/
theorem redact_keeps_signatures_member {ver : Bytes} {a : Algo} (ha : algoOf ver = some a) {kvs : Obj} {ty : Bytes} {m : Obj}
    (W : WfEvent kvs ty m) {r : Obj} (h : redactJSON ver (.obj kvs) = .ok (.obj r)) :
    lookupExact r b!"signatures" = lookupExact kvs b!"signatures" ∧ lookupExact r b!"hashes" = lookupExact kvs b!"hashes" := by
  obtain ⟨_, hS⟩ := algoOf_ok ha
  obtain ⟨r', kept, hv, _, _, _, e4, _⟩ := redact_exact ha W h
  have hr' : r = r' := by injection hv
  subst hr'
  have mem : ∀ n ∈ [b!"sender", b!"room_id", b!"state_key", b!"signatures", b!"hashes"], n ∈ keepTop a := by
    intro n hn
    obtain ⟨f, hf, hfn⟩ := List.any_eq_true.mp (shape_has hS n hn)
    simp only [Bool.and_eq_true, beq_iff_eq] at hfn
    exact List.mem_map.mpr ⟨f, hf, hfn.1⟩
  exact ⟨e4 _ (mem _ (by simp)) (by decide) (by decide), e4 _ (mem _ (by simp)) (by decide) (by decide)⟩

/-! ## Non-vacuity: a concrete member event in room version 10 -/

def exEvent : Obj := [
  (b!"type", .str b!"m.room.member"), (b!"sender", .str b!"@a:b"), (b!"room_id", .str b!"!r:b"),
  (b!"state_key", .str b!"@a:b"), (b!"unsigned", .obj [(b!"age", .num b!"1")]),
  (b!"signatures", .obj [(b!"b", .obj [(b!"ed25519:1", .str b!"c2ln")])]),
  (b!"content", .obj [(b!"membership", .str b!"join"), (b!"displayname", .str b!"A"), (b!"n", .num b!"5")])]

def exRedacted : Obj := [
  (b!"type", .str b!"m.room.member"), (b!"room_id", .str b!"!r:b"), (b!"sender", .str b!"@a:b"),
  (b!"state_key", .str b!"@a:b"), (b!"content", .obj [(b!"membership", .str b!"join")]),
  (b!"signatures", .obj [(b!"b", .obj [(b!"ed25519:1", .str b!"c2ln")])])]

def okWith (x : Except Err JVal) (bytes : Bytes) : Bool :=
  match x with
  | .ok r => encode r == bytes
  | _ => false

/-- the hypotheses of the theorems above are satisfiable: this event redacts, to `exRedacted` -/
example : okWith (redactJSON b!"10" (.obj exEvent)) (encode (.obj exRedacted)) = true := by decide +kernel

/-- and the algorithm of version 10 exists -/
example : (algoOf b!"10").isSome = true := by decide +kernel

/-- its top-level shape satisfies `WfTop` for that algorithm (no duplicate keys, no case variants): the side
    condition of `redact_preserves_ids` -/
example : (match algoOf b!"10" with
    | some a => noDupIn (exEvent.map (·.1)) &&
        exEvent.all (fun kv => a.fields.all (fun f => !(foldBytes kv.1 == foldBytes f.name) || kv.1 == f.name))
    | none => false) = true := by decide +kernel

/-- `redact_exact` / `redact_drops_unlisted` need no such condition.  The same event with case variants of
    protected keys (`Event_id`, `Sender`, `ſtate_key` with U+017F, `Content`, `HASHES`), an ill-typed earlier
    duplicate of `type` and an earlier duplicate of `content`: the variants are dropped like any unlisted
    key, the last exact member counts — the redaction is `exRedacted` again. -/
def exVariants : Obj := [
  (b!"Event_id", .str b!"$chosen"), (b!"type", .num b!"5"), (b!"Sender", .str b!"@evil:b"),
  (b!"content", .obj [(b!"membership", .str b!"ban")]), (b!"ſtate_key", .str b!"@evil:b"),
  (b!"HASHES", .obj [(b!"sha256", .str b!"x")]), (b!"Content", .obj [(b!"membership", .str b!"leave")])] ++ exEvent

example : okWith (redactJSON b!"10" (.obj exVariants)) (encode (.obj exRedacted)) = true := by decide +kernel

example : WfEvent exVariants b!"m.room.member"
    [(b!"membership", .str b!"join"), (b!"displayname", .str b!"A"), (b!"n", .num b!"5")] :=
  ⟨by rfl, by rfl, by decide +kernel⟩

end V.C05
