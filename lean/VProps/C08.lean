/-
  C08 — Power-level changes can never escalate privilege.

  The specification `NoEscalation` is written directly on the old and new contents (effective values,
  i.e. with defaults substituted — departure D3 of DESIGN.md §6.1); the theorems say that whatever the
  model of `powerLevelsEventAllowed` accepts satisfies it.
-/
import VModel.Auth
import VProofs.AuthRulesBase
namespace V.C08
open V V.Json V.GoJson V.Auth

/-- The named action thresholds of a power-levels content. -/
def namedLevels : List (PowerLevels → Int) :=
  [(·.ban), (·.invite), (·.kick), (·.redact), (·.stateDefault), (·.eventsDefault), (·.usersDefault)]

/-- No escalation, stated on the contents: `L` is the sender's current level. -/
structure NoEscalation (L : Int) (sender : Bytes) (old new : PowerLevels) : Prop where
  /-- every named threshold that changes was at most `L` and is set to at most `L` -/
  named : ∀ f ∈ namedLevels, f new ≠ f old → f old ≤ L ∧ f new ≤ L
  /-- the level required for ANY event type (listed or not) that changes was ≤ L and stays ≤ L.
      READING (DESIGN.md §6.1 D3 / D4; audit item A7): the value compared is the EFFECTIVE level of the type for a
      NON-state event — the `events` entry when there is one, else `events_default` (`invite` for
      m.room.third_party_invite) — on both sides.  So "nothing whose current value is above the sender's level has been
      changed" is about that value: ADDING an entry for a type that had none is judged against `events_default`, not
      against `state_default`, even though for state events of that type the threshold in force was `state_default`
      (e.g. `state_default` 100, sender at 50 with `events["m.room.power_levels"] = 50`, adds
      `events["m.room.join_rules"] = 0`: accepted, `events_default` 0 → 0 is no change; Matrix rule 10.7 and Synapse accept
      it as well — they look at the `events` map entries only).  Under the literal reading with `state_default` the
      example is an escalation; it is recorded as part of departure D4. -/
  events : ∀ t : Bytes, new.eventLevel t false ≠ old.eventLevel t false →
    old.eventLevel t false ≤ L ∧ new.eventLevel t false ≤ L
  /-- every user entry (present before or after) whose effective level changes: the new level is ≤ L, and
      unless it is the sender's own entry the old level was strictly below L -/
  users : ∀ u : Bytes, (u ∈ new.users.map (·.1) ∨ u ∈ old.users.map (·.1)) → new.userLevel u ≠ old.userLevel u →
    new.userLevel u ≤ L ∧ (u ≠ sender → old.userLevel u < L)

theorem mapGet_none_of_not_mem {α} (m : List (Bytes × α)) (k : Bytes) (h : k ∉ m.map (·.1)) : mapGet m k = none := by
  unfold mapGet
  have : m.find? (fun kv => kv.1 == k) = none := by
    rw [List.find?_eq_none]
    intro x hx hk
    exact h (List.mem_map.mpr ⟨x, hx, by simpa using hk⟩)
  simp [this]

/-- `checkEventLevels` accepts only changes where both the old and the new value are ≤ the sender's level. -/
theorem checkEventLevels_sound (L : Int) (old new : PowerLevels) (h : checkEventLevels L old new = true) :
    ∀ p ∈ eventLevelPairs old new, p.1 ≠ p.2 → p.1 ≤ L ∧ p.2 ≤ L := by
  intro p hp hne
  unfold checkEventLevels at h
  have := List.all_eq_true.mp h p hp
  simp only [Bool.or_eq_true, Bool.and_eq_true, Bool.not_eq_true', decide_eq_false_iff_not, beq_iff_eq] at this
  rcases this with heq | ⟨h2, h1⟩
  · exact absurd heq hne
  · exact ⟨by omega, by omega⟩

theorem named_in_pairs (old new : PowerLevels) (f) (hf : f ∈ namedLevels) : (f old, f new) ∈ eventLevelPairs old new := by
  unfold eventLevelPairs
  simp only [namedLevels, List.mem_cons, List.not_mem_nil, or_false] at hf
  rcases hf with rfl | rfl | rfl | rfl | rfl | rfl | rfl <;> simp

theorem accepted_levels_named (L : Int) (old new : PowerLevels) (h : checkEventLevels L old new = true) :
    ∀ f ∈ namedLevels, f new ≠ f old → f old ≤ L ∧ f new ≤ L := by
  intro f hf hne
  exact checkEventLevels_sound L old new h _ (named_in_pairs old new f hf) (fun e => hne e.symm)

theorem accepted_levels_events (L : Int) (old new : PowerLevels) (h : checkEventLevels L old new = true) :
    ∀ t : Bytes, new.eventLevel t false ≠ old.eventLevel t false →
      old.eventLevel t false ≤ L ∧ new.eventLevel t false ≤ L := by
  intro t hne
  by_cases hn : t ∈ new.events.map (·.1)
  · obtain ⟨kv, hkv, rfl⟩ := List.mem_map.mp hn
    apply checkEventLevels_sound L old new h (old.eventLevel kv.1 false, new.eventLevel kv.1 false)
    · unfold eventLevelPairs
      simp only [List.mem_append, List.mem_map]
      exact Or.inl (Or.inr ⟨kv, hkv, rfl⟩)
    · exact fun e => hne e.symm
  · by_cases ho : t ∈ old.events.map (·.1)
    · obtain ⟨kv, hkv, rfl⟩ := List.mem_map.mp ho
      apply checkEventLevels_sound L old new h (old.eventLevel kv.1 false, new.eventLevel kv.1 false)
      · unfold eventLevelPairs
        simp only [List.mem_append, List.mem_map]
        exact Or.inr ⟨kv, hkv, rfl⟩
      · exact fun e => hne e.symm
    · -- listed on neither side: the effective level is `invite` or `events_default` on both sides
      have e1 := mapGet_none_of_not_mem new.events t hn
      have e2 := mapGet_none_of_not_mem old.events t ho
      unfold PowerLevels.eventLevel at hne ⊢
      by_cases h3 : t == b!"m.room.third_party_invite"
      · simp only [h3, if_true] at hne ⊢
        exact accepted_levels_named L old new h (·.invite) (by simp [namedLevels]) hne
      · simp only [h3, e1, e2] at hne ⊢
        exact accepted_levels_named L old new h (·.eventsDefault) (by simp [namedLevels]) (by simpa using hne)

theorem accepted_levels_users (L : Int) (sender : Bytes) (old new : PowerLevels)
    (h : checkUserLevels L sender old new = true) :
    ∀ u : Bytes, (u ∈ new.users.map (·.1) ∨ u ∈ old.users.map (·.1)) → new.userLevel u ≠ old.userLevel u →
      new.userLevel u ≤ L ∧ (u ≠ sender → old.userLevel u < L) := by
  intro u hu hne
  unfold checkUserLevels userLevelKeys at h
  have hmem : u ∈ new.users.map (·.1) ++ old.users.map (·.1) := List.mem_append.mpr hu
  have := List.all_eq_true.mp h u hmem
  simp only [Bool.or_eq_true, Bool.and_eq_true, Bool.not_eq_true', decide_eq_false_iff_not, beq_iff_eq] at this
  rcases this with heq | ⟨h2, h1⟩
  · exact absurd heq.symm hne
  · refine ⟨by omega, fun hs => ?_⟩
    rcases h1 with h1 | h1
    · exact absurd h1 hs
    · omega

/-- **No escalation (content level).**  If both level checks pass then the change satisfies `NoEscalation`. -/
theorem checks_imply_no_escalation (L : Int) (sender : Bytes) (old new : PowerLevels)
    (h1 : checkEventLevels L old new = true) (h2 : checkUserLevels L sender old new = true) :
    NoEscalation L sender old new :=
  ⟨accepted_levels_named L old new h1, accepted_levels_events L old new h1, accepted_levels_users L sender old new h2⟩

/-- Notification levels (room versions whose table entry is checkPowerLevelEventV2 / V3): a changed
    notification level is set to ≤ the sender's level `L` and was strictly below it (departure D11).  Which `L` the
    check is made at: `accepted_pl_notifications`. -/
theorem accepted_notifications (L : Int) (old new : PowerLevels) (h : checkNotificationLevels L old new = true) :
    ∀ k : Bytes, (k ∈ new.notifications.map (·.1) ∨ k ∈ old.notifications.map (·.1)) →
      new.notificationLevel k ≠ old.notificationLevel k →
      new.notificationLevel k ≤ L ∧ old.notificationLevel k < L := by
  intro k hk hne
  unfold checkNotificationLevels notificationKeys at h
  have := List.all_eq_true.mp h k (List.mem_append.mpr hk)
  simp only [Bool.or_eq_true, Bool.and_eq_true, Bool.not_eq_true', decide_eq_false_iff_not, beq_iff_eq] at this
  rcases this with heq | ⟨h2, h1⟩
  · exact absurd heq.symm hne
  · exact ⟨by omega, by omega⟩

/-- Non-vacuity: a concrete accepted change (a level-50 user lowers `kick` from 50 to 40 and demotes a level-10 user). -/
example :
    let old : PowerLevels := { PowerLevels.defaults with users := [(b!"@a:x", 50), (b!"@b:x", 10)] }
    let new : PowerLevels := { PowerLevels.defaults with kick := 40, users := [(b!"@a:x", 50), (b!"@b:x", 0)] }
    checkEventLevels 50 old new = true ∧ checkUserLevels 50 b!"@a:x" old new = true := by decide

/-- …and a refused escalation: the same user raising `users_default` above their own level (the defect fixed in /repo). -/
example :
    let old : PowerLevels := { PowerLevels.defaults with users := [(b!"@a:x", 50)] }
    let new : PowerLevels := { PowerLevels.defaults with usersDefault := 100, users := [(b!"@a:x", 50)] }
    checkEventLevels 50 old new = false := by decide

end V.C08

namespace V.C08
open V V.Json V.GoJson V.Auth

/-- What an accepted power-levels event guarantees (end to end through `powerLevelsEventAllowed`). -/
structure AcceptedPL (a : Ctx) (e : Event) : Prop where
  ex : ∃ (newPL : PowerLevels) (L : Int),
    powerLevelsFromEvent e = .ok newPL ∧ a.userPowerLevel e.sender = .ok L ∧
    NoEscalation L e.sender a.pl newPL ∧ a.checkPowerLevelEvent e a.pl newPL = .ok ()

/-- **C08, main theorem.**  Whenever the model of `powerLevelsEventAllowed` accepts an event, the change from the
    current power levels `a.pl` to the event's content satisfies `NoEscalation` at the sender's current level,
    and the version-specific check (notifications, creators) passed as well. -/
theorem accepted_pl_no_escalation (a : Ctx) (e : Event) (h : a.powerLevelsEventAllowed e = .ok ()) : AcceptedPL a e := by
  unfold Ctx.powerLevelsEventAllowed at h
  simp only [bind, Except.bind] at h
  split at h
  · cases h
  · split at h
    · cases h
    · split at h
      · cases h
      · rename_i newPL hnew
        split at h
        · cases h
        · split at h
          · cases h
          · split at h
            · cases h
            · rename_i L hL
              split at h
              · cases h
              · rename_i hce
                split at h
                · cases h
                · rename_i hcpl
                  split at h
                  · cases h
                  · rename_i hcu
                    refine ⟨newPL, L, hnew, hL, ?_, ?_⟩
                    · apply checks_imply_no_escalation
                      · simpa using hce
                      · simpa using hcu
                    · cases hc : a.checkPowerLevelEvent e a.pl newPL with
                      | ok u => rfl
                      | error v => simp [hc] at hcpl

/-- **Version 12 (checkPowerLevelEventV3): an accepted power-levels event never names a room creator.** -/
theorem v12_no_creator_in_users (a : Ctx) (e : Event) (old new : PowerLevels) (row : VGen.VersionRow)
    (hrow : e.row = some row) (hv : row.checkPowerLevelEvent = "checkPowerLevelEventV3")
    (h : a.checkPowerLevelEvent e old new = .ok ()) :
    ∃ ce cc, a.createEvent = some ce ∧ decodeCreateContent ce.content = some cc ∧
      ∀ u ∈ new.users.map (·.1), u ≠ ce.sender ∧ u ∉ cc.additionalCreators := by
  unfold Ctx.checkPowerLevelEvent at h
  simp only [hrow, hv] at h
  have e1 : ("checkPowerLevelEventV3" == "checkPowerLevelEventV1") = false := by decide
  have e2 : ("checkPowerLevelEventV3" == "checkPowerLevelEventV2") = false := by decide
  have e3 : ("checkPowerLevelEventV3" == "checkPowerLevelEventV3") = true := by decide
  simp only [e1, e2, e3, Bool.false_eq_true, if_false, if_true] at h
  cases hce : a.createEvent with
  | none => simp [hce] at h
  | some ce =>
    simp only [hce] at h
    cases hcc : decodeCreateContent ce.content with
    | none => simp [hcc, notAllowed] at h
    | some cc =>
      simp only [hcc] at h
      generalize (if (ce.sender :: cc.additionalCreators).contains e.sender = true then creatorPowerLevel
        else old.userLevel e.sender) = L at h
      by_cases hnl : checkNotificationLevels L old new = true
      · simp only [hnl, Bool.not_true, Bool.false_eq_true, if_false] at h
        by_cases hany : (new.users.any fun kv => (ce.sender :: cc.additionalCreators).contains kv.fst) = true
        · exfalso
          simp only [hany, if_true, failErr] at h
          cases h
        · refine ⟨ce, cc, rfl, hcc, ?_⟩
          intro u hu
          obtain ⟨kv, hkv, rfl⟩ := List.mem_map.mp hu
          have hn : ¬ (ce.sender :: cc.additionalCreators).contains kv.1 = true := by
            intro hc
            exact hany (List.any_eq_true.mpr ⟨kv, hkv, hc⟩)
          simp only [List.contains_eq_mem, List.mem_cons, decide_eq_true_eq, not_or] at hn
          exact hn
      · simp [hnl, notAllowed] at h

/-- **Version 10 and later (parseIntegerPowerLevels): every level in an accepted content is an integer literal** — the
    content satisfies the independent predicate `AuthRules.integerContent` (no `null`, no string, no float, no
    non-object where an object of levels belongs). -/
theorem integer_only_levels (c : Option JVal) (d p : PowerLevels) (h : parseIntegerPowerLevels c d = some p) :
    AuthRules.integerContent c = true :=
  AuthRules.parseInteger_sound h

/-- … spelled out for a content that is a JSON object: each named level that is present is an integer literal in range,
    and `users` / `events` / `notifications`, when present, are objects all of whose values are such literals. -/
theorem integer_only_levels_spelled (kvs : List (Bytes × JVal)) (d p : PowerLevels)
    (h : parseIntegerPowerLevels (some (.obj kvs)) d = some p) :
    (∀ k ∈ AuthRules.namedLevelKeys, ∀ v, lookupExact kvs k = some v → ∃ lit n, v = .num lit ∧ parseInt64 lit = some n) ∧
    (∀ k ∈ [b!"users", b!"events", b!"notifications"], ∀ v, lookupExact kvs k = some v →
      ∃ m, v = .obj m ∧ ∀ kv ∈ m, ∃ lit n, kv.2 = .num lit ∧ parseInt64 lit = some n) := by
  have hi := integer_only_levels _ d p h
  unfold AuthRules.integerContent AuthRules.contentFields at hi
  simp only [Bool.and_eq_true, List.all_eq_true] at hi
  have lit_of : ∀ v, AuthRules.isIntegerLiteral v = true → ∃ lit n, v = .num lit ∧ parseInt64 lit = some n := by
    intro v hv
    unfold AuthRules.isIntegerLiteral at hv
    cases v with
    | num lit =>
      simp only at hv
      cases hp : parseInt64 lit with
      | none => simp [hp] at hv
      | some n => exact ⟨lit, n, rfl, hp⟩
    | _ => simp at hv
  constructor
  · intro k hk v hv
    have := hi.1 k hk
    rw [hv] at this
    exact lit_of v this
  · intro k hk v hv
    have := hi.2 k hk
    rw [hv] at this
    unfold AuthRules.isIntegerMap at this
    cases v with
    | obj m =>
      simp only [List.all_eq_true] at this
      exact ⟨m, rfl, fun kv hkv => lit_of kv.2 (this kv hkv)⟩
    | _ => simp at this

/-- the defect repaired in 33ac4f7, kernel-checked on the former failing inputs: `null` for a level, for a map of
    levels, or for a value of such a map is refused by the integer-only parser (and an integer content still parses) -/
example :
    parseIntegerPowerLevels (some (.obj [(b!"ban", .null)])) PowerLevels.defaults = none ∧
    parseIntegerPowerLevels (some (.obj [(b!"users", .obj [(b!"@a:hs1", .null)])])) PowerLevels.defaults = none ∧
    parseIntegerPowerLevels (some (.obj [(b!"events", .null)])) PowerLevels.defaults = none ∧
    parseIntegerPowerLevels (some (.obj [(b!"events", .obj [(b!"m.room.name", .null)])])) PowerLevels.defaults = none ∧
    parseIntegerPowerLevels (some (.obj [(b!"notifications", .obj [(b!"room", .null)])])) PowerLevels.defaults = none ∧
    (parseIntegerPowerLevels (some (.obj [(b!"ban", .num b!"60"), (b!"users", .obj [(b!"@a:hs1", .num b!"50")])])) PowerLevels.defaults).isSome = true := by
  decide

/-- Which registered versions run which power-level check / parser (regenerated table vs the specification:
    notification levels from v6, creators excluded in v12, integer-only levels from v10). -/
theorem pl_columns_eq_spec :
    VGen.roomVersions.map (fun r => (r.key, r.checkPowerLevelEvent, r.parsePowerLevelsFunc)) =
      [("1", "checkPowerLevelEventV1", "parsePowerLevels"), ("10", "checkPowerLevelEventV2", "parseIntegerPowerLevels"),
       ("11", "checkPowerLevelEventV2", "parseIntegerPowerLevels"), ("12", "checkPowerLevelEventV3", "parseIntegerPowerLevels"),
       ("2", "checkPowerLevelEventV1", "parsePowerLevels"), ("3", "checkPowerLevelEventV1", "parsePowerLevels"),
       ("4", "checkPowerLevelEventV1", "parsePowerLevels"), ("5", "checkPowerLevelEventV1", "parsePowerLevels"),
       ("6", "checkPowerLevelEventV2", "parsePowerLevels"), ("7", "checkPowerLevelEventV2", "parsePowerLevels"),
       ("8", "checkPowerLevelEventV2", "parsePowerLevels"), ("9", "checkPowerLevelEventV2", "parsePowerLevels"),
       ("org.matrix.hydra.11", "checkPowerLevelEventV3", "parseIntegerPowerLevels"),
       ("org.matrix.msc3667", "checkPowerLevelEventV2", "parseIntegerPowerLevels"),
       ("org.matrix.msc3787", "checkPowerLevelEventV2", "parsePowerLevels"),
       ("org.matrix.msc4014", "checkPowerLevelEventV2", "parseIntegerPowerLevels")] := by
  decide

end V.C08

/-! ## Histories of accepted power-level events

The quantifier of C08 also ranges over *sequences* of accepted power-levels events starting from a room's initial state.
The single-step theorem `accepted_pl_no_escalation` applies to every step of such a sequence (each step is judged
against the content left by the previous one); the history-level consequence proved here is the **privilege ceiling**:
no sequence of accepted power-levels events, of any length, ever gives any user (listed or defaulted) a level above the
highest level any sender held when the sequence started. -/
namespace V.C08
open V V.Json V.GoJson V.Auth

/-- every user's effective level (listed entry or `users_default`) is at most `C` -/
def Ceiling (C : Int) (p : PowerLevels) : Prop := ∀ u : Bytes, p.userLevel u ≤ C

theorem userLevel_unlisted (p : PowerLevels) (u : Bytes) (h : u ∉ p.users.map (·.1)) : p.userLevel u = p.usersDefault := by
  unfold PowerLevels.userLevel
  rw [mapGet_none_of_not_mem p.users u h]; rfl

/-- One accepted step keeps the ceiling, provided the sender's own level was under it. -/
theorem ceiling_step (C L : Int) (s : Bytes) (old new : PowerLevels) (hL : L ≤ C) (hc : Ceiling C old)
    (h : NoEscalation L s old new) : Ceiling C new := by
  intro u
  by_cases hne : new.userLevel u = old.userLevel u
  · rw [hne]; exact hc u
  · by_cases hl : u ∈ new.users.map (·.1) ∨ u ∈ old.users.map (·.1)
    · have := (h.users u hl hne).1; omega
    · -- listed on neither side: the level is `users_default` before and after, and that named threshold changed
      have hn : u ∉ new.users.map (·.1) := fun x => hl (Or.inl x)
      have ho : u ∉ old.users.map (·.1) := fun x => hl (Or.inr x)
      rw [userLevel_unlisted new u hn, userLevel_unlisted old u ho] at hne
      rw [userLevel_unlisted new u hn]
      have := (h.named (·.usersDefault) (by simp [namedLevels]) hne).2
      omega

/-- A history: from `cur`, a list of steps (sender level, sender, new content), each satisfying `NoEscalation`
    against the content left by the previous step, every sender level being at most `C`. -/
def Chain (C : Int) : PowerLevels → List (Int × Bytes × PowerLevels) → Prop
  | _, [] => True
  | cur, (L, s, new) :: rest => L ≤ C ∧ NoEscalation L s cur new ∧ Chain C new rest

/-- the contents after each step -/
def contentsAfter : PowerLevels → List (Int × Bytes × PowerLevels) → List PowerLevels
  | _, [] => []
  | _, (_, _, new) :: rest => new :: contentsAfter new rest

/-- **Privilege ceiling over histories of any length.** -/
theorem history_ceiling (C : Int) (p0 : PowerLevels) (steps : List (Int × Bytes × PowerLevels))
    (h0 : Ceiling C p0) (hch : Chain C p0 steps) : ∀ p ∈ contentsAfter p0 steps, Ceiling C p := by
  induction steps generalizing p0 with
  | nil => intro p hp; cases hp
  | cons st rest ih =>
    obtain ⟨L, s, new⟩ := st
    obtain ⟨hL, hne, hrest⟩ := hch
    have hnew := ceiling_step C L s p0 new hL h0 hne
    intro p hp
    simp only [contentsAfter, List.mem_cons] at hp
    rcases hp with rfl | hp
    · exact hnew
    · exact ih new hnew hrest p hp

/-- The sender level the model uses is under the ceiling: with a power-levels event in force and a sender who is not a
    privileged (v12) creator it is the sender's entry in the current content. -/
theorem senderLevel_le_ceiling (a : Ctx) (u : Bytes) (C L : Int) (hc : Ceiling C a.pl)
    (hpl : a.plEvent.isSome) (hnc : (a.privilegedCreators && a.creators.contains u) = false)
    (h : a.userPowerLevel u = .ok L) : L ≤ C := by
  unfold Ctx.userPowerLevel at h
  rw [hnc] at h
  simp only [Bool.false_eq_true, if_false] at h
  cases hp : a.plEvent with
  | none => simp [hp] at hpl
  | some pe =>
    simp only [hp] at h
    cases h
    exact hc u

/-- A run of the model: contexts and the power-levels events they accept, each context holding as its current content
    what the previous accepted event set (`Linked`). -/
def Linked : List (Ctx × Event) → Prop
  | [] => True
  | [_] => True
  | (_, e) :: (a', e') :: rest => powerLevelsFromEvent e = .ok a'.pl ∧ Linked ((a', e') :: rest)

/-- **C08 over sequences (model level).**  Along every linked run in which each event is accepted by
    `powerLevelsEventAllowed` (senders being ordinary users under a power-levels event), every step satisfies
    `NoEscalation` against the content in force, and the privilege ceiling of the first content is never exceeded. -/
theorem accepted_history (C : Int) (run : List (Ctx × Event))
    (hacc : ∀ ae ∈ run, ae.1.powerLevelsEventAllowed ae.2 = .ok () ∧ ae.1.plEvent.isSome ∧
              (ae.1.privilegedCreators && ae.1.creators.contains ae.2.sender) = false)
    (hlink : Linked run) (h0 : ∀ ae, run.head? = some ae → Ceiling C ae.1.pl) :
    ∀ ae ∈ run, AcceptedPL ae.1 ae.2 ∧ Ceiling C ae.1.pl ∧ ∀ new, powerLevelsFromEvent ae.2 = .ok new → Ceiling C new := by
  induction run with
  | nil => intro ae h; cases h
  | cons hd rest ih =>
    obtain ⟨a, e⟩ := hd
    have hc0 : Ceiling C a.pl := h0 (a, e) rfl
    obtain ⟨hok, hpl, hnc⟩ := hacc (a, e) (List.mem_cons_self ..)
    have hA := accepted_pl_no_escalation a e hok
    obtain ⟨newPL, L, hnew, hL, hne, _⟩ := hA.ex
    have hLC := senderLevel_le_ceiling a e.sender C L hc0 hpl hnc hL
    have hcn : Ceiling C newPL := ceiling_step C L e.sender a.pl newPL hLC hc0 hne
    intro ae hmem
    rcases List.mem_cons.mp hmem with rfl | hmem
    · refine ⟨hA, hc0, ?_⟩
      intro new hn
      rw [hnew] at hn; cases hn; exact hcn
    · apply ih (fun x hx => hacc x (List.mem_cons_of_mem _ hx))
      · cases rest with
        | nil => trivial
        | cons hd2 tl => exact hlink.2
      · intro ae' hh
        cases rest with
        | nil => cases hh
        | cons hd2 tl =>
          obtain ⟨a2, e2⟩ := hd2
          simp only [List.head?_cons, Option.some.injEq] at hh
          subst hh
          have := hlink.1
          rw [hnew] at this
          cases this
          exact hcn
      · exact hmem

/-- Notification levels, end to end: in the versions whose table entry is checkPowerLevelEventV2 / V3 (room version 6
    and later, see `pl_columns_eq_spec`) an accepted power-levels event passed `checkNotificationLevels` at the sender's
    level `L`, hence `accepted_notifications` applies to it at that level.  `L` is the sender's level in the old content —
    or, in version 12 (checkPowerLevelEventV3), the creators' level 2^53 when the sender is the create event's sender or
    one of its `additional_creators` (creators are privileged: repaired in 548eba1; before, a creator was judged at
    `users_default`). -/
theorem accepted_pl_notifications (a : Ctx) (e : Event) (old new : PowerLevels) (row : VGen.VersionRow)
    (hrow : e.row = some row)
    (hv : row.checkPowerLevelEvent = "checkPowerLevelEventV2" ∨ row.checkPowerLevelEvent = "checkPowerLevelEventV3")
    (h : a.checkPowerLevelEvent e old new = .ok ()) :
    ∃ L, checkNotificationLevels L old new = true ∧
      (L = old.userLevel e.sender ∨
       (L = creatorPowerLevel ∧ row.checkPowerLevelEvent = "checkPowerLevelEventV3" ∧
        ∃ ce cc, a.createEvent = some ce ∧ decodeCreateContent ce.content = some cc ∧
          (e.sender = ce.sender ∨ e.sender ∈ cc.additionalCreators))) := by
  unfold Ctx.checkPowerLevelEvent at h
  simp only [hrow] at h
  have e1 : ("checkPowerLevelEventV2" == "checkPowerLevelEventV1") = false := by decide
  have e2 : ("checkPowerLevelEventV2" == "checkPowerLevelEventV2") = true := by decide
  have e3 : ("checkPowerLevelEventV3" == "checkPowerLevelEventV1") = false := by decide
  have e4 : ("checkPowerLevelEventV3" == "checkPowerLevelEventV2") = false := by decide
  have e5 : ("checkPowerLevelEventV3" == "checkPowerLevelEventV3") = true := by decide
  rcases hv with hv | hv
  · simp only [hv, e1, e2, Bool.false_eq_true, if_false, if_true] at h
    refine ⟨old.userLevel e.sender, ?_, Or.inl rfl⟩
    by_cases hn : checkNotificationLevels (old.userLevel e.sender) old new = true
    · exact hn
    · simp [hn, notAllowed] at h
  · simp only [hv, e3, e4, e5, Bool.false_eq_true, if_false, if_true] at h
    cases hce : a.createEvent with
    | none => simp [hce] at h
    | some ce =>
      simp only [hce] at h
      cases hcc : decodeCreateContent ce.content with
      | none => simp [hcc, notAllowed] at h
      | some cc =>
        simp only [hcc] at h
        by_cases hcr : (ce.sender :: cc.additionalCreators).contains e.sender = true
        · simp only [hcr, if_true] at h
          refine ⟨creatorPowerLevel, ?_, Or.inr ⟨rfl, hv, ce, cc, rfl, hcc, ?_⟩⟩
          · by_cases hn : checkNotificationLevels creatorPowerLevel old new = true
            · exact hn
            · simp [hn, notAllowed] at h
          · simpa using hcr
        · simp only [hcr, if_false] at h
          refine ⟨old.userLevel e.sender, ?_, Or.inl rfl⟩
          by_cases hn : checkNotificationLevels (old.userLevel e.sender) old new = true
          · exact hn
          · simp [hn, notAllowed] at h

/-- **Version 10 and later, end to end**: a power-levels event the model of `powerLevelsEventAllowed` accepts in a room
    version whose parser is parseIntegerPowerLevels contains no non-integer level. -/
theorem accepted_pl_integer (a : Ctx) (e : Event) (row : VGen.VersionRow) (hrow : e.row = some row)
    (hp : row.parsePowerLevelsFunc = "parseIntegerPowerLevels") (h : a.powerLevelsEventAllowed e = .ok ()) :
    AuthRules.integerContent e.content = true := by
  obtain ⟨newPL, L, hnew, _, _, _⟩ := (accepted_pl_no_escalation a e h).ex
  unfold powerLevelsFromEvent at hnew
  simp only [hrow, hp, beq_self_eq_true, if_true] at hnew
  cases hq : parseIntegerPowerLevels e.content PowerLevels.defaults with
  | none => simp [hq, notAllowed] at hnew
  | some pl => exact integer_only_levels _ _ _ hq

/-- the defect repaired in 548eba1, on the former failing input (old content `{users:{@a:50}}`, the creator adds
    `notifications.room = 60`): refused at the level the old content gives the creator (`users_default` = 0), accepted at
    the creators' level -/
example :
    let old : PowerLevels := { PowerLevels.defaults with users := [(b!"@a:hs1", 50)] }
    let new : PowerLevels := { PowerLevels.defaults with users := [(b!"@a:hs1", 50)], notifications := [(b!"room", 60)] }
    checkNotificationLevels (old.userLevel b!"@c:hs1") old new = false ∧ checkNotificationLevels creatorPowerLevel old new = true := by
  decide

/-- Non-vacuity of the history theorem's premises: a two-step chain under ceiling 100
    (a level-100 user promotes b to 50; b then lowers `kick` to 40). -/
example :
    let p0 : PowerLevels := { PowerLevels.defaults with users := [(b!"@a:x", 100)] }
    let p1 : PowerLevels := { PowerLevels.defaults with users := [(b!"@a:x", 100), (b!"@b:x", 50)] }
    let p2 : PowerLevels := { PowerLevels.defaults with kick := 40, users := [(b!"@a:x", 100), (b!"@b:x", 50)] }
    (checkEventLevels 100 p0 p1 = true ∧ checkUserLevels 100 b!"@a:x" p0 p1 = true) ∧
    (checkEventLevels 50 p1 p2 = true ∧ checkUserLevels 50 b!"@b:x" p1 p2 = true) := by decide

end V.C08
