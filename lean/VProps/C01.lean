/-
  C01 — Canonical JSON is a value-preserving, unique, idempotent normal form.

  Property theorems only (helper lemmas live in VProofs).  The model is VModel.Json:
  byte-level `canonical` (mirrors json.go) and the specification `canonicalSpec = encodeCanon ∘ parse`.
-/
import VModel.Json
import VProofs.Sort
import VProofs.JsonClosure
import VGen.Versions
namespace V.C01
open V V.Json List

/-! ### The canonical form does not depend on the order members are presented in -/

theorem sortedMembers_eq_map (kvs : List (Bytes × JVal)) :
    sortedMembers kvs = kvs.map (fun kv => (kv.1, kv.2.sorted)) := by
  induction kvs with
  | nil => rfl
  | cons x xs ih => obtain ⟨k, v⟩ := x; simp [sortedMembers, ih]

theorem sortedMembers_keys (kvs : List (Bytes × JVal)) :
    (sortedMembers kvs).map (·.1) = kvs.map (·.1) := by
  rw [sortedMembers_eq_map]; simp [Function.comp_def]

/-- Any two presentations of an object that list the same members (distinct keys) in different
    orders have the same canonical bytes. -/
theorem canon_member_order_irrelevant (kvs₁ kvs₂ : List (Bytes × JVal))
    (hp : kvs₁ ~ kvs₂) (hn : NodupKeys kvs₁) :
    encodeCanon (.obj kvs₁) = encodeCanon (.obj kvs₂) := by
  unfold encodeCanon
  simp only [JVal.sorted]
  have hp' : sortedMembers kvs₁ ~ sortedMembers kvs₂ := by
    rw [sortedMembers_eq_map, sortedMembers_eq_map]; exact hp.map _
  have hn' : NodupKeys (sortedMembers kvs₁) := by
    unfold NodupKeys at *; rw [sortedMembers_keys]; exact hn
  rw [sortByKey_unique hp' hn']

/-- The members of a canonical object are in strictly increasing code-point (= UTF-8 byte) order. -/
theorem canon_keys_strictly_sorted (kvs : List (Bytes × JVal)) (hn : NodupKeys kvs) :
    ∃ s, (JVal.obj kvs).sorted = .obj s ∧ StrictSorted s ∧ s ~ sortedMembers kvs := by
  refine ⟨sortByKey (sortedMembers kvs), rfl, ?_, sortByKey_perm _⟩
  apply sortByKey_strict
  unfold NodupKeys at *; rw [sortedMembers_keys]; exact hn

/-! ### `-0` is written `0`, every other literal is kept -/

theorem negzero_is_zero : encodeCanon (.num [0x2D, 0x30]) = [0x30] := by decide

theorem other_literals_kept (lit : Bytes) (h : lit ≠ [0x2D, 0x30]) : encodeCanon (.num lit) = lit := by
  simp [encodeCanon, JVal.sorted, encode, encodeNum, h]

/-! ### The enforced variant (room versions with the check) -/

/-- What `numOk` accepts is an integer literal (no `.`, `e`, `E`), not `-0`, of magnitude ≤ 2^53-1:
    every other number literal is refused. -/
theorem numOk_sound (raw : Bytes) (h : numOk raw = true) :
    (∀ c ∈ raw, c ≠ 0x2E ∧ c ≠ 0x65 ∧ c ≠ 0x45) ∧ raw ≠ [0x2D, 0x30] ∧
      natOfDigits (stripSign raw) ≤ 9007199254740991 := by
  unfold numOk maxSafeInt at h
  by_cases h1 : raw.any (fun c => c == 0x2E || c == 0x65 || c == 0x45) = true
  · simp [h1] at h
  · by_cases h2 : raw = [0x2D, 0x30]
    · simp [h1, h2] at h
    · simp only [h1, h2] at h
      refine ⟨?_, h2, (by simpa using h : _ ∧ _).2⟩
      intro c hc
      have : (c == 0x2E || c == 0x65 || c == 0x45) = false := by
        cases hp : (c == 0x2E || c == 0x65 || c == 0x45) with
        | false => rfl
        | true => exact absurd (List.any_eq_true.mpr ⟨c, hc, hp⟩) h1
      simp only [Bool.or_eq_false_iff, beq_eq_false_iff_ne] at this
      exact ⟨this.1.1, this.1.2, this.2⟩

example : numOk [0x31, 0x30] = true ∧ numOk [0x31, 0x2E, 0x30] = false ∧ numOk [0x31, 0x45, 0x32] = false
    ∧ numOk [0x2D, 0x30] = false := by decide

/-- A text with a number that fails `numOk` fails the enforced check (array / object / nesting). -/
theorem enforced_rejects_leaf (raw : Bytes) (h : numOk raw = false) : (PVal.num raw).numbersOk = false := by
  simp [PVal.numbersOk, h]

/-- Which registered room versions enforce: regenerated column, stated against the specification
    (room versions 6 and later, i.e. everything except 1–5). -/
theorem enforced_versions :
    (VGen.roomVersions.filter (fun r => r.canonicalJSONCheck == "verifyEnforcedCanonicalJSON")).map (·.key)
      = ["10", "11", "12", "6", "7", "8", "9", "org.matrix.hydra.11", "org.matrix.msc3667",
         "org.matrix.msc3787", "org.matrix.msc4014"]
    ∧ (VGen.roomVersions.filter (fun r => r.canonicalJSONCheck == "noVerifyCanonicalJSON")).map (·.key)
      = ["1", "2", "3", "4", "5"] := by
  decide

/-! ### model = specification: `CanonicalJSON` computes the canonical encoding of the parsed value

`canonical` is the byte-level model of `CanonicalJSON` (gate on `gjson.Valid`, `CompactJSON`, `SortJSON`);
`encodeCanon p.toJVal` is the specification (`canonicalSpec`): parse, forget every spelling, re-encode with
sorted keys, no whitespace, shortest escapes, `-0` as `0`. -/

/-- The hypothesis the equivalence really needs: the text parses and no string contains a *lone*
    surrogate escape (`CompactJSON` drops those, gjson decodes them as U+FFFD).  Neither UTF-8 validity of
    the raw bytes (they pass through both sides unchanged) nor distinct keys (model and specification use
    the same deterministic sort) are needed. -/
theorem canonical_eq_spec_general (t : Bytes) (p : PVal) (hp : parse t = some p)
    (hs : p.surrogatesOk = true) : canonical t = .ok (encodeCanon p.toJVal) :=
  canonical_of_parse hp hs

/-- **C01, main theorem.** For every valid JSON text (well-formed Unicode, no duplicate object keys)
    the model of `CanonicalJSON` returns exactly the canonical encoding of the value the text denotes. -/
theorem canonical_eq_spec (t : Bytes) (p : PVal) (hp : parse t = some p) (_hd : p.noDupKeys = true)
    (hw : p.wellFormed = true) : canonical t = .ok (encodeCanon p.toJVal) :=
  canonical_of_parse hp (surrogatesOk_of_wellFormed p hw)

/-- The same, phrased with `canonicalSpec`. -/
theorem canonical_eq_canonicalSpec (t : Bytes) (p : PVal) (hp : parse t = some p) (hd : p.noDupKeys = true)
    (hw : p.wellFormed = true) : canonicalSpec t = some (encodeCanon p.toJVal) ∧
      canonical t = .ok (encodeCanon p.toJVal) :=
  ⟨by simp [canonicalSpec, hp], canonical_eq_spec t p hp hd hw⟩

/-- Invalid JSON is rejected. -/
theorem canonical_rejects_invalid (t : Bytes) (h : parse t = none) : canonical t = .error .badJSON := by
  simp [canonical, valid, h]

/-- Any two texts denoting the same value (member order, whitespace, escape spellings and `-0`/`0` aside)
    canonicalise to identical bytes. -/
theorem canonical_unique (t₁ t₂ : Bytes) (p₁ p₂ : PVal) (h₁ : parse t₁ = some p₁) (h₂ : parse t₂ = some p₂)
    (hd₁ : p₁.noDupKeys = true) (hd₂ : p₂.noDupKeys = true) (hw₁ : p₁.wellFormed = true) (hw₂ : p₂.wellFormed = true)
    (he : p₁.toJVal.sorted.normNums = p₂.toJVal.sorted.normNums) : canonical t₁ = canonical t₂ := by
  rw [canonical_eq_spec t₁ p₁ h₁ hd₁ hw₁, canonical_eq_spec t₂ p₂ h₂ hd₂ hw₂]
  unfold encodeCanon
  rw [← encode_normNums p₁.toJVal.sorted, ← encode_normNums p₂.toJVal.sorted, he]

/-- …and only those: texts with the same canonical bytes denote the same value. -/
theorem canonical_unique_conv (t₁ t₂ : Bytes) (p₁ p₂ : PVal) (h₁ : parse t₁ = some p₁) (h₂ : parse t₂ = some p₂)
    (hd₁ : p₁.noDupKeys = true) (hd₂ : p₂.noDupKeys = true) (hw₁ : p₁.wellFormed = true) (hw₂ : p₂.wellFormed = true)
    (he : canonical t₁ = canonical t₂) : p₁.toJVal.sorted.normNums = p₂.toJVal.sorted.normNums := by
  rw [canonical_eq_spec t₁ p₁ h₁ hd₁ hw₁, canonical_eq_spec t₂ p₂ h₂ hd₂ hw₂] at he
  exact encodeCanon_inj _ _ (parse_numsOk h₁) (parse_numsOk h₂) (by simpa using he)

/-- The output is valid JSON denoting the same value: it parses, to the input's value with members sorted
    and `-0` written `0`; it has no duplicate keys and no surrogate escapes. -/
theorem canonical_output_valid (t : Bytes) (p : PVal) (hp : parse t = some p) (hd : p.noDupKeys = true)
    (hw : p.wellFormed = true) :
    ∃ out q, canonical t = .ok out ∧ parse out = some q ∧ q.toJVal = p.toJVal.sorted.normNums ∧
      q.surrogatesOk = true := by
  obtain ⟨h1, h2⟩ := parse_encodeCanon p.toJVal (parse_numsOk hp)
  exact ⟨_, _, canonical_eq_spec t p hp hd hw, h1, h2, ofJVal_surrogatesOk _⟩

/-- Canonicalising twice changes nothing. -/
theorem canonical_idem (t : Bytes) (p : PVal) (hp : parse t = some p) (hd : p.noDupKeys = true)
    (hw : p.wellFormed = true) :
    ∃ out, canonical t = .ok out ∧ canonical out = .ok out :=
  ⟨_, canonical_eq_spec t p hp hd hw,
    canonical_encodeCanon p.toJVal (parse_numsOk hp) ((noDupKeys_toJVal p).trans hd)⟩

/-- Different values have different canonical bytes (what the signing properties rely on).  Number
    literals must be of the JSON grammar (`numsOk`; every parsed value is), strings are arbitrary bytes. -/
theorem encodeCanon_injective (v w : JVal) (hv : v.numsOk = true) (hw : w.numsOk = true)
    (h : encodeCanon v = encodeCanon w) : v.sorted.normNums = w.sorted.normNums :=
  encodeCanon_inj v w hv hw h

/-- Value-level form (used by the signing properties): serialising a value in any member order and
    canonicalising gives the value's canonical bytes. -/
theorem canonical_of_rendering (v : JVal) (hv : v.numsOk = true) : canonical (encode v) = .ok (encodeCanon v) :=
  canonical_encode v hv

/-- The enforced variant rejects every text containing a number that fails `numOk`
    (non-integer literal, `-0`, or magnitude above 2^53-1), wherever it is nested. -/
theorem enforced_rejects (t : Bytes) (p : PVal) (hp : parse t = some p)
    (hbad : ∃ lit ∈ p.numbers, numOk lit = false) : enforcedOk t = some false := by
  obtain ⟨lit, hmem, hno⟩ := hbad
  have : p.numbersOk = false := by
    rw [numbersOk_eq_all]
    cases h : p.numbers.all numOk with
    | false => rfl
    | true => rw [List.all_eq_true] at h; rw [h lit hmem] at hno; cases hno
  simp [enforcedOk, hp, this]

/-- …and accepts exactly when every number passes. -/
theorem enforced_iff (t : Bytes) (p : PVal) (hp : parse t = some p) :
    enforcedOk t = some (p.numbers.all numOk) := by
  simp [enforcedOk, hp, numbersOk_eq_all]

/-! ### Non-vacuity: a concrete text satisfying the hypotheses of the theorems above -/

/-- `{"b":-0, "a\u00e9":[1.5e3,"x\n\ud83d\ude00\/"], "a":{"k":null}}` -/
def exampleText : Bytes :=
  [0x7B, 0x22, 0x62, 0x22, 0x3A, 0x2D, 0x30, 0x2C, 0x20, 0x22, 0x61, 0x5C, 0x75, 0x30, 0x30, 0x65, 0x39, 0x22, 0x3A, 0x5B, 0x31, 0x2E, 0x35, 0x65, 0x33, 0x2C, 0x22, 0x78, 0x5C, 0x6E, 0x5C, 0x75, 0x64, 0x38, 0x33, 0x64, 0x5C, 0x75, 0x64, 0x65, 0x30, 0x30, 0x5C, 0x2F, 0x22, 0x5D, 0x2C, 0x20, 0x22, 0x61, 0x22, 0x3A, 0x7B, 0x22, 0x6B, 0x22, 0x3A, 0x6E, 0x75, 0x6C, 0x6C, 0x7D, 0x7D]

/-- `{"a":{"k":null},"aé":[1.5e3,"x\n😀/"],"b":0}` -/
def exampleCanon : Bytes :=
  [0x7B, 0x22, 0x61, 0x22, 0x3A, 0x7B, 0x22, 0x6B, 0x22, 0x3A, 0x6E, 0x75, 0x6C, 0x6C, 0x7D, 0x2C, 0x22, 0x61, 0xC3, 0xA9, 0x22, 0x3A, 0x5B, 0x31, 0x2E, 0x35, 0x65, 0x33, 0x2C, 0x22, 0x78, 0x5C, 0x6E, 0xF0, 0x9F, 0x98, 0x80, 0x2F, 0x22, 0x5D, 0x2C, 0x22, 0x62, 0x22, 0x3A, 0x30, 0x7D]

set_option maxRecDepth 10000 in
/-- the example text parses, has distinct keys and well-formed Unicode (hypotheses of `canonical_eq_spec`,
    `canonical_unique`, `canonical_output_valid`, `canonical_idem`) … -/
example : (parse exampleText).any (fun p => p.noDupKeys && p.wellFormed && p.toJVal.numsOk) = true := by decide

set_option maxRecDepth 10000 in
/-- … and its canonical form is what one expects (members sorted, escapes minimised, `-0` as `0`). -/
example : (canonical exampleText).toOption = some exampleCanon ∧
    (canonical exampleCanon).toOption = some exampleCanon := by decide

/-- `[1, {"a": 1.5}]` contains the non-integer literal `1.5` (hypothesis of `enforced_rejects`). -/
example : (parse [0x5B, 0x31, 0x2C, 0x20, 0x7B, 0x22, 0x61, 0x22, 0x3A, 0x20, 0x31, 0x2E, 0x35, 0x7D, 0x5D]).any
    (fun p => p.numbers.any (fun lit => !numOk lit)) = true := by decide

/-- Why `surrogatesOk` (implied by `wellFormed`) cannot be dropped from `canonical_eq_spec`: on `"\ud800"`
    (a lone surrogate escape) the specification says `"\uFFFD"` (gjson's decoding) but `CompactJSON` drops
    the escape and the result is `""`.  Confirmed on the Go code (`json.canon 225c756438303022` ↦ `ok:2222`).
    Such texts are outside C01's quantifier ("well-formed Unicode"). -/
example : canonicalSpec [0x22, 0x5C, 0x75, 0x64, 0x38, 0x30, 0x30, 0x22] = some [0x22, 0xEF, 0xBF, 0xBD, 0x22] ∧
    (canonical [0x22, 0x5C, 0x75, 0x64, 0x38, 0x30, 0x30, 0x22]).toOption = some [0x22, 0x22] := by decide

/-- invalid texts exist (hypothesis of `canonical_rejects_invalid`): `{"a":1,}` -/
example : parse [0x7B, 0x22, 0x61, 0x22, 0x3A, 0x31, 0x2C, 0x7D] = none := by decide

end V.C01
