/-
  C01 — Canonical JSON is a value-preserving, unique, idempotent normal form.

  Property theorems only (helper lemmas live in VProofs).  The model is VModel.Json:
  byte-level `canonical` (mirrors json.go) and the specification `canonicalSpec = encodeCanon ∘ parse`.
-/
import VModel.Json
import VProofs.Sort
import VGen.Versions
namespace V.C01
open V V.Json List

/-! ### The canonical form does not depend on the order members are presented in -/

theorem sortedMembers_eq_map (kvs : List (Bytes × JVal)) :
    sortedMembers kvs = kvs.map (fun kv => (kv.1, kv.2.sorted)) := by
  induction kvs with
  | nil => rfl
  | cons x xs ih => obtain ⟨k, v⟩ := x; simp [sortedMembers, ih]

theorem sortedMembers_keys (kvs : List (Bytes × JVal)) :
    (sortedMembers kvs).map (·.1) = kvs.map (·.1) := by
  rw [sortedMembers_eq_map]; simp [Function.comp_def]

/-- Any two presentations of an object that list the same members (distinct keys) in different
    orders have the same canonical bytes. -/
theorem canon_member_order_irrelevant (kvs₁ kvs₂ : List (Bytes × JVal))
    (hp : kvs₁ ~ kvs₂) (hn : NodupKeys kvs₁) :
    encodeCanon (.obj kvs₁) = encodeCanon (.obj kvs₂) := by
  unfold encodeCanon
  simp only [JVal.sorted]
  have hp' : sortedMembers kvs₁ ~ sortedMembers kvs₂ := by
    rw [sortedMembers_eq_map, sortedMembers_eq_map]; exact hp.map _
  have hn' : NodupKeys (sortedMembers kvs₁) := by
    unfold NodupKeys at *; rw [sortedMembers_keys]; exact hn
  rw [sortByKey_unique hp' hn']

/-- The members of a canonical object are in strictly increasing code-point (= UTF-8 byte) order. -/
theorem canon_keys_strictly_sorted (kvs : List (Bytes × JVal)) (hn : NodupKeys kvs) :
    ∃ s, (JVal.obj kvs).sorted = .obj s ∧ StrictSorted s ∧ s ~ sortedMembers kvs := by
  refine ⟨sortByKey (sortedMembers kvs), rfl, ?_, sortByKey_perm _⟩
  apply sortByKey_strict
  unfold NodupKeys at *; rw [sortedMembers_keys]; exact hn

/-! ### `-0` is written `0`, every other literal is kept -/

theorem negzero_is_zero : encodeCanon (.num [0x2D, 0x30]) = [0x30] := by decide

theorem other_literals_kept (lit : Bytes) (h : lit ≠ [0x2D, 0x30]) : encodeCanon (.num lit) = lit := by
  simp [encodeCanon, JVal.sorted, encode, encodeNum, h]

/-! ### The enforced variant (room versions with the check) -/

/-- What `numOk` accepts is an integer literal (no `.`, `e`, `E`), not `-0`, of magnitude ≤ 2^53-1:
    every other number literal is refused. -/
theorem numOk_sound (raw : Bytes) (h : numOk raw = true) :
    (∀ c ∈ raw, c ≠ 0x2E ∧ c ≠ 0x65 ∧ c ≠ 0x45) ∧ raw ≠ [0x2D, 0x30] ∧
      natOfDigits (stripSign raw) ≤ 9007199254740991 := by
  unfold numOk maxSafeInt at h
  by_cases h1 : raw.any (fun c => c == 0x2E || c == 0x65 || c == 0x45) = true
  · simp [h1] at h
  · by_cases h2 : raw = [0x2D, 0x30]
    · simp [h1, h2] at h
    · simp only [h1, h2] at h
      refine ⟨?_, h2, (by simpa using h : _ ∧ _).2⟩
      intro c hc
      have : (c == 0x2E || c == 0x65 || c == 0x45) = false := by
        cases hp : (c == 0x2E || c == 0x65 || c == 0x45) with
        | false => rfl
        | true => exact absurd (List.any_eq_true.mpr ⟨c, hc, hp⟩) h1
      simp only [Bool.or_eq_false_iff, beq_eq_false_iff_ne] at this
      exact ⟨this.1.1, this.1.2, this.2⟩

example : numOk [0x31, 0x30] = true ∧ numOk [0x31, 0x2E, 0x30] = false ∧ numOk [0x31, 0x45, 0x32] = false
    ∧ numOk [0x2D, 0x30] = false := by decide

/-- A text with a number that fails `numOk` fails the enforced check (array / object / nesting). -/
theorem enforced_rejects_leaf (raw : Bytes) (h : numOk raw = false) : (PVal.num raw).numbersOk = false := by
  simp [PVal.numbersOk, h]

/-- Which registered room versions enforce: regenerated column, stated against the specification
    (room versions 6 and later, i.e. everything except 1–5). -/
theorem enforced_versions :
    (VGen.roomVersions.filter (fun r => r.canonicalJSONCheck == "verifyEnforcedCanonicalJSON")).map (·.key)
      = ["10", "11", "12", "6", "7", "8", "9", "org.matrix.hydra.11", "org.matrix.msc3667",
         "org.matrix.msc3787", "org.matrix.msc4014"]
    ∧ (VGen.roomVersions.filter (fun r => r.canonicalJSONCheck == "noVerifyCanonicalJSON")).map (·.key)
      = ["1", "2", "3", "4", "5"] := by
  decide

end V.C01
