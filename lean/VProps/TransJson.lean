/-
  Translated-function obligations for json.go: `isNegativeZeroLiteral` and `readHexDigits`.
  `VGen.TransJson.*` is printed from the CURRENT Go source by tools/extract/trans.go.
-/
import VGen.TransJson
import VModel.Json
import VProofs.TransHex

namespace V.Trans.Json
open V V.Json GoSem

theorem idx_append_right (pre : List UInt8) (x : UInt8) (rest : List UInt8) (k : Nat) :
    idx (pre ++ x :: rest) (Int.ofNat pre.length + 1 + Int.ofNat k) = rest[k]? := by
  unfold idx
  have h0 : (0 : Int) ≤ Int.ofNat pre.length + 1 + Int.ofNat k := by simp; omega
  have h1 : (Int.ofNat pre.length + 1 + Int.ofNat k).toNat = pre.length + (k + 1) := by simp; omega
  simp only [h0, if_true, h1]
  rw [List.getElem?_append_right (by omega)]
  simp

theorem idx_last (pre : List UInt8) (x : UInt8) (rest : List UInt8) (h : pre ≠ []) :
    idx (pre ++ x :: rest) (Int.ofNat pre.length + 1 - 2) = pre.getLast? := by
  unfold idx
  have hl : 0 < pre.length := List.length_pos_iff.mpr h
  have h0 : (0 : Int) ≤ Int.ofNat pre.length + 1 - 2 := by simp; omega
  have h1 : (Int.ofNat pre.length + 1 - 2).toNat = pre.length - 1 := by simp; omega
  simp only [h0, if_true, h1]
  rw [List.getElem?_append_left (by omega), List.getLast?_eq_getElem?]

/-- **isNegativeZeroLiteral**: called (as in CompactJSON) with `i` just after a `-` at `input[i-1]`, the Go function
    translated from the current source never panics and answers what the model's `isNegZero` answers from the byte
    before the `-` and the bytes after it — for every prefix and suffix. -/
theorem isNegativeZeroLiteral_eq_model (pre rest : List UInt8) :
    VGen.TransJson.isNegativeZeroLiteral (pre ++ 0x2D :: rest) (Int.ofNat pre.length + 1)
      = some (isNegZero pre.getLast? rest) := by
  have i0 : idx (pre ++ 0x2D :: rest) (Int.ofNat pre.length + 1) = rest[0]? := by
    have := idx_append_right pre 0x2D rest 0
    rwa [show Int.ofNat pre.length + 1 + Int.ofNat 0 = Int.ofNat pre.length + 1 from by simp] at this
  have i1 : idx (pre ++ 0x2D :: rest) (Int.ofNat pre.length + 1 + 1) = rest[1]? :=
    idx_append_right pre 0x2D rest 1
  have hlen : GoSem.len (pre ++ 0x2D :: rest) = Int.ofNat pre.length + 1 + Int.ofNat rest.length := by
    simp [GoSem.len]; omega
  unfold VGen.TransJson.isNegativeZeroLiteral isNegZero
  rw [i0, i1, hlen]
  cases rest with
  | nil => simp [GoSem.orM]
  | cons z rest' =>
    have c1 : decide (Int.ofNat pre.length + 1 ≥ Int.ofNat pre.length + 1 + Int.ofNat (z :: rest').length) = false := by
      simp; omega
    simp only [c1, List.getElem?_cons_zero, GoSem.orM, Option.bind_some, Option.bind]
    by_cases hz : z = 0x30
    · subst hz
      simp only [bne_self_eq_false, Bool.false_eq_true, if_false]
      cases rest' with
      | nil =>
        have c2 : decide (Int.ofNat pre.length + 1 + 1 < Int.ofNat pre.length + 1 + Int.ofNat [(0x30 : UInt8)].length) = false := by
          simp
        simp only [c2, GoSem.andM]
        by_cases hp : pre = []
        · subst hp; simp [GoSem.andM]
        · have il := idx_last pre 0x2D [0x30] hp
          have c3 : decide (Int.ofNat pre.length + 1 ≥ 2) = true := by
            have : 0 < pre.length := List.length_pos_iff.mpr hp
            simp; omega
          rw [c3, il]
          obtain ⟨p, hp'⟩ : ∃ p, pre.getLast? = some p := by
            cases hq : pre.getLast? with
            | none => simp [List.getLast?_eq_none_iff] at hq; exact absurd hq hp
            | some p => exact ⟨p, rfl⟩
          rw [hp']
          cases a : (p == 0x65) <;> cases b : (p == 0x45) <;> simp [GoSem.andM, GoSem.orM, a, b]
      | cons n rest'' =>
        have c2 : decide (Int.ofNat pre.length + 1 + 1 < Int.ofNat pre.length + 1 + Int.ofNat ((0x30 : UInt8) :: n :: rest'').length) = true := by
          simp; omega
        simp only [c2, GoSem.andM, List.getElem?_cons_succ, List.getElem?_cons_zero]
        by_cases hp : pre = []
        · subst hp
          cases a : (n == 0x2E) <;> cases b : (n == 0x65) <;> cases c : (n == 0x45) <;> simp [GoSem.andM, GoSem.orM, a, b, c]
        · have il := idx_last pre 0x2D ((0x30 : UInt8) :: n :: rest'') hp
          have c3 : decide (Int.ofNat pre.length + 1 ≥ 2) = true := by
            have : 0 < pre.length := List.length_pos_iff.mpr hp
            simp; omega
          rw [c3, il]
          obtain ⟨p, hp'⟩ : ∃ p, pre.getLast? = some p := by
            cases hq : pre.getLast? with
            | none => simp [List.getLast?_eq_none_iff] at hq; exact absurd hq hp
            | some p => exact ⟨p, rfl⟩
          rw [hp']
          cases a : (n == 0x2E) <;> cases b : (n == 0x65) <;> cases c : (n == 0x45) <;>
            cases d : (p == 0x65) <;> cases e : (p == 0x45) <;> simp [GoSem.andM, GoSem.orM, a, b, c, d, e]
    · have : (z != 0x30) = true := by simp [hz]
      simp [this, hz]

/-- a hex digit, paired with the model's value for it, is in the table the chunks range over -/
theorem digit_mem : ∀ c : UInt8, isHex c = true → (c, hexVal c) ∈ V.Trans.Hex.digsV := by
  apply GoSem.forall_uint8
  decide +kernel

/-- `binary.BigEndian.Uint32` reads four bytes: what follows them is irrelevant -/
theorem readHexDigits_prefix (a b c d : UInt8) (tl : List UInt8) :
    VGen.TransJson.readHexDigits (a :: b :: c :: d :: tl) = VGen.TransJson.readHexDigits [a, b, c, d] := by
  unfold VGen.TransJson.readHexDigits
  simp [GoSem.beUint32]

/-- **readHexDigits** (the theorem `VModel/Json.lean` cites at `compactUnicodeEscape`): on four hex digits — every
    one of the 22^4 spellings, upper and lower case — the bit-twiddling Go function, translated from the current
    source with wrapping `uint32` arithmetic, returns the code point `hex4` the model computes digit by digit. -/
theorem readHexDigits_correct (a b c d : UInt8) (tl : List UInt8)
    (ha : isHex a = true) (hb : isHex b = true) (hc : isHex c = true) (hd : isHex d = true) :
    VGen.TransJson.readHexDigits (a :: b :: c :: d :: tl) = some (Int.ofNat (hex4 a b c d)) := by
  rw [readHexDigits_prefix]
  have h := V.Trans.Hex.ok4_of_mem (digit_mem a ha) (digit_mem b hb) (digit_mem c hc) (digit_mem d hd)
  unfold V.Trans.Hex.ok4 at h
  simpa [hex4] using h

/-- it never panics on four or more bytes, and panics (index out of range in `Uint32`) on fewer -/
theorem readHexDigits_total (a b c d : UInt8) (tl : List UInt8) :
    (VGen.TransJson.readHexDigits (a :: b :: c :: d :: tl)).isSome = true := by
  unfold VGen.TransJson.readHexDigits
  simp [GoSem.beUint32]

example : VGen.TransJson.readHexDigits [0x64, 0x38, 0x33, 0x44] = some 0xD83D := by decide

end V.Trans.Json
