/-
  C18 — No input from the network can crash the library.

  In the models every Go panic site is an explicit `.panic site` outcome (Err.panic / Verdict.panic).
  The theorems below say those outcomes are unreachable; panics inside third-party parsers, stack or
  memory exhaustion are outside the models (see DESIGN.md §5 C18: covered by the `fuzz` stream only).
-/
import VModel.Json
import VModel.Auth
import VProofs.JsonCompact
import VProofs.JsonCanon
import VGen.Versions
import VProofs.EventAccessorsRedact
import VProofs.StateResNoPanic
import VProofs.AuthRulesNoPanic
import VModel.EventBuild
namespace V.C18
open V V.Json

/-- **Every function-valued entry of the room-version table is set** (a nil entry is a nil-function call:
    the defect fixed for org.matrix.msc3787).  Regenerated from eventversion.go on every run. -/
theorem version_table_total :
    VGen.roomVersions.all (fun r =>
      r.redactionAlgorithm != "" && r.signatureValidityCheckFunc != "" && r.canonicalJSONCheck != "" &&
      r.checkPowerLevelEvent != "" && r.restrictedJoinServernameFunc != "" && r.checkRestrictedJoin != "" &&
      r.parsePowerLevelsFunc != "" && r.checkKnockingAllowedFunc != "" && r.checkRestrictedJoinAllowedFunc != "" &&
      r.checkCreateEvent != "" && r.newEventFromUntrustedJSONFunc != "" && r.newEventFromTrustedJSONFunc != "" &&
      r.newEventFromTrustedJSONWithEventIDFunc != "" && r.ver == r.key) = true := by
  decide

/-- the table has the sixteen registered versions, each once -/
theorem version_table_keys :
    VGen.roomVersions.map (·.key) =
      ["1", "10", "11", "12", "2", "3", "4", "5", "6", "7", "8", "9", "org.matrix.hydra.11", "org.matrix.msc3667",
       "org.matrix.msc3787", "org.matrix.msc4014"] := by
  decide

/-- **CompactJSON's index arithmetic cannot go out of range on valid JSON**: for every text the validity gate
    accepts (and whose `\u` surrogate escapes are paired) the byte-level model returns normally. -/
theorem compact_no_panic (t : Bytes) (p : PVal) (hp : parse t = some p) (hs : p.surrogatesOk = true) :
    ∀ site, compact t ≠ .error (.panic site) := by
  intro site h
  rw [compact_of_parse hp hs] at h
  cases h

/-- **CanonicalJSON never panics**: invalid texts are refused by the gate, valid ones return their canonical form. -/
theorem canonical_no_panic (t : Bytes) (hs : ∀ p, parse t = some p → p.surrogatesOk = true) :
    ∀ site, canonical t ≠ .error (.panic site) := by
  intro site h
  cases hp : parse t with
  | none =>
    have : valid t = false := by simp [valid, hp]
    simp [canonical, this] at h
  | some p =>
    rw [canonical_of_parse hp (hs p hp)] at h
    cases h

example : (match canonical [0x7B, 0x22, 0x61, 0x22, 0x3A, 0x2D, 0x30, 0x7D] with | .ok b => b == [0x7B, 0x22, 0x61, 0x22, 0x3A, 0x30, 0x7D] | .error _ => false) = true := by decide

/-! ## Accessors of accepted events (VModel.EventAccessors; sites: VModel/PanicSites.md) -/

section Accessors
open V.EventParse V.EventAccessors V.AccProofs

/-- **No method of the `PDU` interface panics on an event `NewEventFromUntrustedJSON` returned** — `EventID`, `RoomID`
    (also of a version-12 create event, whose room ID is derived from the event ID), `AuthEventIDs`, `PrevEventIDs`,
    `Membership`, `JoinRule`, `HistoryVisibility`, `PowerLevels`, `SenderID().IsUserID()`, `ToHeaderedJSON`,
    `SetUnsigned`, `CheckFields`, `Redact()`, and the plain field reads — for every registered room version and every
    input text.  Guards: the room-ID check of the constructors dominates `spec.NewRoomID` in `RoomID()` and the `[1:]`
    of `AuthEventIDs()`; the event ID computed at construction dominates `EventID()`'s fallback and, being `$` plus 43
    URL-safe base64 characters, is a valid room ID after the sigil swap; the redaction computed at construction, the
    canonical-JSON check of the input and its struct decoding dominate the four sites of `Redact()`; the regenerated
    table dominates the function-valued `ParsePowerLevels`.
    Hypothesis: the hash returns 32 bytes (SHA-256).  `Sign` is the subject of `no_panic_sign`. -/
theorem no_panic_accessors (H : Bytes → Bytes) (hH : Len32 H) {ver text : Bytes} {e : PDU}
    (h : parseUntrusted H ver text = .ok e) :
    ∀ a : Acc, a.isSign = false → ∀ site, run H a e ≠ .error (.panic site) := by
  obtain ⟨row, I⟩ := inv_of_accepted h
  intro a ha site
  cases a with
  | eventID => exact cls_of_ok ⟨_, eventID_ok I⟩ site
  | stateKey => intro h; cases h
  | stateKeyEquals s => intro h; cases h
  | type => intro h; cases h
  | content => intro h; cases h
  | joinRule => exact joinRule_np e site
  | historyVisibility => exact historyVisibility_np e site
  | membership => exact membership_np e site
  | powerLevels => exact powerLevels_np I.hrow I.hver I.hfmt site
  | version => intro h; cases h
  | roomID => exact cls_of_ok (roomID_ok hH I) site
  | redacts => intro h; cases h
  | redacted => intro h; cases h
  | prevEventIDs => intro h; cases h
  | originServerTS => intro h; cases h
  | senderID => intro h; cases h
  | senderIsUserID => intro h; cases h
  | unsigned => intro h; cases h
  | depth => intro h; cases h
  | json => intro h; cases h
  | authEventIDs => exact cls_of_ok (authEventIDs_ok I) site
  | toHeaderedJSON => exact toHeadered_np I site
  | checkFields =>
    show checkFields e ≠ _
    rw [I.fields]
    intro h; cases h
  | setUnsigned u => exact setUnsigned_np e u site
  | redact => exact redact_np h I site
  | sign n k s => cases ha

/-- **`Sign()` reaches none of its panic sites on an event `NewEventFromUntrustedJSON` returned** — no hypothesis on the
    `signatures` member: `Sign()` leaves out a member `SignJSON` cannot decode (`signableEventJSON`), the text of an
    accepted event repeats no member name (so the member handed on is the one that was examined), and the redaction
    keeps `signatures` verbatim.  Before the repair the statement needed `sigsDecodable e` and was false without it
    (`"signatures":5`, `{"a":1}`, `{"a":{"k":"!!"}}`: `corpus/C18/fuzz.ops`). -/
theorem no_panic_sign (H : Bytes → Bytes) {ver text : Bytes} {e : PDU} (h : parseUntrusted H ver text = .ok e) :
    ∀ name kid sig site, run H (.sign name kid sig) e ≠ .error (.panic site) := by
  obtain ⟨row, I⟩ := inv_of_accepted h
  intro name kid sig site
  exact sign_np h I name kid sig site

/-- **Events from trusted JSON** (`NewEventFromTrustedJSON`, any text, any version, either `redacted` flag): every
    method but `Redact()` and `Sign()` reaches no site — `RoomID()` of a version-12 create event included: the V2 / V3
    constructors compute the event ID whatever `event_id` member the JSON carries, so the room ID derived from it is
    `!` plus 43 URL-safe base64 characters.  `Redact()` / `Sign()` need the untrusted constructor: they rely on the
    redaction, canonical-JSON and decoding checks only it performs.  Hypothesis: the hash returns 32 bytes. -/
theorem no_panic_accessors_trusted (H : Bytes → Bytes) (hH : Len32 H) {ver text : Bytes} {red : Bool} {e : PDU}
    (h : parseTrusted H ver red text = .ok e) :
    ∀ a : Acc, a.trustedSafe = true → ∀ site, run H a e ≠ .error (.panic site) := by
  obtain ⟨row, T⟩ := tinv_of_trusted h
  intro a ha site
  cases a with
  | eventID => exact cls_of_ok ⟨_, eventID_okT T⟩ site
  | stateKey => intro h; cases h
  | stateKeyEquals s => intro h; cases h
  | type => intro h; cases h
  | content => intro h; cases h
  | joinRule => exact joinRule_np e site
  | historyVisibility => exact historyVisibility_np e site
  | membership => exact membership_np e site
  | powerLevels => exact powerLevels_np T.hrow T.hver T.hfmt site
  | version => intro h; cases h
  | roomID => exact cls_of_ok (roomID_okT hH T) site
  | redacts => intro h; cases h
  | redacted => intro h; cases h
  | prevEventIDs => intro h; cases h
  | originServerTS => intro h; cases h
  | senderID => intro h; cases h
  | senderIsUserID => intro h; cases h
  | unsigned => intro h; cases h
  | depth => intro h; cases h
  | json => intro h; cases h
  | authEventIDs => exact cls_of_ok (authEventIDs_okT T) site
  | toHeaderedJSON => exact toHeadered_npT T site
  | checkFields => exact checkFields_np T site
  | setUnsigned u => exact setUnsigned_np e u site
  | redact => cases ha
  | sign n k s => cases ha

/-! ### Non-vacuity, and the former counter-examples after the repairs (toy hash: 32 zero bytes, whose base64 is 43 `A`s) -/

def H32 : Bytes → Bytes := fun _ => List.replicate 32 0

theorem H32_len : Len32 H32 := fun _ => rfl

def exEvent (members : String) : Bytes :=
  ("{" ++ members ++ "\"auth_events\":[],\"content\":{\"body\":\"x\"},\"depth\":1,\"hashes\":{\"sha256\":\"AAAAAAAAAAAAAAAAAAAAAAAAAAAAAAAAAAAAAAAAAAA\"}," ++
   "\"origin_server_ts\":1,\"prev_events\":[],\"sender\":\"@a:h\",\"type\":\"m.x\"}").toList.flatMap (fun c => utf8Encode c.toNat)

/-- an accepted, unredacted event: the whole sweep (accessors, `Redact()`, accessors again) reaches no site -/
example : (match parseUntrusted H32 b!"10" (exEvent "\"room_id\":\"!r:h\",") with
  | .ok e => !e.redacted && (sweep H32 e).isNone
  | _ => false) = true := by decide +kernel

/-- **The former counter-example of `no_panic_sign`** (defect D1): an accepted event whose `signatures` member does not
    decode (the number 5; an object of a number; a string that is not base64).  `Sign()` now reaches no site on it
    and returns an event whose `signatures` holds the new signature only. -/
theorem sign_undecodable_ok : (["5", "{\"a\":1}", "{\"a\":{\"k\":\"!!\"}}"].all (fun sg =>
    match parseUntrusted H32 b!"10" (exEvent ("\"room_id\":\"!r:h\",\"signatures\":" ++ sg ++ ",")) with
    | .ok e => !e.redacted && (panicSite H32 (.sign b!"me" b!"ed25519:1" b!"c2ln") e).isNone &&
        (match sign e b!"me" b!"ed25519:1" b!"c2ln" with
         | .ok e' => (match GoJson.lookupExact e'.obj b!"signatures" with
           | some v => encodeCanon v == b!"{\"me\":{\"ed25519:1\":\"c2ln\"}}"
           | none => false)
         | _ => false)
    | _ => false)) = true := by decide +kernel

/-- **The former counter-example of the accessor theorem after `Redact()`** (defect D3): an event that carries a case
    variant of `room_id` beside `"room_id":null`.  It is refused on receipt now (`checkUntrustedEventJSON`), like every
    event with a case variant of a struct field name or a repeated member name. -/
theorem roomID_variant_refused :
    (match parseUntrusted H32 b!"10" (exEvent "\"Room_id\":\"!r:h\",\"room_id\":null,") with
  | .error .badJSON => true
  | _ => false) = true := by decide +kernel

/-- **The former counter-example of the trusted-JSON theorem** (defect D4, found by the generator of area `fuzz`, op
    `trusted`): a version-12 create event built from trusted JSON that carries its own `event_id`.  The constructor
    computes the ID now; the room ID derived from it is valid. -/
theorem trusted_roomID_ok :
    (match parseTrusted H32 b!"12" false ("{\"event_id\":\"y\",\"state_key\":\"\",\"type\":\"m.room.create\"}".toList.flatMap (fun c => utf8Encode c.toNat)) with
  | .ok e => (panicSite H32 .roomID e).isNone && (touched.all (fun a => (panicSite H32 a e).isNone)) &&
      (match roomID H32 e with
       | .ok r => r == 0x21 :: List.replicate 43 0x41
       | _ => false)
  | _ => false) = true := by decide +kernel

end Accessors

/-! ## State resolution and the orderings (VModel.StateResPanic; sites: VModel/PanicSites.md) -/

section Resolution
open V.StateRes V.StateResPanic V.SRPanic

/-- **Refinement.**  Whenever no panic site fires, the panic-explicit entry points return exactly what the
    executable model `VModel.StateRes` returns — so every C10 / C11 theorem about the model (`resolveV2_eq_spec`,
    `resolve_perm_invariant`, …) holds of them unchanged. -/
theorem resolve_refines (sha : ID → Bytes) (ver : Bytes) (sets : List (List Event)) (auth : List Event) (rej : List ID)
    {r : Option (List ID)} (h : resolveConflictsNewP sha ver sets auth rej = .ok r) :
    r = resolveConflictsNew sha ver sets auth rej :=
  resolveConflictsNewP_eq h

theorem resolve_refines_deprecated (sha : ID → Bytes) (ver : Bytes) (events auth : List Event) (rej : List ID)
    {r : Option (List ID)} (h : resolveConflictsOldP sha ver events auth rej = .ok r) :
    r = resolveConflictsOld sha ver events auth rej :=
  resolveConflictsOldP_eq h

/-- **`ResolveConflictsNew` reaches no panic site** — version 1, 2 and 2.1 algorithms — for every list of state sets
    and auth events such that
    * `hev`  every event is one the constructors return (`EvOK`: `RoomID()` returns — `no_panic_accessors` —, the room ID
      has a domain unless the version derives it from the create event, the version is registered), and, for the
      version 2 / 2.1 algorithms,
    * `htwo` at least two state sets are supplied (the caller's side of the explicit panic at stateresolutionv2.go:246).
    NOTHING is assumed about the auth graph: `auth_events` may be cyclic (room versions 1 and 2, whose event IDs are chosen
    by the sender).  The three recursions over auth events (`fullControlSet`, the two mainline iterators) are sites of the
    panic-explicit model — a recursion deeper than the number of events supplied + 2 — and are shown unreachable:
    `fullControlSet` marks an event before descending into it, so every descent leaves fewer unmarked conflicted events
    (`SRPanic.fcs_some`); the mainline iterators never descend into an event they are inside of, so the events they are
    inside of are distinct events of the auth map (`SRPanic.mainlineIterP_some`, `firstMainlineP_some`; pigeonhole).
    Before fix 0d78b57 the acyclicity of the auth graph was a hypothesis here, and a self-citing power-levels event was a
    kernel-checked counter-example (`resolve_cycle_panics`, a fatal stack overflow on the real code): see
    `resolve_cycle_resolves` below.  The result is the model's. -/
theorem no_panic_resolve (sha : ID → Bytes) (ver : Bytes) (sets : List (List Event)) (auth : List Event) (rej : List ID)
    (hev : ∀ e, e ∈ sets.flatten ∨ e ∈ auth → EvOK e)
    (htwo : ∀ row, versionRow? ver = some row → row.stateResAlgorithm ≠ 1 → 2 ≤ sets.length) :
    resolveConflictsNewP sha ver sets auth rej = .ok (resolveConflictsNew sha ver sets auth rej) ∧
    ∀ site, resolveConflictsNewP sha ver sets auth rej ≠ .error (.panic site) := by
  have h := resolveConflictsNewP_ok (sha := sha) rej hev htwo
  exact ⟨h, fun site hc => by rw [h] at hc; cases hc⟩

/-- the same for the deprecated entry point `ResolveConflicts` (→ `ResolveStateConflicts` / `ResolveStateConflictsV2`):
    no hypothesis but `EvOK` for every event -/
theorem no_panic_resolve_deprecated (sha : ID → Bytes) (ver : Bytes) (events auth : List Event) (rej : List ID)
    (hev : ∀ e, e ∈ events ∨ e ∈ auth → EvOK e) :
    resolveConflictsOldP sha ver events auth rej = .ok (resolveConflictsOld sha ver events auth rej) ∧
    ∀ site, resolveConflictsOldP sha ver events auth rej ≠ .error (.panic site) := by
  have h := resolveConflictsOldP_ok (sha := sha) (ver := ver) rej hev
  exact ⟨h, fun site hc => by rw [h] at hc; cases hc⟩

/-- **`ReverseTopologicalOrdering`** (both orders) reaches no site on events the constructors return: by auth events
    `MustGetRoomVersion` is the only site (the public entry point has an empty auth map, so nothing is recursed into);
    by prev events there is none. -/
theorem no_panic_orderings (evs : List Event) (hev : ∀ e ∈ evs, EvOK e) :
    reverseTopoAuthEntryP evs = .ok (reverseTopoAuth [] (getCreateEvent evs) evs) ∧
    reverseTopoPrevEntryP evs = .ok (reverseTopoPrev evs) :=
  ⟨reverseTopoAuthEntryP_ok hev, rfl⟩

/-! ### Non-vacuity, and the formerly fatal inputs -/

def exEv (id type : Bytes) (extra : List (Bytes × JVal)) : Event :=
  { ver := b!"2", eventID := id,
    obj := [(b!"type", .str type), (b!"state_key", .str []), (b!"sender", .str b!"@a:h"), (b!"room_id", .str b!"!r:h"),
            (b!"content", .obj []), (b!"origin_server_ts", .num b!"1"), (b!"depth", .num b!"1")] ++ extra }

def exRef (id : Bytes) : JVal := .arr [.str id, .obj []]

def sameOK (a : Except Err (Option (List ID))) (b : Option (List ID)) : Bool :=
  match a with
  | .ok r => r == b
  | .error _ => false

def panicsWith (a : Except Err (Option (List ID))) (site : String) : Bool :=
  match a with
  | .error (.panic s) => s == site
  | _ => false

/-- two conflicting power-levels events without auth events, room version 2: resolved, no site -/
example : sameOK (resolveConflictsNewP (fun _ => []) b!"2"
      [[exEv b!"$a:h" b!"m.room.power_levels" []], [exEv b!"$b:h" b!"m.room.power_levels" []]] [] [])
    (resolveConflictsNew (fun _ => []) b!"2"
      [[exEv b!"$a:h" b!"m.room.power_levels" []], [exEv b!"$b:h" b!"m.room.power_levels" []]] [] []) = true := by
  decide +kernel

/-- **The formerly fatal input resolves**: a conflicted power-levels event that names itself among its `auth_events`
    (room version 2, whose event IDs are chosen by the sender) sent `fullControlSet` into an unbounded recursion — a fatal
    stack overflow on the real code (VModel/PanicSites.md, D2; `corpus/C18/stateres.ops`).  With the auth event marked
    before the descent (fix 0d78b57) no site fires and the answer is the model's. -/
theorem resolve_cycle_resolves :
    sameOK (resolveConflictsNewP (fun _ => []) b!"2"
      [[exEv b!"$a:h" b!"m.room.power_levels" [(b!"auth_events", .arr [exRef b!"$a:h"])]],
       [exEv b!"$b:h" b!"m.room.power_levels" []]] [] [])
    (resolveConflictsNew (fun _ => []) b!"2"
      [[exEv b!"$a:h" b!"m.room.power_levels" [(b!"auth_events", .arr [exRef b!"$a:h"])]],
       [exEv b!"$b:h" b!"m.room.power_levels" []]] [] []) = true := by
  decide +kernel

/-- two power-levels events naming each other: the same -/
example :
    sameOK (resolveConflictsNewP (fun _ => []) b!"2"
      [[exEv b!"$a:h" b!"m.room.power_levels" [(b!"auth_events", .arr [exRef b!"$b:h"])]],
       [exEv b!"$b:h" b!"m.room.power_levels" [(b!"auth_events", .arr [exRef b!"$a:h"])]]] [] [])
    (resolveConflictsNew (fun _ => []) b!"2"
      [[exEv b!"$a:h" b!"m.room.power_levels" [(b!"auth_events", .arr [exRef b!"$b:h"])]],
       [exEv b!"$b:h" b!"m.room.power_levels" [(b!"auth_events", .arr [exRef b!"$a:h"])]]] [] []) = true := by
  decide +kernel

/-- `fullControlSet` on the self-citing event, in isolation: the walk ends with the event marked -/
example : fcs [exEv b!"$a:h" b!"m.room.power_levels" [(b!"auth_events", .arr [exRef b!"$a:h"])]] 3 []
    (exEv b!"$a:h" b!"m.room.power_levels" [(b!"auth_events", .arr [exRef b!"$a:h"])]) = some [b!"$a:h"] := by
  decide +kernel

-- (The same shape through a power-levels auth event that names itself reached the sites of the two mainline iterators;
-- `firstMainlineP` is compiled by well-founded recursion and does not reduce in the kernel, so those instances are
-- evaluated by the driver only: corpus/C18/stateres.ops, witnesses W2 and W3.)

end Resolution

/-! ## Second audit round: the sender lookup with any querier (P2), the reference lists of a remote proto event (P1)

Sites: lean/VModel/PanicSites.md §7 (every call of a `spec.UserIDForSender`) and §8 (event_builder.go). -/

section Querier
open V.Auth V.AuthRules

/-- **The two sender lookups that had no nil guard, for ANY querier** (`createEventAllowed`, `aliasEventAllowed`): whatever
    a `spec.UserIDForSender` answers — a user ID, an error, or `(nil, nil)` — neither check reaches a panic site, as long
    as the querier itself returns.  (`RoomIDWellFormed`: what the event constructors guarantee, as in `no_panic_allowed`.) -/
theorem no_panic_sender_lookup (q : Querier) (hq : ∀ s site, q s ≠ .error (.panic site)) (c : Ctx) (e : Event)
    (hw : RoomIDWellFormed e) :
    ∀ site, c.createEventAllowedQ q e ≠ .error (.panic site) ∧ c.aliasEventAllowedQ q e ≠ .error (.panic site) :=
  fun site => ⟨(np_createQ q (fun s => ⟨hq s⟩) c e hw).h site, (np_aliasesQ q (fun s => ⟨hq s⟩) c e).h site⟩

/-- with the standard querier the parametrised checks ARE the checks of `V.C07.allowed_eq_spec` / `no_panic_allowed` -/
theorem sender_lookup_std (c : Ctx) (e : Event) :
    c.createEventAllowedQ stdQuerier e = c.createEventAllowed e ∧ c.aliasEventAllowedQ stdQuerier e = c.aliasEventAllowed e :=
  ⟨createEventAllowedQ_std c e, aliasEventAllowedQ_std c e⟩

/-- a `(nil, nil)` answer refuses the event (the repaired behaviour: before, `*sender` / `sender.Domain()` on nil) -/
theorem sender_lookup_nil_refused (q : Querier) (c : Ctx) (e : Event) (hq : q e.sender = .ok none) :
    c.aliasEventAllowedQ q e = notAllowed ∧
    (e.stateKeyEquals [] = true → ¬ e.prevEventIDs.length > 0 → c.createEventAllowedQ q e = notAllowed) :=
  ⟨aliasesQ_nil_refused q c e hq, fun h1 h2 => createQ_nil_refused q c e hq h1 h2⟩

/-- **`Allowed` with the querier that answers `(nil, nil)` for a sender that is not a user ID never panics** — the
    counterpart of `V.C07.no_panic_allowed` (standard querier) for what a pseudo-ID homeserver's querier does. -/
theorem no_panic_allowed_nil_querier (e : Event) (p : Provider) (sig : Bool) (hr : e.roomID ≠ []) (hw : RoomIDWellFormed e) :
    ∀ site, allowedFreshNilQ e p sig ≠ .panic site := by
  intro site
  unfold allowedFreshNilQ
  split
  · intro h; cases h
  · rw [update_empty]
    cases hfo : freshOf p with
    | error v =>
      obtain ⟨w, rfl⟩ := freshOf_error hfo
      intro h; cases h
    | ok c =>
      simp only
      have := (np_allowedNilQ c p (fresh_of hfo) e sig hr hw).h site
      cases hca : c.allowedNilQ e sig with
      | ok u => intro h; cases h
      | error v =>
        simp only
        intro h
        subst h
        exact this hca

/-- the former crash, kernel-checked to be refused: an org.matrix.msc4014 create event from the key `Zm9v` (no user ID),
    and an aliases event from it in a room whose create event is fine; the same two events from a user ID are accepted
    as before.  (Non-vacuity of the hypotheses of the theorems above as well: room ID `!room:hs1`.) -/
def exCreate (sender : Bytes) : Event :=
  { ver := b!"org.matrix.msc4014", eventID := b!"$c", obj :=
      [(b!"type", .str b!"m.room.create"), (b!"sender", .str sender), (b!"room_id", .str b!"!room:hs1"),
       (b!"state_key", .str []), (b!"content", .obj [(b!"creator", .str b!"@creator:hs1")]), (b!"prev_events", .arr [])] }
def exAliases (sender : Bytes) : Event :=
  { ver := b!"org.matrix.msc4014", eventID := b!"$a", obj :=
      [(b!"type", .str b!"m.room.aliases"), (b!"sender", .str sender), (b!"room_id", .str b!"!room:hs1"),
       (b!"state_key", .str sender), (b!"content", .obj []), (b!"prev_events", .arr [.str b!"$c"])] }

theorem nil_querier_witnesses :
    allowedFreshNilQ (exCreate b!"Zm9v") (Provider.ofEvents []) = .notAllowed ∧
    allowedFreshNilQ (exAliases b!"Zm9v") (Provider.ofEvents [exCreate b!"@creator:hs1"]) = .notAllowed ∧
    allowedFreshNilQ (exCreate b!"@creator:hs1") (Provider.ofEvents []) = .ok ∧
    allowedFreshNilQ (exAliases b!"@creator:hs1") (Provider.ofEvents [exCreate b!"@creator:hs1"]) = .ok := by
  decide +kernel

end Querier

section References
open V.EventParse V.EventBuild

/-- **No reference list makes `EventBuilder.Build`'s conversion panic** (event format 1, room versions 1–2): for every
    JSON value a remote server may put in `prev_events` / `auth_events` of a proto event — or for no member at all —
    `eventReferencesFrom` returns references or an ordinary error.  Every former panic site (`ev[0]` on `[]`,
    `ev[0].(string)`, `eventID[1:]` on `""`) is a branch of `refOfEntry` / `checkedEventHash`. -/
theorem no_panic_event_references (v : Option JVal) : ∀ site, refsOfJSON v ≠ .error (.panic site) := by
  intro site
  have hh : ∀ id x, checkedEventHash id = .error x → x = errOther := by
    intro id x h
    unfold checkedEventHash at h
    split at h
    · cases h
    · cases h; rfl
  have he : ∀ (x : JVal) y, refOfEntry x = .error y → y = errOther := by
    intro x y h
    unfold refOfEntry at h
    split at h
    · split at h
      · rename_i hx; cases h; exact hh _ _ hx
      · cases h
    · cases h; rfl
    · split at h
      · rename_i hx; cases h; exact hh _ _ hx
      · cases h
    · cases h; rfl
    · cases h
  have hm : ∀ (xs : List JVal) y, xs.mapM refOfEntry = .error y → y = errOther := by
    intro xs
    induction xs with
    | nil => intro y h; simp [List.mapM_nil, pure, Except.pure] at h
    | cons x xs ih =>
      intro y h
      simp only [List.mapM_cons, bind, Except.bind] at h
      split at h
      · rename_i hx; cases h; exact he _ _ hx
      · split at h
        · rename_i hxs; cases h; exact ih _ hxs
        · simp [pure, Except.pure] at h
  unfold refsOfJSON
  split
  · intro h; cases h
  · intro h; cases h
  · split
    · rename_i hx
      intro h
      cases h
      have := hm _ _ hx
      cases this
    · intro h; cases h
  · intro h; cases h

/-- the same for a list of event IDs given as `[]string` (what a local caller, or `AddAuthEvents`, stores) -/
theorem no_panic_event_references_ids (ids : List Bytes) : ∀ site, refsV1 ids ≠ .error (.panic site) := by
  intro site
  induction ids generalizing site with
  | nil => intro h; simp [refsV1, List.mapM_nil, pure, Except.pure] at h
  | cons id ids ih =>
    intro h
    simp only [refsV1, List.mapM_cons, bind, Except.bind] at h
    split at h
    · rename_i hx
      split at hx
      · rename_i hc
        unfold checkedEventHash at hc
        split at hc
        · cases hc
        · cases hc; cases hx; cases h
      · cases hx
    · split at h
      · rename_i hrest
        cases h
        exact ih site (by simpa [refsV1] using hrest)
      · simp [pure, Except.pure] at h

/-- the former crashes, kernel-checked to be ordinary errors now (`"prev_events":[[]]`, `[[5,{}]]`, `[""]`, `[[""]]`), the
    entries that are skipped, and a list that converts -/
def refsErr (r : Except Err (List JVal)) : Bool :=
  match r with
  | .error (.other w) => w == "other"
  | _ => false
def refsAre (r : Except Err (List JVal)) (text : Bytes) : Bool :=
  match r with
  | .ok l => encodeCanon (.arr l) == text
  | .error _ => false

theorem event_references_witnesses :
    (refsErr (refsOfJSON (some (.arr [.arr []]))) &&
     refsErr (refsOfJSON (some (.arr [.arr [.num b!"5", .obj []]]))) &&
     refsErr (refsOfJSON (some (.arr [.str []]))) &&
     refsErr (refsOfJSON (some (.arr [.arr [.str []]]))) &&
     refsErr (refsOfJSON (some (.arr [.str b!"x"]))) &&
     refsAre (refsOfJSON (some (.arr [.num b!"5", .null, .obj [], .bool true]))) b!"[]" &&
     refsAre (refsOfJSON (some (.obj []))) b!"[]" && refsAre (refsOfJSON none) b!"[]" &&
     refsAre (refsOfJSON (some (.arr [.str b!"$abcd:x", .arr [.str b!"$c:d", .obj [(b!"sha256", .str b!"x")]]])))
       b!"[[\"$abcd:x\",{\"sha256\":\"abcd\"}],[\"$c:d\",{\"sha256\":\"\"}]]") = true := by
  decide +kernel

end References

end V.C18
