/-
  C18 — No input from the network can crash the library.

  In the models every Go panic site is an explicit `.panic site` outcome (Err.panic / Verdict.panic).
  The theorems below say those outcomes are unreachable; panics inside third-party parsers, stack or
  memory exhaustion are outside the models (see DESIGN.md §5 C18: covered by the `fuzz` stream only).
-/
import VModel.Json
import VModel.Auth
import VProofs.JsonCompact
import VProofs.JsonCanon
import VGen.Versions
namespace V.C18
open V V.Json

/-- **Every function-valued entry of the room-version table is set** (a nil entry is a nil-function call:
    the defect fixed for org.matrix.msc3787).  Regenerated from eventversion.go on every run. -/
theorem version_table_total :
    VGen.roomVersions.all (fun r =>
      r.redactionAlgorithm != "" && r.signatureValidityCheckFunc != "" && r.canonicalJSONCheck != "" &&
      r.checkPowerLevelEvent != "" && r.restrictedJoinServernameFunc != "" && r.checkRestrictedJoin != "" &&
      r.parsePowerLevelsFunc != "" && r.checkKnockingAllowedFunc != "" && r.checkRestrictedJoinAllowedFunc != "" &&
      r.checkCreateEvent != "" && r.newEventFromUntrustedJSONFunc != "" && r.newEventFromTrustedJSONFunc != "" &&
      r.newEventFromTrustedJSONWithEventIDFunc != "" && r.ver == r.key) = true := by
  decide

/-- the table has the sixteen registered versions, each once -/
theorem version_table_keys :
    VGen.roomVersions.map (·.key) =
      ["1", "10", "11", "12", "2", "3", "4", "5", "6", "7", "8", "9", "org.matrix.hydra.11", "org.matrix.msc3667",
       "org.matrix.msc3787", "org.matrix.msc4014"] := by
  decide

/-- **CompactJSON's index arithmetic cannot go out of range on valid JSON**: for every text the validity gate
    accepts (and whose `\u` surrogate escapes are paired) the byte-level model returns normally. -/
theorem compact_no_panic (t : Bytes) (p : PVal) (hp : parse t = some p) (hs : p.surrogatesOk = true) :
    ∀ site, compact t ≠ .error (.panic site) := by
  intro site h
  rw [compact_of_parse hp hs] at h
  cases h

/-- **CanonicalJSON never panics**: invalid texts are refused by the gate, valid ones return their canonical form. -/
theorem canonical_no_panic (t : Bytes) (hs : ∀ p, parse t = some p → p.surrogatesOk = true) :
    ∀ site, canonical t ≠ .error (.panic site) := by
  intro site h
  cases hp : parse t with
  | none =>
    have : valid t = false := by simp [valid, hp]
    simp [canonical, this] at h
  | some p =>
    rw [canonical_of_parse hp (hs p hp)] at h
    cases h

example : (match canonical [0x7B, 0x22, 0x61, 0x22, 0x3A, 0x2D, 0x30, 0x7D] with | .ok b => b == [0x7B, 0x22, 0x61, 0x22, 0x3A, 0x30, 0x7D] | .error _ => false) = true := by decide

end V.C18
