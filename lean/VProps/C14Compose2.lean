/-
  C14 composed with C06 and C07, continued — the OTHER entry points of the federation-response filters
  (CheckSendJoinResponse, VerifyEventAuthChain, VerifyAuthRulesAtState, EventsLoader.LoadAndVerify) with the oracles
  discharged as in VProps/C14Compose.lean (`composedOracles w`):

    sigOk e        :=  `VerifyEventSignatures(e, verifier, userIDForSender) == nil`   — VModel.Signers (C06)
    allowedBy e p  :=  `Allowed(e, p, userIDForSender) == nil`                        — VModel.Auth.allowedFresh (C07)
    P, empty, add  :=  the `AuthEvents` object (`NewAuthEvents(nil)`, `AddEvent`)      — VModel.FedCheckInst

  Every theorem here is a corollary of the parametric theorem of VProps/C14.lean instantiated at `composedOracles w`
  (`send_join_accept_iff`, `auth_chain_iff`, `auth_chain_iff_table`, `at_state_iff`, `load_classification`), with the
  conclusion rewritten into the vocabulary of C06 (`requiredSigners`, the verifier's `valid` answers at the event's
  origin_server_ts under `strictValidity`) and of C07 (`allowedFresh … = .ok`).  Nothing is re-proved.
-/
import VProps.C14Compose
namespace V.C14
open V V.FedCheck V.FedCheck.Spec V.Signers V.Auth

/-! ### The two oracles, read in the C06 / C07 vocabulary -/

/-- the `allowedBy` oracle of the composition is "the C07 model of `Allowed` answers `ok`" -/
theorem composed_allowedBy_iff (w : SigWorld) (e : Event) (p : Provider) :
    (composedOracles w).allowedBy e p = true ↔ allowedFresh e p = .ok := by
  show (allowedFresh e p == Verdict.ok) = true ↔ _
  exact beq_iff_eq

/-- the `sigOk` oracle of the composition is "every server the C06 model requires for the event was reported valid at
    the event's origin_server_ts under the version's key-validity rule" -/
theorem composed_sigOk_iff (w : SigWorld) (e : Event) :
    (composedOracles w).sigOk e = true ↔
      ∃ l, requiredSigners w.row e (w.sd e) = .ok l ∧
        ∀ s ∈ l, w.valid e ⟨s, e.originServerTS, strictValidity w.row⟩ = true :=
  (w.sigOk_iff e).trans (C06.verify_iff w.row e (w.sd e) (w.valid e))

/-- the provider objects of the composition do not depend on the verifier's world: they are built with `AddEvent`
    (`padd`) from `NewAuthEvents(nil)` (`pempty`) -/
theorem composed_authOf (w : SigWorld) (res : Bytes → Option Event) (e : Event) :
    authOf (composedOracles w) res e =
      e.authEventIDs.foldl (fun p id => match res id with
        | some a => padd p a
        | none => p) pempty := rfl

theorem composed_stateProviderOf (w : SigWorld) (S : List Event) :
    stateProviderOf (composedOracles w) S = S.foldl padd pempty := rfl

/-! ### CheckSendJoinResponse -/

/-- **What an accepted `CheckSendJoinResponse` guarantees, without oracles.**  If the composed CheckSendJoinResponse
    accepts and returns the lists `A'`, `S'`, then the C07 model of `Allowed` accepts the join event against the provider
    built from those of its auth events that were returned (or that the caller's provider supplies), AND accepts it against
    the provider built from the whole returned state; and every returned event was in the response, every server the C06
    model requires for it was reported valid at its origin_server_ts under the version's rule, and the C07 model of
    `Allowed` accepts it against its verified / provider-supplied auth events. -/
theorem send_join_accepted_signed_and_allowed (w : SigWorld) (prov : Option EventProvider) (hprov : ProvOK prov)
    (n : Nat) (A S : List Event) (j : Event) (A' S' : List Event) (log : Log)
    (h : (checkSendJoin (composedOracles w) prov (n + 2) A S j log).1 = .ok A' S') :
    allowedFresh j (authOf (composedOracles w) (resolve (lastWithID (A' ++ S')) prov) j) = .ok ∧
    allowedFresh j (stateProviderOf (composedOracles w) S') = .ok ∧
    ∀ e ∈ A' ++ S',
      e ∈ A ++ S ∧
      (∃ l, requiredSigners w.row e (w.sd e) = .ok l ∧
        ∀ s ∈ l, w.valid e ⟨s, e.originServerTS, strictValidity w.row⟩ = true) ∧
      allowedFresh e (authOf (composedOracles w) (resolve (verified (composedOracles w) (A ++ S)) prov) e) = .ok := by
  have hiff := send_join_accept_iff (composedOracles w) (composedOracles_addIdem w) prov hprov n A S j log
  rw [h] at hiff
  have hsj : sendJoin (composedOracles w) prov A S j = some (A', S') := hiff.symm
  unfold sendJoin at hsj
  cases hsr : stateResponse (composedOracles w) prov A S with
  | none => rw [hsr] at hsj; cases hsj
  | some as =>
    obtain ⟨A1, S1⟩ := as
    rw [hsr] at hsj
    simp only at hsj
    split at hsj
    · rename_i hc
      cases hsj
      rw [Bool.and_eq_true] at hc
      have hcs : (checkStateResponse (composedOracles w) prov (n + 2) A S log).1 = .ok A' S' := by
        rw [state_response_exact (composedOracles w) (composedOracles_addIdem w) prov hprov, hsr]
      exact ⟨(composed_allowedBy_iff w _ _).mp hc.1, (composed_allowedBy_iff w _ _).mp hc.2,
        state_response_signed_and_allowed w prov hprov n A S A' S' log hcs⟩
    · cases hsj

/-- **… and exactly then.**  The composed CheckSendJoinResponse accepts with the lists `A'`, `S'` exactly when the composed
    CheckStateResponse returns these lists for the response and the C07 model of `Allowed` accepts the join event both
    against its returned-or-provided auth events and against the returned state. -/
theorem send_join_accepts_iff_allowed (w : SigWorld) (prov : Option EventProvider) (hprov : ProvOK prov)
    (n : Nat) (A S : List Event) (j : Event) (A' S' : List Event) (log : Log) :
    (checkSendJoin (composedOracles w) prov (n + 2) A S j log).1 = .ok A' S' ↔
      (checkStateResponse (composedOracles w) prov (n + 2) A S log).1 = .ok A' S' ∧
      allowedFresh j (authOf (composedOracles w) (resolve (lastWithID (A' ++ S')) prov) j) = .ok ∧
      allowedFresh j (stateProviderOf (composedOracles w) S') = .ok := by
  have hiff := send_join_accept_iff (composedOracles w) (composedOracles_addIdem w) prov hprov n A S j log
  have hex := state_response_exact (composedOracles w) (composedOracles_addIdem w) prov hprov n A S log
  have hacc : (checkSendJoin (composedOracles w) prov (n + 2) A S j log).1 = .ok A' S' ↔
      sendJoin (composedOracles w) prov A S j = some (A', S') := by
    rw [← hiff]
    cases (checkSendJoin (composedOracles w) prov (n + 2) A S j log).1 <;> simp [sjAccepted]
  rw [hacc, hex]
  unfold sendJoin
  cases hsr : stateResponse (composedOracles w) prov A S with
  | none => simp
  | some as =>
    obtain ⟨A1, S1⟩ := as
    simp only
    constructor
    · intro hsj
      split at hsj
      · rename_i hc
        cases hsj
        rw [Bool.and_eq_true] at hc
        exact ⟨rfl, (composed_allowedBy_iff w _ _).mp hc.1, (composed_allowedBy_iff w _ _).mp hc.2⟩
      · cases hsj
    · rintro ⟨heq, h1, h2⟩
      cases heq
      rw [(composed_allowedBy_iff w _ _).mpr h1, (composed_allowedBy_iff w _ _).mpr h2]
      rfl

/-! ### VerifyEventAuthChain -/

/-- one event of the chain passes, in the C07 vocabulary -/
theorem chainGood_composed_iff (w : SigWorld) (root : Event) (table : Bytes → Option Event) (errs : Bytes → Bool) (e : Event) :
    chainGood (composedOracles w) root table errs e = true ↔
      (∀ id ∈ e.authEventIDs, id = root.eventID ∨ errs id = false) ∧
      (∀ id ∈ e.authEventIDs, ∀ a, chainResolve root table id = some a → a.stateKey.isSome = true) ∧
      allowedFresh e (authOf (composedOracles w) (chainResolve root table) e) = .ok := by
  unfold chainGood
  rw [Bool.and_eq_true, Bool.and_eq_true, composed_allowedBy_iff, List.all_eq_true, List.all_eq_true, and_assoc]
  refine and_congr ?_ (and_congr ?_ Iff.rfl)
  · refine forall_congr' (fun id => forall_congr' (fun _ => ?_))
    simp
  · refine forall_congr' (fun id => forall_congr' (fun _ => ?_))
    cases chainResolve root table id <;> simp

/-- **VerifyEventAuthChain accepts exactly when the event and, recursively, every fetched auth event is allowed.**
    Against a provider that answers from a table of events keyed by their own IDs (`TableLike`: single-ID requests are
    answered exactly, batch answers may leave events out), VerifyEventAuthChain with the composed oracles — whenever its
    loop finishes within the fuel — accepts EXACTLY when for the event and every event reachable from it through
    resolvable auth event IDs (`Reach`): no needed ID makes the provider fail, every resolved auth event is a state event,
    and the C07 model of `Allowed` accepts the event against the provider built from its resolved auth events. -/
theorem auth_chain_accepts_allowed (w : SigWorld) (root : Event) (table : Bytes → Option Event) (errs : Bytes → Bool)
    (prov : EventProvider) (htl : TableLike table errs prov)
    (htable : ∀ id e, table id = some e → e.eventID = id) (n fuel : Nat) (log : Log)
    (hfuel : (verifyEventAuthChain (composedOracles w) prov (n + 2) fuel root log).1 ≠ .outOfFuel) :
    (verifyEventAuthChain (composedOracles w) prov (n + 2) fuel root log).1 = .ok ↔
      ∀ e, Reach root table e →
        (∀ id ∈ e.authEventIDs, id = root.eventID ∨ errs id = false) ∧
        (∀ id ∈ e.authEventIDs, ∀ a, chainResolve root table id = some a → a.stateKey.isSome = true) ∧
        allowedFresh e (authOf (composedOracles w) (chainResolve root table) e) = .ok := by
  rw [auth_chain_iff (composedOracles w) (composedOracles_addIdem w) root table errs prov htl htable n fuel log hfuel]
  exact forall_congr' (fun e => forall_congr' (fun _ => chainGood_composed_iff w root table errs e))

/-- the same for the provider that returns everything it has for a request (`tableProvider`): no contract hypothesis left -/
theorem auth_chain_accepts_allowed_table (w : SigWorld) (root : Event) (table : Bytes → Option Event) (errs : Bytes → Bool)
    (htable : ∀ id e, table id = some e → e.eventID = id) (n fuel : Nat) (log : Log)
    (hfuel : (verifyEventAuthChain (composedOracles w) (tableProvider table errs) (n + 2) fuel root log).1 ≠ .outOfFuel) :
    (verifyEventAuthChain (composedOracles w) (tableProvider table errs) (n + 2) fuel root log).1 = .ok ↔
      ∀ e, Reach root table e →
        (∀ id ∈ e.authEventIDs, id = root.eventID ∨ errs id = false) ∧
        (∀ id ∈ e.authEventIDs, ∀ a, chainResolve root table id = some a → a.stateKey.isSome = true) ∧
        allowedFresh e (authOf (composedOracles w) (chainResolve root table) e) = .ok := by
  rw [auth_chain_iff_table (composedOracles w) (composedOracles_addIdem w) root table errs htable n fuel log hfuel]
  exact forall_congr' (fun e => forall_congr' (fun _ => chainGood_composed_iff w root table errs e))

/-! ### VerifyAuthRulesAtState -/

/-- the specification's verdict "accepted", in the C07 vocabulary -/
theorem atState_composed_iff (w : SigWorld) (sp : StateProvider) (e : Event) (allow : Bool) :
    atState (composedOracles w) sp e allow = some true ↔
      ∃ ids, sp.ids e = some ids ∧
        ((allow && e.authEventIDs.all (fun a => ids.contains a)) = true ∨
         ∃ kvs, sp.state e ids = some kvs ∧ formsState (kvs.map (·.2)) = true ∧
           allowedFresh e (stateProviderOf (composedOracles w) (kvs.map (·.2))) = .ok) := by
  unfold atState
  cases hids : sp.ids e with
  | none => simp
  | some ids =>
    simp only [Option.some.injEq, exists_eq_left']
    by_cases hshort : (allow && e.authEventIDs.all (fun a => ids.contains a)) = true
    · simp only [hshort, if_true, true_or]
    · simp only [hshort, Bool.false_eq_true, if_false, false_or]
      cases hst : sp.state e ids with
      | none => simp
      | some kvs =>
        simp only [Option.some.injEq, exists_eq_left']
        cases hf : formsState (kvs.map (·.2))
        · simp
        · simp only [Bool.not_true, Bool.false_eq_true, if_false, Option.some.injEq, true_and]
          exact composed_allowedBy_iff w e _

/-- **VerifyAuthRulesAtState accepts exactly when the event is allowed by the whole state before it (or the permitted
    fallback applies).**  With the composed oracles the check never runs out of fuel, and it answers `ok` EXACTLY when the
    provider names the state IDs before the event and either validation is permitted and every auth event ID of the event is
    among them, or the provider returns the state, that state is a room state (state events only, no slot held by two
    different events), and the C07 model of `Allowed` accepts the event against the provider built from EVERY event of that
    state. -/
theorem at_state_allowed (w : SigWorld) (sp : StateProvider) (e : Event) (allow : Bool) (log : Log) :
    (verifyAuthRulesAtState (composedOracles w) sp e allow log).1 ≠ .outOfFuel ∧
    ((verifyAuthRulesAtState (composedOracles w) sp e allow log).1 = .ok ↔
      ∃ ids, sp.ids e = some ids ∧
        ((allow && e.authEventIDs.all (fun a => ids.contains a)) = true ∨
         ∃ kvs, sp.state e ids = some kvs ∧ formsState (kvs.map (·.2)) = true ∧
           allowedFresh e (stateProviderOf (composedOracles w) (kvs.map (·.2))) = .ok)) := by
  obtain ⟨hne, hco, _⟩ := at_state_iff (composedOracles w) sp e allow log
  refine ⟨hne, ?_⟩
  rw [← atState_composed_iff, ← hco]
  cases (verifyAuthRulesAtState (composedOracles w) sp e allow log).1 <;> simp [asCoarse]

/-! ### EventsLoader.LoadAndVerify -/

/-- results and events of `loadLoop` correspond position by position -/
theorem results_zip (f : Event → Option LoadClass) (pre : List LoadResult) (evs : List Event)
    (h1 : pre.map (·.event) = evs.map some) (h2 : pre.map (fun r => some r.cls) = evs.map f) :
    ∀ r ∈ pre, ∃ e ∈ evs, r.event = some e ∧ f e = some r.cls := by
  induction pre generalizing evs with
  | nil => intro r hr; cases hr
  | cons p ps ih =>
    cases evs with
    | nil => simp at h1
    | cons x xs =>
      simp only [List.map_cons, List.cons.injEq] at h1 h2
      intro r hr
      rcases List.mem_cons.mp hr with hr | hr
      · subst hr
        exact ⟨x, List.mem_cons_self, h1.1, h2.1.symm⟩
      · obtain ⟨e, he, h3, h4⟩ := ih xs h1.2 h2.2 r hr
        exact ⟨e, List.mem_cons_of_mem _ he, h3, h4⟩

/-- **An input LoadAndVerify classifies `ok` is signed and passes both auth checks.**  When the ordering returns as many
    events as it was given and the caller's provider answers from a table of events keyed by their own IDs, every result of
    the composed LoadAndVerify whose class is `ok` (no error) carries an event `e` of the ordered, cleanly parsed input such
    that: every server the C06 model requires for `e` was reported valid at its origin_server_ts under the version's rule;
    VerifyEventAuthChain accepted it, i.e. `e` and recursively every auth event the provider supplies has no failing ID, only
    state events among its resolved auth events, and is accepted by the C07 model of `Allowed` against them; and the C07
    model of `Allowed` accepts `e` against the whole state before it (or every auth event ID of `e` is among the state IDs
    before it: LoadAndVerify permits that fallback). -/
theorem load_results_signed (w : SigWorld) (table : Bytes → Option Event) (errs : Bytes → Bool)
    (prov : EventProvider) (htl : TableLike table errs prov)
    (htable : ∀ id e, table id = some e → e.eventID = id)
    (sp : StateProvider) (n fuel : Nat)
    (order : List Event → List Event) (raw : List Parsed) (log log' : Log) (rs : List LoadResult)
    (hord : (order (parsedClean raw)).length = (parsedClean raw).length)
    (h : loadAndVerify (composedOracles w) prov sp (n + 2) fuel order raw log = some (rs, log')) :
    ∀ r ∈ rs, r.cls = .ok →
      ∃ e, r.event = some e ∧ e ∈ order (parsedClean raw) ∧
        (∃ l, requiredSigners w.row e (w.sd e) = .ok l ∧
          ∀ s ∈ l, w.valid e ⟨s, e.originServerTS, strictValidity w.row⟩ = true) ∧
        (∀ x, Reach e table x →
          (∀ id ∈ x.authEventIDs, id = e.eventID ∨ errs id = false) ∧
          (∀ id ∈ x.authEventIDs, ∀ a, chainResolve e table id = some a → a.stateKey.isSome = true) ∧
          allowedFresh x (authOf (composedOracles w) (chainResolve e table) x) = .ok) ∧
        (∃ ids, sp.ids e = some ids ∧
          ((true && e.authEventIDs.all (fun a => ids.contains a)) = true ∨
           ∃ kvs, sp.state e ids = some kvs ∧ formsState (kvs.map (·.2)) = true ∧
             allowedFresh e (stateProviderOf (composedOracles w) (kvs.map (·.2))) = .ok)) := by
  obtain ⟨_, pre, hrs, hev, hcl⟩ :=
    load_classification (composedOracles w) prov sp (n + 2) fuel order raw log log' rs hord h
  intro r hr hok
  have hpre : r ∈ pre := by
    rw [hrs, List.mem_append] at hr
    rcases hr with hr | hr
    · exact hr
    · have := (List.mem_replicate.mp hr).2
      rw [this] at hok
      cases hok
  obtain ⟨e, he, hre, hc⟩ := results_zip (classOf (composedOracles w) prov sp (n + 2) fuel) pre _ hev hcl r hpre
  rw [hok] at hc
  refine ⟨e, hre, he, ?_⟩
  unfold classOf at hc
  by_cases hs : (!(composedOracles w).sigOk e) = true
  · simp only [hs, if_true] at hc
    cases hc
  · simp only [hs, Bool.false_eq_true, if_false] at hc
    have hsig : (composedOracles w).sigOk e = true := by
      cases hq : (composedOracles w).sigOk e
      · rw [hq] at hs; exact absurd rfl hs
      · rfl
    cases hv : (verifyEventAuthChain (composedOracles w) prov (n + 2) fuel e []).1 with
    | outOfFuel => rw [hv] at hc; cases hc
    | provErr => rw [hv] at hc; cases hc
    | authFail => rw [hv] at hc; cases hc
    | ok =>
      rw [hv] at hc
      simp only at hc
      have hat : atState (composedOracles w) sp e true = some true := by
        cases ha : atState (composedOracles w) sp e true with
        | none => rw [ha] at hc; cases hc
        | some b =>
          cases b
          · rw [ha] at hc; cases hc
          · rfl
      have hfuel : (verifyEventAuthChain (composedOracles w) prov (n + 2) fuel e []).1 ≠ .outOfFuel := by
        rw [hv]; intro hx; cases hx
      exact ⟨(composed_sigOk_iff w e).mp hsig,
        (auth_chain_accepts_allowed w e table errs prov htl htable n fuel [] hfuel).mp hv,
        (atState_composed_iff w sp e true).mp hat⟩

/-! ### Non-vacuity: the create event of C14Compose (room version 10, sent by `@a:hs1`) and its creator's join -/

/-- the creator's own join, citing the create event -/
def exJoin : Event :=
  { ver := b!"10", eventID := b!"$join", obj :=
      [(b!"type", .str b!"m.room.member"), (b!"sender", .str b!"@a:hs1"), (b!"room_id", .str b!"!r:hs1"),
       (b!"state_key", .str b!"@a:hs1"), (b!"content", .obj [(b!"membership", .str b!"join")]),
       (b!"origin_server_ts", .num b!"6"), (b!"depth", .num b!"2"),
       (b!"prev_events", .arr [.str b!"$create"]), (b!"auth_events", .arr [.str b!"$create"])] }

/-- a table holding the create event under its own ID -/
def exTable (id : Bytes) : Option Event := if id == b!"$create" then some exCreate else none

/-- the state before the join: the create event -/
def exState : StateProvider :=
  { ids := fun _ => some [b!"$create"], state := fun _ _ => some [(b!"$create", exCreate)] }

/-- what the four entry points answer on the response `auth = [], state = [exCreate]`, join event `exJoin`, with the
    verifier reporting `hs1` valid (`good`) or nobody -/
def exRun2 (good : Bool) : Option (Bool × Bool × Bool × Bool) :=
  (VGen.roomVersions.find? (fun r => r.key == "10")).map (fun row =>
    let O := composedOracles (exWorld row good)
    ((match (checkSendJoin O none 2 [] [exCreate] exJoin []).1 with
      | .ok a s => a.length == 0 && s.length == 1
      | _ => false),
     (verifyEventAuthChain O (tableProvider exTable (fun _ => false)) 2 8 exJoin []).1 == .ok,
     (verifyAuthRulesAtState O exState exJoin false []).1 == .ok,
     (match loadAndVerify O (tableProvider exTable (fun _ => false)) exState 2 8 id [.ok exJoin] [] with
      | some (rs, _) => rs.map (·.cls) == [.ok]
      | none => false)))

/-- the hypotheses of `send_join_accepted_signed_and_allowed`, `auth_chain_accepts_allowed(_table)`, `at_state_allowed`
    and `load_results_signed` hold on a concrete instance with a non-empty answer: the join is accepted by all four when
    `hs1` is reported valid; with no valid signature the send-join response is still accepted with the create event
    DROPPED — so the join, now without a create event among its auth events, is refused —, and LoadAndVerify classifies
    the join as a signature error (the two auth checks do not look at signatures) -/
example : exRun2 true = some (true, true, true, true) ∧ exRun2 false = some (false, true, true, false) := by
  decide +kernel

example : ∀ id e, exTable id = some e → e.eventID = id := by
  intro id e h
  unfold exTable at h
  split at h
  · rename_i hid
    cases h
    have : id = b!"$create" := by simpa using hid
    rw [this]
    rfl
  · cases h

end V.C14

#print axioms V.C14.send_join_accepted_signed_and_allowed
#print axioms V.C14.send_join_accepts_iff_allowed
#print axioms V.C14.auth_chain_accepts_allowed
#print axioms V.C14.auth_chain_accepts_allowed_table
#print axioms V.C14.at_state_allowed
#print axioms V.C14.load_results_signed
