/-
  Translated-function obligations for fclient/request.go (regenerated tie, semantic half).
  `VGen.TransFedReq.isSafeInHTTPQuotedString` is printed by tools/extract/trans.go from the CURRENT Go source.
-/
import VGen.TransFedReq
import VGen.C13
import VModel.FedReq
namespace V.Trans.FedReq
open V.FedReq

/-- The Go function, as translated from the source, is the model's `isSafeInHTTPQuotedString` on every byte string. -/
theorem isSafeInHTTPQuotedString_eq_model (t : List UInt8) :
    VGen.TransFedReq.isSafeInHTTPQuotedString t = V.FedReq.isSafeInHTTPQuotedString t := by
  unfold VGen.TransFedReq.isSafeInHTTPQuotedString V.FedReq.isSafeInHTTPQuotedString
  apply GoSem.forBytes_pred
  apply GoSem.forall_uint8
  decide +kernel

/-- qdtext of RFC 7230 §3.2.6, the grammar the property's header clause relies on:
    HTAB / SP / %x21 / %x23-5B / %x5D-7E / %x80-FF. -/
def qdtext (c : UInt8) : Bool :=
  c == 0x09 || c == 0x20 || c == 0x21 || (0x23 ≤ c && c ≤ 0x5B) || (0x5D ≤ c && c ≤ 0x7E) || 0x80 ≤ c

/-- the translated Go function accepts exactly the strings made of qdtext bytes -/
theorem isSafeInHTTPQuotedString_iff_qdtext (t : List UInt8) :
    VGen.TransFedReq.isSafeInHTTPQuotedString t = t.all qdtext := by
  rw [isSafeInHTTPQuotedString_eq_model]; rfl

end V.Trans.FedReq
