/-
  Translated-function obligations for eventcontent.go: the three level readers of `PowerLevelContent` that the
  authorisation rules (C07), the escalation checks (C08) and the power ordering of state resolution (C10) go through.
  `VGen.TransLevels.*` is printed from the CURRENT Go source by tools/extract/trans.go.
-/
import VGen.TransLevels
import VModel.Auth
namespace V.Trans.Levels
open V V.Json V.GoJson V.Auth

/-- the Go value a model `PowerLevels` denotes -/
def goContent (p : PowerLevels) : VGen.TransLevels.PowerLevelContent :=
  { Ban := p.ban, Invite := p.invite, Kick := p.kick, Redact := p.redact, UsersDefault := p.usersDefault,
    EventsDefault := p.eventsDefault, StateDefault := p.stateDefault, Users := p.users, Events := p.events,
    Notifications := p.notifications }

theorem mapGet_eq (m : List (Bytes × Int)) (k : Bytes) : GoSem.mapGet m k = V.GoJson.mapGet m k := rfl

theorem getD_aux (x : Option Int) (d : Int) : (if x.isSome = true then x.getD 0 else d) = x.getD d := by
  cases x <;> simp

/-- **UserLevel**: explicit entry if present, `users_default` otherwise — equal to the model's reader for every content and user -/
theorem userLevel_eq_model (p : PowerLevels) (u : Bytes) :
    VGen.TransLevels.UserLevel (goContent p) u = p.userLevel u := by
  unfold VGen.TransLevels.UserLevel PowerLevels.userLevel goContent
  simp only [mapGet_eq]
  exact getD_aux _ _

/-- **EventLevel**: `m.room.third_party_invite` needs the invite level whatever `events` says; otherwise the explicit
    entry, otherwise `state_default` / `events_default` -/
theorem eventLevel_eq_model (p : PowerLevels) (t : Bytes) (isState : Bool) :
    VGen.TransLevels.EventLevel (goContent p) t isState = p.eventLevel t isState := by
  unfold VGen.TransLevels.EventLevel PowerLevels.eventLevel goContent
  simp only [mapGet_eq]
  have hb : (b!"m.room.third_party_invite" : Bytes) =
      [109, 46, 114, 111, 111, 109, 46, 116, 104, 105, 114, 100, 95, 112, 97, 114, 116, 121, 95, 105, 110, 118, 105, 116, 101] := by decide
  rw [hb]
  by_cases ht : t = [109, 46, 114, 111, 111, 109, 46, 116, 104, 105, 114, 100, 95, 112, 97, 114, 116, 121, 95, 105, 110, 118, 105, 116, 101]
  · simp [ht]
  · have : (t == ([109, 46, 114, 111, 111, 109, 46, 116, 104, 105, 114, 100, 95, 112, 97, 114, 116, 121, 95, 105, 110, 118, 105, 116, 101] : List UInt8)) = false := by
      simpa using ht
    simp only [this]
    cases h : V.GoJson.mapGet p.events t <;> cases isState <;> simp

/-- **NotificationLevel**: explicit entry, default 50 -/
theorem notificationLevel_eq_model (p : PowerLevels) (n : Bytes) :
    VGen.TransLevels.NotificationLevel (goContent p) n = p.notificationLevel n := by
  unfold VGen.TransLevels.NotificationLevel PowerLevels.notificationLevel goContent
  simp only [mapGet_eq]
  exact getD_aux _ _

/-- the rule text directly, on the translated function: a third-party-invite event is gated by `invite` alone -/
theorem eventLevel_third_party_invite (c : VGen.TransLevels.PowerLevelContent) (isState : Bool) :
    VGen.TransLevels.EventLevel c
      [109, 46, 114, 111, 111, 109, 46, 116, 104, 105, 114, 100, 95, 112, 97, 114, 116, 121, 95, 105, 110, 118, 105, 116, 101] isState
      = c.Invite := by
  unfold VGen.TransLevels.EventLevel; simp

end V.Trans.Levels
