/-
  C15 — Join, leave and invite handshakes admit only well-formed, authorised requests.

  For every handler H of VModel.Handshake (the guard chains the driver runs against the Go handlers):
    * `H_ok_implies_guards` : H input = ok out → Guards_H input   (Guards_H from VModel.HandshakeSpec:
      the conjunction the property lists, restricted to what the handler's signature can see; for send_join "it is a
      join" includes the event TYPE — `m.room.member` — since round 4, when the handler was found not to check it)
    * `H_signs_unmodified`  : the response is the received event plus ONE signature slot, that of
      (local server, local key ID) — HandleSendJoin, HandleInvite
    * `H_decision_table`    : the outcome is the error class of the FIRST failing guard of an explicit
      ordered table, and `ok` when none fails (completeness of the guard chain, by case analysis)
  All statements are universally quantified over the abstract inputs: request parameters, event shape
  facts, and arbitrary answers of the verifier / queriers / template builder / Allowed oracle.

  Requesting side of the invite handshake (VModel.HandshakeInvite): `performInvite_ok_implies_guards`,
  `performInvite_decision_table`, `performInvite_no_panic`; pseudo-ID path of HandleSendJoin:
  `sendJoinPseudo_ok_implies_guards`, `sendJoinPseudo_decision_table`.
-/
import VModel.Handshake
import VModel.HandshakeSpec
import VModel.HandshakeInvite
import VModel.HandshakeInviteSpec
namespace V.C15
open V V.Handshake V.Handshake.Spec

/-- outcome of an ordered guard table: the class of the first failing guard, else the response -/
def firstFailing {α} (table : List (Bool × HErr)) (out : α) : R α :=
  match table.find? (·.1) with
  | some (_, e) => .error e
  | none => .ok out

/-! ## HandleSendJoin -/

theorem dom_beq (a b : Bytes) : (SenderAns.dom a == SenderAns.dom b) = (a == b) := by
  by_cases h : a = b
  · subst h; simp
  · have hne : SenderAns.dom a ≠ SenderAns.dom b := by
      intro hc; cases hc; exact h rfl
    rw [beq_eq_false_iff_ne.mpr hne, beq_eq_false_iff_ne.mpr h]

theorem sendJoinTail_ok {i : SendJoinIn} {o : SendJoinOut} (h : sendJoinTail i = .ok o) :
    i.curMembership ≠ none ∧ i.curMembership ≠ some b!"ban" ∧ i.contentDecodes = true ∧ viaLocal i = true
    ∧ o.sig = ⟨i.localServer, i.keyID⟩ ∧ o.alreadyJoined = (i.curMembership == some b!"join") := by
  unfold sendJoinTail at h
  split at h
  · cases h
  · split at h
    · cases h
    split at h
    · cases h
    split at h
    · cases h
    cases h
    simp_all

theorem sendJoinEventChecks_ok {i : SendJoinIn} {o : SendJoinOut} (h : sendJoinEventChecks i = .ok o) :
    i.evType = b!"m.room.member" ∧ i.membership = some b!"join" ∧ i.verify = .good ∧ sendJoinTail i = .ok o := by
  unfold sendJoinEventChecks at h
  split at h
  · cases h
  split at h
  · cases h
  · split at h
    · cases h
    split at h
    · cases h
    · cases h
    · simp_all

theorem viaLocal_iff (i : SendJoinIn) :
    viaLocal i = (i.authorisedVia.isEmpty || i.userID i.authorisedVia == some i.localServer) := by
  unfold viaLocal
  split
  · simp_all
  · split <;> simp_all

/-- HandleSendJoin accepts an event only if it is a join — an `m.room.member` event with membership `join` — whose
    sender equals its state key, whose room and event ID match the request, whose sender belongs to the requesting
    server, which that server has validly signed, whose target is not banned and whose authorising user (if any) is
    local.  The event-type conjunct is stated on its own as well (it is the clause the guard predicate once lacked):
    the theorem does not survive a `sendJoinGuards` that forgets it. -/
theorem sendJoin_ok_implies_guards (i : SendJoinIn) (o : SendJoinOut) (h : handleSendJoin i = .ok o) :
    sendJoinGuards i = true ∧ i.evType = b!"m.room.member" ∧ i.membership = some b!"join" := by
  unfold handleSendJoin at h
  split at h
  · cases h
  split at h
  · cases h
  split at h
  · cases h
  split at h
  · cases h
  split at h
  · cases h
  · cases h
  · split at h
    · cases h
    split at h
    · cases h
    split at h
    · cases h
    obtain ⟨hty, hm, hv, ht⟩ := sendJoinEventChecks_ok h
    obtain ⟨_, hb, _, hvia, _, _⟩ := sendJoinTail_ok ht
    rw [viaLocal_iff] at hvia
    refine ⟨?_, hty, hm⟩
    simp_all [sendJoinGuards, isJoin]

/-- Whatever HandleSendJoin returns is the received event plus one signature slot: that of the local
    server under the local key ID (at model level: "out = in + signature slot (local server, key ID)");
    and `AlreadyJoined` reports exactly whether the current membership is `join`. -/
theorem sendJoin_signs_unmodified (i : SendJoinIn) (o : SendJoinOut) (h : handleSendJoin i = .ok o) :
    o.sig = { signer := i.localServer, keyID := i.keyID } ∧ o.alreadyJoined = (i.curMembership == some b!"join") := by
  unfold handleSendJoin at h
  split at h
  · cases h
  split at h
  · cases h
  split at h
  · cases h
  split at h
  · cases h
  split at h
  · cases h
  · cases h
  · split at h
    · cases h
    split at h
    · cases h
    split at h
    · cases h
    obtain ⟨_, _, _, ht⟩ := sendJoinEventChecks_ok h
    obtain ⟨_, _, _, _, hs, ha⟩ := sendJoinTail_ok ht
    exact ⟨hs, ha⟩

/-- the guards of HandleSendJoin in the order of the code, each with the Matrix error class it yields -/
def sendJoinTable (i : SendJoinIn) : List (Bool × HErr) := [
  (!i.versionKnown, eUnsupported),
  (!i.parses, eBadJSON),
  (i.stateKey.isNone || i.stateKey == some [], eBadJSON),
  (i.stateKey != some i.sender, eBadJSON),
  (!senderKnown i.senderDomain, eForbidden),                 -- the querier failed, or knows no user for the sender (round-5 repair)
  (i.senderDomain != .dom i.requestOrigin, eForbidden),
  (i.eventRoomID != i.roomID, eBadJSON),
  (i.eventID != i.reqEventID, eBadJSON),
  (i.evType != b!"m.room.member", eBadJSON),                 -- not an m.room.member event (round-4 repair)
  (i.membership.isNone, eBadJSON),
  (i.membership != some b!"join", eBadJSON),
  (i.verify == .callErr, .internal),
  (i.verify == .bad, eForbidden),
  (i.curMembership.isNone, .internal),
  (i.curMembership == some b!"ban", eForbidden),
  (!i.contentDecodes, eBadJSON),
  (!(i.authorisedVia.isEmpty || i.userID i.authorisedVia == some i.localServer), eBadJSON)]

theorem sendJoinTail_table (i : SendJoinIn) :
    sendJoinTail i = firstFailing [
      (i.curMembership.isNone, .internal),
      (i.curMembership == some b!"ban", eForbidden),
      (!i.contentDecodes, eBadJSON),
      (!(i.authorisedVia.isEmpty || i.userID i.authorisedVia == some i.localServer), eBadJSON)]
      { alreadyJoined := i.curMembership == some b!"join", sig := { signer := i.localServer, keyID := i.keyID } } := by
  unfold sendJoinTail
  rw [← viaLocal_iff]
  cases hc : i.curMembership with
  | none => simp [firstFailing]
  | some cur =>
    by_cases h1 : cur = b!"ban"
    · simp [firstFailing, h1]
    · by_cases h2 : i.contentDecodes = true
      · by_cases h3 : viaLocal i = true
        · simp [firstFailing, h1, h2, h3]
        · simp [firstFailing, h1, h2, h3]
      · simp [firstFailing, h1, h2]

theorem sendJoinEventChecks_table (i : SendJoinIn) (out : SendJoinOut) (tail : List (Bool × HErr))
    (ht : sendJoinTail i = firstFailing tail out) :
    sendJoinEventChecks i = firstFailing ([
      (i.evType != b!"m.room.member", eBadJSON),
      (i.membership.isNone, eBadJSON),
      (i.membership != some b!"join", eBadJSON),
      (i.verify == .callErr, .internal),
      (i.verify == .bad, eForbidden)] ++ tail) out := by
  unfold sendJoinEventChecks
  cases hty : (i.evType != b!"m.room.member")
  case true => simp [firstFailing]
  cases hm : i.membership with
  | none => simp [firstFailing]
  | some m =>
    by_cases h1 : m = b!"join"
    · cases hv : i.verify <;> simp_all [firstFailing]
    · simp [firstFailing, h1]

/-- Decision-table completeness: HandleSendJoin answers with the error class of the first failing guard
    of `sendJoinTable`, and with the counter-signed event when no guard fails. -/
theorem sendJoin_decision_table (i : SendJoinIn) :
    handleSendJoin i = firstFailing (sendJoinTable i)
      { alreadyJoined := i.curMembership == some b!"join", sig := { signer := i.localServer, keyID := i.keyID } } := by
  have ht := sendJoinEventChecks_table i _ _ (sendJoinTail_table i)
  unfold handleSendJoin sendJoinTable
  cases h1 : (!i.versionKnown)
  case true => simp [firstFailing]
  cases h2 : (!i.parses)
  case true => simp [firstFailing]
  cases h3 : (i.stateKey.isNone || i.stateKey == some [])
  case true => simp [firstFailing]
  cases h4 : (i.stateKey != some i.sender)
  case true => simp [firstFailing]
  cases hd : i.senderDomain with
  | err => simp [firstFailing, senderKnown]
  | nil => simp [firstFailing, senderKnown]
  | dom d =>
    have hs : (SenderAns.dom d != SenderAns.dom i.requestOrigin) = (d != i.requestOrigin) := by simp [bne, dom_beq]
    cases h5 : (d != i.requestOrigin)
    case true => simp [firstFailing, senderKnown, hs, h5]
    cases h6 : (i.eventRoomID != i.roomID)
    case true => simp [firstFailing, senderKnown, hs, h5]
    cases h7 : (i.eventID != i.reqEventID)
    case true => simp [firstFailing, senderKnown, hs, h5]
    rw [ht]
    simp [firstFailing, senderKnown, hs, h5]

/-- non-vacuity: an input on which HandleSendJoin accepts -/
def sendJoinWitness : SendJoinIn := {
  versionKnown := true, parses := true, evType := b!"m.room.member", stateKey := some b!"@bob:hs2", sender := b!"@bob:hs2",
  eventRoomID := b!"!room:hs1", eventID := b!"$e", membership := some b!"join", contentDecodes := true,
  authorisedVia := b!"@alice:hs1", roomID := b!"!room:hs1", reqEventID := b!"$e", requestOrigin := b!"hs2",
  localServer := b!"hs1", keyID := b!"ed25519:k1", senderDomain := .dom b!"hs2", verify := .good,
  curMembership := some b!"leave", userID := fun _ => some b!"hs1" }

example : handleSendJoin sendJoinWitness = .ok { alreadyJoined := false, sig := ⟨b!"hs1", b!"ed25519:k1"⟩ } := by rfl
example : handleSendJoin { sendJoinWitness with curMembership := some b!"ban" } = .error eForbidden := by rfl
example : handleSendJoin { sendJoinWitness with userID := fun _ => some b!"evil" } = .error eBadJSON := by rfl
/-- the input of the round-4 finding: everything in order except that the event is not an `m.room.member` event
    (the unrepaired handler accepted and counter-signed it); also the case variant and the empty type -/
example : handleSendJoin { sendJoinWitness with evType := b!"x.custom" } = .error eBadJSON := by rfl
example : handleSendJoin { sendJoinWitness with evType := b!"m.room.Member" } = .error eBadJSON := by rfl
example : handleSendJoin { sendJoinWitness with evType := [] } = .error eBadJSON := by rfl
example : sendJoinGuards sendJoinWitness = true := by rfl
example : sendJoinGuards { sendJoinWitness with evType := b!"x.custom" } = false := by rfl
/-- the input of the round-5 finding: the user-ID querier answers (nil, nil) — no user, no error.  The unrepaired handler
    dereferenced the nil user ID; now it is a refusal, like a failed lookup. -/
example : handleSendJoin { sendJoinWitness with senderDomain := .nil } = .error eForbidden := by rfl
example : handleSendJoin { sendJoinWitness with senderDomain := .err } = .error eForbidden := by rfl
example : sendJoinGuards { sendJoinWitness with senderDomain := .nil } = false := by rfl

/-! ## HandleMakeJoin -/

theorem checkTemplate_ok {t : TemplateAns} (h : checkTemplate t = .ok ()) : templateOK t = true := by
  unfold checkTemplate at h
  split at h
  · cases h
  · cases h
  · cases h
  · split at h
    · cases h
    split at h
    · cases h
    split at h
    · cases h
    simp_all [templateOK]

/-- the authoriser picked among the joined users is a member event's state key, a creator or a user whose
    power level reaches the invite level -/
theorem pickAuthoriser_some {creators : List Bytes} {pl : PL} {us : List JoinedUser} {id : Bytes}
    (h : pickAuthoriser creators pl us = some id) :
    ∃ u ∈ us, u.type = b!"m.room.member" ∧ u.stateKey = some id ∧
      (creators.contains id = true ∨ pl.invite ≤ pl.userLevel id) := by
  induction us with
  | nil => simp [pickAuthoriser] at h
  | cons u us ih =>
    unfold pickAuthoriser at h
    split at h
    · obtain ⟨w, hw, hr⟩ := ih h
      exact ⟨w, List.mem_cons_of_mem _ hw, hr⟩
    · rename_i hty
      split at h
      · obtain ⟨w, hw, hr⟩ := ih h
        exact ⟨w, List.mem_cons_of_mem _ hw, hr⟩
      · rename_i id' hsk
        split at h
        · rename_i hc
          cases h
          exact ⟨u, List.mem_cons_self, by simpa using hty, hsk, Or.inl hc⟩
        · split at h
          · obtain ⟨w, hw, hr⟩ := ih h
            exact ⟨w, List.mem_cons_of_mem _ hw, hr⟩
          · rename_i hlt
            cases h
            exact ⟨u, List.mem_cons_self, by simpa using hty, hsk, Or.inr (by omega)⟩

/-- an authoriser found by the loop over the allow rules comes from an `m.room_membership` rule whose
    room is valid, in which this server is resident and the joiner is joined -/
theorem rulesLoop_some {q : RestrictedQ} {cs : List Bytes} {pl : PL} {rules : List AllowRule} {res r : Bool} {id : Bytes}
    (h : rulesLoop q cs pl rules res = (some id, r)) :
    ∃ rule ∈ rules, rule.type = b!"m.room_membership" ∧ q.roomIDValid rule.roomID = true ∧
      ∃ info, q.roomInfo rule.roomID = .ans (some info) ∧ info.localServerInRoom = true ∧ info.userJoinedToRoom = true ∧
        pickAuthoriser cs pl info.joinedUsers = some id := by
  induction rules generalizing res with
  | nil => simp [rulesLoop] at h
  | cons rule rest ih =>
    unfold rulesLoop at h
    split at h
    · obtain ⟨w, hw, hr⟩ := ih h
      exact ⟨w, List.mem_cons_of_mem _ hw, hr⟩
    · rename_i hty
      split at h
      · obtain ⟨w, hw, hr⟩ := ih h
        exact ⟨w, List.mem_cons_of_mem _ hw, hr⟩
      · rename_i hvalid
        split at h
        · obtain ⟨w, hw, hr⟩ := ih h
          exact ⟨w, List.mem_cons_of_mem _ hw, hr⟩
        · obtain ⟨w, hw, hr⟩ := ih h
          exact ⟨w, List.mem_cons_of_mem _ hw, hr⟩
        · rename_i info hinfo
          split at h
          · obtain ⟨w, hw, hr⟩ := ih h
            exact ⟨w, List.mem_cons_of_mem _ hw, hr⟩
          · rename_i hloc
            split at h
            · obtain ⟨w, hw, hr⟩ := ih h
              exact ⟨w, List.mem_cons_of_mem _ hw, hr⟩
            · rename_i hjoined
              split at h
              · obtain ⟨w, hw, hr⟩ := ih h
                exact ⟨w, List.mem_cons_of_mem _ hw, hr⟩
              · split at h
                · rename_i id' hp
                  cases h
                  exact ⟨rule, List.mem_cons_self, by simpa using hty, by simpa using hvalid, info, hinfo,
                    by simpa using hloc, by simpa using hjoined, hp⟩
                · obtain ⟨w, hw, hr⟩ := ih h
                  exact ⟨w, List.mem_cons_of_mem _ hw, hr⟩

theorem creatorsFor_ok {i : MakeJoinIn} {cs : List Bytes} (h : creatorsFor i.q i.privilegedCreators = .ok cs) :
    cs = creatorsOf i := by
  unfold creatorsFor at h
  unfold creatorsOf
  split at h
  · rename_i hp
    split at h
    · cases h
    · cases h
    · rename_i cs' hc
      cases h
      simp [hp, hc]
  · rename_i hp
    cases h
    simp [hp]

/-- what a successful restricted-join stage returns -/
theorem restrictedStage_ok {i : MakeJoinIn} {v : Bytes} (h : restrictedStage i = .ok v) :
    (needsAuthoriser i = true → v ∈ eligible i) ∧ (needsAuthoriser i = false → v = []) := by
  unfold restrictedStage at h
  split at h
  · rename_i hrv
    split at h
    · rename_i v' hc
      cases h
      unfold checkRestrictedJoin at hc
      split at hc
      · cases hc
      · rename_i hjr
        cases hc
        simp [needsAuthoriser, hjr]
      · cases hc
      · rename_i jr hjr
        split at hc
        · rename_i hnr
          cases hc
          simp [needsAuthoriser, hjr]
          intro _ hr
          simp [hr] at hnr
        · rename_i hr
          split at hc
          · cases hc
          · rename_i hpend
            cases hc
            simp [needsAuthoriser, hjr, hpend]
          · rename_i hpend
            split at hc
            · cases hc
            · cases hc
            · cases hc
            · rename_i pl hpl
              unfold pickVia at hc
              split at hc
              · cases hc
              · rename_i cs hcs
                have hcs' := creatorsFor_ok hcs
                split at hc
                · rename_i id r hloop
                  cases hc
                  have hneed : needsAuthoriser i = true := by
                    simp [needsAuthoriser, hrv, hjr, hpend]
                    simpa using hr
                  refine ⟨fun _ => ?_, fun hn => by simp [hneed] at hn⟩
                  obtain ⟨rule, hrule, hty, hvalid, info, hinfo, hloc, hj, hp⟩ := rulesLoop_some hloop
                  obtain ⟨u, hu, huty, husk, hent⟩ := pickAuthoriser_some hp
                  unfold eligible
                  rw [List.mem_flatMap]
                  refine ⟨rule, by simpa [allowRules, hjr] using hrule, ?_⟩
                  simp only [hty, hvalid, hinfo, hloc, hj, beq_self_eq_true, Bool.and_self, if_true]
                  rw [List.mem_filterMap]
                  refine ⟨u, hu, ?_⟩
                  have hE : entitled i v = true := by
                    unfold entitled
                    rw [← hcs', hpl]
                    cases hent with
                    | inl hc' => rw [hc']; rfl
                    | inr hl => simp [hl]
                  simp [huty, husk, hE]
                · cases hc
                · cases hc
    · cases h
    · cases h
  · rename_i hrv
    cases h
    simp [needsAuthoriser, hrv]

/-- HandleMakeJoin returns a template only if the remote supports the room version, the user belongs to
    the requesting server, the local server is in the room, the join — when the room restricts joins and
    no invite is pending — is authorised by a user entitled to invite (`eligible`), and the built event
    passes the auth rules against the state supplied with it. -/
theorem makeJoin_ok_implies_guards (i : MakeJoinIn) (o : MakeJoinOut) (h : handleMakeJoin i = .ok o) :
    makeJoinBasic i = true ∧ templateOK (i.template o.authorisedVia) = true ∧ o.roomVersion = i.roomVersion ∧
    (needsAuthoriser i = true → o.authorisedVia ∈ eligible i) ∧ (needsAuthoriser i = false → o.authorisedVia = []) := by
  unfold handleMakeJoin at h
  split at h
  · cases h
  split at h
  · cases h
  split at h
  · cases h
  split at h
  · cases h
  · rename_i v hv
    split at h
    · cases h
    · rename_i ht
      cases h
      obtain ⟨h1, h2⟩ := restrictedStage_ok hv
      refine ⟨?_, checkTemplate_ok ht, rfl, h1, h2⟩
      simp_all [makeJoinBasic]

/-- corollary: the input-only guard predicate of the specification stream holds -/
theorem makeJoin_ok_implies_spec (i : MakeJoinIn) (o : MakeJoinOut) (h : handleMakeJoin i = .ok o) :
    makeJoinGuards i = true := by
  obtain ⟨hb, ht, _, h1, h2⟩ := makeJoin_ok_implies_guards i o h
  unfold makeJoinGuards
  rw [hb]
  cases hn : needsAuthoriser i
  · simp [h2 hn] at ht
    simp [ht]
  · simp only [Bool.true_and, if_true]
    rw [List.any_eq_true]
    exact ⟨_, h1 hn, ht⟩

theorem creatorsFor_err {q : RestrictedQ} {p : Bool} {e : CRJErr} (h : creatorsFor q p = .error e) : e = .generic := by
  unfold creatorsFor at h
  split at h
  · split at h
    · cases h; rfl
    · cases h; rfl
    · cases h
  · cases h

theorem pickVia_err {q : RestrictedQ} {p : Bool} {pl : PL} {allow : List AllowRule} {e : CRJErr}
    (h : pickVia q p pl allow = .error e) :
    e = .generic ∨ e = .matrix "M_UNABLE_TO_AUTHORISE_JOIN" ∨ e = .matrix "M_FORBIDDEN" := by
  unfold pickVia at h
  split at h
  · rename_i e' he
    cases h
    exact Or.inl (creatorsFor_err he)
  · split at h
    · cases h
    · cases h; exact Or.inr (Or.inl rfl)
    · cases h; exact Or.inr (Or.inr rfl)

theorem checkRestrictedJoin_err {q : RestrictedQ} {p : Bool} {e : CRJErr} (h : checkRestrictedJoin q p = .error e) :
    e = .generic ∨ e = .matrix "M_UNABLE_TO_AUTHORISE_JOIN" ∨ e = .matrix "M_FORBIDDEN" := by
  unfold checkRestrictedJoin at h
  split at h
  · cases h; exact Or.inl rfl
  · cases h
  · cases h; exact Or.inl rfl
  · split at h
    · cases h
    split at h
    · cases h; exact Or.inl rfl
    · cases h
    · split at h
      · cases h; exact Or.inl rfl
      · cases h; exact Or.inl rfl
      · cases h; exact Or.inl rfl
      · exact pickVia_err h

/-- the error classes of the restricted-join stage: a Matrix error is "unable to authorise" (not resident
    in every room it had to consult) or "forbidden" (resident everywhere, joiner in none of the rooms or
    nobody entitled to invite); every other failure is an internal server error -/
theorem restrictedStage_err_class (i : MakeJoinIn) (e : HErr) (h : restrictedStage i = .error e) :
    e = eUnableToAuthorise ∨ e = eForbidden ∨ e = .internal := by
  unfold restrictedStage at h
  split at h
  · split at h
    · cases h
    · rename_i c hc
      cases h
      rcases checkRestrictedJoin_err hc with h1 | h1 | h1
      · cases h1
      · cases h1; exact Or.inl rfl
      · cases h1; exact Or.inr (Or.inl rfl)
    · cases h
      exact Or.inr (Or.inr rfl)
  · cases h

/-- Decision table of HandleMakeJoin: first failing guard, in the order of the code -/
theorem makeJoin_decision_table (i : MakeJoinIn) :
    handleMakeJoin i =
      if !i.remoteVersions.contains i.roomVersion then .error eIncompatible
      else if i.userDomain != i.requestOrigin then .error eForbidden
      else if !i.localServerInRoom then .error eNotFound
      else match restrictedStage i with
        | .error e => .error e
        | .ok v => match i.template v with
          | .err => .error .other
          | .nilEvent => .error .internal
          | .nilState => .error .internal
          | .built ty stateOK allowed =>
            firstFailing [(ty != b!"m.room.member", .internal), (!stateOK, eForbidden), (!allowed, eForbidden)]
              { authorisedVia := v, roomVersion := i.roomVersion } := by
  unfold handleMakeJoin
  split
  · rfl
  split
  · rfl
  split
  · rfl
  cases hr : restrictedStage i with
  | error e => rfl
  | ok v =>
    simp only
    unfold checkTemplate
    cases ht : i.template v with
    | err => rfl
    | nilEvent => rfl
    | nilState => rfl
    | built ty stateOK allowed =>
      by_cases h1 : ty = b!"m.room.member"
      · cases h2 : stateOK <;> cases h3 : allowed <;> simp [firstFailing, h1]
      · simp [firstFailing, h1]

/-! ## HandleMakeLeave

  HandleMakeLeaveInput carries no list of remote room versions: "the remote supports the room version"
  cannot be checked by this handler (stated for HandleMakeJoin only). -/

theorem makeLeave_ok_implies_guards (i : MakeLeaveIn) (v : Bytes) (h : handleMakeLeave i = .ok v) :
    makeLeaveGuards i = true ∧ v = i.roomVersion := by
  unfold handleMakeLeave at h
  split at h
  · cases h
  split at h
  · cases h
  split at h
  · cases h
  · rename_i ht
    cases h
    have := checkTemplate_ok ht
    simp_all [makeLeaveGuards]

theorem makeLeave_decision_table (i : MakeLeaveIn) :
    handleMakeLeave i =
      if i.userDomain != i.requestOrigin then .error eForbidden
      else if !i.localServerInRoom then .error eNotFound
      else match i.template with
        | .err => .error .other
        | .nilEvent => .error .internal
        | .nilState => .error .internal
        | .built ty stateOK allowed =>
          firstFailing [(ty != b!"m.room.member", .internal), (!stateOK, eForbidden), (!allowed, eForbidden)] i.roomVersion := by
  unfold handleMakeLeave
  split
  · rfl
  split
  · rfl
  unfold checkTemplate
  cases ht : i.template with
  | err => rfl
  | nilEvent => rfl
  | nilState => rfl
  | built ty stateOK allowed =>
    by_cases h1 : ty = b!"m.room.member"
    · cases h2 : stateOK <;> cases h3 : allowed <;> simp [firstFailing, h1]
    · simp [firstFailing, h1]

/-! ## HandleInvite

  HandleInviteInput carries neither an event ID nor a request origin: "event ID matches the request" and
  "sender belongs to the requesting server" are stated for HandleSendJoin only; for an invite the server
  whose signature is verified is the sender's.  "Not already joined" is asked of the membership querier
  only when the room is known to this server (in an unknown room nobody local is joined: the decision is
  argued at `Spec.inviteTargetJoined`) — and it is asked about the TARGET of the invite, the event's state key
  (round 5; before, about whichever user the caller named beside the event). -/

theorem inviteCommonChecks_ok {i : InviteIn} {t : Bytes} {sig : Signed} {o : InviteOut} (h : inviteCommonChecks i t sig = .ok o) :
    o.sig = sig ∧ inviteStateLen i = .ok o.strippedLen ∧
    ¬ (roomKnown i = true ∧ i.membershipOf t = some b!"join") ∧ (∃ k, i.knownRoom = .ans k) := by
  unfold inviteCommonChecks at h
  split at h
  · cases h
  · rename_i known hk
    split at h
    · cases h
    · rename_i n hn
      split at h
      · split at h
        · cases h
        · split at h
          · cases h
          · split at h
            · cases h
            · cases h
              simp_all [roomKnown]
      · cases h
        simp_all [roomKnown]

theorem inviteTail_ok {i : InviteIn} {sk : Bytes} {o : InviteOut} (h : inviteTail i sk = .ok o) :
    senderKnown i.senderDomain = true ∧ i.verify = .good ∧
    inviteCommonChecks i sk { signer := i.invitedUserDomain, keyID := i.keyID } = .ok o := by
  unfold inviteTail at h
  split at h
  · cases h
  · cases h
  · rename_i d hd
    split at h
    · cases h
    · cases h
    · rename_i hv
      exact ⟨by simp [senderKnown, hd], hv, h⟩

/-- what an accepting run of HandleInvite went through -/
theorem handleInvite_ok {i : InviteIn} {o : InviteOut} (h : handleInvite i = .ok o) :
    i.versionKnown = true ∧ i.eventRoomID = i.roomID ∧ i.eventType = b!"m.room.member" ∧ i.membership = some b!"invite" ∧
    ∃ sk, i.stateKey = some sk ∧ (sk = i.invitedSenderID ∨ sk = i.invitedUserID) ∧ inviteTail i sk = .ok o := by
  unfold handleInvite at h
  split at h
  · cases h
  rename_i h1
  split at h
  · cases h
  rename_i h2
  split at h
  · cases h
  · rename_i sk hsk
    split at h
    · cases h
    rename_i h3
    split at h
    · cases h
    rename_i h4
    split at h
    · cases h
    rename_i h5
    refine ⟨by simpa using h1, by simpa using h2, by simpa using h3, by simpa using h4, sk, hsk, ?_, h⟩
    by_cases ha : sk = i.invitedSenderID
    · exact Or.inl ha
    · by_cases hb : sk = i.invitedUserID
      · exact Or.inr hb
      · simp [ha, hb] at h5

/-- HandleInvite accepts an event only if it is an invite (an m.room.member state event with membership
    "invite") whose room matches the request, whose sender's server has validly signed it (the querier found a user for
    the sender), and whose target — ITS STATE KEY — is not already joined; moreover that state key is one of the two
    names of the invited user the handler was given. -/
theorem invite_ok_implies_guards (i : InviteIn) (o : InviteOut) (h : handleInvite i = .ok o) :
    inviteGuards i = true ∧ i.versionKnown = true ∧
    ∃ sk, i.stateKey = some sk ∧ (sk = i.invitedSenderID ∨ sk = i.invitedUserID) ∧
      ¬ (roomKnown i = true ∧ i.membershipOf sk = some b!"join") := by
  obtain ⟨hv, hr, hty, hm, sk, hsk, hor, ht⟩ := handleInvite_ok h
  obtain ⟨hd, hvf, hc⟩ := inviteTail_ok ht
  obtain ⟨_, _, hj, _⟩ := inviteCommonChecks_ok hc
  refine ⟨?_, hv, sk, hsk, hor, hj⟩
  unfold inviteGuards inviteTargetJoined
  rw [hsk]
  cases hk : roomKnown i
  · simp [hr, hty, hm, hd, hvf]
  · cases hmo : (i.membershipOf sk == some b!"join")
    · simp [hr, hty, hm, hd, hvf, hmo]
    · exact absurd ⟨hk, by simpa using hmo⟩ hj

/-- Whatever HandleInvite returns is the received event plus one signature slot: that of the invited
    user's (= local) server under the local key ID; only `unsigned.invite_room_state` is added, and it
    holds the stripped state given or, failing that, the one generated from the state querier. -/
theorem invite_signs_unmodified (i : InviteIn) (o : InviteOut) (h : handleInvite i = .ok o) :
    o.sig = { signer := i.invitedUserDomain, keyID := i.keyID } ∧ inviteStateLen i = .ok o.strippedLen := by
  obtain ⟨_, _, _, _, sk, _, _, ht⟩ := handleInvite_ok h
  obtain ⟨_, _, hc⟩ := inviteTail_ok ht
  obtain ⟨hs, hn, _, _⟩ := inviteCommonChecks_ok hc
  exact ⟨hs, hn⟩

/-- the error class of each guard of HandleInvite before the common checks, in the order of the code; the fifth row is the
    round-5 repair (the invite is for the invited user), the sixth covers a querier that knows no user for the sender -/
theorem invite_decision_table (i : InviteIn) :
    handleInvite i =
      match (([(!i.versionKnown, eUnsupported), (i.eventRoomID != i.roomID, eBadJSON),
               (i.eventType != b!"m.room.member" || i.stateKey.isNone, eBadJSON),
               (i.membership != some b!"invite", eBadJSON),
               (i.stateKey != some i.invitedSenderID && i.stateKey != some i.invitedUserID, eBadJSON),
               (!senderKnown i.senderDomain, eBadJSON),
               (i.verify == .callErr, .internal), (i.verify == .bad, eForbidden)] : List (Bool × HErr)).find? (·.1)) with
      | some (_, e) => .error e
      | none => inviteCommonChecks i (i.stateKey.getD []) { signer := i.invitedUserDomain, keyID := i.keyID } := by
  unfold handleInvite
  cases h1 : (!i.versionKnown)
  case true => simp
  cases h2 : (i.eventRoomID != i.roomID)
  case true => simp
  cases hsk : i.stateKey with
  | none => simp
  | some sk =>
    cases h3 : (i.eventType != b!"m.room.member")
    case true => simp
    cases h4 : (i.membership != some b!"invite")
    case true => simp
    have e1 : (some sk != some i.invitedSenderID) = (sk != i.invitedSenderID) := by simp [bne]
    have e2 : (some sk != some i.invitedUserID) = (sk != i.invitedUserID) := by simp [bne]
    cases h5 : (sk != i.invitedSenderID && sk != i.invitedUserID)
    case true => simp [e1, e2, h5]
    unfold inviteTail
    cases hd : i.senderDomain with
    | err => simp [senderKnown, e1, e2, h5]
    | nil => simp [senderKnown, e1, e2, h5]
    | dom d => cases hv : i.verify <;> simp [senderKnown, e1, e2, h5]

/-- the common checks: error classes in the order of the code -/
theorem inviteCommonChecks_table (i : InviteIn) (t : Bytes) (sig : Signed) :
    inviteCommonChecks i t sig =
      match i.knownRoom with
      | .err => .error .internal
      | .ans known =>
        match inviteStateLen i with
        | .error e => .error e
        | .ok n =>
          firstFailing [(known && n == 0, .internal), (known && (i.membershipOf t).isNone, .internal),
                        (known && i.membershipOf t == some b!"join", eForbidden)] { sig := sig, strippedLen := n } := by
  unfold inviteCommonChecks
  cases hk : i.knownRoom with
  | err => rfl
  | ans known =>
    cases hn : inviteStateLen i with
    | error e => rfl
    | ok n =>
      cases known
      · simp [firstFailing]
      · cases h0 : (n == 0)
        · cases hc : i.membershipOf t with
          | none => simp [firstFailing, h0]
          | some cur => cases hj : (cur == b!"join") <;> simp_all [firstFailing]
        · simp [firstFailing, h0]

def inviteWitness : InviteIn := {
  versionKnown := true, eventRoomID := b!"!room:hs2", roomID := b!"!room:hs2", senderDomain := .dom b!"hs2",
  verify := .good, invitedUserDomain := b!"hs1", invitedUserID := b!"@alice:hs1", invitedSenderID := b!"@alice:hs1",
  keyID := b!"ed25519:k1", knownRoom := .ans true, strippedGiven := 0,
  stateQuery := .ans 2, membershipOf := fun _ => some b!"leave", eventType := b!"m.room.member",
  stateKey := some b!"@alice:hs1", membership := some b!"invite" }

example : handleInvite inviteWitness = .ok { sig := ⟨b!"hs1", b!"ed25519:k1"⟩, strippedLen := 2 } := by rfl
example : inviteGuards inviteWitness = true := by rfl
example : handleInvite { inviteWitness with membership := some b!"leave" } = .error eBadJSON := by rfl
example : handleInvite { inviteWitness with membershipOf := fun _ => some b!"join" } = .error eForbidden := by rfl
/-- the inputs of the round-5 findings.  (H6) an invite whose state key is @bob:hs1 — joined — handed over as an invite for
    @alice:hs1, who is not: the unrepaired handler asked about alice and counter-signed; the specification was false of it all
    along once the membership is that of the event's target.  With input.InvitedSenderID naming bob the invite reaches the
    membership check and is refused because BOB is joined. -/
def bobJoined : Bytes → Option Bytes := fun id => if id == b!"@bob:hs1" then some b!"join" else some b!"leave"
example : handleInvite { inviteWitness with stateKey := some b!"@bob:hs1", membershipOf := bobJoined } = .error eBadJSON := by rfl
example : inviteGuards { inviteWitness with stateKey := some b!"@bob:hs1", membershipOf := bobJoined } = false := by rfl
example : handleInvite { inviteWitness with stateKey := some b!"@bob:hs1", invitedSenderID := b!"@bob:hs1", membershipOf := bobJoined }
    = .error eForbidden := by rfl
/-- input.InvitedSenderID left empty (as the repository's tests do): the user ID decides -/
example : handleInvite { inviteWitness with invitedSenderID := [] } = .ok { sig := ⟨b!"hs1", b!"ed25519:k1"⟩, strippedLen := 2 } := by rfl
/-- (H5) the user-ID querier answers (nil, nil) for the sender: a refusal, where the unrepaired handler dereferenced nil -/
example : handleInvite { inviteWitness with senderDomain := .nil } = .error eBadJSON := by rfl
example : inviteGuards { inviteWitness with senderDomain := .nil } = false := by rfl

/-! ## HandleMakeJoin: non-vacuity -/

def infoWitness : RoomInfo :=
  { localServerInRoom := true, userJoinedToRoom := true,
    joinedUsers := [⟨b!"m.room.member", some b!"@dave:hs1"⟩, ⟨b!"m.room.member", some b!"@alice:hs1"⟩] }

def jrWitness : JoinRules := { rule := b!"restricted", allow := [⟨b!"m.room_membership", b!"!a:hs1"⟩] }

def plWitness : PL := { userLevel := fun u => if u == b!"@alice:hs1" then 50 else 0, invite := 50 }

def restrictedQWitness (info : QAns (Option RoomInfo)) : RestrictedQ :=
  { joinRules := .ans (some (some jrWitness)), invitePending := .ans false, powerLevels := .ans (some (some plWitness)),
    create := .ans (some [b!"@creator:hs1"]), roomIDValid := fun _ => true, roomInfo := fun _ => info }

def makeJoinWitness (info : QAns (Option RoomInfo)) : MakeJoinIn :=
  { roomVersion := b!"10", remoteVersions := [b!"9", b!"10"], userDomain := b!"hs5", requestOrigin := b!"hs5",
    localServerInRoom := true, restrictedVersion := true, privilegedCreators := false, q := restrictedQWitness info,
    template := fun via => .built b!"m.room.member" true (via == b!"@alice:hs1") }

def isOkVia (r : R MakeJoinOut) (via : Bytes) : Bool :=
  match r with
  | .ok o => o.authorisedVia == via
  | .error _ => false

def isErr (r : R MakeJoinOut) (e : HErr) : Bool :=
  match r with
  | .ok _ => false
  | .error e' => e' == e

/-- dave (level 0 < invite 50) is skipped, alice (level 50) authorises -/
example : isOkVia (handleMakeJoin (makeJoinWitness (.ans (some infoWitness)))) b!"@alice:hs1" = true := by decide
example : makeJoinGuards (makeJoinWitness (.ans (some infoWitness))) = true := by decide
/-- not resident in the allowed room: the joiner is told to try another server -/
example : isErr (handleMakeJoin (makeJoinWitness (.ans none))) eUnableToAuthorise = true := by decide
/-- resident, but the joiner is not in the allowed room -/
example : isErr (handleMakeJoin (makeJoinWitness (.ans (some { infoWitness with userJoinedToRoom := false })))) eForbidden = true := by
  decide

/-! ## PerformJoin (requesting side) -/

theorem checkCreate_true {kv : Bytes → Bool} {c : CreateFound} (h : checkCreate kv c = true) :
    ∃ v, c = .version v ∧ kv (if v.isEmpty then b!"1" else v) = true := by
  unfold checkCreate at h
  split at h
  · cases h
  · cases h
  · exact ⟨_, rfl, h⟩

theorem wellFormedJoin_true {r : RemoteJoin} {roomID senderID : Bytes} (h : wellFormedJoin r roomID senderID = true) :
    r.type = b!"m.room.member" ∧ r.sender = senderID ∧ r.membership = some b!"join" ∧ r.roomID = roomID ∧
    r.stateKey = some senderID := by
  unfold wellFormedJoin at h
  cases hm : r.membership with
  | none => simp [hm] at h
  | some m => simp [hm] at h; simp_all

/-- The event PerformJoin goes on with — and returns — is the join it built and signed, or the resident server's copy of
    it: an `m.room.member` event of the room with membership `join`, sent by the joining user with the joining user as
    state key, which (user-ID room versions) passed `VerifyEventSignatures`: it carries a valid signature of the joining
    user's own server.  (`Spec.joinEventOK`; before round 5 any event with the right state key, room and a `membership:
    join` in its content was taken — an `x.custom` event, a join with content of the resident server's choosing that this
    server never signed.) -/
theorem joinEventUsed_ok {P} (i : PerformJoinIn P) : joinEventOK i (joinEventUsed i) := by
  unfold joinEventUsed joinEventOK
  cases hr : i.remote with
  | none => exact Or.inl rfl
  | some r =>
    simp only
    split
    · rename_i ha
      unfold adoptsRemote at ha
      rw [Bool.and_eq_true] at ha
      obtain ⟨hw, hs⟩ := ha
      obtain ⟨h1, h2, h3, h4, h5⟩ := wellFormedJoin_true hw
      refine Or.inr ⟨r, rfl, rfl, h1, h3, h4, h2, h5, ?_⟩
      intro hp
      simpa [signedJoin, hp] using hs
    · exact Or.inl rfl

/-- PerformJoin returns a join only if make_join and send_join succeeded for a known room version, the
    auth events of the response contain a create event of a known room version, and the response passed
    CheckSendJoinResponse (C14) for the join event actually used; the event it returns is that event, and it is a join
    of ours (`joinEventOK`: the one built and signed here, or the resident server's copy of it — an m.room.member join
    of the joining user that this server's signature still verifies on); what it returns beside it are exactly
    the lists CheckSendJoinResponse returned. -/
theorem performJoin_ok_implies {P} (i : PerformJoinIn P) (o : PerformJoinOut) (h : performJoin i = .ok (some o)) :
    i.makeJoinOK = true ∧ i.versionKnown = true ∧ i.buildOK = true ∧ i.sendJoinOK = true ∧
    (∃ v, i.create = .version v ∧ i.knownVersion (if v.isEmpty then b!"1" else v) = true) ∧
    o.joinEvent = joinEventUsed i ∧ joinEventOK i o.joinEvent ∧
    (FedCheck.checkSendJoin i.O i.prov i.fuel (FedCheck.untrusted i.auth) (FedCheck.untrusted i.state) (joinEventUsed i) []).1
      = .ok o.auth o.state := by
  unfold performJoin at h
  split at h
  · cases h
  split at h
  · cases h
  split at h
  · cases h
  split at h
  · cases h
  split at h
  · cases h
  · rename_i h1 h2 h3 h4 h5
    split at h
    · rename_i a s lg hc
      cases h
      refine ⟨by simpa using h1, by simpa using h2, by simpa using h3, by simpa using h4, checkCreate_true (by simpa using h5), rfl,
        joinEventUsed_ok i, ?_⟩
      rw [hc]
    · cases h
    · cases h

/-- non-vacuity and the inputs of the round-5 finding (H1), on the adoption decision itself -/
def joinLookalike (type sender : Bytes) (sigOK : Bool) : RemoteJoin :=
  { ev := default, type := type, sender := sender, membership := some b!"join", roomID := b!"!r:hs1",
    stateKey := some b!"@me:hs5", sigOK := sigOK }

/-- our own join, echoed with our signature on it: taken -/
example : (wellFormedJoin (joinLookalike b!"m.room.member" b!"@me:hs5" true) b!"!r:hs1" b!"@me:hs5"
    && signedJoin false (joinLookalike b!"m.room.member" b!"@me:hs5" true)) = true := by rfl
/-- (a) an `x.custom` event with state_key == sender == the joiner and content.membership "join": no longer well-formed -/
example : wellFormedJoin (joinLookalike b!"x.custom" b!"@me:hs5" true) b!"!r:hs1" b!"@me:hs5" = false := by rfl
/-- a member event for the joiner sent by somebody else -/
example : wellFormedJoin (joinLookalike b!"m.room.member" b!"@admin:hs1" true) b!"!r:hs1" b!"@me:hs5" = false := by rfl
/-- (b) an m.room.member join "by" the joiner that the joiner's server did not sign: well-formed, but not taken -/
example : (wellFormedJoin (joinLookalike b!"m.room.member" b!"@me:hs5" false) b!"!r:hs1" b!"@me:hs5"
    && signedJoin false (joinLookalike b!"m.room.member" b!"@me:hs5" false)) = false := by rfl

/-! ## HandleInviteV3

  The pseudo-ID variant receives a PROTO event and no signature: nothing is verified — what it returns is an event it
  BUILT itself from the proto event with the invited user's sender ID as state key, signed with that user's room key
  (not with the server key).  Guards: known room version, room ID of the proto event = request, the proto event is an
  `m.room.member` event with membership `invite` (round-4 repair; before it nothing said the proto event is an invite
  and the handler signed whatever it was given), and the common checks: the target — the sender ID `GetOrCreateSenderID`
  answered with, which is the state key of the built event — is not already joined in a known room (round-5 repair; before
  it the membership asked for was that of `input.InvitedSenderID`, which a caller that does not know the ID yet leaves ""). -/

theorem inviteV3_ok_implies (i : InviteV3In) (o : InviteOut) (h : handleInviteV3 i = .ok o) :
    inviteV3Guards i = true ∧
    i.common.versionKnown = true ∧ i.protoRoomID = i.common.roomID ∧
    i.protoType = b!"m.room.member" ∧ i.protoMembership = some b!"invite" ∧ i.buildOK = true ∧
    (∃ sid, i.invitedSenderID = some sid ∧ o.sig = { signer := sid, keyID := b!"ed25519:1" } ∧
      ¬ (roomKnown i.common = true ∧ i.common.membershipOf sid = some b!"join")) := by
  unfold handleInviteV3 at h
  split at h
  · cases h
  split at h
  · cases h
  split at h
  · cases h
  split at h
  · cases h
  split at h
  · cases h
  · rename_i sid hsid
    split at h
    · cases h
    · obtain ⟨hs, _, hj, _⟩ := inviteCommonChecks_ok h
      have h2 : i.protoRoomID = i.common.roomID := by simp_all
      have h3 : i.protoType = b!"m.room.member" := by simp_all
      have h4 : i.protoMembership = some b!"invite" := by simp_all
      refine ⟨?_, by simp_all, h2, h3, h4, by simp_all, ⟨sid, hsid, hs, hj⟩⟩
      unfold inviteV3Guards inviteV3TargetJoined
      rw [hsid]
      cases hk : roomKnown i.common
      · simp [h2, h3, h4]
      · cases hmo : (i.common.membershipOf sid == some b!"join")
        · simp [h2, h3, h4, hmo]
        · exact absurd ⟨hk, by simpa using hmo⟩ hj

theorem inviteV3_decision_table (i : InviteV3In) :
    handleInviteV3 i =
      match (([(!i.common.versionKnown, eUnsupported), (i.protoRoomID != i.common.roomID, eBadJSON),
               (i.protoType != b!"m.room.member", eBadJSON), (i.protoMembership != some b!"invite", eBadJSON),
               (i.invitedSenderID.isNone, .internal), (!i.buildOK, .internal)] : List (Bool × HErr)).find? (·.1)) with
      | some (_, e) => .error e
      | none => inviteCommonChecks i.common (i.invitedSenderID.getD []) { signer := i.invitedSenderID.getD [], keyID := b!"ed25519:1" } := by
  unfold handleInviteV3
  cases h1 : (!i.common.versionKnown)
  case true => simp
  cases h2 : (i.protoRoomID != i.common.roomID)
  case true => simp
  cases h3 : (i.protoType != b!"m.room.member")
  case true => simp
  cases h4 : (i.protoMembership != some b!"invite")
  case true => simp
  cases hs : i.invitedSenderID with
  | none => simp
  | some sid => cases hb : (!i.buildOK) <;> simp

/-- non-vacuity, and the inputs of the round-4 finding: a proto event that is not an invite -/
def inviteV3Witness : InviteV3In :=
  { common := { inviteWitness with roomID := b!"!room:hs2", eventRoomID := b!"!room:hs2" },
    protoRoomID := b!"!room:hs2", protoType := b!"m.room.member", protoMembership := some b!"invite",
    invitedSenderID := some b!"invitee-room-key", buildOK := true }

example : handleInviteV3 inviteV3Witness = .ok { sig := ⟨b!"invitee-room-key", b!"ed25519:1"⟩, strippedLen := 2 } := by rfl
example : inviteV3Guards inviteV3Witness = true := by rfl
example : handleInviteV3 { inviteV3Witness with protoType := b!"m.room.power_levels" } = .error eBadJSON := by rfl
example : handleInviteV3 { inviteV3Witness with protoMembership := some b!"join" } = .error eBadJSON := by rfl
example : handleInviteV3 { inviteV3Witness with protoMembership := none } = .error eBadJSON := by rfl
/-- the input of the round-5 finding (H3): the caller leaves input.InvitedSenderID empty, GetOrCreateSenderID answers with
    the ID of a user who is joined.  The unrepaired handler asked about "" (not joined) and built, signed and returned
    the invite; the membership that counts is that of the ID the event is built for. -/
def inviteeJoined : Bytes → Option Bytes := fun id => if id == b!"invitee-room-key" then some b!"join" else some b!"leave"
example : handleInviteV3 { inviteV3Witness with common := { inviteV3Witness.common with invitedSenderID := [], membershipOf := inviteeJoined } }
    = .error eForbidden := by rfl
example : inviteV3Guards { inviteV3Witness with common := { inviteV3Witness.common with invitedSenderID := [], membershipOf := inviteeJoined } }
    = false := by rfl

/-! ## PerformInvite (requesting side of the invite handshake)

  `performInvite_ok_implies_guards` : a returned event ⇒ every guard passed (`performInviteGuards`), and what
      the returned / signed event is in each of the four branches — in particular, in pseudo-ID rooms the
      inviter's key signs the remote's answer only if it is the invite asked for (`isInviteFor`: the checks of
      /repo f453bb3), and the event that was auth-checked is the one that is signed and returned;
  `performInvite_decision_table`   : the outcome is the error (or panic) of the FIRST failing row of an explicit
      ordered table, `ok` with the stated result when none fails;
  `performInvite_no_panic`         : with the caller's side of the contract kept (`piContractOK`) no answer of
      the remote server — nil, not an invite, no state key, other room / sender, bad signatures — and no
      answer of a querier leads to a panic outcome. -/

/-- outcome of an ordered guard table with errors of any type: the first failing row, else the result -/
def ffE {ε α : Type} (table : List (Bool × ε)) (out : α) : Except ε α :=
  match table.find? (·.1) with
  | some (_, e) => .error e
  | none => .ok out

theorem ffE_nil {ε α : Type} (out : α) : ffE ([] : List (Bool × ε)) out = .ok out := rfl

theorem ffE_cons {ε α : Type} (c : Bool) (e : ε) (t : List (Bool × ε)) (out : α) :
    ffE ((c, e) :: t) out = if c then .error e else ffE t out := by
  cases c <;> simp [ffE, List.find?]

theorem ffE_append {ε α : Type} (t1 t2 : List (Bool × ε)) (out : α) :
    ffE (t1 ++ t2) out = match ffE t1 () with
      | .error e => .error e
      | .ok () => ffE t2 out := by
  induction t1 with
  | nil => simp [ffE_nil]
  | cons r t ih =>
    obtain ⟨c, e⟩ := r
    cases c
    · simpa [ffE_cons] using ih
    · simp [ffE_cons]

theorem ffE_cons_true {ε α : Type} {c : Bool} (h : c = true) (e : ε) (t : List (Bool × ε)) (out : α) :
    ffE ((c, e) :: t) out = .error e := by rw [ffE_cons, h]; rfl

theorem ffE_cons_false {ε α : Type} {c : Bool} (h : c = false) (e : ε) (t : List (Bool × ε)) (out : α) :
    ffE ((c, e) :: t) out = ffE t out := by rw [ffE_cons, h]; rfl

/-- the result carried by a table does not influence which row fails -/
theorem ffE_value {ε α β : Type} {t : List (Bool × ε)} {a : α} (b : β) :
    ffE t b = match ffE t a with | .error e => .error e | .ok _ => .ok b := by
  unfold ffE
  split <;> rfl

theorem ffE_ok {ε α : Type} {t : List (Bool × ε)} {out o : α} (h : ffE t out = .ok o) :
    (∀ r ∈ t, r.1 = false) ∧ o = out := by
  induction t with
  | nil => simp [ffE_nil] at h; simp [h]
  | cons r t ih =>
    obtain ⟨c, e⟩ := r
    cases c
    · rw [ffE_cons_false rfl] at h
      obtain ⟨h1, h2⟩ := ih h
      refine ⟨?_, h2⟩
      intro r hr
      cases hr with
      | head => rfl
      | tail _ hr' => exact h1 r hr'
    · rw [ffE_cons_true rfl] at h; cases h

theorem ffE_error {ε α : Type} {t : List (Bool × ε)} {out : α} {e : ε} (h : ffE t out = .error e) :
    ∃ r ∈ t, r.1 = true ∧ r.2 = e := by
  induction t with
  | nil => simp [ffE_nil] at h
  | cons r t ih =>
    obtain ⟨c, e'⟩ := r
    cases c
    · rw [ffE_cons_false rfl] at h
      obtain ⟨r, hr, h1⟩ := ih h
      exact ⟨r, List.mem_cons_of_mem _ hr, h1⟩
    · rw [ffE_cons_true rfl] at h
      cases h
      exact ⟨(true, e), List.mem_cons_self, rfl, rfl⟩

/-! ### preparation of the template -/

def nilQuerier (i : PerformInviteIn) : Bool :=
  i.membershipQuerierNil || i.stateQuerierNil || i.userIDQuerierNil || i.senderIDQuerierNil
    || i.senderIDCreatorNil || i.eventQuerierNil

def stateQueryFails (i : PerformInviteIn) : Bool :=
  i.strippedGiven == 0 && (match i.stateQuery with | .err => true | .ans _ => false)

def strippedLenOf (i : PerformInviteIn) : Nat :=
  if i.strippedGiven == 0 then (match i.stateQuery with | .err => 0 | .ans n => n) else i.strippedGiven

def senderIDFails (i : PerformInviteIn) : Bool := match i.invitedSenderID with | .err => true | .ans _ => false
def hasSenderID (i : PerformInviteIn) : Bool := match i.invitedSenderID with | .ans (some _) => true | _ => false

def neededOf (i : PerformInviteIn) : StateRes.Needed := i.needed.getD {}
def latestFails (i : PerformInviteIn) : Bool := match i.latest with | .err => true | .ans _ => false
def latestOf (i : PerformInviteIn) : Latest := match i.latest with | .err => default | .ans l => l

/-- the rows of the `AddEvent` loop: one per state event, in order -/
def stateRows (l : List (Option StateEv)) : List (Bool × PErr) :=
  l.map (fun e => match e with
    | none => (true, PErr.panic siteNilState)
    | some ev => (ev.stateKey.isNone, pOther))

/-- the `*AuthEvents` map of a list of proper state events -/
def authMapOf (l : List (Option StateEv)) : AuthMap :=
  l.filterMap (fun e => match e with
    | some ev => ev.stateKey.map (fun sk => ((ev.type, sk), ev.eventID))
    | none => none)

theorem addEvents_table (l : List (Option StateEv)) (m : AuthMap) :
    addEvents l m = ffE (stateRows l) (m ++ authMapOf l) := by
  induction l generalizing m with
  | nil => simp [addEvents, stateRows, authMapOf, ffE_nil]
  | cons e rest ih =>
    cases e with
    | none => simp [addEvents, stateRows, ffE_cons]
    | some ev =>
      cases hsk : ev.stateKey with
      | none => simp [addEvents, stateRows, ffE_cons, hsk]
      | some sk =>
        have := ih (m ++ [((ev.type, sk), ev.eventID)])
        simp [addEvents, stateRows, ffE_cons, hsk, authMapOf] at this ⊢
        simpa [stateRows, authMapOf] using this

def prepTable (i : PerformInviteIn) : List (Bool × PErr) :=
  (nilQuerier i, .panic siteQuerier) ::
  (i.ctxNil, .panic siteContext) ::
  (stateQueryFails i, pInternal) ::                               -- GenerateStrippedState
  (!i.unsignedOK, pOther) ::                                       -- setUnsignedFieldForProtoInvite
  (!i.versionKnown, pUnsupported) ::
  (senderIDFails i, pOther) ::                                     -- SenderIDQuerier
  (hasSenderID i && i.curMembership.isNone, pInternal) ::          -- abortIfAlreadyJoined
  (hasSenderID i && i.curMembership == some b!"join", pForbidden) ::
  (i.needed.isNone, pOther) ::                                     -- StateNeededForProtoEvent
  ((AuthNeeded.neededPairs (neededOf i)).isEmpty, pInternal) ::
  (latestFails i, pOther) ::                                       -- EventQuerier
  (!(latestOf i).roomExists, pInternal) ::
  stateRows (latestOf i).stateEvents                               -- authEvents.AddEvent, per event

def prepValue (i : PerformInviteIn) : Prepared :=
  let l := latestOf i
  let tp := truncateAuthAndPrev (authRefs (authMapOf l.stateEvents) (piAsked i.domainless (neededOf i))) l.prevEventIDs
  { authEvents := tp.1, prevEvents := tp.2, depth := l.depth, strippedLen := strippedLenOf i }

theorem piStateLen_eq (i : PerformInviteIn) :
    piStateLen i = if stateQueryFails i then .error pInternal else .ok (strippedLenOf i) := by
  unfold piStateLen stateQueryFails strippedLenOf
  cases h0 : (i.strippedGiven == 0) <;> cases i.stateQuery <;> simp

theorem piNotJoined_eq (i : PerformInviteIn) :
    piNotJoined i = ffE [ (senderIDFails i, pOther), (hasSenderID i && i.curMembership.isNone, pInternal),
                          (hasSenderID i && i.curMembership == some b!"join", pForbidden) ] () := by
  unfold piNotJoined senderIDFails hasSenderID
  cases i.invitedSenderID with
  | err => simp [ffE_cons]
  | ans s =>
    cases s with
    | none => simp [ffE_cons, ffE_nil]
    | some sid =>
      cases i.curMembership with
      | none => simp [ffE_cons]
      | some cur => cases hj : (cur == b!"join") <;> simp_all [ffE_cons, ffE_nil]

theorem piPrepare_table (i : PerformInviteIn) : piPrepare i = ffE (prepTable i) (prepValue i) := by
  unfold piPrepare prepTable
  cases hq : (i.membershipQuerierNil || i.stateQuerierNil || i.userIDQuerierNil || i.senderIDQuerierNil
      || i.senderIDCreatorNil || i.eventQuerierNil)
  case true => rw [ffE_cons_true (show nilQuerier i = true from hq)]; rfl
  rw [ffE_cons_false (show nilQuerier i = false from hq)]
  cases hc : i.ctxNil
  case true => rw [ffE_cons_true rfl]; rfl
  rw [ffE_cons_false rfl]
  simp only [Bool.false_eq_true, if_false]
  rw [piStateLen_eq]
  cases h3 : stateQueryFails i
  case true => rw [ffE_cons_true rfl]; rfl
  rw [ffE_cons_false rfl]
  simp only [Bool.false_eq_true, if_false]
  cases h4 : i.unsignedOK
  case false => simp only [Bool.not_false]; rw [ffE_cons_true rfl]; rfl
  simp only [Bool.not_true]
  rw [ffE_cons_false rfl]
  cases h5 : i.versionKnown
  case false => simp only [Bool.not_false]; rw [ffE_cons_true rfl]; rfl
  simp only [Bool.not_true]
  rw [ffE_cons_false rfl]
  simp only [Bool.false_eq_true, if_false]
  have hnj := piNotJoined_eq i
  rw [hnj]
  cases h6 : senderIDFails i
  case true => rw [ffE_cons_true rfl, ffE_cons_true rfl]
  rw [ffE_cons_false rfl, ffE_cons_false rfl]
  cases h7 : (hasSenderID i && i.curMembership.isNone)
  case true => rw [ffE_cons_true rfl, ffE_cons_true rfl]
  rw [ffE_cons_false rfl, ffE_cons_false rfl]
  cases h8 : (hasSenderID i && i.curMembership == some b!"join")
  case true => rw [ffE_cons_true rfl, ffE_cons_true rfl]
  rw [ffE_cons_false rfl, ffE_cons_false rfl, ffE_nil]
  simp only
  cases h9 : i.needed with
  | none => rw [ffE_cons_true (show (none : Option StateRes.Needed).isNone = true from rfl)]
  | some nd =>
    rw [ffE_cons_false (show (some nd).isNone = false from rfl)]
    have hnd : neededOf i = nd := by simp [neededOf, h9]
    rw [hnd]
    simp only
    cases h10 : (AuthNeeded.neededPairs nd).isEmpty
    case true => rw [ffE_cons_true rfl]; rfl
    rw [ffE_cons_false rfl]
    simp only [Bool.false_eq_true, if_false]
    cases h11 : i.latest with
    | err => rw [ffE_cons_true (by simp [latestFails, h11])]
    | ans l =>
      rw [ffE_cons_false (by simp [latestFails, h11])]
      have hl : latestOf i = l := by simp [latestOf, h11]
      rw [hl]
      simp only
      cases h12 : l.roomExists
      case false => simp only [Bool.not_false]; rw [ffE_cons_true rfl]; rfl
      simp only [Bool.not_true]
      rw [ffE_cons_false rfl]
      simp only [Bool.false_eq_true, if_false]
      rw [addEvents_table, List.nil_append, ffE_value (a := authMapOf l.stateEvents) (prepValue i)]
      cases hf : ffE (stateRows l.stateEvents) (authMapOf l.stateEvents) with
      | error e => rfl
      | ok m =>
        have hm : m = authMapOf l.stateEvents := by
          unfold ffE at hf
          split at hf
          · cases hf
          · cases hf; rfl
        simp only [prepValue, hl, hnd, hm]


/-! ### the four branches -/

def checkAllowedRows (i : PerformInviteIn) (e : EvFacts) : List (Bool × PErr) :=
  [(!i.authProviderOK, pForbidden),      -- StateQuerier.GetAuthEvents
   (!i.allowed e, pForbidden)]           -- Allowed

theorem piCheckAllowed_eq (i : PerformInviteIn) (e : EvFacts) :
    piCheckAllowed i e = ffE (checkAllowedRows i e) () := by
  unfold piCheckAllowed checkAllowedRows
  cases i.authProviderOK <;> cases i.allowed e <;> rfl

def sendV3Fails (i : PerformInviteIn) : Bool := match i.sendV3 with | .err => true | .ans _ => false
def v3Of (i : PerformInviteIn) : Option EvFacts := match i.sendV3 with | .ans r => r | .err => none
def v3Event (i : PerformInviteIn) : EvFacts := (v3Of i).getD default
def sendV2Fails (i : PerformInviteIn) : Bool := match i.sendV2 with | .err => true | .ans _ => false
def v2Of (i : PerformInviteIn) : Option EvFacts := match i.sendV2 with | .ans r => r | .err => none

def createdOf (i : PerformInviteIn) : Bytes := i.createdSenderID.getD []

def pseudoLocalTable (i : PerformInviteIn) : List (Bool × PErr) :=
  (i.createdSenderID.isNone, pOther) ::                               -- SenderIDCreator
  (!i.buildOK, pInternal) ::                                          -- EventBuilder.Build
  (!i.verifyOK (builtEvent i (createdOf i)), pForbidden) ::           -- VerifyEventSignatures (JSONVerifierSelf)
  checkAllowedRows i (builtEvent i (createdOf i))

def pseudoLocalResult (i : PerformInviteIn) (p : Prepared) : PIOut :=
  mkOut p .builtLocal (some (builtEvent i (createdOf i))) (builtEvent i (createdOf i))
    [⟨createdOf i, pseudoKeyID⟩, ⟨i.origin, pseudoKeyID⟩]

theorem piPseudoLocal_table (i : PerformInviteIn) (p : Prepared) :
    piPseudoLocal i p = ffE (pseudoLocalTable i) (pseudoLocalResult i p) := by
  unfold piPseudoLocal pseudoLocalTable pseudoLocalResult createdOf
  cases hc : i.createdSenderID with
  | none => rw [ffE_cons_true (show (none : Option Bytes).isNone = true from rfl)]
  | some sid =>
    rw [ffE_cons_false (show (some sid).isNone = false from rfl)]
    simp only [Option.getD_some]
    cases hb : i.buildOK
    case false => simp only [Bool.not_false]; rw [ffE_cons_true rfl]; rfl
    simp only [Bool.not_true]
    rw [ffE_cons_false rfl]
    simp only [Bool.false_eq_true, if_false]
    cases hv : i.verifyOK (builtEvent i sid)
    case false => simp only [Bool.not_false]; rw [ffE_cons_true rfl]; rfl
    simp only [Bool.not_true]
    rw [ffE_cons_false rfl]
    simp only [Bool.false_eq_true, if_false]
    rw [piCheckAllowed_eq, ffE_value (a := ()) (mkOut p PISource.builtLocal _ _ _)]
    cases ffE (checkAllowedRows i (builtEvent i sid)) () <;> rfl

/-- the rows of /repo f453bb3, on the event SendInviteV3 returned -/
def v3Rows (i : PerformInviteIn) : List (Bool × PErr) :=
  [((v3Of i).isNone, pForbidden),                                                                   -- a nil PDU
   ((v3Event i).type != b!"m.room.member" || (v3Event i).stateKey.isNone, pForbidden),              -- not a membership state event
   ((v3Event i).membership != some b!"invite", pForbidden),                                         -- not an invite
   ((v3Event i).roomID != i.tRoomID || (v3Event i).senderID != i.tSenderID, pForbidden)]            -- another room or sender

theorem v3Checks_eq (i : PerformInviteIn) : v3Checks i (v3Of i) = ffE (v3Rows i) (v3Event i) := by
  unfold v3Checks v3Rows v3Event
  cases hr : v3Of i with
  | none => rfl
  | some e =>
    simp only [Option.getD_some]
    rw [ffE_cons_false (show (some e).isNone = false from rfl)]
    cases h1 : (e.type != b!"m.room.member" || e.stateKey.isNone)
    case true => rw [ffE_cons_true rfl]; rfl
    rw [ffE_cons_false rfl]
    cases h2 : (e.membership != some b!"invite")
    case true => rw [ffE_cons_true rfl]; rfl
    rw [ffE_cons_false rfl]
    cases h3 : (e.roomID != i.tRoomID || e.senderID != i.tSenderID)
    case true => rw [ffE_cons_true rfl]; rfl
    rw [ffE_cons_false rfl, ffE_nil]
    rfl

def pseudoRemoteTable (i : PerformInviteIn) : List (Bool × PErr) :=
  (i.fedClientNil, .panic siteFedV3) ::
  (sendV3Fails i, pForbidden) ::                                      -- fedClient.SendInviteV3
  (v3Rows i ++
   (!i.verifyOK (v3Event i), pForbidden) ::                           -- VerifyEventSignatures (JSONVerifierSelf)
   (i.storeSenderIDNil, .panic siteStore) ::
   (!i.storeOK, pInternal) ::                                         -- StoreSenderIDFromPublicID
   checkAllowedRows i (v3Event i))

def pseudoRemoteResult (i : PerformInviteIn) (p : Prepared) : PIOut :=
  mkOut p .remoteV3 (some (v3Event i)) (v3Event i) [⟨i.origin, pseudoKeyID⟩]

theorem piPseudoRemote_table (i : PerformInviteIn) (p : Prepared) :
    piPseudoRemote i p = ffE (pseudoRemoteTable i) (pseudoRemoteResult i p) := by
  unfold piPseudoRemote pseudoRemoteTable pseudoRemoteResult
  cases hf : i.fedClientNil
  case true => rw [ffE_cons_true rfl]; rfl
  rw [ffE_cons_false rfl]
  simp only [Bool.false_eq_true, if_false]
  cases hs : i.sendV3 with
  | err => rw [ffE_cons_true (by simp [sendV3Fails, hs])]
  | ans r =>
    rw [ffE_cons_false (by simp [sendV3Fails, hs])]
    have hr : v3Of i = r := by simp [v3Of, hs]
    simp only
    rw [← hr, v3Checks_eq, ffE_append, ffE_value (a := ()) (v3Event i)]
    cases ffE (v3Rows i) () with
    | error e => rfl
    | ok u =>
      simp only
      cases hv : i.verifyOK (v3Event i)
      case false => simp only [Bool.not_false]; rw [ffE_cons_true rfl]; rfl
      simp only [Bool.not_true]
      rw [ffE_cons_false rfl]
      simp only [Bool.false_eq_true, if_false]
      cases hn : i.storeSenderIDNil
      case true => rw [ffE_cons_true rfl]; rfl
      rw [ffE_cons_false rfl]
      simp only [Bool.false_eq_true, if_false]
      cases hst : i.storeOK
      case false => simp only [Bool.not_false]; rw [ffE_cons_true rfl]; rfl
      simp only [Bool.not_true]
      rw [ffE_cons_false rfl]
      simp only [Bool.false_eq_true, if_false]
      rw [piCheckAllowed_eq, ffE_value (a := ()) (mkOut p PISource.remoteV3 _ _ _)]
      cases ffE (checkAllowedRows i (v3Event i)) () <;> rfl

def defaultSigs (i : PerformInviteIn) : List Signed := [⟨i.inviterDomain, i.keyID⟩, ⟨i.inviteeDomain, i.keyID⟩]

def defaultTable (i : PerformInviteIn) : List (Bool × PErr) :=
  (!i.buildReachesSign, pInternal) ::                                 -- EventBuilder.Build, before signing
  (!i.signingKeyOK, .panic siteKey) ::
  (!i.buildOK, pInternal) ::                                          -- EventBuilder.Build
  (checkAllowedRows i (builtEvent i i.inviteeUserID) ++
   (if i.targetLocal then [] else
     [(i.fedClientNil, .panic siteFedV2),
      (sendV2Fails i, pForbidden)]))                                  -- fedClient.SendInvite

def defaultResult (i : PerformInviteIn) (p : Prepared) : PIOut :=
  if i.targetLocal then mkOut p .builtLocal (some (builtEvent i i.inviteeUserID)) (builtEvent i i.inviteeUserID) (defaultSigs i)
  else mkOut p .remoteV2 (v2Of i) (builtEvent i i.inviteeUserID) (defaultSigs i)

theorem piDefault_table (i : PerformInviteIn) (p : Prepared) :
    piDefault i p = ffE (defaultTable i) (defaultResult i p) := by
  unfold piDefault defaultTable defaultResult defaultSigs
  cases h1 : i.buildReachesSign
  case false => simp only [Bool.not_false]; rw [ffE_cons_true rfl]; rfl
  simp only [Bool.not_true]
  rw [ffE_cons_false rfl]
  simp only [Bool.false_eq_true, if_false]
  cases h2 : i.signingKeyOK
  case false => simp only [Bool.not_false]; rw [ffE_cons_true rfl]; rfl
  simp only [Bool.not_true]
  rw [ffE_cons_false rfl]
  simp only [Bool.false_eq_true, if_false]
  cases h3 : i.buildOK
  case false => simp only [Bool.not_false]; rw [ffE_cons_true rfl]; rfl
  simp only [Bool.not_true]
  rw [ffE_cons_false rfl]
  simp only [Bool.false_eq_true, if_false]
  rw [piCheckAllowed_eq, ffE_append]
  cases ffE (checkAllowedRows i (builtEvent i i.inviteeUserID)) () with
  | error e => rfl
  | ok u =>
    simp only
    cases ht : i.targetLocal
    case true => simp only [if_true]; rw [ffE_nil]
    simp only [Bool.false_eq_true, if_false]
    cases hf : i.fedClientNil
    case true => rw [ffE_cons_true rfl]; rfl
    rw [ffE_cons_false rfl]
    simp only [Bool.false_eq_true, if_false]
    cases hs : i.sendV2 with
    | err => rw [ffE_cons_true (by simp [sendV2Fails, hs])]
    | ans r => rw [ffE_cons_false (by simp [sendV2Fails, hs]), ffE_nil]; simp [v2Of, hs]

/-- the rows after the template is prepared: `switch input.RoomVersion` -/
def branchTable (i : PerformInviteIn) : List (Bool × PErr) :=
  if i.pseudoIDs then
    (!i.signingKeyOK, .panic siteKey) ::                              -- spec.SenderIDFromPseudoIDKey(input.SigningKey)
    (if i.targetLocal then pseudoLocalTable i else pseudoRemoteTable i)
  else defaultTable i

def branchResult (i : PerformInviteIn) (p : Prepared) : PIOut :=
  if i.pseudoIDs then (if i.targetLocal then pseudoLocalResult i p else pseudoRemoteResult i p)
  else defaultResult i p

/-- the complete guard table of PerformInvite, in the order of the code -/
def piTable (i : PerformInviteIn) : List (Bool × PErr) := prepTable i ++ branchTable i

/-- what PerformInvite returns when no row fails -/
def piResult (i : PerformInviteIn) : PIOut := branchResult i (prepValue i)

/-- Decision-table completeness: PerformInvite answers with the error (or panics at the site) of the first
    failing row of `piTable`, and with `piResult` when no row fails. -/
theorem performInvite_decision_table (i : PerformInviteIn) :
    performInvite i = ffE (piTable i) (piResult i) := by
  unfold performInvite piTable piResult
  rw [piPrepare_table, ffE_append, ffE_value (a := ()) (prepValue i)]
  cases ffE (prepTable i) () with
  | error e => rfl
  | ok u =>
    simp only
    unfold branchTable branchResult
    cases hp : i.pseudoIDs
    case false => simp only [Bool.false_eq_true, if_false]; exact piDefault_table i _
    simp only [if_true]
    cases hk : i.signingKeyOK
    case false => simp only [Bool.not_false]; rw [ffE_cons_true rfl]; rfl
    simp only [Bool.not_true]
    rw [ffE_cons_false rfl]
    simp only [Bool.false_eq_true, if_false]
    cases ht : i.targetLocal
    case true => simp only [if_true]; exact piPseudoLocal_table i _
    simp only [Bool.false_eq_true, if_false]
    exact piPseudoRemote_table i _

/-! ### a returned event ⇒ every guard passed -/

theorem rows_cons {ε : Type} {c : Bool} {e : ε} {t : List (Bool × ε)} (h : ∀ r ∈ (c, e) :: t, r.1 = false) :
    c = false ∧ ∀ r ∈ t, r.1 = false :=
  ⟨h (c, e) List.mem_cons_self, fun r hr => h r (List.mem_cons_of_mem _ hr)⟩

theorem rows_append {ε : Type} {t1 t2 : List (Bool × ε)} (h : ∀ r ∈ t1 ++ t2, r.1 = false) :
    (∀ r ∈ t1, r.1 = false) ∧ ∀ r ∈ t2, r.1 = false :=
  ⟨fun r hr => h r (List.mem_append_left _ hr), fun r hr => h r (List.mem_append_right _ hr)⟩

theorem checkAllowedRows_ok {i : PerformInviteIn} {e : EvFacts} (h : ∀ r ∈ checkAllowedRows i e, r.1 = false) :
    piAuthorised i e = true := by
  unfold checkAllowedRows at h
  obtain ⟨h1, h⟩ := rows_cons h
  obtain ⟨h2, _⟩ := rows_cons h
  simp_all [piAuthorised]

/-- what passing the rows of the preparation stage means -/
theorem prepTable_ok {i : PerformInviteIn} (h : ∀ r ∈ prepTable i, r.1 = false) :
    nilQuerier i = false ∧ i.ctxNil = false ∧ i.versionKnown = true ∧ piNotJoinedOK i = true ∧ piRoomOK i = true := by
  unfold prepTable at h
  obtain ⟨h1, h⟩ := rows_cons h
  obtain ⟨h2, h⟩ := rows_cons h
  obtain ⟨_, h⟩ := rows_cons h
  obtain ⟨_, h⟩ := rows_cons h
  obtain ⟨h5, h⟩ := rows_cons h
  obtain ⟨h6, h⟩ := rows_cons h
  obtain ⟨h7, h⟩ := rows_cons h
  obtain ⟨h8, h⟩ := rows_cons h
  obtain ⟨_, h⟩ := rows_cons h
  obtain ⟨_, h⟩ := rows_cons h
  obtain ⟨h11, h⟩ := rows_cons h
  obtain ⟨h12, _⟩ := rows_cons h
  refine ⟨h1, h2, by simpa using h5, ?_, ?_⟩
  · unfold piNotJoinedOK
    unfold senderIDFails at h6
    unfold hasSenderID at h7 h8
    cases hs : i.invitedSenderID with
    | err => simp [hs] at h6
    | ans s =>
      cases s with
      | none => rfl
      | some sid =>
        simp only [hs, Bool.true_and] at h7 h8
        cases hc : i.curMembership with
        | none => simp [hc] at h7
        | some cur => simpa [hc] using h8
  · unfold piRoomOK
    unfold latestFails at h11
    unfold latestOf at h12
    cases hl : i.latest with
    | err => simp [hl] at h11
    | ans l => simpa [hl] using h12

/-- PerformInvite returns an event only if: the room version is known; the invitee is not already joined;
    the room exists; the event it returns passed `Allowed` against the state the StateQuerier supplied — and
      * pseudo-ID rooms, remote invitee: SendInviteV3 answered with an event that IS the invite asked for
        (m.room.member, state key present, membership "invite", the template's room and sender: /repo f453bb3);
        that very event, and no other, then received the inviter's signature; with it its signatures verify;
        the invitee's sender ID was stored; it is the event that was auth-checked and returned;
      * pseudo-ID rooms, local invitee: the event was built from the template with the created sender ID as
        state key, signed with the invitee's room key and the inviter's, and verifies;
      * user-ID rooms: the event was built from the template with the invitee as state key and signed under
        the inviter's and the invitee's server names; a local invitee gets that event, for a remote one
        SendInvite succeeded and ITS answer is handed back as it is (not inspected, not signed). -/
theorem performInvite_ok_implies_guards (i : PerformInviteIn) (o : PIOut) (h : performInvite i = .ok o) :
    performInviteGuards i = true ∧ o = piResult i ∧
    (i.pseudoIDs = true → i.targetLocal = false →
      ∃ e, i.sendV3 = .ans (some e) ∧ isInviteFor i e = true ∧ i.verifyOK e = true ∧ i.storeOK = true ∧
        piAuthorised i e = true ∧ o.source = .remoteV3 ∧ o.event = some e ∧ o.signedEvent = e ∧
        o.sigs = [⟨i.origin, pseudoKeyID⟩]) ∧
    (i.pseudoIDs = true → i.targetLocal = true →
      ∃ sid, i.createdSenderID = some sid ∧ i.buildOK = true ∧ i.verifyOK (builtEvent i sid) = true ∧
        piAuthorised i (builtEvent i sid) = true ∧ o.source = .builtLocal ∧ o.event = some (builtEvent i sid) ∧
        o.signedEvent = builtEvent i sid ∧ o.sigs = [⟨sid, pseudoKeyID⟩, ⟨i.origin, pseudoKeyID⟩]) ∧
    (i.pseudoIDs = false →
      i.buildOK = true ∧ piAuthorised i (builtEvent i i.inviteeUserID) = true ∧
      o.signedEvent = builtEvent i i.inviteeUserID ∧
      o.sigs = [⟨i.inviterDomain, i.keyID⟩, ⟨i.inviteeDomain, i.keyID⟩] ∧
      (i.targetLocal = true → o.source = .builtLocal ∧ o.event = some (builtEvent i i.inviteeUserID)) ∧
      (i.targetLocal = false → o.source = .remoteV2 ∧ i.sendV2 = .ans o.event)) := by
  rw [performInvite_decision_table] at h
  obtain ⟨hrows, ho⟩ := ffE_ok h
  obtain ⟨hprep, hbr⟩ := rows_append hrows
  obtain ⟨_, _, hver, hnj, hroom⟩ := prepTable_ok hprep
  subst ho
  unfold branchTable at hbr
  unfold performInviteGuards piResult branchResult
  rw [hver, hnj, hroom]
  cases hp : i.pseudoIDs
  · -- user-ID room versions
    simp only [hp, Bool.false_eq_true, if_false] at hbr ⊢
    unfold defaultTable at hbr
    obtain ⟨_, hbr⟩ := rows_cons hbr
    obtain ⟨_, hbr⟩ := rows_cons hbr
    obtain ⟨hb, hbr⟩ := rows_cons hbr
    obtain ⟨hal, hfed⟩ := rows_append hbr
    have hauth := checkAllowedRows_ok hal
    have hb' : i.buildOK = true := by simpa using hb
    cases ht : i.targetLocal
    · simp only [ht, Bool.false_eq_true, if_false] at hfed
      obtain ⟨_, hfed⟩ := rows_cons hfed
      obtain ⟨hs2, _⟩ := rows_cons hfed
      unfold sendV2Fails at hs2
      cases hs : i.sendV2 with
      | err => simp [hs] at hs2
      | ans r => simp [defaultResult, ht, hb', hauth, mkOut, defaultSigs, v2Of, hs]
    · simp [defaultResult, ht, hb', hauth, mkOut, defaultSigs]
  · simp only [hp, if_true] at hbr ⊢
    obtain ⟨_, hbr⟩ := rows_cons hbr
    cases ht : i.targetLocal
    · -- pseudo-ID rooms, remote invitee
      simp only [ht, Bool.false_eq_true, if_false] at hbr ⊢
      unfold pseudoRemoteTable at hbr
      obtain ⟨_, hbr⟩ := rows_cons hbr
      obtain ⟨hs3, hbr⟩ := rows_cons hbr
      obtain ⟨hv3, hbr⟩ := rows_append hbr
      obtain ⟨hvf, hbr⟩ := rows_cons hbr
      obtain ⟨_, hbr⟩ := rows_cons hbr
      obtain ⟨hst, hal⟩ := rows_cons hbr
      have hauth := checkAllowedRows_ok hal
      unfold v3Rows at hv3
      obtain ⟨hn, hv3⟩ := rows_cons hv3
      obtain ⟨hty, hv3⟩ := rows_cons hv3
      obtain ⟨hm, hv3⟩ := rows_cons hv3
      obtain ⟨hrs, _⟩ := rows_cons hv3
      unfold sendV3Fails at hs3
      cases hs : i.sendV3 with
      | err => simp [hs] at hs3
      | ans r =>
        cases r with
        | none => simp [v3Of, hs] at hn
        | some e =>
          have he : v3Event i = e := by simp [v3Event, v3Of, hs]
          rw [he] at hvf hauth hty hm hrs
          have hinv : isInviteFor i e = true := by
            unfold isInviteFor
            simp only [Bool.or_eq_false_iff, bne_eq_false_iff_eq, Option.isNone_eq_false_iff] at hty hm hrs
            simp [hty.1, hm, hrs.1, hrs.2, Option.isSome_iff_ne_none.mpr (Option.isSome_iff_ne_none.mp hty.2)]
          have hvf' : i.verifyOK e = true := by simpa using hvf
          have hst' : i.storeOK = true := by simpa using hst
          simp [pseudoRemoteResult, mkOut, he, hinv, hvf', hst', hauth]
    · -- pseudo-ID rooms, local invitee
      simp only [ht, if_true] at hbr ⊢
      unfold pseudoLocalTable at hbr
      obtain ⟨hc, hbr⟩ := rows_cons hbr
      obtain ⟨hb, hbr⟩ := rows_cons hbr
      obtain ⟨hvf, hal⟩ := rows_cons hbr
      have hauth := checkAllowedRows_ok hal
      cases hcs : i.createdSenderID with
      | none => simp [hcs] at hc
      | some sid =>
        have hco : createdOf i = sid := by simp [createdOf, hcs]
        rw [hco] at hvf hauth
        have hb' : i.buildOK = true := by simpa using hb
        have hvf' : i.verifyOK (builtEvent i sid) = true := by simpa using hvf
        simp [pseudoLocalResult, mkOut, hco, hb', hvf', hauth]

/-! ### no answer of the remote server (or of a querier) makes PerformInvite panic -/

/-- no row of the table that can fire is a panic row -/
def NoPanicRows (t : List (Bool × PErr)) : Prop := ∀ r ∈ t, r.1 = true → ∀ s, r.2 ≠ .panic s

theorem np_nil : NoPanicRows [] := by intro r hr; cases hr

theorem np_cons_err {c : Bool} {e : HErr} {t : List (Bool × PErr)} (h : NoPanicRows t) : NoPanicRows ((c, .err e) :: t) := by
  intro r hr hc s
  cases hr with
  | head => intro h'; cases h'
  | tail _ hr' => exact h r hr' hc s

theorem np_cons_false {c : Bool} {e : PErr} {t : List (Bool × PErr)} (hc : c = false) (h : NoPanicRows t) :
    NoPanicRows ((c, e) :: t) := by
  intro r hr hc' s
  cases hr with
  | head => simp [hc] at hc'
  | tail _ hr' => exact h r hr' hc' s

theorem np_append {t1 t2 : List (Bool × PErr)} (h1 : NoPanicRows t1) (h2 : NoPanicRows t2) : NoPanicRows (t1 ++ t2) := by
  intro r hr
  rcases List.mem_append.mp hr with h | h
  · exact h1 r h
  · exact h2 r h

theorem ffE_no_panic {α : Type} {t : List (Bool × PErr)} {out : α} (h : NoPanicRows t) (s : String) :
    ffE t out ≠ .error (.panic s) := by
  intro he
  obtain ⟨r, hr, hc, hre⟩ := ffE_error he
  exact h r hr hc s hre

theorem np_stateRows {l : List (Option StateEv)} (h : l.all (·.isSome) = true) : NoPanicRows (stateRows l) := by
  intro r hr _ s
  unfold stateRows at hr
  obtain ⟨e, he, hre⟩ := List.mem_map.mp hr
  have := List.all_eq_true.mp h e he
  cases e with
  | none => simp at this
  | some ev => subst hre; intro h'; cases h'

theorem np_checkAllowed (i : PerformInviteIn) (e : EvFacts) : NoPanicRows (checkAllowedRows i e) :=
  np_cons_err (np_cons_err np_nil)

/-- With the caller's side of the contract kept (`piContractOK`: non-nil queriers, context, store callback and
    federation client, a well-formed signing key, no nil PDU from the EventQuerier), PerformInvite never panics:
    whatever SendInviteV3 / SendInvite answer — an error, a nil PDU, an event of another type, without state
    key, with another membership, for another room or sender, with signatures that do not verify — and
    whatever the queriers answer, the outcome is an error value or a result. -/
theorem performInvite_no_panic (i : PerformInviteIn) (hc : piContractOK i = true) (site : String) :
    performInvite i ≠ .error (.panic site) := by
  rw [performInvite_decision_table]
  apply ffE_no_panic
  simp only [piContractOK, Bool.and_eq_true, Bool.not_eq_true'] at hc
  obtain ⟨⟨⟨⟨⟨⟨⟨⟨⟨⟨h1, h2⟩, h3⟩, h4⟩, h5⟩, h6⟩, hctx⟩, hstore⟩, hfed⟩, hkey⟩, hst⟩ := hc
  have hkey' : (!i.signingKeyOK) = false := by simp [hkey]
  unfold piTable
  apply np_append
  · unfold prepTable
    refine np_cons_false (by simp [nilQuerier, h1, h2, h3, h4, h5, h6]) (np_cons_false hctx ?_)
    refine np_cons_err (np_cons_err (np_cons_err (np_cons_err (np_cons_err (np_cons_err (np_cons_err (np_cons_err
      (np_cons_err (np_cons_err ?_)))))))))
    unfold latestOf
    cases hl : i.latest with
    | err => exact np_nil
    | ans l => rw [hl] at hst; exact np_stateRows hst
  · unfold branchTable
    cases i.pseudoIDs
    · simp only [Bool.false_eq_true, if_false]
      unfold defaultTable
      refine np_cons_err (np_cons_false hkey' (np_cons_err (np_append (np_checkAllowed _ _) ?_)))
      cases i.targetLocal
      · simp only [Bool.false_eq_true, if_false]
        exact np_cons_false hfed (np_cons_err np_nil)
      · exact np_nil
    · simp only [if_true]
      refine np_cons_false hkey' ?_
      cases i.targetLocal
      · simp only [Bool.false_eq_true, if_false]
        unfold pseudoRemoteTable v3Rows
        refine np_cons_false hfed (np_cons_err (np_append (np_cons_err (np_cons_err (np_cons_err (np_cons_err np_nil)))) ?_))
        exact np_cons_err (np_cons_false hstore (np_cons_err (np_checkAllowed _ _)))
      · simp only [if_true]
        unfold pseudoLocalTable
        exact np_cons_err (np_cons_err (np_cons_err (np_checkAllowed _ _)))

/-! ### non-vacuity and the inputs of /repo f453bb3 -/

def inviteFacts : EvFacts :=
  { type := b!"m.room.member", stateKey := some b!"INVITEEKEY", membership := some b!"invite", roomID := b!"!r:hs1", senderID := b!"INVITERKEY" }

/-- pseudo-ID room, remote invitee, everything in order -/
def piWitness : PerformInviteIn := {
  membershipQuerierNil := false, stateQuerierNil := false, userIDQuerierNil := false, senderIDQuerierNil := false,
  senderIDCreatorNil := false, eventQuerierNil := false, ctxNil := false, storeSenderIDNil := false, fedClientNil := false,
  signingKeyOK := true, versionKnown := true, pseudoIDs := true, domainless := false, targetLocal := false,
  inviterDomain := b!"hs1", inviteeUserID := b!"@zed:hs2", inviteeDomain := b!"hs2", keyID := b!"ed25519:k1", origin := b!"INVITERKEY",
  tType := b!"m.room.member", tRoomID := b!"!r:hs1", tSenderID := b!"INVITERKEY", tMembership := some b!"invite",
  needed := some { create := true, powerLevels := true, joinRules := true, member := [b!"INVITERKEY"] },
  strippedGiven := 0, stateQuery := .ans 2, unsignedOK := true, invitedSenderID := .ans none, curMembership := none,
  latest := .ans { roomExists := true, depth := 7, prevEventIDs := [b!"$p"],
                   stateEvents := [some ⟨b!"m.room.create", some [], b!"$c"⟩, some ⟨b!"m.room.power_levels", some [], b!"$pl"⟩,
                                   some ⟨b!"m.room.member", some b!"INVITERKEY", b!"$m"⟩] },
  authProviderOK := true, allowed := fun _ => true, buildReachesSign := true, buildOK := true, createdSenderID := some b!"LOCALKEY",
  verifyOK := fun _ => true, sendV3 := .ans (some inviteFacts), storeOK := true, sendV2 := .err }

def piOutcome (r : PR PIOut) : String :=
  match r with
  | .ok o => (match o.source with | .builtLocal => "built" | .remoteV2 => "v2" | .remoteV3 => "v3") ++ ":" ++ toString o.sigs.length
      ++ ":" ++ toString o.authEvents.length
  | .error (.err (.matrix c)) => c
  | .error (.err .internal) => "internal"
  | .error (.err .other) => "other"
  | .error (.panic s) => "panic:" ++ s

example : piOutcome (performInvite piWitness) = "v3:1:3" := by decide
example : performInviteGuards piWitness = true := by decide
example : piContractOK piWitness = true := by decide
example : piOutcome (performInvite { piWitness with targetLocal := true }) = "built:2:3" := by decide
example : piOutcome (performInvite { piWitness with pseudoIDs := false, sendV2 := .ans none }) = "v2:2:3" := by decide
/-- what the remote could answer before f453bb3 to crash the process (and obtain the inviter's signature first):
    an event without state key, of another type; a nil PDU.  Now refused. -/
example : piOutcome (performInvite { piWitness with sendV3 := .ans (some { inviteFacts with type := b!"m.room.message", stateKey := none }) })
    = "M_FORBIDDEN" := by decide
example : piOutcome (performInvite { piWitness with sendV3 := .ans none }) = "M_FORBIDDEN" := by decide
example : piOutcome (performInvite { piWitness with sendV3 := .ans (some { inviteFacts with membership := some b!"leave" }) })
    = "M_FORBIDDEN" := by decide
example : piOutcome (performInvite { piWitness with sendV3 := .ans (some { inviteFacts with roomID := b!"!elsewhere:hs1" }) })
    = "M_FORBIDDEN" := by decide
/-- the unchecked callback: a nil StoreSenderIDFromPublicID is a panic site (outside `piContractOK`) -/
example : piOutcome (performInvite { piWitness with storeSenderIDNil := true }) = "panic:" ++ siteStore := by decide

/-! ## HandleSendJoin, room version org.matrix.msc4014 -/

/-- In pseudo-ID rooms HandleSendJoin accepts a join only if — besides the guards of `sendJoin_ok_implies_guards`,
    with the event's own signature checked against the sender's key — its mxid_mapping is validly signed by
    the user's server and was stored. -/
theorem sendJoinPseudo_ok_implies_guards (i : SendJoinPseudoIn) (o : SendJoinOut) (h : handleSendJoinPseudo i = .ok o) :
    sendJoinPseudoGuards i = true ∧ i.base.evType = b!"m.room.member" ∧ i.selfVerify = true ∧
    o.sig = { signer := i.base.localServer, keyID := i.base.keyID } ∧ o.alreadyJoined = (i.base.curMembership == some b!"join") := by
  unfold handleSendJoinPseudo at h
  split at h
  · cases h
  split at h
  · cases h
  split at h
  · cases h
  split at h
  · cases h
  split at h
  · cases h
  · cases h
  · rename_i hmap
    split at h
    · cases h
    split at h
    · cases h
    · cases h
    · split at h
      · cases h
      split at h
      · cases h
      split at h
      · cases h
      obtain ⟨hty, hm, hv, ht⟩ := sendJoinEventChecks_ok h
      obtain ⟨_, hb, hcd, hvia, hs, ha⟩ := sendJoinTail_ok ht
      rw [viaLocal_iff] at hvia
      have hsv : i.selfVerify = true := by
        cases hsv : i.selfVerify
        · simp [pseudoBase, pseudoVerify, hsv] at hv
        · rfl
      refine ⟨?_, hty, hsv, hs, ha⟩
      unfold sendJoinPseudoGuards sendJoinGuards isJoin
      simp_all [pseudoVerify, pseudoBase]

def sendJoinPseudoTable (i : SendJoinPseudoIn) : List (Bool × HErr) := [
  (!i.base.versionKnown, eUnsupported),
  (!i.base.parses, eBadJSON),
  (i.base.stateKey.isNone || i.base.stateKey == some [], eBadJSON),
  (i.base.stateKey != some i.base.sender, eBadJSON),
  (i.mapping == .missing, eBadJSON),                         -- getMXIDMapping
  (i.mapping == .invalid, eForbidden),                       -- validateMXIDMappingSignatures
  (!i.storeOK, .other),                                      -- StoreSenderIDFromPublicID
  (!senderKnown i.base.senderDomain, eForbidden),            -- the querier failed, or has no user for this key (round-5 repair)
  (i.base.senderDomain != .dom i.base.requestOrigin, eForbidden),
  (i.base.eventRoomID != i.base.roomID, eBadJSON),
  (i.base.eventID != i.base.reqEventID, eBadJSON),
  (i.base.evType != b!"m.room.member", eBadJSON),           -- not an m.room.member event (round-4 repair)
  (i.base.membership.isNone, eBadJSON),
  (i.base.membership != some b!"join", eBadJSON),
  (!i.selfVerify, eForbidden),                               -- JSONVerifierSelf against the sender's key
  (i.base.curMembership.isNone, .internal),
  (i.base.curMembership == some b!"ban", eForbidden),
  (!i.base.contentDecodes, eBadJSON),
  (!(i.base.authorisedVia.isEmpty || i.base.userID i.base.authorisedVia == some i.base.localServer), eBadJSON)]

theorem sendJoinPseudo_decision_table (i : SendJoinPseudoIn) :
    handleSendJoinPseudo i = firstFailing (sendJoinPseudoTable i)
      { alreadyJoined := i.base.curMembership == some b!"join", sig := { signer := i.base.localServer, keyID := i.base.keyID } } := by
  have ht := sendJoinEventChecks_table (pseudoBase i) _ _ (sendJoinTail_table (pseudoBase i))
  unfold handleSendJoinPseudo sendJoinPseudoTable
  generalize hpb : sendJoinEventChecks (pseudoBase i) = X at *
  cases h1 : (!i.base.versionKnown)
  case true => simp [firstFailing]
  cases h2 : (!i.base.parses)
  case true => simp [firstFailing]
  cases h3 : (i.base.stateKey.isNone || i.base.stateKey == some [])
  case true => simp [firstFailing]
  cases h4 : (i.base.stateKey != some i.base.sender)
  case true => simp [firstFailing]
  cases hm : i.mapping with
  | missing => simp [firstFailing]
  | invalid => simp [firstFailing]
  | valid =>
    cases hst : i.storeOK
    case false => simp [firstFailing]
    cases hd : i.base.senderDomain with
    | err => simp [firstFailing, senderKnown]
    | nil => simp [firstFailing, senderKnown]
    | dom d =>
      have hs : (SenderAns.dom d != SenderAns.dom i.base.requestOrigin) = (d != i.base.requestOrigin) := by simp [bne, dom_beq]
      have hk : senderKnown (SenderAns.dom d) = true := rfl
      cases h5 : (d != i.base.requestOrigin)
      case true => simp [firstFailing, hs, h5, hk]
      cases h6 : (i.base.eventRoomID != i.base.roomID)
      case true => simp [firstFailing, hs, h5, hk]
      cases h7 : (i.base.eventID != i.base.reqEventID)
      case true => simp [firstFailing, hs, h5, hk]
      rw [ht]
      have e1 : (VerifyAns.bad == VerifyAns.callErr) = false := rfl
      have e2 : (VerifyAns.good == VerifyAns.callErr) = false := rfl
      have e3 : (VerifyAns.good == VerifyAns.bad) = false := rfl
      cases hsv : i.selfVerify <;> cases hty : (i.base.evType != b!"m.room.member") <;>
        cases hmm : i.base.membership.isNone <;>
        cases hmj : (i.base.membership != some b!"join") <;>
        simp [firstFailing, hs, h5, hk, pseudoBase, pseudoVerify, hsv, hty, hmm, hmj, e1, e2, e3]

def sendJoinPseudoWitness : SendJoinPseudoIn :=
  { base := { sendJoinWitness with senderDomain := .dom b!"hs2" }, mapping := .valid, storeOK := true, selfVerify := true }

example : handleSendJoinPseudo sendJoinPseudoWitness = .ok { alreadyJoined := false, sig := ⟨b!"hs1", b!"ed25519:k1"⟩ } := by rfl
example : handleSendJoinPseudo { sendJoinPseudoWitness with mapping := .invalid } = .error eForbidden := by rfl
example : handleSendJoinPseudo { sendJoinPseudoWitness with selfVerify := false } = .error eForbidden := by rfl
example : handleSendJoinPseudo { sendJoinPseudoWitness with base := { sendJoinWitness with evType := b!"m.room.name" } } = .error eBadJSON := by rfl
example : sendJoinPseudoGuards { sendJoinPseudoWitness with base := { sendJoinWitness with evType := b!"m.room.name" } } = false := by rfl
/-- the round-5 finding (H5) where it is reachable from the network: a join sent under a key the local querier has no user for -/
example : handleSendJoinPseudo { sendJoinPseudoWitness with base := { sendJoinWitness with senderDomain := .nil } } = .error eForbidden := by rfl

/-! ## PerformJoin, room version org.matrix.msc4014: what is stored, and when

  `performJoinPseudo_stores_vouched` : every pair handed to `StoreSenderIDFromPublicID` — on ANY run, successful or not,
      whatever the response contains — is vouched for: some membership event of the response carries a mapping for exactly
      that key and that user which the user's server validly signed (`Spec.vouched`).  (Round-5 repair: before it the key
      stored was the SENDER of the carrying event and the user the one of the mapping, whatever key the mapping was about.)
  `performJoinPseudo_trace_shape`    : the stores all happen BEFORE CheckSendJoinResponse (which runs at most once, last);
  `performJoinPseudo_ok_implies`     : a join is returned only if every stage succeeded, the auth events contain a create
      event of a known room version and CheckSendJoinResponse passed. -/

theorem storeLoop_vouched (storeOK : Nat → Bool) (all : List PJMember) :
    ∀ (ms : List PJMember) (done : List (Bytes × Bytes)), (∀ m ∈ ms, m ∈ all) → (∀ p ∈ done, vouched all p.1 p.2) →
      ∀ p ∈ (storeLoop storeOK ms done).1, vouched all p.1 p.2 := by
  intro ms
  induction ms with
  | nil => intro done _ hd; simpa [storeLoop] using hd
  | cons m rest ih =>
    intro done hsub hd
    have hrest : ∀ x ∈ rest, x ∈ all := fun x hx => hsub x (List.mem_cons_of_mem _ hx)
    unfold storeLoop
    split
    · exact hd
    · rename_i key user hmap
      split
      · exact ih done hrest hd
      · rename_i hkey
        have hk : key = m.sender := by simpa using hkey
        split
        · exact ih done hrest hd
        · rename_i hsig
          have hv : vouched all m.sender user :=
            ⟨m, hsub m List.mem_cons_self, by rw [hmap, hk], by simpa using hsig⟩
          have hd' : ∀ p ∈ done ++ [(m.sender, user)], vouched all p.1 p.2 := by
            intro p hp
            rcases List.mem_append.mp hp with h1 | h1
            · exact hd p h1
            · simp at h1; subst h1; exact hv
          split
          · exact ih _ hrest hd'
          · exact hd'

theorem storesVouched_map (all : List PJMember) (l : List (Bytes × Bytes)) (h : ∀ p ∈ l, vouched all p.1 p.2)
    (tail : List PJStep) (ht : ∀ st ∈ tail, st = .check) :
    storesVouched all (l.map (fun p => PJStep.store p.1 p.2) ++ tail) = true := by
  unfold storesVouched
  rw [List.all_eq_true]
  intro st hst
  rcases List.mem_append.mp hst with h1 | h1
  · obtain ⟨p, hp, rfl⟩ := List.mem_map.mp h1
    simpa using h p hp
  · rw [ht st h1]

/-- Whatever the send_join response contains and however the join ends: every (sender ID → user ID) pair PerformJoin hands to
    the caller's store is vouched for by a validly signed mapping for that very key and user. -/
theorem performJoinPseudo_stores_vouched (i : PerformJoinPseudoIn) :
    storesVouched i.members (performJoinPseudo i).1 = true := by
  have hl := storeLoop_vouched i.storeOK i.members i.members [] (fun _ h => h) (by intro p hp; cases hp)
  unfold performJoinPseudo
  split
  · rfl
  split
  · rfl
  split
  · rfl
  split
  · rfl
  split
  · rfl
  · generalize storeLoop i.storeOK i.members [] = r at hl
    obtain ⟨stores, ok⟩ := r
    simp only
    split
    · simpa using storesVouched_map i.members stores hl [] (by intro st h; cases h)
    · split
      · exact storesVouched_map i.members stores hl [.check] (by intro st h; simpa using h)
      · exact storesVouched_map i.members stores hl [.check] (by intro st h; simpa using h)

/-- the stores come first; CheckSendJoinResponse runs at most once, after all of them -/
theorem performJoinPseudo_trace_shape (i : PerformJoinPseudoIn) :
    ∃ stores : List (Bytes × Bytes), (performJoinPseudo i).1 = stores.map (fun p => PJStep.store p.1 p.2) ∨
      (performJoinPseudo i).1 = stores.map (fun p => PJStep.store p.1 p.2) ++ [.check] := by
  unfold performJoinPseudo
  split
  · exact ⟨[], Or.inl rfl⟩
  split
  · exact ⟨[], Or.inl rfl⟩
  split
  · exact ⟨[], Or.inl rfl⟩
  split
  · exact ⟨[], Or.inl rfl⟩
  split
  · exact ⟨[], Or.inl rfl⟩
  · generalize storeLoop i.storeOK i.members [] = r
    obtain ⟨stores, ok⟩ := r
    simp only
    split
    · exact ⟨stores, Or.inl rfl⟩
    · split
      · exact ⟨stores, Or.inr rfl⟩
      · exact ⟨stores, Or.inr rfl⟩

/-- PerformJoin (pseudo-ID rooms) returns a join only if make_join, the sender-ID creation, the build and send_join
    succeeded, the auth events contain a create event of a known room version, no store failed, and the response passed
    the federation-response checks. -/
theorem performJoinPseudo_ok_implies (i : PerformJoinPseudoIn) (h : (performJoinPseudo i).2 = .ok ()) :
    performJoinPseudoGuards i = true ∧ (storeLoop i.storeOK i.members []).2 = true := by
  unfold performJoinPseudo at h
  split at h
  · cases h
  rename_i h1
  split at h
  · cases h
  rename_i h2
  split at h
  · cases h
  rename_i h3
  split at h
  · cases h
  rename_i h4
  split at h
  · cases h
  rename_i h5
  generalize hr : storeLoop i.storeOK i.members [] = r at h
  obtain ⟨stores, ok⟩ := r
  simp only at h
  split at h
  · cases h
  rename_i h6
  split at h
  · cases h
  rename_i h7
  refine ⟨?_, by simpa using h6⟩
  unfold performJoinPseudoGuards
  simp_all

/-- the input of the round-5 finding (H4): a state event sent under ALICE's key that carries MALLORY's own, validly signed
    mapping.  The unrepaired loop stored (alice's key → @mallory:hs3); now nothing is stored for it, the genuine
    mappings around it still are, and the join goes through (the bad event is dropped by CheckStateResponse). -/
def pjCreatorM : PJMember := { sender := b!"creator-key", mapping := some (b!"creator-key", b!"@creator:hs1"), mappingSigned := true }
def pjForeignM : PJMember := { sender := b!"alice-key", mapping := some (b!"mallory-key", b!"@mallory:hs3"), mappingSigned := true }
def pjAliceM : PJMember := { sender := b!"alice-key", mapping := some (b!"alice-key", b!"@alice:hs2"), mappingSigned := true }

def pjWitness (ms : List PJMember) : PerformJoinPseudoIn :=
  { makeJoinOK := true, senderIDOK := true, buildOK := true, sendJoinOK := true, create := .version b!"org.matrix.msc4014",
    knownVersion := fun _ => true, members := ms, storeOK := fun _ => true, checkOK := true }

example : performJoinPseudo (pjWitness [pjCreatorM, pjForeignM]) =
    ([.store b!"creator-key" b!"@creator:hs1", .check], .ok ()) := by rfl
example : performJoinPseudo (pjWitness [pjCreatorM, pjAliceM]) =
    ([.store b!"creator-key" b!"@creator:hs1", .store b!"alice-key" b!"@alice:hs2", .check], .ok ()) := by rfl
example : performJoinPseudoGuards (pjWitness [pjCreatorM, pjAliceM]) = true := by decide
/-- a mapping nobody signed is not stored either; a membership event without mapping stops the join -/
example : performJoinPseudo (pjWitness [{ pjAliceM with mappingSigned := false }]) = ([.check], .ok ()) := by rfl
example : performJoinPseudo (pjWitness [pjCreatorM, { pjAliceM with mapping := none }]) =
    ([.store b!"creator-key" b!"@creator:hs1"], .error .storeFailed) := by rfl

end V.C15
