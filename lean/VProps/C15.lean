/-
  C15 — Join, leave and invite handshakes admit only well-formed, authorised requests.

  For every handler H of VModel.Handshake (the guard chains the driver runs against the Go handlers):
    * `H_ok_implies_guards` : H input = ok out → Guards_H input   (Guards_H from VModel.HandshakeSpec:
      the conjunction the property lists, restricted to what the handler's signature can see)
    * `H_signs_unmodified`  : the response is the received event plus ONE signature slot, that of
      (local server, local key ID) — HandleSendJoin, HandleInvite
    * `H_decision_table`    : the outcome is the error class of the FIRST failing guard of an explicit
      ordered table, and `ok` when none fails (completeness of the guard chain, by case analysis)
  All statements are universally quantified over the abstract inputs: request parameters, event shape
  facts, and arbitrary answers of the verifier / queriers / template builder / Allowed oracle.
-/
import VModel.Handshake
import VModel.HandshakeSpec
namespace V.C15
open V V.Handshake V.Handshake.Spec

/-- outcome of an ordered guard table: the class of the first failing guard, else the response -/
def firstFailing {α} (table : List (Bool × HErr)) (out : α) : R α :=
  match table.find? (·.1) with
  | some (_, e) => .error e
  | none => .ok out

/-! ## HandleSendJoin -/

theorem sendJoinTail_ok {i : SendJoinIn} {o : SendJoinOut} (h : sendJoinTail i = .ok o) :
    i.curMembership ≠ none ∧ i.curMembership ≠ some b!"ban" ∧ i.contentDecodes = true ∧ viaLocal i = true
    ∧ o.sig = ⟨i.localServer, i.keyID⟩ ∧ o.alreadyJoined = (i.curMembership == some b!"join") := by
  unfold sendJoinTail at h
  split at h
  · cases h
  · split at h
    · cases h
    split at h
    · cases h
    split at h
    · cases h
    cases h
    simp_all

theorem sendJoinEventChecks_ok {i : SendJoinIn} {o : SendJoinOut} (h : sendJoinEventChecks i = .ok o) :
    i.membership = some b!"join" ∧ i.verify = .good ∧ sendJoinTail i = .ok o := by
  unfold sendJoinEventChecks at h
  split at h
  · cases h
  · split at h
    · cases h
    split at h
    · cases h
    · cases h
    · simp_all

theorem viaLocal_iff (i : SendJoinIn) :
    viaLocal i = (i.authorisedVia.isEmpty || i.userID i.authorisedVia == some i.localServer) := by
  unfold viaLocal
  split
  · simp_all
  · split <;> simp_all

/-- HandleSendJoin accepts an event only if it is a join whose sender equals its state key, whose room
    and event ID match the request, whose sender belongs to the requesting server, which that server
    has validly signed, whose target is not banned and whose authorising user (if any) is local. -/
theorem sendJoin_ok_implies_guards (i : SendJoinIn) (o : SendJoinOut) (h : handleSendJoin i = .ok o) :
    sendJoinGuards i = true := by
  unfold handleSendJoin at h
  split at h
  · cases h
  split at h
  · cases h
  split at h
  · cases h
  split at h
  · cases h
  split at h
  · cases h
  · split at h
    · cases h
    split at h
    · cases h
    split at h
    · cases h
    obtain ⟨hm, hv, ht⟩ := sendJoinEventChecks_ok h
    obtain ⟨_, hb, _, hvia, _, _⟩ := sendJoinTail_ok ht
    rw [viaLocal_iff] at hvia
    simp_all [sendJoinGuards]

/-- Whatever HandleSendJoin returns is the received event plus one signature slot: that of the local
    server under the local key ID (at model level: "out = in + signature slot (local server, key ID)");
    and `AlreadyJoined` reports exactly whether the current membership is `join`. -/
theorem sendJoin_signs_unmodified (i : SendJoinIn) (o : SendJoinOut) (h : handleSendJoin i = .ok o) :
    o.sig = { signer := i.localServer, keyID := i.keyID } ∧ o.alreadyJoined = (i.curMembership == some b!"join") := by
  unfold handleSendJoin at h
  split at h
  · cases h
  split at h
  · cases h
  split at h
  · cases h
  split at h
  · cases h
  split at h
  · cases h
  · split at h
    · cases h
    split at h
    · cases h
    split at h
    · cases h
    obtain ⟨_, _, ht⟩ := sendJoinEventChecks_ok h
    obtain ⟨_, _, _, _, hs, ha⟩ := sendJoinTail_ok ht
    exact ⟨hs, ha⟩

/-- the guards of HandleSendJoin in the order of the code, each with the Matrix error class it yields -/
def sendJoinTable (i : SendJoinIn) : List (Bool × HErr) := [
  (!i.versionKnown, eUnsupported),
  (!i.parses, eBadJSON),
  (i.stateKey.isNone || i.stateKey == some [], eBadJSON),
  (i.stateKey != some i.sender, eBadJSON),
  (i.senderDomain.isNone, eForbidden),
  (i.senderDomain != some i.requestOrigin, eForbidden),
  (i.eventRoomID != i.roomID, eBadJSON),
  (i.eventID != i.reqEventID, eBadJSON),
  (i.membership.isNone, eBadJSON),
  (i.membership != some b!"join", eBadJSON),
  (i.verify == .callErr, .internal),
  (i.verify == .bad, eForbidden),
  (i.curMembership.isNone, .internal),
  (i.curMembership == some b!"ban", eForbidden),
  (!i.contentDecodes, eBadJSON),
  (!(i.authorisedVia.isEmpty || i.userID i.authorisedVia == some i.localServer), eBadJSON)]

theorem sendJoinTail_table (i : SendJoinIn) :
    sendJoinTail i = firstFailing [
      (i.curMembership.isNone, .internal),
      (i.curMembership == some b!"ban", eForbidden),
      (!i.contentDecodes, eBadJSON),
      (!(i.authorisedVia.isEmpty || i.userID i.authorisedVia == some i.localServer), eBadJSON)]
      { alreadyJoined := i.curMembership == some b!"join", sig := { signer := i.localServer, keyID := i.keyID } } := by
  unfold sendJoinTail
  rw [← viaLocal_iff]
  cases hc : i.curMembership with
  | none => simp [firstFailing]
  | some cur =>
    by_cases h1 : cur = b!"ban"
    · simp [firstFailing, h1]
    · by_cases h2 : i.contentDecodes = true
      · by_cases h3 : viaLocal i = true
        · simp [firstFailing, h1, h2, h3]
        · simp [firstFailing, h1, h2, h3]
      · simp [firstFailing, h1, h2]

theorem sendJoinEventChecks_table (i : SendJoinIn) (out : SendJoinOut) (tail : List (Bool × HErr))
    (ht : sendJoinTail i = firstFailing tail out) :
    sendJoinEventChecks i = firstFailing ([
      (i.membership.isNone, eBadJSON),
      (i.membership != some b!"join", eBadJSON),
      (i.verify == .callErr, .internal),
      (i.verify == .bad, eForbidden)] ++ tail) out := by
  unfold sendJoinEventChecks
  cases hm : i.membership with
  | none => simp [firstFailing]
  | some m =>
    by_cases h1 : m = b!"join"
    · cases hv : i.verify <;> simp_all [firstFailing]
    · simp [firstFailing, h1]

/-- Decision-table completeness: HandleSendJoin answers with the error class of the first failing guard
    of `sendJoinTable`, and with the counter-signed event when no guard fails. -/
theorem sendJoin_decision_table (i : SendJoinIn) :
    handleSendJoin i = firstFailing (sendJoinTable i)
      { alreadyJoined := i.curMembership == some b!"join", sig := { signer := i.localServer, keyID := i.keyID } } := by
  have ht := sendJoinEventChecks_table i _ _ (sendJoinTail_table i)
  unfold handleSendJoin sendJoinTable
  cases h1 : (!i.versionKnown)
  case true => simp [firstFailing]
  cases h2 : (!i.parses)
  case true => simp [firstFailing]
  cases h3 : (i.stateKey.isNone || i.stateKey == some [])
  case true => simp [firstFailing]
  cases h4 : (i.stateKey != some i.sender)
  case true => simp [firstFailing]
  cases hd : i.senderDomain with
  | none => simp [firstFailing]
  | some d =>
    have hs : (some d != some i.requestOrigin) = (d != i.requestOrigin) := by simp [bne]
    cases h5 : (d != i.requestOrigin)
    case true => simp [firstFailing, hs, h5]
    cases h6 : (i.eventRoomID != i.roomID)
    case true => simp [firstFailing, hs, h5]
    cases h7 : (i.eventID != i.reqEventID)
    case true => simp [firstFailing, hs, h5]
    rw [ht]
    simp [firstFailing, hs, h5]

/-- non-vacuity: an input on which HandleSendJoin accepts -/
def sendJoinWitness : SendJoinIn := {
  versionKnown := true, parses := true, stateKey := some b!"@bob:hs2", sender := b!"@bob:hs2",
  eventRoomID := b!"!room:hs1", eventID := b!"$e", membership := some b!"join", contentDecodes := true,
  authorisedVia := b!"@alice:hs1", roomID := b!"!room:hs1", reqEventID := b!"$e", requestOrigin := b!"hs2",
  localServer := b!"hs1", keyID := b!"ed25519:k1", senderDomain := some b!"hs2", verify := .good,
  curMembership := some b!"leave", userID := fun _ => some b!"hs1" }

example : handleSendJoin sendJoinWitness = .ok { alreadyJoined := false, sig := ⟨b!"hs1", b!"ed25519:k1"⟩ } := by rfl
example : handleSendJoin { sendJoinWitness with curMembership := some b!"ban" } = .error eForbidden := by rfl
example : handleSendJoin { sendJoinWitness with userID := fun _ => some b!"evil" } = .error eBadJSON := by rfl

/-! ## HandleMakeJoin -/

theorem checkTemplate_ok {t : TemplateAns} (h : checkTemplate t = .ok ()) : templateOK t = true := by
  unfold checkTemplate at h
  split at h
  · cases h
  · cases h
  · cases h
  · split at h
    · cases h
    split at h
    · cases h
    split at h
    · cases h
    simp_all [templateOK]

/-- the authoriser picked among the joined users is a member event's state key, a creator or a user whose
    power level reaches the invite level -/
theorem pickAuthoriser_some {creators : List Bytes} {pl : PL} {us : List JoinedUser} {id : Bytes}
    (h : pickAuthoriser creators pl us = some id) :
    ∃ u ∈ us, u.type = b!"m.room.member" ∧ u.stateKey = some id ∧
      (creators.contains id = true ∨ pl.invite ≤ pl.userLevel id) := by
  induction us with
  | nil => simp [pickAuthoriser] at h
  | cons u us ih =>
    unfold pickAuthoriser at h
    split at h
    · obtain ⟨w, hw, hr⟩ := ih h
      exact ⟨w, List.mem_cons_of_mem _ hw, hr⟩
    · rename_i hty
      split at h
      · obtain ⟨w, hw, hr⟩ := ih h
        exact ⟨w, List.mem_cons_of_mem _ hw, hr⟩
      · rename_i id' hsk
        split at h
        · rename_i hc
          cases h
          exact ⟨u, List.mem_cons_self, by simpa using hty, hsk, Or.inl hc⟩
        · split at h
          · obtain ⟨w, hw, hr⟩ := ih h
            exact ⟨w, List.mem_cons_of_mem _ hw, hr⟩
          · rename_i hlt
            cases h
            exact ⟨u, List.mem_cons_self, by simpa using hty, hsk, Or.inr (by omega)⟩

/-- an authoriser found by the loop over the allow rules comes from an `m.room_membership` rule whose
    room is valid, in which this server is resident and the joiner is joined -/
theorem rulesLoop_some {q : RestrictedQ} {cs : List Bytes} {pl : PL} {rules : List AllowRule} {res r : Bool} {id : Bytes}
    (h : rulesLoop q cs pl rules res = (some id, r)) :
    ∃ rule ∈ rules, rule.type = b!"m.room_membership" ∧ q.roomIDValid rule.roomID = true ∧
      ∃ info, q.roomInfo rule.roomID = .ans (some info) ∧ info.localServerInRoom = true ∧ info.userJoinedToRoom = true ∧
        pickAuthoriser cs pl info.joinedUsers = some id := by
  induction rules generalizing res with
  | nil => simp [rulesLoop] at h
  | cons rule rest ih =>
    unfold rulesLoop at h
    split at h
    · obtain ⟨w, hw, hr⟩ := ih h
      exact ⟨w, List.mem_cons_of_mem _ hw, hr⟩
    · rename_i hty
      split at h
      · obtain ⟨w, hw, hr⟩ := ih h
        exact ⟨w, List.mem_cons_of_mem _ hw, hr⟩
      · rename_i hvalid
        split at h
        · obtain ⟨w, hw, hr⟩ := ih h
          exact ⟨w, List.mem_cons_of_mem _ hw, hr⟩
        · obtain ⟨w, hw, hr⟩ := ih h
          exact ⟨w, List.mem_cons_of_mem _ hw, hr⟩
        · rename_i info hinfo
          split at h
          · obtain ⟨w, hw, hr⟩ := ih h
            exact ⟨w, List.mem_cons_of_mem _ hw, hr⟩
          · rename_i hloc
            split at h
            · obtain ⟨w, hw, hr⟩ := ih h
              exact ⟨w, List.mem_cons_of_mem _ hw, hr⟩
            · rename_i hjoined
              split at h
              · obtain ⟨w, hw, hr⟩ := ih h
                exact ⟨w, List.mem_cons_of_mem _ hw, hr⟩
              · split at h
                · rename_i id' hp
                  cases h
                  exact ⟨rule, List.mem_cons_self, by simpa using hty, by simpa using hvalid, info, hinfo,
                    by simpa using hloc, by simpa using hjoined, hp⟩
                · obtain ⟨w, hw, hr⟩ := ih h
                  exact ⟨w, List.mem_cons_of_mem _ hw, hr⟩

theorem creatorsFor_ok {i : MakeJoinIn} {cs : List Bytes} (h : creatorsFor i.q i.privilegedCreators = .ok cs) :
    cs = creatorsOf i := by
  unfold creatorsFor at h
  unfold creatorsOf
  split at h
  · rename_i hp
    split at h
    · cases h
    · cases h
    · rename_i cs' hc
      cases h
      simp [hp, hc]
  · rename_i hp
    cases h
    simp [hp]

/-- what a successful restricted-join stage returns -/
theorem restrictedStage_ok {i : MakeJoinIn} {v : Bytes} (h : restrictedStage i = .ok v) :
    (needsAuthoriser i = true → v ∈ eligible i) ∧ (needsAuthoriser i = false → v = []) := by
  unfold restrictedStage at h
  split at h
  · rename_i hrv
    split at h
    · rename_i v' hc
      cases h
      unfold checkRestrictedJoin at hc
      split at hc
      · cases hc
      · rename_i hjr
        cases hc
        simp [needsAuthoriser, hjr]
      · cases hc
      · rename_i jr hjr
        split at hc
        · rename_i hnr
          cases hc
          simp [needsAuthoriser, hjr]
          intro _ hr
          simp [hr] at hnr
        · rename_i hr
          split at hc
          · cases hc
          · rename_i hpend
            cases hc
            simp [needsAuthoriser, hjr, hpend]
          · rename_i hpend
            split at hc
            · cases hc
            · cases hc
            · cases hc
            · rename_i pl hpl
              unfold pickVia at hc
              split at hc
              · cases hc
              · rename_i cs hcs
                have hcs' := creatorsFor_ok hcs
                split at hc
                · rename_i id r hloop
                  cases hc
                  have hneed : needsAuthoriser i = true := by
                    simp [needsAuthoriser, hrv, hjr, hpend]
                    simpa using hr
                  refine ⟨fun _ => ?_, fun hn => by simp [hneed] at hn⟩
                  obtain ⟨rule, hrule, hty, hvalid, info, hinfo, hloc, hj, hp⟩ := rulesLoop_some hloop
                  obtain ⟨u, hu, huty, husk, hent⟩ := pickAuthoriser_some hp
                  unfold eligible
                  rw [List.mem_flatMap]
                  refine ⟨rule, by simpa [allowRules, hjr] using hrule, ?_⟩
                  simp only [hty, hvalid, hinfo, hloc, hj, beq_self_eq_true, Bool.and_self, if_true]
                  rw [List.mem_filterMap]
                  refine ⟨u, hu, ?_⟩
                  have hE : entitled i v = true := by
                    unfold entitled
                    rw [← hcs', hpl]
                    cases hent with
                    | inl hc' => rw [hc']; rfl
                    | inr hl => simp [hl]
                  simp [huty, husk, hE]
                · cases hc
                · cases hc
    · cases h
    · cases h
  · rename_i hrv
    cases h
    simp [needsAuthoriser, hrv]

/-- HandleMakeJoin returns a template only if the remote supports the room version, the user belongs to
    the requesting server, the local server is in the room, the join — when the room restricts joins and
    no invite is pending — is authorised by a user entitled to invite (`eligible`), and the built event
    passes the auth rules against the state supplied with it. -/
theorem makeJoin_ok_implies_guards (i : MakeJoinIn) (o : MakeJoinOut) (h : handleMakeJoin i = .ok o) :
    makeJoinBasic i = true ∧ templateOK (i.template o.authorisedVia) = true ∧ o.roomVersion = i.roomVersion ∧
    (needsAuthoriser i = true → o.authorisedVia ∈ eligible i) ∧ (needsAuthoriser i = false → o.authorisedVia = []) := by
  unfold handleMakeJoin at h
  split at h
  · cases h
  split at h
  · cases h
  split at h
  · cases h
  split at h
  · cases h
  · rename_i v hv
    split at h
    · cases h
    · rename_i ht
      cases h
      obtain ⟨h1, h2⟩ := restrictedStage_ok hv
      refine ⟨?_, checkTemplate_ok ht, rfl, h1, h2⟩
      simp_all [makeJoinBasic]

/-- corollary: the input-only guard predicate of the specification stream holds -/
theorem makeJoin_ok_implies_spec (i : MakeJoinIn) (o : MakeJoinOut) (h : handleMakeJoin i = .ok o) :
    makeJoinGuards i = true := by
  obtain ⟨hb, ht, _, h1, h2⟩ := makeJoin_ok_implies_guards i o h
  unfold makeJoinGuards
  rw [hb]
  cases hn : needsAuthoriser i
  · simp [h2 hn] at ht
    simp [ht]
  · simp only [Bool.true_and, if_true]
    rw [List.any_eq_true]
    exact ⟨_, h1 hn, ht⟩

theorem creatorsFor_err {q : RestrictedQ} {p : Bool} {e : CRJErr} (h : creatorsFor q p = .error e) : e = .generic := by
  unfold creatorsFor at h
  split at h
  · split at h
    · cases h; rfl
    · cases h; rfl
    · cases h
  · cases h

theorem pickVia_err {q : RestrictedQ} {p : Bool} {pl : PL} {allow : List AllowRule} {e : CRJErr}
    (h : pickVia q p pl allow = .error e) :
    e = .generic ∨ e = .matrix "M_UNABLE_TO_AUTHORISE_JOIN" ∨ e = .matrix "M_FORBIDDEN" := by
  unfold pickVia at h
  split at h
  · rename_i e' he
    cases h
    exact Or.inl (creatorsFor_err he)
  · split at h
    · cases h
    · cases h; exact Or.inr (Or.inl rfl)
    · cases h; exact Or.inr (Or.inr rfl)

theorem checkRestrictedJoin_err {q : RestrictedQ} {p : Bool} {e : CRJErr} (h : checkRestrictedJoin q p = .error e) :
    e = .generic ∨ e = .matrix "M_UNABLE_TO_AUTHORISE_JOIN" ∨ e = .matrix "M_FORBIDDEN" := by
  unfold checkRestrictedJoin at h
  split at h
  · cases h; exact Or.inl rfl
  · cases h
  · cases h; exact Or.inl rfl
  · split at h
    · cases h
    split at h
    · cases h; exact Or.inl rfl
    · cases h
    · split at h
      · cases h; exact Or.inl rfl
      · cases h; exact Or.inl rfl
      · cases h; exact Or.inl rfl
      · exact pickVia_err h

/-- the error classes of the restricted-join stage: a Matrix error is "unable to authorise" (not resident
    in every room it had to consult) or "forbidden" (resident everywhere, joiner in none of the rooms or
    nobody entitled to invite); every other failure is an internal server error -/
theorem restrictedStage_err_class (i : MakeJoinIn) (e : HErr) (h : restrictedStage i = .error e) :
    e = eUnableToAuthorise ∨ e = eForbidden ∨ e = .internal := by
  unfold restrictedStage at h
  split at h
  · split at h
    · cases h
    · rename_i c hc
      cases h
      rcases checkRestrictedJoin_err hc with h1 | h1 | h1
      · cases h1
      · cases h1; exact Or.inl rfl
      · cases h1; exact Or.inr (Or.inl rfl)
    · cases h
      exact Or.inr (Or.inr rfl)
  · cases h

/-- Decision table of HandleMakeJoin: first failing guard, in the order of the code -/
theorem makeJoin_decision_table (i : MakeJoinIn) :
    handleMakeJoin i =
      if !i.remoteVersions.contains i.roomVersion then .error eIncompatible
      else if i.userDomain != i.requestOrigin then .error eForbidden
      else if !i.localServerInRoom then .error eNotFound
      else match restrictedStage i with
        | .error e => .error e
        | .ok v => match i.template v with
          | .err => .error .other
          | .nilEvent => .error .internal
          | .nilState => .error .internal
          | .built ty stateOK allowed =>
            firstFailing [(ty != b!"m.room.member", .internal), (!stateOK, eForbidden), (!allowed, eForbidden)]
              { authorisedVia := v, roomVersion := i.roomVersion } := by
  unfold handleMakeJoin
  split
  · rfl
  split
  · rfl
  split
  · rfl
  cases hr : restrictedStage i with
  | error e => rfl
  | ok v =>
    simp only
    unfold checkTemplate
    cases ht : i.template v with
    | err => rfl
    | nilEvent => rfl
    | nilState => rfl
    | built ty stateOK allowed =>
      by_cases h1 : ty = b!"m.room.member"
      · cases h2 : stateOK <;> cases h3 : allowed <;> simp [firstFailing, h1]
      · simp [firstFailing, h1]

/-! ## HandleMakeLeave

  HandleMakeLeaveInput carries no list of remote room versions: "the remote supports the room version"
  cannot be checked by this handler (stated for HandleMakeJoin only). -/

theorem makeLeave_ok_implies_guards (i : MakeLeaveIn) (v : Bytes) (h : handleMakeLeave i = .ok v) :
    makeLeaveGuards i = true ∧ v = i.roomVersion := by
  unfold handleMakeLeave at h
  split at h
  · cases h
  split at h
  · cases h
  split at h
  · cases h
  · rename_i ht
    cases h
    have := checkTemplate_ok ht
    simp_all [makeLeaveGuards]

theorem makeLeave_decision_table (i : MakeLeaveIn) :
    handleMakeLeave i =
      if i.userDomain != i.requestOrigin then .error eForbidden
      else if !i.localServerInRoom then .error eNotFound
      else match i.template with
        | .err => .error .other
        | .nilEvent => .error .internal
        | .nilState => .error .internal
        | .built ty stateOK allowed =>
          firstFailing [(ty != b!"m.room.member", .internal), (!stateOK, eForbidden), (!allowed, eForbidden)] i.roomVersion := by
  unfold handleMakeLeave
  split
  · rfl
  split
  · rfl
  unfold checkTemplate
  cases ht : i.template with
  | err => rfl
  | nilEvent => rfl
  | nilState => rfl
  | built ty stateOK allowed =>
    by_cases h1 : ty = b!"m.room.member"
    · cases h2 : stateOK <;> cases h3 : allowed <;> simp [firstFailing, h1]
    · simp [firstFailing, h1]

/-! ## HandleInvite

  HandleInviteInput carries neither an event ID nor a request origin: "event ID matches the request" and
  "sender belongs to the requesting server" are stated for HandleSendJoin only; for an invite the server
  whose signature is verified is the sender's.  "Not already joined" is asked of the membership querier
  only when the room is known to this server (in an unknown room nobody local is joined). -/

theorem inviteCommonChecks_ok {i : InviteIn} {sig : Signed} {o : InviteOut} (h : inviteCommonChecks i sig = .ok o) :
    o.sig = sig ∧ inviteStateLen i = .ok o.strippedLen ∧
    ¬ (i.knownRoom matches .ans true ∧ i.curMembership = some b!"join") ∧ (∃ k, i.knownRoom = .ans k) := by
  unfold inviteCommonChecks at h
  split at h
  · cases h
  · rename_i known hk
    split at h
    · cases h
    · rename_i n hn
      split at h
      · split at h
        · cases h
        · split at h
          · cases h
          · split at h
            · cases h
            · cases h
              simp_all
      · cases h
        simp_all

/-- HandleInvite accepts an event only if it is an invite (an m.room.member state event with membership
    "invite") whose room matches the request, whose sender's server has validly signed it, and whose
    target is not already joined. -/
theorem invite_ok_implies_guards (i : InviteIn) (o : InviteOut) (h : handleInvite i = .ok o) :
    inviteGuards i = true ∧ i.versionKnown = true ∧ i.stateKey ≠ none := by
  unfold handleInvite at h
  split at h
  · cases h
  split at h
  · cases h
  split at h
  · cases h
  split at h
  · cases h
  split at h
  · cases h
  · split at h
    · cases h
    · cases h
    · obtain ⟨_, _, hj, _⟩ := inviteCommonChecks_ok h
      refine ⟨?_, by simp_all, by simp_all⟩
      unfold inviteGuards
      cases hk : i.knownRoom with
      | err => simp_all
      | ans k => cases k <;> simp_all

/-- Whatever HandleInvite returns is the received event plus one signature slot: that of the invited
    user's (= local) server under the local key ID; only `unsigned.invite_room_state` is added, and it
    holds the stripped state given or, failing that, the one generated from the state querier. -/
theorem invite_signs_unmodified (i : InviteIn) (o : InviteOut) (h : handleInvite i = .ok o) :
    o.sig = { signer := i.invitedUserDomain, keyID := i.keyID } ∧ inviteStateLen i = .ok o.strippedLen := by
  unfold handleInvite at h
  split at h
  · cases h
  split at h
  · cases h
  split at h
  · cases h
  split at h
  · cases h
  split at h
  · cases h
  · split at h
    · cases h
    · cases h
    · obtain ⟨hs, hn, _, _⟩ := inviteCommonChecks_ok h
      exact ⟨hs, hn⟩

/-- the error class of each guard of HandleInvite before the common checks, in the order of the code -/
theorem invite_decision_table (i : InviteIn) :
    handleInvite i =
      match (([(!i.versionKnown, eUnsupported), (i.eventRoomID != i.roomID, eBadJSON),
               (i.eventType != b!"m.room.member" || i.stateKey.isNone, eBadJSON),
               (i.membership != some b!"invite", eBadJSON), (i.senderDomain.isNone, eBadJSON),
               (i.verify == .callErr, .internal), (i.verify == .bad, eForbidden)] : List (Bool × HErr)).find? (·.1)) with
      | some (_, e) => .error e
      | none => inviteCommonChecks i { signer := i.invitedUserDomain, keyID := i.keyID } := by
  unfold handleInvite
  cases h1 : (!i.versionKnown)
  case true => simp
  cases h2 : (i.eventRoomID != i.roomID)
  case true => simp
  cases h3 : (i.eventType != b!"m.room.member" || i.stateKey.isNone)
  case true => simp
  cases h4 : (i.membership != some b!"invite")
  case true => simp
  cases hd : i.senderDomain with
  | none => simp
  | some d => cases hv : i.verify <;> simp

/-- the common checks: error classes in the order of the code -/
theorem inviteCommonChecks_table (i : InviteIn) (sig : Signed) :
    inviteCommonChecks i sig =
      match i.knownRoom with
      | .err => .error .internal
      | .ans known =>
        match inviteStateLen i with
        | .error e => .error e
        | .ok n =>
          firstFailing [(known && n == 0, .internal), (known && i.curMembership.isNone, .internal),
                        (known && i.curMembership == some b!"join", eForbidden)] { sig := sig, strippedLen := n } := by
  unfold inviteCommonChecks
  cases hk : i.knownRoom with
  | err => rfl
  | ans known =>
    cases hn : inviteStateLen i with
    | error e => rfl
    | ok n =>
      cases known
      · simp [firstFailing]
      · cases h0 : (n == 0)
        · cases hc : i.curMembership with
          | none => simp [firstFailing, h0]
          | some cur => cases hj : (cur == b!"join") <;> simp_all [firstFailing]
        · simp [firstFailing, h0]

def inviteWitness : InviteIn := {
  versionKnown := true, eventRoomID := b!"!room:hs2", roomID := b!"!room:hs2", senderDomain := some b!"hs2",
  verify := .good, invitedUserDomain := b!"hs1", keyID := b!"ed25519:k1", knownRoom := .ans true, strippedGiven := 0,
  stateQuery := .ans 2, curMembership := some b!"leave", eventType := b!"m.room.member",
  stateKey := some b!"@alice:hs1", membership := some b!"invite" }

example : handleInvite inviteWitness = .ok { sig := ⟨b!"hs1", b!"ed25519:k1"⟩, strippedLen := 2 } := by rfl
example : handleInvite { inviteWitness with membership := some b!"leave" } = .error eBadJSON := by rfl
example : handleInvite { inviteWitness with curMembership := some b!"join" } = .error eForbidden := by rfl

/-! ## HandleMakeJoin: non-vacuity -/

def infoWitness : RoomInfo :=
  { localServerInRoom := true, userJoinedToRoom := true,
    joinedUsers := [⟨b!"m.room.member", some b!"@dave:hs1"⟩, ⟨b!"m.room.member", some b!"@alice:hs1"⟩] }

def jrWitness : JoinRules := { rule := b!"restricted", allow := [⟨b!"m.room_membership", b!"!a:hs1"⟩] }

def plWitness : PL := { userLevel := fun u => if u == b!"@alice:hs1" then 50 else 0, invite := 50 }

def restrictedQWitness (info : QAns (Option RoomInfo)) : RestrictedQ :=
  { joinRules := .ans (some (some jrWitness)), invitePending := .ans false, powerLevels := .ans (some (some plWitness)),
    create := .ans (some [b!"@creator:hs1"]), roomIDValid := fun _ => true, roomInfo := fun _ => info }

def makeJoinWitness (info : QAns (Option RoomInfo)) : MakeJoinIn :=
  { roomVersion := b!"10", remoteVersions := [b!"9", b!"10"], userDomain := b!"hs5", requestOrigin := b!"hs5",
    localServerInRoom := true, restrictedVersion := true, privilegedCreators := false, q := restrictedQWitness info,
    template := fun via => .built b!"m.room.member" true (via == b!"@alice:hs1") }

def isOkVia (r : R MakeJoinOut) (via : Bytes) : Bool :=
  match r with
  | .ok o => o.authorisedVia == via
  | .error _ => false

def isErr (r : R MakeJoinOut) (e : HErr) : Bool :=
  match r with
  | .ok _ => false
  | .error e' => e' == e

/-- dave (level 0 < invite 50) is skipped, alice (level 50) authorises -/
example : isOkVia (handleMakeJoin (makeJoinWitness (.ans (some infoWitness)))) b!"@alice:hs1" = true := by decide
example : makeJoinGuards (makeJoinWitness (.ans (some infoWitness))) = true := by decide
/-- not resident in the allowed room: the joiner is told to try another server -/
example : isErr (handleMakeJoin (makeJoinWitness (.ans none))) eUnableToAuthorise = true := by decide
/-- resident, but the joiner is not in the allowed room -/
example : isErr (handleMakeJoin (makeJoinWitness (.ans (some { infoWitness with userJoinedToRoom := false })))) eForbidden = true := by
  decide

/-! ## PerformJoin (requesting side) -/

theorem checkCreate_true {kv : Bytes → Bool} {c : CreateFound} (h : checkCreate kv c = true) :
    ∃ v, c = .version v ∧ kv (if v.isEmpty then b!"1" else v) = true := by
  unfold checkCreate at h
  split at h
  · cases h
  · cases h
  · exact ⟨_, rfl, h⟩

/-- PerformJoin returns a join only if make_join and send_join succeeded for a known room version, the
    auth events of the response contain a create event of a known room version, and the response passed
    CheckSendJoinResponse (C14) for the join event actually used (the remote's copy when it is a
    well-formed join of the same user and room, else the one built locally); what it returns are exactly
    the lists CheckSendJoinResponse returned. -/
theorem performJoin_ok_implies {P} (i : PerformJoinIn P) (o : PerformJoinOut) (h : performJoin i = .ok (some o)) :
    i.makeJoinOK = true ∧ i.versionKnown = true ∧ i.buildOK = true ∧ i.sendJoinOK = true ∧
    (∃ v, i.create = .version v ∧ i.knownVersion (if v.isEmpty then b!"1" else v) = true) ∧
    o.joinEvent = joinEventUsed i ∧
    (FedCheck.checkSendJoin i.O i.prov i.fuel (FedCheck.untrusted i.auth) (FedCheck.untrusted i.state) (joinEventUsed i) []).1
      = .ok o.auth o.state := by
  unfold performJoin at h
  split at h
  · cases h
  split at h
  · cases h
  split at h
  · cases h
  split at h
  · cases h
  split at h
  · cases h
  · rename_i h1 h2 h3 h4 h5
    split at h
    · rename_i a s lg hc
      cases h
      refine ⟨by simpa using h1, by simpa using h2, by simpa using h3, by simpa using h4, checkCreate_true (by simpa using h5), rfl, ?_⟩
      rw [hc]
    · cases h
    · cases h

/-! ## HandleInviteV3

  The pseudo-ID variant receives a PROTO event and no signature: nothing is verified and nothing says
  the proto event is an invite — what it returns is an event it BUILT itself from the proto event with the
  invited user's sender ID as state key, signed with that user's room key (not with the server key).
  Guards it does enforce: known room version, room ID of the proto event = request, and the common checks
  (target not already joined in a known room).  C15's statement speaks of HandleInvite; the decision
  table of the V3 variant is recorded for completeness. -/

theorem inviteV3_ok_implies (i : InviteV3In) (o : InviteOut) (h : handleInviteV3 i = .ok o) :
    i.common.versionKnown = true ∧ i.protoRoomID = i.common.roomID ∧ i.buildOK = true ∧
    (∃ sid, i.invitedSenderID = some sid ∧ o.sig = { signer := sid, keyID := b!"ed25519:1" }) ∧
    ¬ (i.common.knownRoom matches .ans true ∧ i.common.curMembership = some b!"join") := by
  unfold handleInviteV3 at h
  split at h
  · cases h
  split at h
  · cases h
  split at h
  · cases h
  · rename_i sid hsid
    split at h
    · cases h
    · obtain ⟨hs, _, hj, _⟩ := inviteCommonChecks_ok h
      exact ⟨by simp_all, by simp_all, by simp_all, ⟨sid, hsid, hs⟩, hj⟩

theorem inviteV3_decision_table (i : InviteV3In) :
    handleInviteV3 i =
      match (([(!i.common.versionKnown, eUnsupported), (i.protoRoomID != i.common.roomID, eBadJSON),
               (i.invitedSenderID.isNone, .internal), (!i.buildOK, .internal)] : List (Bool × HErr)).find? (·.1)) with
      | some (_, e) => .error e
      | none => inviteCommonChecks i.common { signer := i.invitedSenderID.getD [], keyID := b!"ed25519:1" } := by
  unfold handleInviteV3
  cases h1 : (!i.common.versionKnown)
  case true => simp
  cases h2 : (i.protoRoomID != i.common.roomID)
  case true => simp
  cases hs : i.invitedSenderID with
  | none => simp
  | some sid => cases hb : (!i.buildOK) <;> simp

end V.C15
