/-
  C06 ∘ C12 — `VerifyEventSignatures` with the real `KeyRing` as its `JSONVerifier`.

  `VProps/C06.lean` proves the verdict for an arbitrary verifier `valid : Request → Bool`; `VProps/C12.lean` proves
  what a success / failure of the key ring means.  Here the two are composed: the requests the model of
  `VerifyEventSignatures` builds (one per required server, at the event's origin_server_ts, with the version's
  validity rule, the message being the redacted event) are handed to the model of `KeyRing.VerifyJSONs`, and the
  verdict is read off its results by index — as eventcrypto.go does.
-/
import VProps.C06
import VProps.C12
namespace V.C06Ring
open V V.Json V.GoJson

/-- The key-ring request built for required server `s`.  `msg s` = what the key ring sees of the redacted event for
    that server: whether `ListKeyIDs` succeeds and the entries of `signatures[s]`. -/
def ringRequest (msg : Bytes → Bool × List KeyRing.SigInfo) (ts : Nat) (strict : Bool) (s : Bytes) : KeyRing.Request :=
  { server := s, atTS := ts, strict := strict, listOk := (msg s).1, sigs := (msg s).2 }

/-- the batch handed to the key ring: one request per required server, in order -/
def ringBatch (row : VGen.VersionRow) (e : Event) (msg : Bytes → Bool × List KeyRing.SigInfo) (l : List Bytes) : List KeyRing.Request :=
  l.map (ringRequest msg e.originServerTS (Signers.strictValidity row))

/-- **Soundness end to end.**  If the event verifies, the verdict being read off the key ring's results, then EVERY
    required server has an ed25519 signature on the redacted event that verifies under a public key obtained for that
    (server, key ID) from the key database or a fetcher, and that key was valid at the event's origin_server_ts under
    the room version's validity rule. -/
theorem verify_with_keyring_sound (row : VGen.VersionRow) (e : Event) (sd : Except Err (Option Bytes))
    (l : List Bytes) (hl : Signers.requiredSigners row e sd = .ok l)
    (msg : Bytes → Bool × List KeyRing.SigInfo)
    (db : KeyRing.FetchScript) (storeOk : Bool) (fetchers : List KeyRing.FetchScript) (now : Nat)
    (rsB : List Bool) (tr : KeyRing.Trace)
    (hrun : KeyRing.verifyJSONs (ringBatch row e msg l) db storeOk fetchers now = (.ok rsB, tr))
    (valid : Signers.Request → Bool)
    (hvalid : ∀ (i : Nat) (s : Bytes), l[i]? = some s → valid ⟨s, e.originServerTS, Signers.strictValidity row⟩ = true → rsB[i]? = some true)
    (hok : Signers.verifyEventSignatures row e sd valid false = .ok ()) :
    ∀ s ∈ l, (msg s).1 = true ∧ ∃ sig ∈ (msg s).2, KeyRing.isAlgorithmSupported sig.keyID = true ∧ ∃ k : KeyRing.KeyRes,
      ((∃ fromDB, db = some fromDB ∧ (⟨s, sig.keyID⟩, k) ∈ fromDB) ∨ (∃ m, some m ∈ fetchers ∧ (⟨s, sig.keyID⟩, k) ∈ m)) ∧
      KeyRing.wasValidAt k e.originServerTS (Signers.strictValidity row) now = true ∧
      sig.reaches = true ∧ k.key.length = KeyRing.publicKeySize ∧ sig.verifies k.key = true := by
  obtain ⟨l', hl', hall⟩ := (V.C06.verify_iff row e sd valid).mp hok
  rw [hl] at hl'; cases hl'
  intro s hs
  obtain ⟨i, hi⟩ := List.mem_iff_getElem?.mp hs
  have hres := hvalid (i := i) (s := s) hi (hall s hs)
  obtain ⟨r, hr, hlo, sig, hsig, halg, k, hsrc, hv, hre, hlen, hver⟩ := V.C12.success_sound hrun i hres
  have hreq : r = ringRequest msg e.originServerTS (Signers.strictValidity row) s := by
    unfold ringBatch at hr
    rw [List.getElem?_map, hi] at hr
    simpa using hr.symm
  subst hreq
  exact ⟨hlo, sig, hsig, halg, k, hsrc, hv, hre, hlen, hver⟩

/-- **Soundness end to end, in the property's own words, at EVERY origin_server_ts.**  The validity fact of
    `verify_with_keyring_sound` is the property's clause (`KeyRing.Spec.validAt`: before expired_ts for an expired key,
    otherwise — strict room versions — at or before valid_until_ts capped at seven days from now), over unbounded
    naturals: in particular, under a strict room version no event whose origin_server_ts lies after the key's
    valid_until_ts or after now + 7 days verifies with an unexpired key — timestamps of 2^63 ms and beyond included
    (`StrictValiditySignatureCheck` used to convert through int64 and accepted those against any key). -/
theorem verify_with_keyring_sound_validAt (row : VGen.VersionRow) (e : Event) (sd : Except Err (Option Bytes))
    (l : List Bytes) (hl : Signers.requiredSigners row e sd = .ok l)
    (msg : Bytes → Bool × List KeyRing.SigInfo)
    (db : KeyRing.FetchScript) (storeOk : Bool) (fetchers : List KeyRing.FetchScript) (now : Nat)
    (rsB : List Bool) (tr : KeyRing.Trace)
    (hrun : KeyRing.verifyJSONs (ringBatch row e msg l) db storeOk fetchers now = (.ok rsB, tr))
    (valid : Signers.Request → Bool)
    (hvalid : ∀ (i : Nat) (s : Bytes), l[i]? = some s → valid ⟨s, e.originServerTS, Signers.strictValidity row⟩ = true → rsB[i]? = some true)
    (hok : Signers.verifyEventSignatures row e sd valid false = .ok ()) :
    ∀ s ∈ l, ∃ sig ∈ (msg s).2, ∃ k : KeyRing.KeyRes,
      ((∃ fromDB, db = some fromDB ∧ (⟨s, sig.keyID⟩, k) ∈ fromDB) ∨ (∃ m, some m ∈ fetchers ∧ (⟨s, sig.keyID⟩, k) ∈ m)) ∧
      sig.verifies k.key = true ∧
      KeyRing.Spec.validAt k e.originServerTS (Signers.strictValidity row) now = true ∧
      (k.expiredTS ≠ 0 → e.originServerTS < k.expiredTS) ∧
      (k.expiredTS = 0 → Signers.strictValidity row = true →
        e.originServerTS ≤ k.validUntilTS ∧ e.originServerTS ≤ now + KeyRing.sevenDaysMs) := by
  intro s hs
  obtain ⟨_, sig, hsig, _, k, hsrc, hv, _, _, hver⟩ :=
    verify_with_keyring_sound row e sd l hl msg db storeOk fetchers now rsB tr hrun valid hvalid hok s hs
  refine ⟨sig, hsig, k, hsrc, hver, ?_, ?_, ?_⟩
  · rw [KeyRing.spec_validAt_eq]; exact hv
  · intro hne
    have := (V.C12.wasValidAt_spec k e.originServerTS (Signers.strictValidity row) now).1 hv
    simpa [hne] using this
  · intro he hst
    rw [hst] at hv
    have := V.C12.strict_within_validity k e.originServerTS now he hv
    exact ⟨this.2.1, this.2.2⟩

/-- **Failure end to end.**  If for some required server the key ring's result is not a success, the event does not
    verify — whatever the other servers' results are. -/
theorem verify_with_keyring_one_bad (row : VGen.VersionRow) (e : Event) (sd : Except Err (Option Bytes))
    (l : List Bytes) (hl : Signers.requiredSigners row e sd = .ok l)
    (valid : Signers.Request → Bool) (s : Bytes) (hs : s ∈ l)
    (hbad : valid ⟨s, e.originServerTS, Signers.strictValidity row⟩ = false) :
    Signers.verifyEventSignatures row e sd valid false ≠ .ok () := by
  intro hok
  obtain ⟨l', hl', hall⟩ := (V.C06.verify_iff row e sd valid).mp hok
  rw [hl] at hl'; cases hl'
  have := hall s hs
  rw [hbad] at this
  cases this

/-- **Completeness end to end.**  If for every required server the specification of the key ring demands success
    (`Spec.mustSucceed`: the database or the first fetcher able to answer supplies a good key for one of the server's
    ed25519 signatures) then the event verifies. -/
theorem verify_with_keyring_complete (row : VGen.VersionRow) (e : Event) (sd : Except Err (Option Bytes))
    (l : List Bytes) (hl : Signers.requiredSigners row e sd = .ok l)
    (msg : Bytes → Bool × List KeyRing.SigInfo)
    (fromDB : KeyRing.KeyMap) (hn : (fromDB.map Prod.fst).Nodup)
    (storeOk : Bool) (fetchers : List KeyRing.FetchScript) (now : Nat)
    (rsB : List Bool) (tr : KeyRing.Trace)
    (hrun : KeyRing.verifyJSONs (ringBatch row e msg l) (some fromDB) storeOk fetchers now = (.ok rsB, tr))
    (valid : Signers.Request → Bool)
    (hvalid : ∀ (i : Nat) (s : Bytes), l[i]? = some s → rsB[i]? = some true → valid ⟨s, e.originServerTS, Signers.strictValidity row⟩ = true)
    (hmust : ∀ s ∈ l, KeyRing.Spec.mustSucceed (ringRequest msg e.originServerTS (Signers.strictValidity row) s) fromDB fetchers now = true) :
    Signers.verifyEventSignatures row e sd valid false = .ok () := by
  rw [V.C06.verify_iff]
  refine ⟨l, hl, fun s hs => ?_⟩
  obtain ⟨i, hi⟩ := List.mem_iff_getElem?.mp hs
  apply hvalid (i := i) (s := s) hi
  apply V.C12.success_complete hrun fromDB rfl hn i (ringRequest msg e.originServerTS (Signers.strictValidity row) s)
  · unfold ringBatch; rw [List.getElem?_map, hi]; rfl
  · exact hmust s hs

/-- **The bulk entry point with the real key ring.**  `VerifyAllEventSignatures` hands the key ring one batch per event; if
    the verdict at position `i` is success — the verdicts being read off the key ring's results for THAT event's batch —
    then every server required for that event has an ed25519 signature on it verifying under a fetched key that was valid
    at its origin_server_ts: nothing is carried over from the batches of the other events. -/
theorem verify_all_with_keyring_sound (row : VGen.VersionRow) (es : List Event) (sd : Event → Except Err (Option Bytes))
    (valid : Event → Signers.Request → Bool) (i : Nat) (h : i < es.length)
    (hok : (Signers.verifyAllEventSignatures row es sd valid (fun _ => false))[i]? = some (.ok ()))
    (l : List Bytes) (hl : Signers.requiredSigners row es[i] (sd es[i]) = .ok l)
    (msg : Bytes → Bool × List KeyRing.SigInfo)
    (db : KeyRing.FetchScript) (storeOk : Bool) (fetchers : List KeyRing.FetchScript) (now : Nat)
    (rsB : List Bool) (tr : KeyRing.Trace)
    (hrun : KeyRing.verifyJSONs (ringBatch row es[i] msg l) db storeOk fetchers now = (.ok rsB, tr))
    (hvalid : ∀ (j : Nat) (s : Bytes), l[j]? = some s →
      valid es[i] ⟨s, es[i].originServerTS, Signers.strictValidity row⟩ = true → rsB[j]? = some true) :
    ∀ s ∈ l, (msg s).1 = true ∧ ∃ sig ∈ (msg s).2, KeyRing.isAlgorithmSupported sig.keyID = true ∧ ∃ k : KeyRing.KeyRes,
      ((∃ fromDB, db = some fromDB ∧ (⟨s, sig.keyID⟩, k) ∈ fromDB) ∨ (∃ m, some m ∈ fetchers ∧ (⟨s, sig.keyID⟩, k) ∈ m)) ∧
      KeyRing.wasValidAt k es[i].originServerTS (Signers.strictValidity row) now = true ∧
      sig.reaches = true ∧ k.key.length = KeyRing.publicKeySize ∧ sig.verifies k.key = true := by
  have hok' : Signers.verifyEventSignatures row es[i] (sd es[i]) (valid es[i]) false = .ok () := by
    simpa [Signers.verifyAllEventSignatures, List.getElem?_map, List.getElem?_eq_getElem h] using hok
  exact verify_with_keyring_sound row es[i] (sd es[i]) l hl msg db storeOk fetchers now rsB tr hrun (valid es[i]) hvalid hok'

end V.C06Ring
