/-
  Translated-function obligations for stateresolutionv2heaps.go: the two comparators the power ordering and the
  mainline ordering are sorted with.  `VGen.TransStateRes.*` is printed from the CURRENT Go source by tools/extract/trans.go;
  the theorems say that, for all arguments, the translated comparators are the model's `powerLt` / `otherLt`
  (VModel/StateRes.lean), whose strict-total-order and permutation-invariance theorems are C11's.
-/
import VGen.TransStateRes
import VModel.StateRes
import VProofs.StateResSort
namespace V.Trans.StateRes
open V V.Json V.StateRes GoSem

theorem compareBytes_neg_iff (x y : List UInt8) : (compareBytes x y < 0) ↔ bytesLt x y = true := by
  induction x generalizing y with
  | nil => cases y <;> simp [compareBytes, bytesLt]
  | cons a as ih =>
    cases y with
    | nil => simp [compareBytes, bytesLt]
    | cons b bs =>
      simp only [compareBytes, bytesLt]
      by_cases h1 : a < b
      · simp [h1]
      · by_cases h2 : b < a
        · simp [h1, h2]
        · simp [h1, h2, ih]

theorem compareBytes_zero_iff (x y : List UInt8) : (compareBytes x y = 0) ↔ x = y := by
  induction x generalizing y with
  | nil => cases y <;> simp [compareBytes]
  | cons a as ih =>
    cases y with
    | nil => simp [compareBytes]
    | cons b bs =>
      simp only [compareBytes]
      by_cases h1 : a < b
      · have : a ≠ b := fun h => by subst h; exact absurd h1 (UInt8.lt_irrefl _)
        simp [h1, this]
      · by_cases h2 : b < a
        · have : a ≠ b := fun h => by subst h; exact absurd h2 (UInt8.lt_irrefl _)
          simp [h1, h2, this]
        · have : a = b := UInt8.le_antisymm (UInt8.not_lt.mp h2) (UInt8.not_lt.mp h1)
          simp [h1, h2, ih, this]

theorem compareBytes_range (x y : List UInt8) : compareBytes x y = -1 ∨ compareBytes x y = 0 ∨ compareBytes x y = 1 := by
  induction x generalizing y with
  | nil => cases y <;> simp [compareBytes]
  | cons a as ih =>
    cases y with
    | nil => simp [compareBytes]
    | cons b bs =>
      simp only [compareBytes]
      split
      · simp
      · split
        · simp
        · exact ih bs

/-- the sort key of the model that a Go heap entry denotes (`origin_server_ts` is unsigned in Go) -/
def powerKey (a : VGen.TransStateRes.stateResV2ConflictedPowerLevel) : PowerKey :=
  { power := a.powerLevel, ts := a.originServerTS.toNat, id := a.eventID }

def otherKey (a : VGen.TransStateRes.stateResV2ConflictedOther) : OtherKey :=
  { pos := a.mainlinePosition.toNat, steps := a.mainlineSteps.toNat, ts := a.originServerTS.toNat, id := a.eventID }

/-- **power ordering comparator**: for all heap entries (timestamps non-negative, as a `uint64` is), the Go comparator
    translated from the current source says "a before b" exactly when the model's `powerLt` does. -/
theorem powerLevelHeap_lt_eq_model (a b : VGen.TransStateRes.stateResV2ConflictedPowerLevel)
    (ha : 0 ≤ a.originServerTS) (hb : 0 ≤ b.originServerTS) :
    decide (VGen.TransStateRes.sortStateResV2ConflictedPowerLevelHeap a b < 0) = powerLt (powerKey a) (powerKey b) := by
  unfold VGen.TransStateRes.sortStateResV2ConflictedPowerLevelHeap powerLt powerKey
  simp only [decide_eq_true_eq, gt_iff_lt]
  by_cases h1 : b.powerLevel < a.powerLevel
  · simp [h1]
  · by_cases h2 : a.powerLevel < b.powerLevel
    · simp [h1, h2]
    · have e1 : a.originServerTS.toNat < b.originServerTS.toNat ↔ a.originServerTS < b.originServerTS := by omega
      have e2 : b.originServerTS.toNat < a.originServerTS.toNat ↔ b.originServerTS < a.originServerTS := by omega
      by_cases h3 : a.originServerTS < b.originServerTS
      · simp [h1, h2, h3, e1]
      · by_cases h4 : b.originServerTS < a.originServerTS
        · simp [h1, h2, h3, h4, e1, e2]
        · simp only [h1, h2, h3, h4, e1, e2, if_false]
          cases hb : bytesLt a.eventID b.eventID
          · simp [← compareBytes_neg_iff, Bool.eq_false_iff] at hb ⊢; simpa using hb
          · simpa [compareBytes_neg_iff] using hb

/-- the comparator answers 0 only for entries with the same key (so sorting with it is deterministic) -/
theorem powerLevelHeap_zero_iff (a b : VGen.TransStateRes.stateResV2ConflictedPowerLevel) :
    VGen.TransStateRes.sortStateResV2ConflictedPowerLevelHeap a b = 0 ↔
      a.powerLevel = b.powerLevel ∧ a.originServerTS = b.originServerTS ∧ a.eventID = b.eventID := by
  unfold VGen.TransStateRes.sortStateResV2ConflictedPowerLevelHeap
  simp only [decide_eq_true_eq, gt_iff_lt]
  by_cases h1 : b.powerLevel < a.powerLevel
  · simp [h1]; omega
  · by_cases h2 : a.powerLevel < b.powerLevel
    · simp [h1, h2]; omega
    · by_cases h3 : a.originServerTS < b.originServerTS
      · simp [h1, h2, h3]; omega
      · by_cases h4 : b.originServerTS < a.originServerTS
        · simp [h1, h2, h3, h4]; omega
        · simp only [h1, h2, h3, h4, if_false, compareBytes_zero_iff]
          constructor
          · intro h; exact ⟨by omega, by omega, h⟩
          · intro h; exact h.2.2

/-- **mainline ordering comparator** -/
theorem otherHeap_lt_eq_model (a b : VGen.TransStateRes.stateResV2ConflictedOther)
    (ha : 0 ≤ a.originServerTS) (hb : 0 ≤ b.originServerTS)
    (hap : 0 ≤ a.mainlinePosition) (hbp : 0 ≤ b.mainlinePosition)
    (has : 0 ≤ a.mainlineSteps) (hbs : 0 ≤ b.mainlineSteps) :
    decide (VGen.TransStateRes.sortStateResV2ConflictedOtherHeap a b < 0) = otherLt (otherKey a) (otherKey b) := by
  unfold VGen.TransStateRes.sortStateResV2ConflictedOtherHeap otherLt otherKey
  simp only [decide_eq_true_eq, gt_iff_lt]
  have p1 : a.mainlinePosition.toNat < b.mainlinePosition.toNat ↔ a.mainlinePosition < b.mainlinePosition := by omega
  have p2 : b.mainlinePosition.toNat < a.mainlinePosition.toNat ↔ b.mainlinePosition < a.mainlinePosition := by omega
  have s1 : a.mainlineSteps.toNat < b.mainlineSteps.toNat ↔ a.mainlineSteps < b.mainlineSteps := by omega
  have s2 : b.mainlineSteps.toNat < a.mainlineSteps.toNat ↔ b.mainlineSteps < a.mainlineSteps := by omega
  have e1 : a.originServerTS.toNat < b.originServerTS.toNat ↔ a.originServerTS < b.originServerTS := by omega
  have e2 : b.originServerTS.toNat < a.originServerTS.toNat ↔ b.originServerTS < a.originServerTS := by omega
  by_cases h1 : a.mainlinePosition < b.mainlinePosition
  · simp [h1, p1]
  · by_cases h2 : b.mainlinePosition < a.mainlinePosition
    · simp [h1, h2, p1, p2]
    · by_cases h3 : a.mainlineSteps < b.mainlineSteps
      · simp [h1, h2, h3, p1, p2, s1]
      · by_cases h4 : b.mainlineSteps < a.mainlineSteps
        · simp [h1, h2, h3, h4, p1, p2, s1, s2]
        · by_cases h5 : a.originServerTS < b.originServerTS
          · simp [h1, h2, h3, h4, h5, p1, p2, s1, s2, e1]
          · by_cases h6 : b.originServerTS < a.originServerTS
            · simp [h1, h2, h3, h4, h5, h6, p1, p2, s1, s2, e1, e2]
            · simp only [h1, h2, h3, h4, h5, h6, p1, p2, s1, s2, e1, e2, if_false]
              cases hb : bytesLt a.eventID b.eventID
              · simp [← compareBytes_neg_iff, Bool.eq_false_iff] at hb ⊢; simpa using hb
              · simpa [compareBytes_neg_iff] using hb

/-- **The Go comparator is a strict total order** (what a subtraction-based rewrite loses: seeded change C11-r8m2).
    Stated on the function translated from the current source, for heap entries with unsigned timestamps:
    transitive, asymmetric, and two entries neither of which comes first have the same sort key. -/
theorem powerLevelHeap_strict_total
    (a b c : VGen.TransStateRes.stateResV2ConflictedPowerLevel)
    (ha : 0 ≤ a.originServerTS) (hb : 0 ≤ b.originServerTS) (hc : 0 ≤ c.originServerTS) :
    (VGen.TransStateRes.sortStateResV2ConflictedPowerLevelHeap a b < 0 →
        VGen.TransStateRes.sortStateResV2ConflictedPowerLevelHeap b c < 0 →
        VGen.TransStateRes.sortStateResV2ConflictedPowerLevelHeap a c < 0) ∧
    (VGen.TransStateRes.sortStateResV2ConflictedPowerLevelHeap a b < 0 →
        ¬ VGen.TransStateRes.sortStateResV2ConflictedPowerLevelHeap b a < 0) ∧
    (¬ VGen.TransStateRes.sortStateResV2ConflictedPowerLevelHeap a b < 0 →
        ¬ VGen.TransStateRes.sortStateResV2ConflictedPowerLevelHeap b a < 0 → powerKey a = powerKey b) := by
  have hst := V.StateRes.powerLt_strictTotal
  have eab := powerLevelHeap_lt_eq_model a b ha hb
  have eba := powerLevelHeap_lt_eq_model b a hb ha
  have ebc := powerLevelHeap_lt_eq_model b c hb hc
  have eac := powerLevelHeap_lt_eq_model a c ha hc
  refine ⟨?_, ?_, ?_⟩
  · intro h1 h2
    have l1 : powerLt (powerKey a) (powerKey b) = true := by rw [← eab]; simpa using h1
    have l2 : powerLt (powerKey b) (powerKey c) = true := by rw [← ebc]; simpa using h2
    have l3 := hst.trans _ _ _ l1 l2
    rw [← eac] at l3; simpa using l3
  · intro h1 h2
    have l1 : powerLt (powerKey a) (powerKey b) = true := by rw [← eab]; simpa using h1
    have l2 : powerLt (powerKey b) (powerKey a) = true := by rw [← eba]; simpa using h2
    have := hst.asymm _ _ l1
    rw [l2] at this; cases this
  · intro h1 h2
    have l1 : powerLt (powerKey a) (powerKey b) = false := by rw [← eab]; simpa using h1
    have l2 : powerLt (powerKey b) (powerKey a) = false := by rw [← eba]; simpa using h2
    exact hst.total _ _ l1 l2

theorem compareBytes_pos_iff (x y : List UInt8) : (compareBytes x y > 0) ↔ bytesLt y x = true := by
  induction x generalizing y with
  | nil => cases y <;> simp [compareBytes, bytesLt]
  | cons a as ih =>
    cases y with
    | nil => simp [compareBytes, bytesLt]
    | cons b bs =>
      simp only [compareBytes, bytesLt]
      by_cases h1 : a < b
      · have h2 : ¬ b < a := fun h => absurd (UInt8.lt_trans h1 h) (UInt8.lt_irrefl _)
        simp [h1, h2]
      · by_cases h2 : b < a
        · simp [h1, h2]
        · simp [h1, h2, ih]

/-- **version-1 tie-break** (`conflictedEventSorter.Less`, translated as a function of the two elements it reads):
    lower depth first, and at equal depth the event whose SHA-1 is *greater* first — the model's `v1Lt`. -/
theorem v1Less_eq_model (a b : VGen.TransStateRes.conflictedEvent) :
    VGen.TransStateRes.Less a b = v1Lt ⟨a.depth, a.eventIDSHA1⟩ ⟨b.depth, b.eventIDSHA1⟩ := by
  unfold VGen.TransStateRes.Less v1Lt
  by_cases h : a.depth = b.depth
  · simp only [h, beq_self_eq_true, if_true]
    cases hb : bytesLt b.eventIDSHA1 a.eventIDSHA1
    · have h2 : ¬ (compareBytes a.eventIDSHA1 b.eventIDSHA1 > 0) := by
        rw [compareBytes_pos_iff, hb]; simp
      simpa using h2
    · simpa [compareBytes_pos_iff] using hb
  · have : (a.depth == b.depth) = false := by simpa using h
    simp [this]

/-- non-vacuity: concrete entries meeting the hypotheses, ordered by the event-ID tie-break -/
example : decide (VGen.TransStateRes.sortStateResV2ConflictedPowerLevelHeap
    ⟨[0x24, 0x61], 5, 100⟩ ⟨[0x24, 0x62], 5, 100⟩ < 0) = true := by decide

end V.Trans.StateRes
