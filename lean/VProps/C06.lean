/-
  C06 — An event verifies only if every protocol-required server validly signed it.

  Model: VModel.Signers (`requiredSigners`, `requests`, `verifyEventSignatures`, mirroring
  VerifyEventSignatures in eventcrypto.go); specification: `Signers.Spec.required`, written from the
  property text.  The signature verifier (the key ring, C12; the cryptography, C02) is an oracle
  `valid : Request → Bool`; "missing, corrupted, wrong-key or out-of-validity" all enter as `valid r = false`.

  The pseudo-ID room version org.matrix.msc4014 (the sender ID is itself a public key, events are
  self-verified, a join's `mxid_mapping` is verified through the caller's verifier) has its own model
  `verifyPseudo` and its own theorems at the end of the file; `requiredSigners` is the `needed` map of all
  other versions.
-/
import VModel.Signers
namespace V.C06
open V V.Json V.GoJson V.Signers

/-! ### Regenerated obligation: the per-version columns say what the specification says -/

/-- The three columns VerifyEventSignatures reads, against the specification's version predicates. -/
def ColsOk (row : VGen.VersionRow) : Prop :=
  (row.eventIDFormat == 1) = Spec.idNamesServer row.key ∧
  (row.restrictedJoinServernameFunc == "extractAuthorisedViaServerName") = Spec.supportsRestrictedJoins row.key ∧
  (row.restrictedJoinServernameFunc == "extractAuthorisedViaServerName" ∨
    row.restrictedJoinServernameFunc == "emptyAuthorisedViaServerName") ∧
  strictValidity row = Spec.strictFrom5 row.key

instance (row : VGen.VersionRow) : Decidable (ColsOk row) := by unfold ColsOk; exact inferInstance

/-- Event IDs name a server exactly in room versions 1 and 2; the authorising server of a restricted join
    is extracted exactly in 8, 9, 10, 11, 12, hydra, msc3787, msc4014; the strict key-validity rule applies
    exactly from version 5 on.  Checked against the table regenerated from eventversion.go on every run. -/
theorem columns_eq_spec : ∀ row ∈ VGen.roomVersions, ColsOk row := by decide

/-! ### Identifier splitting -/

theorem cutAt_cons_ne {sep c : UInt8} (h : (c == sep) = false) (rest : Bytes) :
    (cutAt sep (c :: rest)).map (·.2) = (cutAt sep rest).map (·.2) := by
  simp only [cutAt, h]
  cases cutAt sep rest with
  | none => rfl
  | some p => rfl

/-- `SplitID(sigil, id)` yields the server part of `<sigil>local:server`. -/
theorem splitIDDomain_eq_serverOf (sigil : UInt8) (hs : (sigil == 0x3A) = false) (id : Bytes) :
    splitIDDomain sigil id = Spec.serverOf sigil id := by
  cases id with
  | nil => rfl
  | cons c rest =>
    simp only [splitIDDomain, Spec.serverOf]
    by_cases hc : (c == sigil) = true
    · simp only [hc, if_true]
      have : (c == (0x3A : UInt8)) = false := by
        have := eq_of_beq hc
        subst this
        exact hs
      exact cutAt_cons_ne this rest
    · simp [hc]

/-! ### The membership of a member event -/

theorem membership_of_spec (e : Event) (m : Bytes) (h : Spec.membershipOf e = some m) :
    membership e = .ok m ∧ e.stateKey.isSome = true := by
  unfold Spec.membershipOf at h
  unfold membership membershipField
  cases hc : e.content with
  | none => simp [hc] at h
  | some c =>
    cases hk : e.stateKey with
    | none => cases c <;> simp [hc, hk] at h
    | some sk =>
      cases c with
      | null => simp [hc, hk] at h; simp [h]
      | obj kvs =>
        simp only [hc, hk] at h
        cases hl : lookupField kvs b!"membership" with
        | none => simp [hl] at h; simp [hl, decString, h]
        | some v =>
          cases v <;> simp [hl] at h
          · simp [hl, decString, h]
          · simp [hl, decString, h]
      | bool b => simp [hc, hk] at h
      | num l => simp [hc, hk] at h
      | str s => simp [hc, hk] at h
      | arr xs => simp [hc, hk] at h

/-- `Membership()` either fails or yields the membership of an event that has a state key. -/
theorem membership_cases (e : Event) :
    membership e = .error (errRej "membership") ∨ ∃ m, membership e = .ok m ∧ e.stateKey.isSome = true := by
  unfold membership
  cases e.content with
  | none => exact Or.inl rfl
  | some c =>
    simp only
    generalize membershipField c = r
    cases r with
    | none => exact Or.inl rfl
    | some m =>
      cases hk : e.stateKey with
      | none => exact Or.inl (by simp)
      | some sk => exact Or.inr ⟨m, by simp, rfl⟩

theorem all_congr_mem {α : Type} (p q : α → Bool) : ∀ l : List α, (∀ x ∈ l, p x = q x) → l.all p = l.all q
  | [], _ => rfl
  | x :: xs, h => by
    simp only [List.all_cons]
    rw [h x List.mem_cons_self, all_congr_mem p q xs (fun y hy => h y (List.mem_cons_of_mem _ hy))]

/-! ### `needed` is a set -/

theorem mem_addNeeded (s x : Bytes) (l : List Bytes) : x ∈ addNeeded s l ↔ x = s ∨ x ∈ l := by
  unfold addNeeded
  by_cases h : l.contains s = true
  · simp only [h, if_true]
    constructor
    · exact Or.inr
    · rintro (rfl | hx)
      · exact List.contains_iff_mem.mp h |> fun h' => by simpa using h'
      · exact hx
  · simp only [h]
    simp [List.mem_append, or_comm]

/-- `extractAuthorisedViaServerName` against the specification's reading of the member. -/
theorem extract_spec (content : Option JVal) :
    extractAuthorisedVia content =
      match content with
      | some (.obj kvs) =>
        match getFirst kvs b!"join_authorised_via_users_server" with
        | none => .ok []
        | some (.str u) =>
          match Spec.serverOf 0x40 u with
          | some d => if d.isEmpty then .error (errRej "authorised-via") else .ok d
          | none => .error (errRej "authorised-via")
        | some _ => .error (errRej "authorised-via")
      | _ => .ok [] := by
  unfold extractAuthorisedVia
  cases content with
  | none => rfl
  | some c =>
    cases c with
    | obj kvs =>
      simp only
      cases getFirst kvs b!"join_authorised_via_users_server" with
      | none => rfl
      | some v =>
        cases v <;> simp only []
        rw [splitIDDomain_eq_serverOf 0x40 (by decide)]
        cases Spec.serverOf 0x40 _ <;> rfl
    | _ => rfl

/-- What the theorem `required_eq_spec` says for each answer of the specification. -/
def Agrees (spec : Spec.Req) (model : Except Err (List Bytes)) : Prop :=
  match spec with
  | .servers l => ∃ l', model = .ok l' ∧ ∀ s, s ∈ l' ↔ s ∈ l
  | .undeterminable => ∃ why, model = .error (.other why)
  | .unspecified => True

/-- **The servers the code requires are the servers the property names**: the sender's server; in room
    versions 1–2 the server named in the event ID; for invites the invited user's server; for joins carrying
    `join_authorised_via_users_server`, in versions with restricted joins, that user's server.  When one of
    them cannot be determined (malformed event ID / state key / authorising user, or an authorising user
    `@user:` without server name) the code rejects. -/
theorem required_eq_spec (row : VGen.VersionRow) (hc : ColsOk row) (e : Event) (d : Bytes) :
    Agrees (Spec.required row.key e (some d)) (requiredSigners row e (.ok (some d))) := by
  obtain ⟨hid, hrj, hrj2, _⟩ := hc
  unfold Spec.required requiredSigners
  simp only [← hid, splitIDDomain_eq_serverOf 0x24 (by decide)]
  -- the event-ID stage
  have key : ∀ (n1 : List Bytes) (idl : List Bytes), (∀ s, s ∈ n1 ↔ s = d ∨ s ∈ idl) →
      Agrees
        (if e.type != b!"m.room.member" then Spec.Req.servers (d :: idl)
         else match Spec.membershipOf e with
          | none => .unspecified
          | some m =>
            if m == b!"invite" then
              match (e.stateKey.bind (Spec.serverOf 0x40)) with
              | some d' => .servers (d :: idl ++ [d'])
              | none => .undeterminable
            else if m == b!"join" && Spec.supportsRestrictedJoins row.key then
              match e.content with
              | some (.obj kvs) =>
                match getFirst kvs b!"join_authorised_via_users_server" with
                | none => .servers (d :: idl)
                | some (.str u) =>
                  match Spec.serverOf 0x40 u with
                  | some d' => if d'.isEmpty then .undeterminable else .servers (d :: idl ++ [d'])
                  | none => .undeterminable
                | some _ => .undeterminable
              | _ => .servers (d :: idl)
            else .servers (d :: idl))
        (if e.type != b!"m.room.member" then .ok n1
         else match membership e with
          | .error err => .error err
          | .ok m =>
            match (if m == b!"invite" then
                match e.stateKey with
                | none => Except.error (Err.panic "eventcrypto.go:VerifyEventSignatures *e.StateKey()")
                | some sk =>
                  match splitIDDomain 0x40 sk with
                  | some d' => .ok (addNeeded d' n1)
                  | none => .error (errRej "state-key")
              else .ok n1) with
            | .error err => .error err
            | .ok n2 =>
              if m == b!"join" then
                match restrictedJoinServername row e.content with
                | .error err => .error err
                | .ok auth => if auth.isEmpty then .ok n2 else .ok (addNeeded auth n2)
              else .ok n2) := by
    intro n1 idl hn1
    by_cases ht : (e.type != b!"m.room.member") = true
    · simp only [ht, if_true]
      exact ⟨n1, rfl, fun s => by simp [hn1 s]⟩
    · simp only [ht]
      cases hm : Spec.membershipOf e with
      | none => trivial
      | some m =>
        obtain ⟨hmem, hsk⟩ := membership_of_spec e m hm
        simp only [hmem]
        by_cases hinv : (m == b!"invite") = true
        · -- invite
          have hnj : (m == b!"join") = false := by
            have := eq_of_beq hinv; subst this; decide
          simp only [hinv, if_true, hnj]
          cases hk : e.stateKey with
          | none => simp [hk] at hsk
          | some sk =>
            simp only [Option.bind_some, splitIDDomain_eq_serverOf 0x40 (by decide)]
            cases Spec.serverOf 0x40 sk with
            | none => exact ⟨_, rfl⟩
            | some d' =>
              refine ⟨_, rfl, fun s => ?_⟩
              simp only [mem_addNeeded, hn1 s, List.mem_cons, List.mem_append, List.not_mem_nil, or_false]
              grind
        · simp only [hinv]
          by_cases hj : (m == b!"join") = true
          · simp only [hj, if_true, Bool.true_and]
            unfold restrictedJoinServername
            by_cases hx : (row.restrictedJoinServernameFunc == "extractAuthorisedViaServerName") = true
            · simp only [hx, if_true, ← hrj]
              rw [extract_spec]
              cases hcont : e.content with
              | none => exact ⟨n1, rfl, fun s => by simp [hn1 s]⟩
              | some c =>
                cases c with
                | obj kvs =>
                  simp only
                  cases hg : getFirst kvs b!"join_authorised_via_users_server" with
                  | none => exact ⟨n1, rfl, fun s => by simp [hn1 s]⟩
                  | some v =>
                    cases v with
                    | str u =>
                      simp only
                      cases hso : Spec.serverOf 0x40 u with
                      | none => exact ⟨_, rfl⟩
                      | some d' =>
                        by_cases hne' : d'.isEmpty = true
                        · simp only [hne', if_true]
                          exact ⟨_, rfl⟩
                        have hne' : d'.isEmpty = false := by simpa using hne'
                        simp only [hne', Bool.false_eq_true, if_false]
                        refine ⟨_, rfl, fun s => ?_⟩
                        simp only [mem_addNeeded, hn1 s, List.mem_cons, List.mem_append, List.not_mem_nil, or_false]
                        grind
                    | null => exact ⟨_, rfl⟩
                    | bool b => exact ⟨_, rfl⟩
                    | num l => exact ⟨_, rfl⟩
                    | arr xs => exact ⟨_, rfl⟩
                    | obj kvs' => exact ⟨_, rfl⟩
                | null => exact ⟨n1, rfl, fun s => by simp [hn1 s]⟩
                | bool b => exact ⟨n1, rfl, fun s => by simp [hn1 s]⟩
                | num l => exact ⟨n1, rfl, fun s => by simp [hn1 s]⟩
                | str s' => exact ⟨n1, rfl, fun s => by simp [hn1 s]⟩
                | arr xs => exact ⟨n1, rfl, fun s => by simp [hn1 s]⟩
            · have hx' : (row.restrictedJoinServernameFunc == "extractAuthorisedViaServerName") = false := by
                simpa using hx
              have he : (row.restrictedJoinServernameFunc == "emptyAuthorisedViaServerName") = true := by
                rcases hrj2 with h | h
                · rw [h] at hx'; cases hx'
                · exact h
              simp only [hx', he, if_true, ← hrj]
              exact ⟨n1, rfl, fun s => by simp [hn1 s]⟩
          · simp only [hj, Bool.false_and]
            exact ⟨n1, rfl, fun s => by simp [hn1 s]⟩
  by_cases hf : (row.eventIDFormat == 1) = true
  · simp only [hf, if_true]
    cases Spec.serverOf 0x24 e.eventID with
    | none => exact ⟨_, rfl⟩
    | some d0 =>
      simp only [Option.map_some]
      exact key (addNeeded d0 [d]) [d0] (fun s => by simp [mem_addNeeded, or_comm])
  · simp only [hf]
    exact key [d] [] (fun s => by simp)

/-- A join (room version 10) whose authorising user is `@x:`: the property demands a signature of "that
    user's server", which does not exist — the event is rejected (it used to need nothing extra; /repo d4c4559). -/
def viaEmptyWitness : Event :=
  { ver := b!"10", eventID := b!"$e", obj :=
      [(b!"type", .str b!"m.room.member"), (b!"sender", .str b!"@a:hs1"), (b!"state_key", .str b!"@a:hs1"),
       (b!"content", .obj [(b!"membership", .str b!"join"), (b!"join_authorised_via_users_server", .str b!"@x:")])] }

/-- list of required servers, `none` on error (decidable form for the examples) -/
def requiredList (ver : String) (e : Event) (d : Bytes) : Option (List Bytes) :=
  match VGen.roomVersions.find? (fun r => r.key == ver) with
  | some row => match requiredSigners row e (.ok (some d)) with
    | .ok l => some l
    | .error _ => none
  | none => none

example : requiredList "10" viaEmptyWitness b!"hs1" = none ∧
    Spec.required "10" viaEmptyWitness (some b!"hs1") = .undeterminable := by
  decide

/-- The hypotheses of `required_eq_spec` are satisfiable by a non-trivial event: an invite in room
    version 1 needs the sender's server, the event ID's server and the invited user's server. -/
def inviteWitness : Event :=
  { ver := b!"1", eventID := b!"$e1:hs4", obj :=
      [(b!"type", .str b!"m.room.member"), (b!"sender", .str b!"@a:hs1"), (b!"state_key", .str b!"@b:hs2:8448"),
       (b!"content", .obj [(b!"membership", .str b!"invite")])] }

example : requiredList "1" inviteWitness b!"hs1" = some [b!"hs1", b!"hs4", b!"hs2:8448"] ∧
    Spec.required "1" inviteWitness (some b!"hs1") = .servers [b!"hs1", b!"hs4", b!"hs2:8448"] := by
  decide

/-! ### The verdict -/

/-- **VerifyEventSignatures succeeds exactly when every required server's request is answered valid**
    (each request made at the event's origin_server_ts with the version's key-validity rule). -/
theorem verify_iff (row : VGen.VersionRow) (e : Event) (sd : Except Err (Option Bytes)) (valid : Request → Bool) :
    verifyEventSignatures row e sd valid false = .ok () ↔
      ∃ l, requiredSigners row e sd = .ok l ∧
        ∀ s ∈ l, valid ⟨s, e.originServerTS, strictValidity row⟩ = true := by
  unfold verifyEventSignatures requests
  cases h : requiredSigners row e sd with
  | error err => simp
  | ok l =>
    simp only [Bool.false_eq_true, if_false]
    constructor
    · intro hv
      refine ⟨l, rfl, fun s hs => ?_⟩
      by_cases ha : (l.map (fun s => (⟨s, e.originServerTS, strictValidity row⟩ : Request))).all valid = true
      · rw [List.all_eq_true] at ha
        exact ha _ (List.mem_map_of_mem hs)
      · simp [ha] at hv
    · rintro ⟨l', hl', hall⟩
      cases hl'
      have : (l.map (fun s => (⟨s, e.originServerTS, strictValidity row⟩ : Request))).all valid = true := by
        rw [List.all_eq_true]
        intro r hr
        obtain ⟨s, hs, rfl⟩ := List.mem_map.mp hr
        exact hall s hs
      simp [this]

/-- The same against the specification: when the property's required set is `l`, the event verifies iff
    every server in `l` is answered valid at origin_server_ts under the rule the property names
    (strict from room version 5 on). -/
theorem verify_iff_spec (row : VGen.VersionRow) (hc : ColsOk row) (e : Event) (d : Bytes)
    (l : List Bytes) (hl : Spec.required row.key e (some d) = .servers l) (valid : Request → Bool) :
    verifyEventSignatures row e (.ok (some d)) valid false = .ok () ↔
      ∀ s ∈ l, valid ⟨s, e.originServerTS, Spec.strictFrom5 row.key⟩ = true := by
  have ha := required_eq_spec row hc e d
  rw [hl] at ha
  obtain ⟨l', hl', hmem⟩ := ha
  rw [verify_iff, ← hc.2.2.2]
  constructor
  · rintro ⟨l'', h'', hall⟩ s hs
    rw [hl'] at h''; cases h''
    exact hall s ((hmem s).mpr hs)
  · intro hall
    exact ⟨l', hl', fun s hs => hall s ((hmem s).mp hs)⟩

/-- When a required server cannot be determined the event never verifies, whatever the verifier says. -/
theorem undeterminable_rejects (row : VGen.VersionRow) (hc : ColsOk row) (e : Event) (d : Bytes)
    (hl : Spec.required row.key e (some d) = .undeterminable) (valid : Request → Bool) (vf : Bool) :
    verifyEventSignatures row e (.ok (some d)) valid vf ≠ .ok () := by
  have ha := required_eq_spec row hc e d
  rw [hl] at ha
  obtain ⟨why, hw⟩ := ha
  unfold verifyEventSignatures requests
  simp [hw]

/-- **Signatures from other servers never matter**: two verifiers that agree on the required servers'
    requests give the same verdict. -/
theorem others_irrelevant (row : VGen.VersionRow) (e : Event) (sd : Except Err (Option Bytes))
    (valid valid' : Request → Bool) (vf : Bool)
    (h : ∀ l, requiredSigners row e sd = .ok l → ∀ s ∈ l,
      valid ⟨s, e.originServerTS, strictValidity row⟩ = valid' ⟨s, e.originServerTS, strictValidity row⟩) :
    verifyEventSignatures row e sd valid vf = verifyEventSignatures row e sd valid' vf := by
  unfold verifyEventSignatures requests
  cases hr : requiredSigners row e sd with
  | error err => rfl
  | ok l =>
    simp only
    have : (l.map (fun s => (⟨s, e.originServerTS, strictValidity row⟩ : Request))).all valid =
        (l.map (fun s => (⟨s, e.originServerTS, strictValidity row⟩ : Request))).all valid' := by
      apply all_congr_mem
      intro r hr'
      obtain ⟨s, hs, rfl⟩ := List.mem_map.mp hr'
      exact h l hr s hs
    rw [this]

/-- **One bad signature fails the event**: a missing, corrupted, wrong-key or out-of-validity signature
    from any one required server (`valid` false on its request) makes verification fail. -/
theorem one_bad_fails (row : VGen.VersionRow) (e : Event) (sd : Except Err (Option Bytes)) (valid : Request → Bool)
    (vf : Bool) (l : List Bytes) (hl : requiredSigners row e sd = .ok l) (s : Bytes) (hs : s ∈ l)
    (hbad : valid ⟨s, e.originServerTS, strictValidity row⟩ = false) :
    verifyEventSignatures row e sd valid vf ≠ .ok () := by
  unfold verifyEventSignatures requests
  simp only [hl]
  cases vf with
  | true => simp
  | false =>
    have : (l.map (fun s => (⟨s, e.originServerTS, strictValidity row⟩ : Request))).all valid = false := by
      rw [List.all_eq_false]
      exact ⟨_, List.mem_map_of_mem hs, by simp [hbad]⟩
    simp [this]

/-- A sender that the resolver refuses makes the event fail. -/
theorem bad_sender_rejects (row : VGen.VersionRow) (e : Event) (err : Err) (valid : Request → Bool) (vf : Bool) :
    verifyEventSignatures row e (.error err) valid vf ≠ .ok () := by
  simp [verifyEventSignatures, requests, requiredSigners]

theorem membership_err (e : Event) (err : Err) (h : membership e = .error err) : err = errRej "membership" := by
  rcases membership_cases e with h' | ⟨m, h', _⟩
  · rw [h'] at h; cases h; rfl
  · rw [h'] at h; cases h

theorem membership_ok_stateKey (e : Event) (m : Bytes) (h : membership e = .ok m) : e.stateKey.isSome = true := by
  rcases membership_cases e with h' | ⟨m', _, hs⟩
  · rw [h'] at h; cases h
  · exact hs

theorem extract_err (c : Option JVal) (err : Err) (h : extractAuthorisedVia c = .error err) :
    err = errRej "authorised-via" := by
  unfold extractAuthorisedVia at h
  split at h
  · split at h
    · cases h
    · split at h
      · split at h
        · cases h; rfl
        · cases h
      · cases h; rfl
    · cases h; rfl
  · cases h

theorem restricted_err (row : VGen.VersionRow) (hc : ColsOk row) (c : Option JVal) (err : Err)
    (h : restrictedJoinServername row c = .error err) : err = errRej "authorised-via" := by
  obtain ⟨_, _, hrj2, _⟩ := hc
  unfold restrictedJoinServername at h
  split at h
  · exact extract_err c err h
  · split at h
    · cases h
    · rename_i h1 h2
      rcases hrj2 with h' | h'
      · exact absurd h' h1
      · exact absurd h' h2

/-- No panic site of VerifyEventSignatures is reachable for a registered room version: the dereference of
    the state key is guarded by `Membership()`, and every version has a restricted-join function. -/
theorem no_panic (row : VGen.VersionRow) (hc : ColsOk row) (e : Event) (sd : Except Err (Option Bytes)) (site : String)
    (hsd : sd ≠ .error (.panic site)) : requiredSigners row e sd ≠ .error (.panic site) := by
  intro hcontra
  unfold requiredSigners at hcontra
  cases sd with
  | error err => simp at hcontra; exact hsd (by rw [hcontra])
  | ok sdv =>
    simp only at hcontra
    split at hcontra
    · simp [errRej] at hcontra
    · split at hcontra
      · cases hcontra
      · cases hm : membership e with
        | error err =>
          rw [hm] at hcontra
          simp only at hcontra
          have := membership_err e err hm
          rw [this] at hcontra
          simp [errRej] at hcontra
        | ok m =>
          have hsk := membership_ok_stateKey e m hm
          rw [hm] at hcontra
          simp only at hcontra
          cases hk : e.stateKey with
          | none => simp [hk] at hsk
          | some sk =>
            rw [hk] at hcontra
            have hr : ∀ n2 : List Bytes,
                (if m == b!"join" then
                  match restrictedJoinServername row e.content with
                  | .error err => Except.error err
                  | .ok auth => if auth.isEmpty then Except.ok n2 else .ok (addNeeded auth n2)
                else Except.ok n2) ≠ .error (.panic site) := by
              intro n2 hh
              split at hh
              · cases hr : restrictedJoinServername row e.content with
                | error err =>
                  rw [hr] at hh
                  simp only at hh
                  have := restricted_err row hc _ err hr
                  rw [this] at hh
                  simp [errRej] at hh
                | ok auth =>
                  rw [hr] at hh
                  simp only at hh
                  split at hh <;> cases hh
              · cases hh
            by_cases hinv : (m == b!"invite") = true
            · simp only [hinv, if_true] at hcontra
              cases hsp : splitIDDomain 0x40 sk with
              | none => rw [hsp] at hcontra; simp [errRej] at hcontra
              | some d' =>
                rw [hsp] at hcontra
                simp only at hcontra
                exact hr _ hcontra
            · simp only [hinv] at hcontra
              exact hr _ hcontra

/-! ### The pseudo-ID room version (org.matrix.msc4014) -/

theorem mem_addNeeded' (s x : Bytes) (l : List Bytes) (h : x ∈ l) : x ∈ addNeeded s l := by
  unfold addNeeded
  split
  · exact h
  · exact List.mem_append_left _ h

theorem self_addNeeded (s : Bytes) (l : List Bytes) : s ∈ addNeeded s l := by
  unfold addNeeded
  split
  · rename_i h; simpa using h
  · simp

/-- In a pseudo-ID room the event verifies only if the sender's own key validly signed it. -/
theorem pseudo_sender_required (row : VGen.VersionRow) (e : Event) (valid : Request → Bool) (vf : Bool)
    (selfValid : Bytes → Bool) (h : (verifyPseudo row e valid vf selfValid).verdict = .ok ()) :
    selfValid e.sender = true := by
  unfold verifyPseudo at h
  simp only at h
  have fin : ∀ (asked : Option (List Bytes)) (needed : List Bytes), e.sender ∈ needed →
      (if needed.all selfValid then (Except.ok () : Except Err Unit) else .error (errRej "signature")) = .ok () →
      selfValid e.sender = true := by
    intro asked needed hm hh
    by_cases ha : needed.all selfValid = true
    · exact List.all_eq_true.mp ha _ hm
    · simp [ha] at hh
  split at h
  · exact fin none _ (by simp) h
  · split at h
    · cases h
    · rename_i m hm
      split at h
      · rename_i r hr
        -- stage 1 failed: the verdict is an error
        split at hr
        · split at hr
          · cases hr; cases h
          · split at hr
            · cases hr; cases h
            · split at hr
              · cases hr; cases h
              · split at hr
                · cases hr; cases h
                · split at hr
                  · cases hr
                  · cases hr; cases h
        · cases hr
      · rename_i asked hs
        have hn1 : e.sender ∈ (if m == b!"invite" then
            match e.stateKey with
            | some sk => addNeeded sk [e.sender]
            | none => [e.sender]
          else [e.sender]) := by
          split
          · split
            · exact mem_addNeeded' _ _ _ (by simp)
            · simp
          · simp
        split at h
        · split at h
          · cases h
          · rename_i auth hr
            refine fin asked _ ?_ h
            split
            · exact hn1
            · exact mem_addNeeded' _ _ _ hn1
        · exact fin asked _ hn1 h

/-- …and, for a join, only if the content carries an `mxid_mapping` whose signers include the server of the
    user it names, and the caller's verifier accepts the mapping for EVERY server listed in
    `mxid_mapping.signatures` — in particular for the user's (the sender's) server. -/
theorem pseudo_mapping_signers_valid (row : VGen.VersionRow) (e : Event) (valid : Request → Bool) (vf : Bool)
    (selfValid : Bytes → Bool) (htype : e.type = b!"m.room.member") (hjoin : membership e = .ok b!"join")
    (h : (verifyPseudo row e valid vf selfValid).verdict = .ok ()) :
    ∃ mp userServer, getMXIDMapping e = .ok mp ∧ vf = false ∧
      Spec.serverOf 0x40 mp.userID = some userServer ∧ userServer ∈ mp.servers ∧
      ∀ s ∈ mp.servers, valid ⟨s, e.originServerTS, strictValidity row⟩ = true := by
  unfold verifyPseudo at h
  have ht : (e.type != b!"m.room.member") = false := by rw [htype]; decide
  simp only [ht, hjoin] at h
  cases hg : getMXIDMapping e with
  | error err => simp [hg] at h
  | ok mp =>
    simp only [hg] at h
    cases hsp : splitIDDomain 0x40 mp.userID with
    | none => simp [hsp] at h
    | some us =>
      simp only [hsp] at h
      by_cases hc : mp.servers.contains us = true
      · simp only [hc, Bool.not_true, Bool.false_eq_true, if_false] at h
        refine ⟨mp, us, rfl, ?_⟩
        cases vf with
        | true => simp at h
        | false =>
          refine ⟨rfl, by rw [← splitIDDomain_eq_serverOf 0x40 (by decide)]; exact hsp, by simpa using hc, ?_⟩
          by_cases ha : mp.servers.all (fun s => valid ⟨s, e.originServerTS, strictValidity row⟩) = true
          · intro s hs
            exact List.all_eq_true.mp ha s hs
          · simp [ha] at h
      · have hc' : mp.servers.contains us = false := by simpa using hc
        simp only [hc', Bool.not_false, if_true] at h
        cases h

/-- A join whose mapping carries no signatures is rejected whatever the verifier and the sender's key say
    (before /repo e791b10 it verified as long as the sender's own key had signed the event). -/
def unsignedMappingWitness : Event :=
  { ver := b!"org.matrix.msc4014", eventID := b!"$e", obj :=
      [(b!"type", .str b!"m.room.member"), (b!"sender", .str b!"KEY"), (b!"state_key", .str b!"KEY"),
       (b!"content", .obj [(b!"membership", .str b!"join"),
          (b!"mxid_mapping", .obj [(b!"user_room_key", .str b!"KEY"), (b!"user_id", .str b!"@victim:hs1"),
            (b!"signatures", .obj [])])])] }

/-- the same event with the mapping signed by the user's server -/
def signedMappingWitness : Event :=
  { ver := b!"org.matrix.msc4014", eventID := b!"$e", obj :=
      [(b!"type", .str b!"m.room.member"), (b!"sender", .str b!"KEY"), (b!"state_key", .str b!"KEY"),
       (b!"content", .obj [(b!"membership", .str b!"join"),
          (b!"mxid_mapping", .obj [(b!"user_room_key", .str b!"KEY"), (b!"user_id", .str b!"@victim:hs1"),
            (b!"signatures", .obj [(b!"hs1", .obj [(b!"ed25519:1", .str b!"AAAA")])])])])] }

def pseudoAccepted (e : Event) (valid : Request → Bool) (selfValid : Bytes → Bool) : Bool :=
  match VGen.roomVersions.find? (fun r => r.key == "org.matrix.msc4014") with
  | some row => match (verifyPseudo row e valid false selfValid).verdict with
    | .ok _ => true
    | .error _ => false
  | none => false

example : pseudoAccepted unsignedMappingWitness (fun _ => true) (fun n => n == b!"KEY") = false ∧
    pseudoAccepted signedMappingWitness (fun r => r.server == b!"hs1") (fun n => n == b!"KEY") = true ∧
    pseudoAccepted signedMappingWitness (fun _ => false) (fun n => n == b!"KEY") = false := by decide

end V.C06
