/-
  C06 — An event verifies only if every protocol-required server validly signed it.

  Model: VModel.Signers (`requiredSigners`, `requests`, `verifyEventSignatures`, mirroring
  VerifyEventSignatures in eventcrypto.go); specification: `Signers.Spec.required`, written from the
  property text.  The signature verifier (the key ring, C12; the cryptography, C02) is an oracle
  `valid : Request → Bool`; "missing, corrupted, wrong-key or out-of-validity" all enter as `valid r = false`.

  The pseudo-ID room version org.matrix.msc4014 (the sender ID is itself a public key, events are
  self-verified, a join's `mxid_mapping` is verified through the caller's verifier) has its own model
  `verifyPseudo` and its own theorems at the end of the file; `requiredSigners` is the `needed` map of all
  other versions.
-/
import VModel.Signers
namespace V.C06
open V V.Json V.GoJson V.Signers

/-! ### Regenerated obligation: the per-version columns say what the specification says -/

/-- The three columns VerifyEventSignatures reads, against the specification's version predicates. -/
def ColsOk (row : VGen.VersionRow) : Prop :=
  (row.eventIDFormat == 1) = Spec.idNamesServer row.key ∧
  (row.restrictedJoinServernameFunc == "extractAuthorisedViaServerName") = Spec.supportsRestrictedJoins row.key ∧
  (row.restrictedJoinServernameFunc == "extractAuthorisedViaServerName" ∨
    row.restrictedJoinServernameFunc == "emptyAuthorisedViaServerName") ∧
  strictValidity row = Spec.strictFrom5 row.key

instance (row : VGen.VersionRow) : Decidable (ColsOk row) := by unfold ColsOk; exact inferInstance

/-- Event IDs name a server exactly in room versions 1 and 2; the authorising server of a restricted join
    is extracted exactly in 8, 9, 10, 11, 12, hydra, msc3787, msc4014; the strict key-validity rule applies
    exactly from version 5 on.  Checked against the table regenerated from eventversion.go on every run. -/
theorem columns_eq_spec : ∀ row ∈ VGen.roomVersions, ColsOk row := by decide

/-! ### Identifier splitting -/

theorem cutAt_cons_ne {sep c : UInt8} (h : (c == sep) = false) (rest : Bytes) :
    (cutAt sep (c :: rest)).map (·.2) = (cutAt sep rest).map (·.2) := by
  simp only [cutAt, h]
  cases cutAt sep rest with
  | none => rfl
  | some p => rfl

/-- `SplitID(sigil, id)` yields the server part of `<sigil>local:server`. -/
theorem splitIDDomain_eq_serverOf (sigil : UInt8) (hs : (sigil == 0x3A) = false) (id : Bytes) :
    splitIDDomain sigil id = Spec.serverOf sigil id := by
  cases id with
  | nil => rfl
  | cons c rest =>
    simp only [splitIDDomain, Spec.serverOf]
    by_cases hc : (c == sigil) = true
    · simp only [hc, if_true]
      have : (c == (0x3A : UInt8)) = false := by
        have := eq_of_beq hc
        subst this
        exact hs
      exact cutAt_cons_ne this rest
    · simp [hc]

/-! ### Exact member names -/

/-- members under other names do not matter to the exact, last-match lookup -/
theorem foldl_exact_filter (name : Bytes) : ∀ (kvs : List (Bytes × JVal)) (acc : Option JVal),
    kvs.foldl (fun acc kv => if kv.1 == name then some kv.2 else acc) acc =
      (kvs.filter (fun kv => kv.1 == name)).foldl (fun acc kv => if kv.1 == name then some kv.2 else acc) acc
  | [], _ => rfl
  | kv :: rest, acc => by
    by_cases h : (kv.1 == name) = true
    · simp only [List.foldl_cons, List.filter_cons, h, if_true]
      exact foldl_exact_filter name rest _
    · simp only [List.foldl_cons, List.filter_cons, h]
      exact foldl_exact_filter name rest _

/-- A name that does not occur is not found … -/
theorem lookupExact_of_absent {kvs : List (Bytes × JVal)} {name : Bytes} (h : Spec.exactMember kvs name = .absent) :
    lookupExact kvs name = none := by
  unfold Spec.exactMember at h
  unfold lookupExact
  rw [foldl_exact_filter]
  split at h
  · rename_i hf; rw [hf]; rfl
  · cases h
  · cases h

/-- … and a name that occurs once is found with its value: on JSON objects in the proper sense (no repeated name)
    the code's lookup (last member of that exact name) is THE member of that name. -/
theorem lookupExact_of_val {kvs : List (Bytes × JVal)} {name : Bytes} {v : JVal} (h : Spec.exactMember kvs name = .val v) :
    lookupExact kvs name = some v := by
  unfold Spec.exactMember at h
  unfold lookupExact
  rw [foldl_exact_filter]
  split at h
  · cases h
  · rename_i kv hf
    have hmem : kv ∈ kvs.filter (fun kv => kv.1 == name) := by rw [hf]; exact List.mem_singleton.mpr rfl
    have hk : (kv.1 == name) = true := by simpa using (List.mem_filter.mp hmem).2
    rw [hf]
    injection h with h
    simp only [List.foldl_cons, List.foldl_nil, hk, if_true, h]
  · cases h

/-! ### The membership of a member event -/

theorem membership_of_spec (e : Event) (m : Bytes) (h : Spec.membershipOf e = some m) :
    membership e = .ok m ∧ e.stateKey.isSome = true := by
  unfold Spec.membershipOf at h
  unfold membership membershipField
  cases hc : e.content with
  | none => simp [hc] at h
  | some c =>
    cases hk : e.stateKey with
    | none => cases c <;> simp [hc, hk] at h
    | some sk =>
      cases c with
      | null => simp [hc, hk] at h; simp [h]
      | obj kvs =>
        simp only [hc, hk] at h
        cases hx : Spec.exactMember kvs b!"membership" with
        | absent =>
          rw [hx] at h
          cases h
          simp [lookupExact_of_absent hx, decString]
        | dup => rw [hx] at h; cases h
        | val v =>
          rw [hx] at h
          cases v with
          | str s' =>
            cases h
            simp [lookupExact_of_val hx, decString]
          | null =>
            cases h
            simp [lookupExact_of_val hx, decString]
          | bool b => cases h
          | num l => cases h
          | arr xs => cases h
          | obj kvs' => cases h
      | bool b => simp [hc, hk] at h
      | num l => simp [hc, hk] at h
      | str s => simp [hc, hk] at h
      | arr xs => simp [hc, hk] at h

/-- a non-empty membership comes from a content that is an object -/
theorem membership_obj (e : Event) (m : Bytes) (h : membership e = .ok m) (hm : m ≠ []) :
    ∃ kvs, e.content = some (.obj kvs) := by
  unfold membership membershipField at h
  cases hc : e.content with
  | none => simp [hc] at h
  | some c =>
    cases c with
    | obj kvs => exact ⟨kvs, rfl⟩
    | null =>
      simp only [hc] at h
      split at h
      · cases h
      · cases h; exact absurd rfl hm
    | bool b => simp [hc] at h
    | num l => simp [hc] at h
    | str s => simp [hc] at h
    | arr xs => simp [hc] at h

/-- `Membership()` either fails or yields the membership of an event that has a state key. -/
theorem membership_cases (e : Event) :
    membership e = .error (errRej "membership") ∨ ∃ m, membership e = .ok m ∧ e.stateKey.isSome = true := by
  unfold membership
  cases e.content with
  | none => exact Or.inl rfl
  | some c =>
    simp only
    generalize membershipField c = r
    cases r with
    | none => exact Or.inl rfl
    | some m =>
      cases hk : e.stateKey with
      | none => exact Or.inl (by simp)
      | some sk => exact Or.inr ⟨m, by simp, rfl⟩

theorem all_congr_mem {α : Type} (p q : α → Bool) : ∀ l : List α, (∀ x ∈ l, p x = q x) → l.all p = l.all q
  | [], _ => rfl
  | x :: xs, h => by
    simp only [List.all_cons]
    rw [h x List.mem_cons_self, all_congr_mem p q xs (fun y hy => h y (List.mem_cons_of_mem _ hy))]

/-! ### `needed` is a set -/

theorem mem_addNeeded (s x : Bytes) (l : List Bytes) : x ∈ addNeeded s l ↔ x = s ∨ x ∈ l := by
  unfold addNeeded
  by_cases h : l.contains s = true
  · simp only [h, if_true]
    constructor
    · exact Or.inr
    · rintro (rfl | hx)
      · exact List.contains_iff_mem.mp h |> fun h' => by simpa using h'
      · exact hx
  · simp only [h]
    simp [List.mem_append, or_comm]

theorem mem_addNeeded' (s x : Bytes) (l : List Bytes) (h : x ∈ l) : x ∈ addNeeded s l := by
  unfold addNeeded
  split
  · exact h
  · exact List.mem_append_left _ h

theorem self_addNeeded (s : Bytes) (l : List Bytes) : s ∈ addNeeded s l := by
  unfold addNeeded
  split
  · rename_i h; simpa using h
  · simp

/-- `extractAuthorisedViaServerName` on a content object: the member named exactly
    `join_authorised_via_users_server` (last match), which must be a user ID string with a non-empty server name. -/
theorem extract_spec (kvs : List (Bytes × JVal)) :
    extractAuthorisedVia (some (.obj kvs)) =
      match lookupExact kvs b!"join_authorised_via_users_server" with
      | none => .ok []
      | some (.str u) =>
        match Spec.serverOf 0x40 u with
        | some d => if d.isEmpty then .error (errRej "authorised-via") else .ok d
        | none => .error (errRej "authorised-via")
      | some _ => .error (errRej "authorised-via") := by
  unfold extractAuthorisedVia
  simp only
  cases lookupExact kvs b!"join_authorised_via_users_server" with
  | none => rfl
  | some v =>
    cases v with
    | str u =>
      simp only [decString, Bool.false_eq_true, if_false]
      rw [splitIDDomain_eq_serverOf 0x40 (by decide)]
      cases Spec.serverOf 0x40 u <;> rfl
    | null => rfl
    | bool b => rfl
    | num l => rfl
    | arr xs => rfl
    | obj kvs' => rfl

/-- What the theorem `required_eq_spec` says for each answer of the specification. -/
def Agrees (spec : Spec.Req) (model : Except Err (List Bytes)) : Prop :=
  match spec with
  | .servers l => ∃ l', model = .ok l' ∧ ∀ s, s ∈ l' ↔ s ∈ l
  | .undeterminable => ∃ why, model = .error (.other why)
  | .unspecified => True

/-- **The servers the code requires are the servers the property names**: the sender's server; in room
    versions 1–2 the server named in the event ID; for invites the invited user's server; for joins carrying
    `join_authorised_via_users_server`, in versions with restricted joins, that user's server — "the membership"
    and "join_authorised_via_users_server" being the members of the content with EXACTLY these names (no side
    condition about other spellings: they are not read).  When one of the servers cannot be determined (malformed
    event ID / state key / authorising user, or an authorising user `@user:` without server name) the code rejects. -/
theorem required_eq_spec (row : VGen.VersionRow) (hc : ColsOk row) (e : Event) (d : Bytes) :
    Agrees (Spec.required row.key e (some d)) (requiredSigners row e (.ok (some d))) := by
  obtain ⟨hid, hrj, hrj2, _⟩ := hc
  unfold Spec.required requiredSigners
  simp only [← hid, splitIDDomain_eq_serverOf 0x24 (by decide)]
  -- the event-ID stage
  have key : ∀ (n1 : List Bytes) (idl : List Bytes), (∀ s, s ∈ n1 ↔ s = d ∨ s ∈ idl) →
      Agrees
        (if e.type != b!"m.room.member" then Spec.Req.servers (d :: idl)
         else match Spec.membershipOf e with
          | none => .unspecified
          | some m =>
            if m == b!"invite" then
              match (e.stateKey.bind (Spec.serverOf 0x40)) with
              | some d' => .servers (d :: idl ++ [d'])
              | none => .undeterminable
            else if m == b!"join" && Spec.supportsRestrictedJoins row.key then
              match e.content with
              | some (.obj kvs) =>
                match Spec.exactMember kvs b!"join_authorised_via_users_server" with
                | .absent => .servers (d :: idl)
                | .dup => .unspecified
                | .val (.str u) =>
                  match Spec.serverOf 0x40 u with
                  | some d' => if d'.isEmpty then .undeterminable else .servers (d :: idl ++ [d'])
                  | none => .undeterminable
                | .val _ => .undeterminable
              | _ => .servers (d :: idl)
            else .servers (d :: idl))
        (if e.type != b!"m.room.member" then .ok n1
         else match membership e with
          | .error err => .error err
          | .ok m =>
            match (if m == b!"invite" then
                match e.stateKey with
                | none => Except.error (Err.panic "eventcrypto.go:VerifyEventSignatures *e.StateKey()")
                | some sk =>
                  match splitIDDomain 0x40 sk with
                  | some d' => .ok (addNeeded d' n1)
                  | none => .error (errRej "state-key")
              else .ok n1) with
            | .error err => .error err
            | .ok n2 =>
              if m == b!"join" then
                match restrictedJoinServername row e.content with
                | .error err => .error err
                | .ok auth => if auth.isEmpty then .ok n2 else .ok (addNeeded auth n2)
              else .ok n2) := by
    intro n1 idl hn1
    by_cases ht : (e.type != b!"m.room.member") = true
    · simp only [ht, if_true]
      exact ⟨n1, rfl, fun s => by simp [hn1 s]⟩
    · simp only [ht]
      cases hm : Spec.membershipOf e with
      | none => trivial
      | some m =>
        obtain ⟨hmem, hsk⟩ := membership_of_spec e m hm
        simp only [hmem]
        by_cases hinv : (m == b!"invite") = true
        · -- invite
          have hnj : (m == b!"join") = false := by
            have := eq_of_beq hinv; subst this; decide
          simp only [hinv, if_true, hnj]
          cases hk : e.stateKey with
          | none => simp [hk] at hsk
          | some sk =>
            simp only [Option.bind_some, splitIDDomain_eq_serverOf 0x40 (by decide)]
            cases Spec.serverOf 0x40 sk with
            | none => exact ⟨_, rfl⟩
            | some d' =>
              refine ⟨_, rfl, fun s => ?_⟩
              simp only [mem_addNeeded, hn1 s, List.mem_cons, List.mem_append, List.not_mem_nil, or_false]
              grind
        · simp only [hinv]
          by_cases hj : (m == b!"join") = true
          · simp only [hj, if_true, Bool.true_and]
            have hmne : m ≠ [] := by
              have := eq_of_beq hj; subst this; decide
            obtain ⟨kvs, hcont⟩ := membership_obj e m hmem hmne
            unfold restrictedJoinServername
            by_cases hx : (row.restrictedJoinServernameFunc == "extractAuthorisedViaServerName") = true
            · simp only [hx, if_true, ← hrj, hcont]
              rw [extract_spec]
              cases hg : Spec.exactMember kvs b!"join_authorised_via_users_server" with
              | absent =>
                rw [lookupExact_of_absent hg]
                exact ⟨n1, rfl, fun s => by simp [hn1 s]⟩
              | dup => trivial
              | val v =>
                rw [lookupExact_of_val hg]
                cases v with
                | str u =>
                  simp only
                  cases hso : Spec.serverOf 0x40 u with
                  | none => exact ⟨_, rfl⟩
                  | some d' =>
                    by_cases hne' : d'.isEmpty = true
                    · simp only [hne', if_true]
                      exact ⟨_, rfl⟩
                    have hne' : d'.isEmpty = false := by simpa using hne'
                    simp only [hne', Bool.false_eq_true, if_false]
                    refine ⟨_, rfl, fun s => ?_⟩
                    simp only [mem_addNeeded, hn1 s, List.mem_cons, List.mem_append, List.not_mem_nil, or_false]
                    grind
                | null => exact ⟨_, rfl⟩
                | bool b => exact ⟨_, rfl⟩
                | num l => exact ⟨_, rfl⟩
                | arr xs => exact ⟨_, rfl⟩
                | obj kvs' => exact ⟨_, rfl⟩
            · have hx' : (row.restrictedJoinServernameFunc == "extractAuthorisedViaServerName") = false := by
                simpa using hx
              have he : (row.restrictedJoinServernameFunc == "emptyAuthorisedViaServerName") = true := by
                rcases hrj2 with h | h
                · rw [h] at hx'; cases hx'
                · exact h
              simp only [hx', he, if_true, ← hrj]
              exact ⟨n1, rfl, fun s => by simp [hn1 s]⟩
          · simp only [hj, Bool.false_and]
            exact ⟨n1, rfl, fun s => by simp [hn1 s]⟩
  by_cases hf : (row.eventIDFormat == 1) = true
  · simp only [hf, if_true]
    cases Spec.serverOf 0x24 e.eventID with
    | none => exact ⟨_, rfl⟩
    | some d0 =>
      simp only [Option.map_some]
      exact key (addNeeded d0 [d]) [d0] (fun s => by simp [mem_addNeeded, or_comm])
  · simp only [hf]
    exact key [d] [] (fun s => by simp)

/-- A join (room version 10) whose authorising user is `@x:`: the property demands a signature of "that
    user's server", which does not exist — the event is rejected (it used to need nothing extra; /repo d4c4559). -/
def viaEmptyWitness : Event :=
  { ver := b!"10", eventID := b!"$e", obj :=
      [(b!"type", .str b!"m.room.member"), (b!"sender", .str b!"@a:hs1"), (b!"state_key", .str b!"@a:hs1"),
       (b!"content", .obj [(b!"membership", .str b!"join"), (b!"join_authorised_via_users_server", .str b!"@x:")])] }

/-- list of required servers, `none` on error (decidable form for the examples) -/
def requiredList (ver : String) (e : Event) (d : Bytes) : Option (List Bytes) :=
  match VGen.roomVersions.find? (fun r => r.key == ver) with
  | some row => match requiredSigners row e (.ok (some d)) with
    | .ok l => some l
    | .error _ => none
  | none => none

example : requiredList "10" viaEmptyWitness b!"hs1" = none ∧
    Spec.required "10" viaEmptyWitness (some b!"hs1") = .undeterminable := by
  decide

/-- The hypotheses of `required_eq_spec` are satisfiable by a non-trivial event: an invite in room
    version 1 needs the sender's server, the event ID's server and the invited user's server. -/
def inviteWitness : Event :=
  { ver := b!"1", eventID := b!"$e1:hs4", obj :=
      [(b!"type", .str b!"m.room.member"), (b!"sender", .str b!"@a:hs1"), (b!"state_key", .str b!"@b:hs2:8448"),
       (b!"content", .obj [(b!"membership", .str b!"invite")])] }

example : requiredList "1" inviteWitness b!"hs1" = some [b!"hs1", b!"hs4", b!"hs2:8448"] ∧
    Spec.required "1" inviteWitness (some b!"hs1") = .servers [b!"hs1", b!"hs4", b!"hs2:8448"] := by
  decide

/-! ### The verdict -/

/-- **VerifyEventSignatures succeeds exactly when every required server's request is answered valid**
    (each request made at the event's origin_server_ts with the version's key-validity rule). -/
theorem verify_iff (row : VGen.VersionRow) (e : Event) (sd : Except Err (Option Bytes)) (valid : Request → Bool) :
    verifyEventSignatures row e sd valid false = .ok () ↔
      ∃ l, requiredSigners row e sd = .ok l ∧
        ∀ s ∈ l, valid ⟨s, e.originServerTS, strictValidity row⟩ = true := by
  unfold verifyEventSignatures requests
  cases h : requiredSigners row e sd with
  | error err => simp
  | ok l =>
    simp only [Bool.false_eq_true, if_false]
    constructor
    · intro hv
      refine ⟨l, rfl, fun s hs => ?_⟩
      by_cases ha : (l.map (fun s => (⟨s, e.originServerTS, strictValidity row⟩ : Request))).all valid = true
      · rw [List.all_eq_true] at ha
        exact ha _ (List.mem_map_of_mem hs)
      · simp [ha] at hv
    · rintro ⟨l', hl', hall⟩
      cases hl'
      have : (l.map (fun s => (⟨s, e.originServerTS, strictValidity row⟩ : Request))).all valid = true := by
        rw [List.all_eq_true]
        intro r hr
        obtain ⟨s, hs, rfl⟩ := List.mem_map.mp hr
        exact hall s hs
      simp [this]

/-- **The bulk entry point gives one verdict per event, in order, and each is the verdict of that event alone**:
    no verdict is carried from one event (or one request) to another, whatever else is in the batch — events sharing
    an ID (room versions 1–2), repeated events, events with several required servers. -/
theorem verify_all_pointwise (row : VGen.VersionRow) (es : List Event) (sd : Event → Except Err (Option Bytes))
    (valid : Event → Request → Bool) :
    (verifyAllEventSignatures row es sd valid (fun _ => false)).length = es.length ∧
    ∀ (i : Nat) (h : i < es.length),
      ((verifyAllEventSignatures row es sd valid (fun _ => false))[i]? = some (.ok ()) ↔
        ∃ l, requiredSigners row es[i] (sd es[i]) = .ok l ∧
          ∀ s ∈ l, valid es[i] ⟨s, es[i].originServerTS, strictValidity row⟩ = true) := by
  refine ⟨by simp [verifyAllEventSignatures], fun i h => ?_⟩
  simp only [verifyAllEventSignatures, List.getElem?_map, List.getElem?_eq_getElem h, Option.map_some, Option.some.injEq]
  exact verify_iff row es[i] (sd es[i]) (valid es[i])

/-- … so a batch verdict does not depend on the rest of the batch: the verdict of an event is the same in any two
    batches (at whatever positions). -/
theorem verify_all_batch_irrelevant (row : VGen.VersionRow) (es es' : List Event) (sd : Event → Except Err (Option Bytes))
    (valid : Event → Request → Bool) (i j : Nat) (hi : i < es.length) (hj : j < es'.length) (he : es[i] = es'[j]) :
    (verifyAllEventSignatures row es sd valid (fun _ => false))[i]? =
      (verifyAllEventSignatures row es' sd valid (fun _ => false))[j]? := by
  simp [verifyAllEventSignatures, List.getElem?_map, List.getElem?_eq_getElem hi, List.getElem?_eq_getElem hj, he]

/-- The same against the specification: when the property's required set is `l`, the event verifies iff
    every server in `l` is answered valid at origin_server_ts under the rule the property names
    (strict from room version 5 on). -/
theorem verify_iff_spec (row : VGen.VersionRow) (hc : ColsOk row) (e : Event) (d : Bytes)
    (l : List Bytes) (hl : Spec.required row.key e (some d) = .servers l) (valid : Request → Bool) :
    verifyEventSignatures row e (.ok (some d)) valid false = .ok () ↔
      ∀ s ∈ l, valid ⟨s, e.originServerTS, Spec.strictFrom5 row.key⟩ = true := by
  have ha := required_eq_spec row hc e d
  rw [hl] at ha
  obtain ⟨l', hl', hmem⟩ := ha
  rw [verify_iff, ← hc.2.2.2]
  constructor
  · rintro ⟨l'', h'', hall⟩ s hs
    rw [hl'] at h''; cases h''
    exact hall s ((hmem s).mpr hs)
  · intro hall
    exact ⟨l', hl', fun s hs => hall s ((hmem s).mp hs)⟩

/-- When a required server cannot be determined the event never verifies, whatever the verifier says. -/
theorem undeterminable_rejects (row : VGen.VersionRow) (hc : ColsOk row) (e : Event) (d : Bytes)
    (hl : Spec.required row.key e (some d) = .undeterminable) (valid : Request → Bool) (vf : Bool) :
    verifyEventSignatures row e (.ok (some d)) valid vf ≠ .ok () := by
  have ha := required_eq_spec row hc e d
  rw [hl] at ha
  obtain ⟨why, hw⟩ := ha
  unfold verifyEventSignatures requests
  simp [hw]

/-- **Signatures from other servers never matter**: two verifiers that agree on the required servers'
    requests give the same verdict. -/
theorem others_irrelevant (row : VGen.VersionRow) (e : Event) (sd : Except Err (Option Bytes))
    (valid valid' : Request → Bool) (vf : Bool)
    (h : ∀ l, requiredSigners row e sd = .ok l → ∀ s ∈ l,
      valid ⟨s, e.originServerTS, strictValidity row⟩ = valid' ⟨s, e.originServerTS, strictValidity row⟩) :
    verifyEventSignatures row e sd valid vf = verifyEventSignatures row e sd valid' vf := by
  unfold verifyEventSignatures requests
  cases hr : requiredSigners row e sd with
  | error err => rfl
  | ok l =>
    simp only
    have : (l.map (fun s => (⟨s, e.originServerTS, strictValidity row⟩ : Request))).all valid =
        (l.map (fun s => (⟨s, e.originServerTS, strictValidity row⟩ : Request))).all valid' := by
      apply all_congr_mem
      intro r hr'
      obtain ⟨s, hs, rfl⟩ := List.mem_map.mp hr'
      exact h l hr s hs
    rw [this]

/-- **One bad signature fails the event**: a missing, corrupted, wrong-key or out-of-validity signature
    from any one required server (`valid` false on its request) makes verification fail. -/
theorem one_bad_fails (row : VGen.VersionRow) (e : Event) (sd : Except Err (Option Bytes)) (valid : Request → Bool)
    (vf : Bool) (l : List Bytes) (hl : requiredSigners row e sd = .ok l) (s : Bytes) (hs : s ∈ l)
    (hbad : valid ⟨s, e.originServerTS, strictValidity row⟩ = false) :
    verifyEventSignatures row e sd valid vf ≠ .ok () := by
  unfold verifyEventSignatures requests
  simp only [hl]
  cases vf with
  | true => simp
  | false =>
    have : (l.map (fun s => (⟨s, e.originServerTS, strictValidity row⟩ : Request))).all valid = false := by
      rw [List.all_eq_false]
      exact ⟨_, List.mem_map_of_mem hs, by simp [hbad]⟩
    simp [this]

/-- A sender that the resolver refuses makes the event fail. -/
theorem bad_sender_rejects (row : VGen.VersionRow) (e : Event) (err : Err) (valid : Request → Bool) (vf : Bool) :
    verifyEventSignatures row e (.error err) valid vf ≠ .ok () := by
  simp [verifyEventSignatures, requests, requiredSigners]

theorem membership_err (e : Event) (err : Err) (h : membership e = .error err) : err = errRej "membership" := by
  rcases membership_cases e with h' | ⟨m, h', _⟩
  · rw [h'] at h; cases h; rfl
  · rw [h'] at h; cases h

theorem membership_ok_stateKey (e : Event) (m : Bytes) (h : membership e = .ok m) : e.stateKey.isSome = true := by
  rcases membership_cases e with h' | ⟨m', _, hs⟩
  · rw [h'] at h; cases h
  · exact hs

theorem extract_err (c : Option JVal) (err : Err) (h : extractAuthorisedVia c = .error err) :
    err = errRej "authorised-via" := by
  cases c with
  | none => simp [extractAuthorisedVia] at h; exact h.symm
  | some c =>
    cases c with
    | obj kvs =>
      rw [extract_spec] at h
      repeat' split at h
      all_goals first | (cases h; rfl) | cases h
    | null => simp [extractAuthorisedVia] at h
    | bool b => simp [extractAuthorisedVia] at h; exact h.symm
    | num l => simp [extractAuthorisedVia] at h; exact h.symm
    | str s => simp [extractAuthorisedVia] at h; exact h.symm
    | arr xs => simp [extractAuthorisedVia] at h; exact h.symm

theorem restricted_err (row : VGen.VersionRow) (hc : ColsOk row) (c : Option JVal) (err : Err)
    (h : restrictedJoinServername row c = .error err) : err = errRej "authorised-via" := by
  obtain ⟨_, _, hrj2, _⟩ := hc
  unfold restrictedJoinServername at h
  split at h
  · exact extract_err c err h
  · split at h
    · cases h
    · rename_i h1 h2
      rcases hrj2 with h' | h'
      · exact absurd h' h1
      · exact absurd h' h2

/-- No panic site of VerifyEventSignatures is reachable for a registered room version: the dereference of
    the state key is guarded by `Membership()`, and every version has a restricted-join function. -/
theorem no_panic (row : VGen.VersionRow) (hc : ColsOk row) (e : Event) (sd : Except Err (Option Bytes)) (site : String)
    (hsd : sd ≠ .error (.panic site)) : requiredSigners row e sd ≠ .error (.panic site) := by
  intro hcontra
  unfold requiredSigners at hcontra
  cases sd with
  | error err => simp at hcontra; exact hsd (by rw [hcontra])
  | ok sdv =>
    simp only at hcontra
    split at hcontra
    · simp [errRej] at hcontra
    · split at hcontra
      · cases hcontra
      · cases hm : membership e with
        | error err =>
          rw [hm] at hcontra
          simp only at hcontra
          have := membership_err e err hm
          rw [this] at hcontra
          simp [errRej] at hcontra
        | ok m =>
          have hsk := membership_ok_stateKey e m hm
          rw [hm] at hcontra
          simp only at hcontra
          cases hk : e.stateKey with
          | none => simp [hk] at hsk
          | some sk =>
            rw [hk] at hcontra
            have hr : ∀ n2 : List Bytes,
                (if m == b!"join" then
                  match restrictedJoinServername row e.content with
                  | .error err => Except.error err
                  | .ok auth => if auth.isEmpty then Except.ok n2 else .ok (addNeeded auth n2)
                else Except.ok n2) ≠ .error (.panic site) := by
              intro n2 hh
              split at hh
              · cases hr : restrictedJoinServername row e.content with
                | error err =>
                  rw [hr] at hh
                  simp only at hh
                  have := restricted_err row hc _ err hr
                  rw [this] at hh
                  simp [errRej] at hh
                | ok auth =>
                  rw [hr] at hh
                  simp only at hh
                  split at hh <;> cases hh
              · cases hh
            by_cases hinv : (m == b!"invite") = true
            · simp only [hinv, if_true] at hcontra
              cases hsp : splitIDDomain 0x40 sk with
              | none => rw [hsp] at hcontra; simp [errRej] at hcontra
              | some d' =>
                rw [hsp] at hcontra
                simp only at hcontra
                exact hr _ hcontra
            · simp only [hinv] at hcontra
              exact hr _ hcontra

/-! ### The tie to the auth rules (C07): whoever the auth rules take for the authoriser must sign

`Allowed` decides a restricted join on `MemberContent.AuthorisedVia` as `NewMemberContentFromEvent` decodes it
(`memberContent` is its model; the correspondence op `signers.member_reading` compares it, and the property's exact
reading, with the real function).  Before the repair of K1 the two functions read DIFFERENT members: the auth rules a
case variant (`Join_authorised_via_users_server`, last match after folding), the signature check the exact name only —
a join "authorised" by a user whose server never signed was allowed. -/

theorem decString_val_ne {v : Option JVal} (h : (decString v).val ≠ []) : ∃ s, v = some (.str s) ∧ (decString v).val = s := by
  cases v with
  | none => exact absurd rfl h
  | some x => cases x <;> first | exact absurd rfl h | exact ⟨_, rfl, rfl⟩

/-- what `memberContent` returns on an object -/
theorem memberContent_obj {c : Option JVal} {r : MemberReading} (h : memberContent c = some r) (hm : r.membership ≠ []) :
    ∃ kvs, c = some (.obj kvs) ∧ (decString (lookupExact kvs b!"membership")).err = false ∧
      (decString (lookupExact kvs b!"membership")).val = r.membership ∧
      (decString (lookupExact kvs b!"join_authorised_via_users_server")).val = r.authorisedVia := by
  unfold memberContent at h
  cases c with
  | none => cases h
  | some c =>
    cases c with
    | obj kvs =>
      refine ⟨kvs, rfl, ?_⟩
      simp only at h
      split at h
      · cases h
      · split at h
        · cases h
        · rename_i hne
          cases h
          simp only [Bool.or_eq_true, not_or, Bool.not_eq_true] at hne
          exact ⟨hne.1.1, rfl, rfl⟩
    | null => simp only [Option.some.injEq] at h; subst h; exact absurd rfl hm
    | bool b => cases h
    | num l => cases h
    | str s => cases h
    | arr xs => cases h

/-- **The membership the signature check reads is the membership the auth rules read** (both: the member named
    exactly `membership`). -/
theorem membership_eq_auth_reading (e : Event) (r : MemberReading) (m : Bytes)
    (hread : memberContent e.content = some r) (hm : membership e = .ok m) : m = r.membership := by
  unfold membership membershipField at hm
  unfold memberContent at hread
  cases hc : e.content with
  | none => simp [hc] at hm
  | some c =>
    cases c with
    | obj kvs =>
      simp only [hc] at hm hread
      split at hread
      · cases hread
      · split at hread
        · cases hread
        · cases hread
          split at hm
          · cases hm
          · rename_i m' hm'
            split at hm'
            · cases hm'
            · cases hm'
              split at hm
              · cases hm
              · cases hm; rfl
    | null =>
      simp only [hc] at hm hread
      cases hread
      split at hm
      · cases hm
      · cases hm; rfl
    | bool b => simp [hc] at hread
    | num l => simp [hc] at hread
    | str s => simp [hc] at hread
    | arr xs => simp [hc] at hread

/-- **The authoriser of the auth rules must sign.**  In a room version with restricted joins, for a join on which
    `NewMemberContentFromEvent` yields a non-empty `AuthorisedVia`, every required-server list the signature check
    computes contains that user's server (and if the server cannot be determined, there is no list: the event is
    refused).  No hypothesis about how the content spells its member names. -/
theorem auth_authoriser_required (row : VGen.VersionRow) (hc : ColsOk row)
    (hrv : Spec.supportsRestrictedJoins row.key = true) (e : Event) (sd : Except Err (Option Bytes))
    (htype : e.type = b!"m.room.member") (r : MemberReading) (hread : memberContent e.content = some r)
    (hjoin : r.membership = b!"join") (hvia : r.authorisedVia ≠ [])
    (l : List Bytes) (hl : requiredSigners row e sd = .ok l) :
    ∃ dom, Spec.serverOf 0x40 r.authorisedVia = some dom ∧ dom ≠ [] ∧ dom ∈ l := by
  obtain ⟨_, hrj, _, _⟩ := hc
  have hx : (row.restrictedJoinServernameFunc == "extractAuthorisedViaServerName") = true := by rw [hrj]; exact hrv
  have hmne : r.membership ≠ [] := by rw [hjoin]; decide
  obtain ⟨kvs, hcont, _, hmv, hav⟩ := memberContent_obj hread hmne
  have ht : (e.type != b!"m.room.member") = false := by rw [htype]; decide
  unfold requiredSigners at hl
  cases sd with
  | error err => cases hl
  | ok sdv =>
    simp only at hl
    split at hl
    · cases hl
    · rename_i n1 _
      simp only [ht, Bool.false_eq_true, if_false] at hl
      cases hmem : membership e with
      | error err => rw [hmem] at hl; cases hl
      | ok m =>
        have hm := membership_eq_auth_reading e r m hread hmem
        rw [hjoin] at hm
        subst hm
        rw [hmem] at hl
        have hni : (b!"join" == b!"invite") = false := by decide
        have hjj : (b!"join" == b!"join") = true := by decide
        simp only [hni, Bool.false_eq_true, if_false, hjj, if_true] at hl
        unfold restrictedJoinServername at hl
        simp only [hx, if_true, hcont] at hl
        rw [extract_spec] at hl
        obtain ⟨u, hu, huv⟩ := decString_val_ne (v := lookupExact kvs b!"join_authorised_via_users_server") (by rw [hav]; exact hvia)
        rw [hav] at huv
        rw [hu] at hl
        simp only at hl
        rw [huv]
        cases hso : Spec.serverOf 0x40 u with
        | none => rw [hso] at hl; cases hl
        | some dom =>
          rw [hso] at hl
          simp only at hl
          by_cases hde : dom.isEmpty = true
          · simp [hde] at hl
          · have hde' : dom.isEmpty = false := by simpa using hde
            simp only [hde', Bool.false_eq_true, if_false] at hl
            cases hl
            refine ⟨dom, rfl, ?_, self_addNeeded _ _⟩
            intro hd; rw [hd] at hde; exact hde rfl

/-- On a JSON object in the proper sense (no name twice) the reading of the auth rules IS what the content says under
    the exact names (`Spec.memberReading`) — in particular a member under another spelling is not read. -/
theorem memberContent_eq_spec (c : Option JVal) (r r' : MemberReading)
    (h : memberContent c = some r) (hs : Spec.memberReading c = some r') : r = r' := by
  unfold memberContent at h
  unfold Spec.memberReading at hs
  cases c with
  | none => cases h
  | some c =>
    cases c with
    | obj kvs =>
      simp only at h hs
      have key : ∀ name x, (match Spec.exactMember kvs name with
            | .absent => some ([] : Bytes)
            | .dup => none
            | .val (.str x) => some x
            | .val _ => some []) = some x → (decString (lookupExact kvs name)).val = x := by
        intro name x hx
        cases hm : Spec.exactMember kvs name with
        | absent => rw [hm] at hx; cases hx; rw [lookupExact_of_absent hm]; rfl
        | dup => rw [hm] at hx; cases hx
        | val v =>
          rw [hm] at hx
          rw [lookupExact_of_val hm]
          cases v <;> first | (cases hx; rfl)
      split at hs
      · rename_i m v hm hv
        cases hs
        split at h
        · cases h
        · split at h
          · cases h
          · cases h
            rw [key _ _ hm, key _ _ hv]
      · cases hs
    | null => cases h; cases hs; rfl
    | bool b => cases h
    | num l => cases h
    | str s => cases h
    | arr xs => cases h

/-- K1's witness: `@u:evil.com` joins with a case variant of the authoriser member naming `@admin:good.com`. -/
def caseVariantViaWitness : Event :=
  { ver := b!"10", eventID := b!"$e", obj :=
      [(b!"type", .str b!"m.room.member"), (b!"sender", .str b!"@u:evil.com"), (b!"state_key", .str b!"@u:evil.com"),
       (b!"content", .obj [(b!"membership", .str b!"join"),
          (b!"Join_authorised_via_users_server", .str b!"@admin:good.com")])] }

/-- K2's witness: an invite of `@v:good.com` with a second membership under another spelling. -/
def caseVariantMembershipWitness : Event :=
  { ver := b!"10", eventID := b!"$e", obj :=
      [(b!"type", .str b!"m.room.member"), (b!"sender", .str b!"@u:evil.com"), (b!"state_key", .str b!"@v:good.com"),
       (b!"content", .obj [(b!"membership", .str b!"invite"), (b!"Membership", .str b!"leave")])] }

/-- K1: nobody authorised this join for the auth rules (before the repair `NewMemberContentFromEvent` answered
    `@admin:good.com`, whose server was not required).  K2: the invite needs the invited user's server (before the
    repair `Membership()` answered `leave` and `good.com` was not required). -/
example : memberContent caseVariantViaWitness.content = some ⟨b!"join", []⟩ ∧
    requiredList "10" caseVariantViaWitness b!"evil.com" = some [b!"evil.com"] ∧
    memberContent caseVariantMembershipWitness.content = some ⟨b!"invite", []⟩ ∧
    requiredList "10" caseVariantMembershipWitness b!"evil.com" = some [b!"evil.com", b!"good.com"] ∧
    Spec.required "10" caseVariantMembershipWitness (some b!"evil.com") = .servers [b!"evil.com", b!"good.com"] := by
  decide

/-- The authoriser named twice (possible only in events from trusted JSON: the untrusted constructors refuse
    repeated names): gjson — the reader `extractAuthorisedViaServerName` used before the repair — takes the FIRST
    (`getFirst`), the auth rules the LAST; the signature check now requires the server of the user the auth rules take. -/
def dupViaWitness : Event :=
  { ver := b!"10", eventID := b!"$e", obj :=
      [(b!"type", .str b!"m.room.member"), (b!"sender", .str b!"@u:evil.com"), (b!"state_key", .str b!"@u:evil.com"),
       (b!"content", .obj [(b!"membership", .str b!"join"),
          (b!"join_authorised_via_users_server", .str b!"@a:evil.com"),
          (b!"join_authorised_via_users_server", .str b!"@admin:good.com")])] }

example : getFirst [(b!"join_authorised_via_users_server", .str b!"@a:evil.com"),
      (b!"join_authorised_via_users_server", .str b!"@admin:good.com")] b!"join_authorised_via_users_server" =
    some (.str b!"@a:evil.com") := rfl

example : memberContent dupViaWitness.content = some ⟨b!"join", b!"@admin:good.com"⟩ ∧
    requiredList "10" dupViaWitness b!"evil.com" = some [b!"evil.com", b!"good.com"] := by decide

theorem decodeMapping_of_auth (mm : Option JVal) (h1 : (Auth.decodeMxidMapping mm).snd = false)
    (h2 : (Auth.decodeMxidMapping mm).fst.err = false) : ∃ x, decodeMapping mm = some x := by
  unfold Auth.decodeMxidMapping at h1 h2
  unfold decodeMapping
  cases mm with
  | none => exact ⟨_, rfl⟩
  | some v =>
    cases v with
    | null => exact ⟨_, rfl⟩
    | obj kvs =>
      simp only at h1 h2 ⊢
      cases hl : lookupField kvs b!"signatures" with
      | none => simp only [h2, Bool.false_eq_true, if_false]; exact ⟨_, rfl⟩
      | some sv =>
        rw [hl] at h1
        cases sv with
        | null => simp only [Sign.decodeOuterInto, h2, Bool.false_eq_true, if_false]; exact ⟨_, rfl⟩
        | bool b => simp at h1
        | num l => simp at h1
        | str s => simp at h1
        | arr xs => simp at h1
        | obj o => simp at h1
    | bool b => simp at h2
    | num l => simp at h2
    | str s => simp at h2
    | arr xs => simp at h2

/-- **Bridge to C07's model.**  `VModel/Auth.lean` models `NewMemberContentFromEvent` (the reading of the auth rules)
    with the same exact lookups as `memberContent` (the reading of the signature checks): whenever the auth rules
    decode a content, the signature checks read the same membership and the same authorising user from it — for
    every content, case variants of the member names included. -/
theorem memberContent_eq_auth (kvs : List (Bytes × JVal))
    (mc : Auth.MemberContent) (hd : Auth.decodeMemberContent (some (.obj kvs)) = .ok mc) :
    memberContent (some (.obj kvs)) = some ⟨mc.membership, mc.authorisedVia⟩ := by
  unfold Auth.decodeMemberContent at hd
  unfold memberContent
  simp only at hd
  simp only
  generalize lookupExact kvs b!"mxid_mapping" = mm at hd ⊢
  generalize decString (lookupExact kvs b!"membership") = m at hd ⊢
  generalize Auth.decodeThirdParty (lookupExact kvs b!"third_party_invite") = tp at hd ⊢
  generalize decString (lookupExact kvs b!"join_authorised_via_users_server") = av at hd ⊢
  split at hd
  · cases hd
  · rename_i hun
    split at hd
    · cases hd
    · rename_i hne
      cases hd
      simp only [Bool.or_eq_true, not_or, Bool.not_eq_true] at hne
      obtain ⟨x, hx⟩ := decodeMapping_of_auth mm (by simpa using hun) hne.2
      rw [hx]
      simp [hne.1.1.1, hne.1.1.2, hne.1.2]
/-- the hypothesis of `memberContent_eq_auth` holds of an ordinary restricted join … -/
example : (match Auth.decodeMemberContent (some (.obj [(b!"membership", .str b!"join"),
      (b!"join_authorised_via_users_server", .str b!"@a:hs2")])) with
    | .ok mc => mc.membership == b!"join" && mc.authorisedVia == b!"@a:hs2"
    | .error _ => false) = true := by decide
example : memberContent (some (.obj [(b!"membership", .str b!"join"), (b!"join_authorised_via_users_server", .str b!"@a:hs2")])) =
    some ⟨b!"join", b!"@a:hs2"⟩ := by decide
/-- … and the inputs on which the two readings used to differ (a case variant of a member name, alone or after the
    exact name) are now read the same way by both: no authorising user, membership `invite`. -/
example : (match Auth.decodeMemberContent (some (.obj [(b!"membership", .str b!"join"),
      (b!"Join_authorised_via_users_server", .str b!"@admin:good.com")])) with
    | .ok mc => mc.membership == b!"join" && mc.authorisedVia == []
    | .error _ => false) = true := by decide
example : (match Auth.decodeMemberContent (some (.obj [(b!"membership", .str b!"invite"), (b!"Membership", .str b!"leave")])) with
    | .ok mc => mc.membership == b!"invite"
    | .error _ => false) = true := by decide
example : memberContent (some (.obj [(b!"membership", .str b!"invite"), (b!"Membership", .str b!"leave")])) =
    some ⟨b!"invite", []⟩ := by decide

/-! ### The pseudo-ID room version (org.matrix.msc4014) -/

/-- In a pseudo-ID room the event verifies only if the sender's own key validly signed it. -/
theorem pseudo_sender_required (row : VGen.VersionRow) (e : Event) (valid : Request → Bool) (vf : Bool)
    (selfValid : Bytes → Bool) (h : (verifyPseudo row e valid vf selfValid).verdict = .ok ()) :
    selfValid e.sender = true := by
  unfold verifyPseudo at h
  simp only at h
  have fin : ∀ (asked : Option (List Bytes)) (needed : List Bytes), e.sender ∈ needed →
      (if needed.all selfValid then (Except.ok () : Except Err Unit) else .error (errRej "signature")) = .ok () →
      selfValid e.sender = true := by
    intro asked needed hm hh
    by_cases ha : needed.all selfValid = true
    · exact List.all_eq_true.mp ha _ hm
    · simp [ha] at hh
  split at h
  · exact fin none _ (by simp) h
  · split at h
    · cases h
    · rename_i m hm
      split at h
      · rename_i r hr
        -- stage 1 failed: the verdict is an error
        split at hr
        · split at hr
          · cases hr; cases h
          · split at hr
            · cases hr; cases h
            · split at hr
              · cases hr; cases h
              · split at hr
                · cases hr; cases h
                · split at hr
                  · cases hr; cases h
                  · split at hr
                    · cases hr
                    · cases hr; cases h
        · cases hr
      · rename_i asked hs
        have hn1 : e.sender ∈ (if m == b!"invite" then
            match e.stateKey with
            | some sk => addNeeded sk [e.sender]
            | none => [e.sender]
          else [e.sender]) := by
          split
          · split
            · exact mem_addNeeded' _ _ _ (by simp)
            · simp
          · simp
        split at h
        · split at h
          · cases h
          · rename_i auth hr
            refine fin asked _ ?_ h
            split
            · exact hn1
            · exact mem_addNeeded' _ _ _ hn1
        · exact fin asked _ hn1 h

/-- …and, for a join, only if the content carries an `mxid_mapping` FOR THE SENDER'S KEY (`user_room_key` = the
    sender: K3 — before the repair any validly signed mapping, e.g. a victim's public one, was enough) whose
    signers include the server of the user it names, and the caller's verifier accepts the mapping for EVERY server
    listed in `mxid_mapping.signatures` — in particular for the user's (the sender's) server. -/
theorem pseudo_mapping_signers_valid (row : VGen.VersionRow) (e : Event) (valid : Request → Bool) (vf : Bool)
    (selfValid : Bytes → Bool) (htype : e.type = b!"m.room.member") (hjoin : membership e = .ok b!"join")
    (h : (verifyPseudo row e valid vf selfValid).verdict = .ok ()) :
    ∃ mp userServer, getMXIDMapping e = .ok mp ∧ vf = false ∧ mp.userRoomKey = e.sender ∧
      Spec.serverOf 0x40 mp.userID = some userServer ∧ userServer ∈ mp.servers ∧
      ∀ s ∈ mp.servers, valid ⟨s, e.originServerTS, strictValidity row⟩ = true := by
  unfold verifyPseudo at h
  have ht : (e.type != b!"m.room.member") = false := by rw [htype]; decide
  simp only [ht, hjoin] at h
  cases hg : getMXIDMapping e with
  | error err => simp [hg] at h
  | ok mp =>
    simp only [hg] at h
    by_cases hkey : (mp.userRoomKey != e.sender) = true
    · simp [hkey] at h
    have hkey' : mp.userRoomKey = e.sender := by simpa using hkey
    have hkeyb : (mp.userRoomKey != e.sender) = false := by simpa using hkey
    simp only [hkeyb, Bool.false_eq_true, if_false] at h
    cases hsp : splitIDDomain 0x40 mp.userID with
    | none => simp [hsp] at h
    | some us =>
      simp only [hsp] at h
      by_cases hc : mp.servers.contains us = true
      · simp only [hc, Bool.not_true, Bool.false_eq_true, if_false] at h
        refine ⟨mp, us, rfl, ?_⟩
        cases vf with
        | true => simp at h
        | false =>
          refine ⟨rfl, hkey', by rw [← splitIDDomain_eq_serverOf 0x40 (by decide)]; exact hsp, by simpa using hc, ?_⟩
          by_cases ha : mp.servers.all (fun s => valid ⟨s, e.originServerTS, strictValidity row⟩) = true
          · intro s hs
            exact List.all_eq_true.mp ha s hs
          · simp [ha] at h
      · have hc' : mp.servers.contains us = false := by simpa using hc
        simp only [hc', Bool.not_false, if_true] at h
        cases h

/-- **K3, as a refusal**: a pseudo-ID join whose `mxid_mapping` is for another key than the sender never verifies —
    whatever the caller's verifier says about the mapping's signatures and whoever self-signed the event. -/
theorem pseudo_foreign_mapping_rejected (row : VGen.VersionRow) (e : Event) (valid : Request → Bool) (vf : Bool)
    (selfValid : Bytes → Bool) (htype : e.type = b!"m.room.member") (hjoin : membership e = .ok b!"join")
    (mp : Mapping) (hmp : getMXIDMapping e = .ok mp) (hkey : mp.userRoomKey ≠ e.sender) :
    (verifyPseudo row e valid vf selfValid).verdict ≠ .ok () := by
  intro h
  obtain ⟨mp', _, hmp', _, hk, _⟩ := pseudo_mapping_signers_valid row e valid vf selfValid htype hjoin h
  rw [hmp] at hmp'
  cases hmp'
  exact hkey hk

/-- A join whose mapping carries no signatures is rejected whatever the verifier and the sender's key say
    (before /repo e791b10 it verified as long as the sender's own key had signed the event). -/
def unsignedMappingWitness : Event :=
  { ver := b!"org.matrix.msc4014", eventID := b!"$e", obj :=
      [(b!"type", .str b!"m.room.member"), (b!"sender", .str b!"KEY"), (b!"state_key", .str b!"KEY"),
       (b!"content", .obj [(b!"membership", .str b!"join"),
          (b!"mxid_mapping", .obj [(b!"user_room_key", .str b!"KEY"), (b!"user_id", .str b!"@victim:hs1"),
            (b!"signatures", .obj [])])])] }

/-- the same event with the mapping signed by the user's server -/
def signedMappingWitness : Event :=
  { ver := b!"org.matrix.msc4014", eventID := b!"$e", obj :=
      [(b!"type", .str b!"m.room.member"), (b!"sender", .str b!"KEY"), (b!"state_key", .str b!"KEY"),
       (b!"content", .obj [(b!"membership", .str b!"join"),
          (b!"mxid_mapping", .obj [(b!"user_room_key", .str b!"KEY"), (b!"user_id", .str b!"@victim:hs1"),
            (b!"signatures", .obj [(b!"hs1", .obj [(b!"ed25519:1", .str b!"AAAA")])])])])] }

/-- K3: the attacker's key `KEY` sends (and self-signs) a join carrying the victim's public mapping
    (`VICTIMKEY` ↦ `@victim:hs1`, signed by hs1) -/
def foreignMappingWitness : Event :=
  { ver := b!"org.matrix.msc4014", eventID := b!"$e", obj :=
      [(b!"type", .str b!"m.room.member"), (b!"sender", .str b!"KEY"), (b!"state_key", .str b!"KEY"),
       (b!"content", .obj [(b!"membership", .str b!"join"),
          (b!"mxid_mapping", .obj [(b!"user_room_key", .str b!"VICTIMKEY"), (b!"user_id", .str b!"@victim:hs1"),
            (b!"signatures", .obj [(b!"hs1", .obj [(b!"ed25519:1", .str b!"AAAA")])])])])] }

def pseudoAccepted (e : Event) (valid : Request → Bool) (selfValid : Bytes → Bool) : Bool :=
  match VGen.roomVersions.find? (fun r => r.key == "org.matrix.msc4014") with
  | some row => match (verifyPseudo row e valid false selfValid).verdict with
    | .ok _ => true
    | .error _ => false
  | none => false

example : pseudoAccepted unsignedMappingWitness (fun _ => true) (fun n => n == b!"KEY") = false ∧
    pseudoAccepted signedMappingWitness (fun r => r.server == b!"hs1") (fun n => n == b!"KEY") = true ∧
    pseudoAccepted signedMappingWitness (fun _ => false) (fun n => n == b!"KEY") = false ∧
    -- K3: refused although every signature involved is valid (it verified before the repair)
    pseudoAccepted foreignMappingWitness (fun _ => true) (fun _ => true) = false := by decide

/-- The bulk entry point against the specification: in a batch, the event at position `i` verifies exactly when every
    server the property requires for THAT event is answered valid at its origin_server_ts under the version's rule. -/
theorem verify_all_spec (row : VGen.VersionRow) (hc : ColsOk row) (es : List Event) (d : Event → Bytes)
    (valid : Event → Request → Bool) (i : Nat) (h : i < es.length)
    (l : List Bytes) (hl : Spec.required row.key es[i] (some (d es[i])) = .servers l) :
    (verifyAllEventSignatures row es (fun e => .ok (some (d e))) valid (fun _ => false))[i]? = some (.ok ()) ↔
      ∀ s ∈ l, valid es[i] ⟨s, es[i].originServerTS, Spec.strictFrom5 row.key⟩ = true := by
  simp only [verifyAllEventSignatures, List.getElem?_map, List.getElem?_eq_getElem h, Option.map_some, Option.some.injEq]
  exact verify_iff_spec row hc es[i] (d es[i]) l hl (valid es[i])

end V.C06
