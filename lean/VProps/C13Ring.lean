/-
  C13 ∘ C12 — `VerifyHTTPRequest` with the real `KeyRing` (key database + fetchers) as its `JSONVerifier`.

  `VProps/C13.lean` proves what an accepted / refused request means for an arbitrary verifier (and for a key TABLE);
  `VProps/C12.lean` proves what a success of `KeyRing.VerifyJSONs` means.  Here the two are composed, the way
  `VProps/C06Ring.lean` does it for events: `VerifyHTTPRequest` hands the key ring ONE request — the claimed origin,
  the time of receipt, `StrictValiditySignatureCheck`, the request object — and reads results[0].  So the clause
  "refused if the signing key was not valid at the time of receipt" is a statement about the keys the key ring's
  database and FETCHERS return, and about how a fetcher maps a notary's answer: `perspective_last_document_decides`
  says which entry `PerspectiveKeyFetcher.FetchKeys` holds for a key ID after an answer of several documents.
-/
import VProps.C13
import VProps.C12
namespace V.C13Ring
open V V.Json V.FedReq

/-- The JSONVerifier of VerifyHTTPRequest when it is a `KeyRing`: one request for the claimed origin at the time of
    receipt under the strict rule.  `msg origin obj sigs` = what the key ring sees of the request object: whether
    `ListKeyIDs` succeeds and the entries of `signatures[origin]` (with, per entry, whether `VerifyJSON` reaches the
    signature check and under which keys the signature verifies). -/
def ringRequest (msg : Str → JVal → List (Str × Str) → Bool × List KeyRing.SigInfo)
    (origin : Str) (atTs : Nat) (obj : JVal) (sigs : List (Str × Str)) : KeyRing.Request :=
  { server := origin, atTS := atTs, strict := true, listOk := (msg origin obj sigs).1, sigs := (msg origin obj sigs).2 }

/-- `results, err := keys.VerifyJSONs(…one request…)`; err → 500, `results[0].Error != nil` → 401 -/
def ringVerifier (msg : Str → JVal → List (Str × Str) → Bool × List KeyRing.SigInfo)
    (db : KeyRing.FetchScript) (storeOk : Bool) (fetchers : List KeyRing.FetchScript) (wallclock : Nat) : Verifier :=
  fun origin atTs obj sigs =>
    match (KeyRing.verifyJSONs [ringRequest msg origin atTs obj sigs] db storeOk fetchers wallclock).1 with
    | .error _ => .fatal
    | .ok rs => if rs[0]? = some true then .accepted else .rejected

/-- **Soundness end to end.**  If VerifyHTTPRequest accepts with a key ring as verifier, then some ed25519 signature of
    the reported origin on the request object verifies under a public key that the key database or one of the fetchers
    returned for that (origin, key ID), and that key was valid at the time of receipt in the property's sense: before its
    expired_ts if it is an expired (retired) key, otherwise at or before its valid_until_ts and at most seven days
    ahead of the wall clock. -/
theorem accepted_with_keyring_sound (req : HttpReq) (now : Millis) (destination : Str) (isLocal : Option (Str → Bool))
    (msg : Str → JVal → List (Str × Str) → Bool × List KeyRing.SigInfo)
    (db : KeyRing.FetchScript) (storeOk : Bool) (fetchers : List KeyRing.FetchScript) (wc : Nat) (r : Fields)
    (h : verifyHTTPRequest req now destination isLocal (ringVerifier msg db storeOk fetchers wc) = .ok r) :
    ∃ cv, contentValue r.content = some cv ∧
      ∃ sig ∈ (msg r.origin (signingObject cv r.destination r.method r.origin r.uri) r.signatures).2,
        KeyRing.isAlgorithmSupported sig.keyID = true ∧ ∃ k : KeyRing.KeyRes,
        ((∃ fromDB, db = some fromDB ∧ (⟨r.origin, sig.keyID⟩, k) ∈ fromDB) ∨
         (∃ m, some m ∈ fetchers ∧ (⟨r.origin, sig.keyID⟩, k) ∈ m)) ∧
        sig.verifies k.key = true ∧
        KeyRing.Spec.validAt k now true wc = true ∧
        (k.expiredTS ≠ 0 → now < k.expiredTS) ∧
        (k.expiredTS = 0 → now ≤ k.validUntilTS ∧ now ≤ wc + KeyRing.sevenDaysMs) := by
  obtain ⟨_, _, _, _, _, _, _, _, cv, hcv, hacc⟩ := V.C13.accepted_facts req now destination isLocal _ r h
  refine ⟨cv, hcv, ?_⟩
  unfold ringVerifier at hacc
  generalize hrun : KeyRing.verifyJSONs
    [ringRequest msg r.origin now (signingObject cv r.destination r.method r.origin r.uri) r.signatures] db storeOk fetchers wc = out at hacc
  obtain ⟨res, tr⟩ := out
  cases res with
  | error e => simp at hacc
  | ok rs =>
    simp only at hacc
    split at hacc
    · rename_i h0
      obtain ⟨q, hq, _, sig, hsig, halg, k, hsrc, hv, _, _, hver⟩ := V.C12.success_sound hrun 0 h0
      simp only [List.getElem?_cons_zero, Option.some.injEq] at hq
      subst hq
      refine ⟨sig, hsig, halg, k, hsrc, hver, ?_, ?_, ?_⟩
      · rw [KeyRing.spec_validAt_eq]; exact hv
      · intro hne
        have := (V.C12.wasValidAt_spec k now true wc).1 hv
        simpa [ringRequest, hne] using this
      · intro he
        have := V.C12.strict_within_validity k now wc he hv
        exact ⟨this.2.1, this.2.2⟩
    · cases hacc

/-- **"Refused if the signing key was not valid at the time of receipt"**, for the key ring: when every key that the
    database or a fetcher holds for the claimed origin fails the validity clause at the time of receipt, the request
    is refused — whatever the signatures are. -/
theorem refused_with_keyring_if_key_invalid (req : HttpReq) (now : Millis) (destination : Str) (isLocal : Option (Str → Bool))
    (msg : Str → JVal → List (Str × Str) → Bool × List KeyRing.SigInfo)
    (db : KeyRing.FetchScript) (storeOk : Bool) (fetchers : List KeyRing.FetchScript) (wc : Nat)
    (hkeys : ∀ a, claimed req = some a → ∀ (kid : Bytes) (k : KeyRing.KeyRes),
      ((∃ fromDB, db = some fromDB ∧ (⟨a.origin, kid⟩, k) ∈ fromDB) ∨ (∃ m, some m ∈ fetchers ∧ (⟨a.origin, kid⟩, k) ∈ m)) →
      KeyRing.Spec.validAt k now true wc = false) :
    ∀ r, verifyHTTPRequest req now destination isLocal (ringVerifier msg db storeOk fetchers wc) ≠ .ok r := by
  intro r hok
  obtain ⟨_, _, sig, _, _, k, hsrc, _, hv, _⟩ :=
    accepted_with_keyring_sound req now destination isLocal msg db storeOk fetchers wc r hok
  obtain ⟨_, _, _, _, ⟨a, hcl, _, ho, _⟩, _⟩ := V.C13.accepted_facts req now destination isLocal _ r hok
  have := hkeys a hcl sig.keyID k (ho ▸ hsrc)
  rw [this] at hv; cases hv

/-! ### What the perspective fetcher holds after an answer of several documents -/

open KeyRing in
/-- folding `m[f e] = g e` over a list: a key none of the elements writes keeps its value -/
theorem lookup_foldl_insert_other {γ : Type} (f : γ → KeyReq) (g : γ → KeyRes) (q : KeyReq) :
    ∀ (l : List γ) (m : KeyMap), (∀ e ∈ l, f e ≠ q) →
      AList.lookup q (l.foldl (fun m e => AList.insert (f e) (g e) m) m) = AList.lookup q m
  | [], _, _ => rfl
  | a :: l, m, h => by
    rw [List.foldl_cons, lookup_foldl_insert_other f g q l _ (fun e he => h e (List.mem_cons_of_mem _ he))]
    exact AList.lookup_insert_ne _ _ (fun hq => h a (List.mem_cons_self ..) hq.symm)

open KeyRing in
/-- … and a key that some element writes ends up with the value they (all) write -/
theorem lookup_foldl_insert_mem {γ : Type} (f : γ → KeyReq) (g : γ → KeyRes) (q : KeyReq) (v : KeyRes) :
    ∀ (l : List γ) (m : KeyMap), (∃ e ∈ l, f e = q) → (∀ e ∈ l, f e = q → g e = v) →
      AList.lookup q (l.foldl (fun m e => AList.insert (f e) (g e) m) m) = some v
  | [], _, h, _ => by obtain ⟨_, he, _⟩ := h; cases he
  | a :: l, m, _, hall => by
    rw [List.foldl_cons]
    by_cases hl : ∃ e ∈ l, f e = q
    · exact lookup_foldl_insert_mem f g q v l _ hl (fun e he => hall e (List.mem_cons_of_mem _ he))
    · have hno : ∀ e ∈ l, f e ≠ q := fun e he hq => hl ⟨e, he, hq⟩
      rw [lookup_foldl_insert_other f g q l _ hno]
      have ha : f a = q := by
        rename_i hex
        obtain ⟨e, he, hq⟩ := hex
        rcases List.mem_cons.1 he with rfl | he
        · exact hq
        · exact absurd hq (hno e he)
      rw [← ha, AList.lookup_insert_self, hall a (List.mem_cons_self ..) ha]

open KeyRing in
/-- `mapServerKeysToPublicKeyLookupResult`: a key ID listed under `old_verify_keys` ends up as an EXPIRED entry —
    `expired_ts` as listed, no valid_until_ts — whatever the map held for it before and whether or not the same document
    also lists it under `verify_keys`. -/
theorem mapServerKeys_old_entry (keys : ServerKeys) (acc : KeyMap) (e : OldKeyEntry) (he : e ∈ keys.oldVerifyKeys)
    (huniq : ∀ e' ∈ keys.oldVerifyKeys, e'.keyID = e.keyID → e' = e) :
    AList.lookup ⟨keys.serverName, e.keyID⟩ (mapServerKeys keys acc) =
      some { key := e.key, validUntilTS := 0, expiredTS := e.expiredTS } := by
  unfold mapServerKeys
  apply lookup_foldl_insert_mem (fun (e : OldKeyEntry) => (⟨keys.serverName, e.keyID⟩ : KeyReq))
    (fun e => { key := e.key, validUntilTS := 0, expiredTS := e.expiredTS })
  · exact ⟨e, he, rfl⟩
  · intro e' he' hq
    have : e'.keyID = e.keyID := by
      have := congrArg KeyReq.keyID hq
      simpa using this
    rw [huniq e' he' this]

open KeyRing in
/-- **The last document decides.**  When `PerspectiveKeyFetcher.FetchKeys` succeeds on an answer whose LAST document
    lists key ID `e.keyID` of its server under `old_verify_keys`, the fetcher's result holds that key as expired at
    `e.expired_ts` — however many earlier documents of the answer list the same key ID as a current key with a
    valid_until_ts in the future.  (A fetcher that kept, per key ID, the entry with the highest valid_until_ts would
    keep the retired key valid; the correspondence ops `keyring.perspective_history` compare exactly this.) -/
theorem perspective_last_document_decides (rs : List NotaryResponse) (r : NotaryResponse) (m : KeyMap)
    (h : perspectiveFetch (some (rs ++ [r])) = some m) (e : OldKeyEntry) (he : e ∈ r.keys.oldVerifyKeys)
    (huniq : ∀ e' ∈ r.keys.oldVerifyKeys, e'.keyID = e.keyID → e' = e) :
    AList.lookup ⟨r.keys.serverName, e.keyID⟩ m = some { key := e.key, validUntilTS := 0, expiredTS := e.expiredTS } := by
  unfold perspectiveFetch at h
  simp only at h
  generalize ([] : KeyMap) = acc at h
  induction rs generalizing acc with
  | nil =>
    simp only [List.nil_append, perspectiveLoop] at h
    split at h
    · cases h
    · split at h
      · cases h
      · cases h
      · split at h
        · cases h
        · simp only [Option.some.injEq] at h
          subst h
          exact mapServerKeys_old_entry r.keys acc e he huniq
  | cons a rest ih =>
    simp only [List.cons_append, perspectiveLoop] at h
    split at h
    · cases h
    · split at h
      · cases h
      · cases h
      · split at h
        · cases h
        · exact ih _ h

/-- such an entry is not valid at or after its expired_ts (so a request signed only with that key and received then is
    refused when this fetcher's answer is the key ring's only source: `refused_with_keyring_if_key_invalid`) -/
theorem retired_entry_invalid (key : Bytes) (expired t wc : Nat) (h0 : expired ≠ 0) (ht : expired ≤ t) :
    KeyRing.Spec.validAt { key := key, validUntilTS := 0, expiredTS := expired } t true wc = false := by
  unfold KeyRing.Spec.validAt
  simp only [ne_eq, h0, not_false_eq_true, ↓reduceIte, decide_eq_false_iff_not, Nat.not_lt]
  exact ht

/-! ### Non-vacuity -/

open KeyRing in
/-- an answer [older document: key 1 current until 9000; newer document: key 2 current, key 1 retired at 4000]:
    the fetch succeeds and holds key 1 as expired at 4000 -/
example :
    let k1 : Bytes := List.replicate 32 1
    let k2 : Bytes := List.replicate 32 2
    let older : NotaryResponse := { keys := { serverName := [97], validUntilTS := 9000, verifyKeys := [⟨algPrefix ++ [49], k1, true⟩], oldVerifyKeys := [] },
                                    listOk := true, notarySigs := [⟨[110], true, true⟩] }
    let newer : NotaryResponse := { keys := { serverName := [97], validUntilTS := 12000, verifyKeys := [⟨algPrefix ++ [50], k2, true⟩], oldVerifyKeys := [⟨algPrefix ++ [49], k1, 4000⟩] },
                                    listOk := true, notarySigs := [⟨[110], true, true⟩] }
    (perspectiveFetch (some ([older] ++ [newer]))).map (AList.lookup ⟨[97], algPrefix ++ [49]⟩) =
      some (some { key := k1, validUntilTS := 0, expiredTS := 4000 }) := by
  decide

end V.C13Ring
