/-
  C07 — Event authorisation decides exactly what the Matrix auth rules decide.

  `V.AuthRules.rulesAllow d e p sig` (VModel/AuthRules.lean) is the transcription of the authorisation rules with the
  departures `d`; `V.Auth.allowedFresh e p sig` (VModel/Auth.lean) is the model of `Allowed(event, authEvents)`.
-/
import VProofs.AuthRulesEvents
import VProofs.AuthRulesMember
import VProofs.AuthRulesNoPanic
namespace V.C07
open V V.Json V.GoJson V.Auth V.AuthRules

/-- the model's verdict as a decision: `none` = panic / outside the modelled domain -/
abbrev decision (v : Verdict) : Option Bool := Verdict.decision v

theorem decision_of_accepts (r : R Unit) (b : Bool) (h : accepts r = some b) :
    Verdict.decision (match (motive := R Unit → Verdict) r with | .ok () => Verdict.ok | .error v => v) = some b := by
  cases r with
  | ok u => cases u; exact h
  | error v => cases v <;> first | exact h | cases h

/-- the components of `inDomain` -/
theorem inDomain_parts {p : Provider} {e : Event} (h : inDomain p e = true) :
    e.row.isSome = true ∧ e.roomID ≠ [] ∧ (parseUserID? e.sender).isSome = true := by
  unfold inDomain at h
  simp only [Bool.and_eq_true, bne_iff_ne, ne_eq] at h
  exact ⟨h.1.1.1, h.1.1.2, h.1.2⟩

/-- The model's check with a freshly built context decides what the rules (departures D1–D17) decide, for every
    event class that is judged against the power levels — the second dispatch of `Ctx.allowed` against `rulesDecisionPL`. -/
theorem ctx_dispatchPL_eq_spec (c : Ctx) (p : Provider) (hf : Fresh p c) (hpl : c.plErr = none) (e : Event) (sig : Bool)
    (sv : SpecVersion) (hsv : specVersion? e.ver = some sv) (hdom : inDomain p e = true)
    (h1' : (e.type == b!"m.room.create") = false) (h2' : (e.type == b!"m.room.aliases") = false) :
    accepts (c.dispatchPL e sig) = some (rulesDecisionPL lib c p sv e sig) := by
  obtain ⟨hrowS, hroom, hsender⟩ := inDomain_parts hdom
  cases hrow : e.row with
  | none => simp [hrow] at hrowS
  | some row =>
    obtain ⟨sv', hsv', hri⟩ := rowIs_of (ver := e.ver) (row := row) hrow
    have : sv' = sv := by rw [hsv] at hsv'; cases hsv'; rfl
    subst this
    unfold inDomain at hdom
    unfold Ctx.dispatchPL rulesDecisionPL
    simp only [h1', h2', Bool.false_eq_true, if_false, Bool.false_and] at hdom ⊢
    by_cases h3 : (e.type == b!"m.room.member") = true
    · simp only [h3, if_true, Bool.and_eq_true, Bool.not_eq_true'] at hdom ⊢
      exact member_eq c p hf e sig row sv' hrow hri hsender hroom hdom.2.1.1.1 hdom.2.1.1.2 hdom.2.1.2 hdom.2.2
    · have h3' : (e.type == b!"m.room.member") = false := by simpa using h3
      simp only [h3', Bool.false_eq_true, if_false, Bool.and_eq_true, Bool.not_eq_true'] at hdom ⊢
      by_cases h4 : (e.type == b!"m.room.power_levels") = true
      · simp only [h4, if_true] at hdom ⊢
        exact power_levels_eq c p hf hpl e row sv' hrow hri hsender hroom hdom.2.1 hdom.2.2
      · have h4' : (e.type == b!"m.room.power_levels") = false := by simpa using h4
        simp only [h4', Bool.false_eq_true, if_false]
        by_cases h5 : (e.type == b!"m.room.redaction") = true
        · simp only [h5, if_true]
          exact redaction_eq c p hf e hsender hroom hdom.2.1
        · have h5' : (e.type == b!"m.room.redaction") = false := by simpa using h5
          simp only [h5', Bool.false_eq_true, if_false]
          exact default_eq c p hf e hsender hroom hdom.2.1

/-- … for every event class: m.room.create and m.room.aliases are decided without the power levels; for every other
    event a power-levels auth event that cannot be read (`powerLevelsErr` in the code, `plUnusable` in the rules)
    refuses, and otherwise `ctx_dispatchPL_eq_spec` applies. -/
theorem ctx_dispatch_eq_spec (c : Ctx) (p : Provider) (hf : Fresh p c) (e : Event) (sig : Bool) (sv : SpecVersion)
    (hsv : specVersion? e.ver = some sv) (hdom : inDomain p e = true) :
    accepts (c.dispatch e sig) = some (rulesDecision lib c p sv e sig) := by
  obtain ⟨hrowS, hroom, hsender⟩ := inDomain_parts hdom
  cases hrow : e.row with
  | none => simp [hrow] at hrowS
  | some row =>
    obtain ⟨sv', hsv', hri⟩ := rowIs_of (ver := e.ver) (row := row) hrow
    have : sv' = sv := by rw [hsv] at hsv'; cases hsv'; rfl
    subst this
    have hdom0 := hdom
    unfold inDomain at hdom
    unfold Ctx.dispatch rulesDecision
    have hd6 : aliasesRuleApplies lib sv' = true := rfl
    by_cases h1 : (e.type == b!"m.room.create") = true
    · simp only [h1, if_true, Bool.and_eq_true] at hdom ⊢
      have hd1 : sv'.createRules = 3 ∨ (domainFromID (e.roomID.drop 1)).isSome = true := by
        have := hdom.2.1
        simp only [hsv, Option.map_some, Bool.or_eq_true, beq_iff_eq, Option.some.injEq] at this
        exact this
      exact create_eq c e row sv' hrow hri hsender hd1 hdom.2.2
    · have h1' : (e.type == b!"m.room.create") = false := by simpa using h1
      simp only [h1', Bool.false_eq_true, if_false] at hdom ⊢
      by_cases h2 : (e.type == b!"m.room.aliases") = true
      · simp only [h2, if_true, hd6, Bool.and_true]
        exact aliases_eq c p hf e hsender hroom
      · have h2' : (e.type == b!"m.room.aliases") = false := by simpa using h2
        simp only [h2', Bool.false_eq_true, if_false, Bool.false_and]
        obtain ⟨hs1, hs2⟩ := plErr_spec hf
        cases hpe : c.plErr with
        | some v =>
          rw [hpe] at hs1
          simp only [Option.isSome_some] at hs1
          rw [← hs1]
          simp only [if_true]
          rcases hs2 v hpe with rfl | rfl <;> rfl
        | none =>
          rw [hpe] at hs1
          simp only [Option.isSome_none] at hs1
          rw [← hs1]
          simp only [Bool.false_eq_true, if_false]
          exact ctx_dispatchPL_eq_spec c p hf hpe e sig sv' hsv hdom0 h1' h2'

/-- `allowerContext.allowed`: behind the `Valid()` gate (which the rules have as "auth events from different rooms are
    refused") the dispatch decides what the rules decide. -/
theorem ctx_allowed_eq_spec (c : Ctx) (p : Provider) (hf : Fresh p c) (hv : p.valid = true) (e : Event) (sig : Bool)
    (sv : SpecVersion) (hsv : specVersion? e.ver = some sv) (hdom : inDomain p e = true) :
    accepts (c.allowed e sig) = some (rulesDecision lib c p sv e sig) := by
  unfold Ctx.allowed
  rw [hf.provider, hv]
  exact ctx_dispatch_eq_spec c p hf e sig sv hsv hdom

/-- **C07.**  For every event, room version, set of auth events and signature oracle: whenever the authorisation rules
    — the transcription `rulesAllow` with exactly the documented departures of DESIGN.md §6.1 (`Departures.library`,
    D1–D17) — give an answer, the model of `Allowed` gives the same answer; it neither panics nor leaves the modelled
    domain.  (`rulesAllow … = none` only outside the modelled domain `inDomain`.) -/
theorem allowed_eq_spec (e : Event) (p : Provider) (sig : Bool) (b : Bool)
    (h : rulesAllow Departures.library e p sig = some b) : decision (allowedFresh e p sig) = some b := by
  unfold rulesAllow at h
  unfold allowedFresh decision
  by_cases hv : (!p.valid) = true
  · simp only [hv, if_true, Option.some.injEq] at h ⊢
    subst h; rfl
  · simp only [hv, if_false, Bool.false_eq_true] at h ⊢
    rw [update_empty] at h ⊢
    cases hfo : freshOf p with
    | error v => rw [hfo] at h; cases h
    | ok c =>
      rw [hfo] at h
      simp only at h ⊢
      have hf := fresh_of hfo
      cases hsv : specVersion? e.ver with
      | none => rw [hsv] at h; cases h
      | some sv =>
        rw [hsv] at h
        simp only at h
        by_cases hdom : inDomain p e = true
        · simp only [hdom, if_true, Option.some.injEq] at h
          subst h
          have hv' : p.valid = true := by simpa using hv
          exact decision_of_accepts _ _ (ctx_allowed_eq_spec c p hf hv' e sig sv hsv hdom)
        · simp only [hdom, if_false, Bool.false_eq_true] at h
          cases h

/-- **Auth events from different rooms are refused.** -/
theorem different_rooms_refused (e : Event) (p : Provider) (sig : Bool) (h : ¬ p.valid = true) :
    allowedFresh e p sig = .notAllowed := by
  unfold allowedFresh
  simp [h]

/-- … and the REUSED checker refuses them too (32272dd; before, only the entry point `Allowed` asked): whatever
    context state resolution has built up, a check against a provider holding events of several rooms is refused. -/
theorem reused_checker_refuses_different_rooms (c : Ctx) (e : Event) (sig : Bool) (h : ¬ c.provider.valid = true) :
    c.allowed e sig = notAllowed := by
  unfold Ctx.allowed
  simp [h]

/-- **No input makes the model of `Allowed` panic** (given a room ID the event constructors accept): the room-ID
    comparison with the create content and the regenerated version table dominate every nil-create dereference,
    `RoomID.Domain()` and nil-function site of the model.  (Also used by C18.) -/
theorem no_panic_allowed (e : Event) (p : Provider) (sig : Bool) (hr : e.roomID ≠ []) (hw : RoomIDWellFormed e) :
    ∀ site, allowedFresh e p sig ≠ .panic site := by
  intro site
  unfold allowedFresh
  split
  · intro h; cases h
  · rw [update_empty]
    cases hfo : freshOf p with
    | error v =>
      obtain ⟨w, rfl⟩ := freshOf_error hfo
      intro h; cases h
    | ok c =>
      simp only
      have := (np_allowed c p (fresh_of hfo) e sig hr hw).h site
      cases hca : c.allowed e sig with
      | ok u => intro h; cases h
      | error v =>
        simp only
        intro h
        subst h
        exact this hca

/-! ## Per event class (what `allowed_eq_spec` is assembled from)

Each statement: for a freshly built context `c` of the auth events `p` (`Fresh p c`), an event `e` of the class inside
the modelled domain, the model's check decides exactly the rule's formula.  `lib` = `Departures.library`. -/

/-- rule 1 -/
theorem create_eq_spec (c : Ctx) (p : Provider) (hf : Fresh p c) (e : Event) (sig : Bool) (sv : SpecVersion)
    (hsv : specVersion? e.ver = some sv) (hdom : inDomain p e = true) (ht : (e.type == b!"m.room.create") = true) :
    accepts (c.createEventAllowed e) = some (ruleCreate lib sv e) := by
  have := ctx_dispatch_eq_spec c p hf e sig sv hsv hdom
  unfold Ctx.dispatch rulesDecision at this
  simpa only [ht, if_true] using this

/-- rule 4 (D6: in every version) -/
theorem aliases_eq_spec (c : Ctx) (p : Provider) (hf : Fresh p c) (e : Event) (hdom : inDomain p e = true) :
    accepts (c.aliasEventAllowed e) = some (ruleAliases Departures.library c e) := by
  obtain ⟨_, hroom, hsender⟩ := inDomain_parts hdom
  exact aliases_eq c p hf e hsender hroom

/-- rule 5 -/
theorem member_eq_spec (c : Ctx) (p : Provider) (hf : Fresh p c) (hpl : c.plErr = none) (e : Event) (sig : Bool) (sv : SpecVersion)
    (hsv : specVersion? e.ver = some sv) (hdom : inDomain p e = true) (ht : (e.type == b!"m.room.member") = true) :
    accepts (c.memberEventAllowed e sig) = some (ruleMember lib c p sv e sig) := by
  have h1 : (e.type == b!"m.room.create") = false := by
    have : e.type = b!"m.room.member" := by simpa using ht
    rw [this]; decide
  have h2 : (e.type == b!"m.room.aliases") = false := by
    have : e.type = b!"m.room.member" := by simpa using ht
    rw [this]; decide
  have := ctx_dispatchPL_eq_spec c p hf hpl e sig sv hsv hdom h1 h2
  unfold Ctx.dispatchPL rulesDecisionPL at this
  simpa only [ht, if_true] using this

/-- rules 5.3–5.8 once the contents are loaded: the sender changes their own membership (`membershipAllowedSelf`) … -/
theorem member_self_eq_spec {m : MembershipAllower} {i : MemberInputs} {row : VGen.VersionRow} (h : Rel m i row)
    (hself : i.selfSent = true) (hso : i.snd = i.old) : accepts m.allowedSelf = some (ruleByMembership lib i) :=
  allowedSelf_eq h hself hso

/-- … or somebody else's (`membershipAllowedOther`) -/
theorem member_other_eq_spec {m : MembershipAllower} {i : MemberInputs} {row : VGen.VersionRow} (h : Rel m i row)
    (hself : i.selfSent = false) : accepts m.allowedOther = some (ruleByMembership lib i) :=
  allowedOther_eq h hself

/-- the check the model runs after the first-join and third-party special cases -/
def memberCheck (m : MembershipAllower) (i : MemberInputs) : R Unit := if i.selfSent then m.allowedSelf else m.allowedOther

theorem memberCheck_eq {m : MembershipAllower} {i : MemberInputs} {row : VGen.VersionRow} (h : Rel m i row)
    (hso : i.selfSent = true → i.snd = i.old) : accepts (memberCheck m i) = some (ruleByMembership lib i) := by
  unfold memberCheck
  cases hs : i.selfSent with
  | true => simpa using allowedSelf_eq h hs (hso hs)
  | false => simpa using allowedOther_eq h hs

/-- 5.3 join (every join rule, restricted joins with every authoriser state; D9, D16; D12 is in `ruleFirstJoin`) -/
theorem member_join_eq_spec {m : MembershipAllower} {i : MemberInputs} {row : VGen.VersionRow} (h : Rel m i row)
    (hso : i.selfSent = true → i.snd = i.old) (hn : i.new.membership = b!"join") :
    accepts (memberCheck m i) = some (ruleJoin lib i) := by
  rw [memberCheck_eq h hso]; simp [ruleByMembership, hn]

/-- 5.4.2–5.4.5 invite (no third-party invite) -/
theorem member_invite_eq_spec {m : MembershipAllower} {i : MemberInputs} {row : VGen.VersionRow} (h : Rel m i row)
    (hso : i.selfSent = true → i.snd = i.old) (hn : i.new.membership = b!"invite") :
    accepts (memberCheck m i) = some (ruleInvite Departures.library i) := by
  rw [memberCheck_eq h hso]; simp [ruleByMembership, hn]

/-- 5.5 leave (D1, D10) -/
theorem member_leave_eq_spec {m : MembershipAllower} {i : MemberInputs} {row : VGen.VersionRow} (h : Rel m i row)
    (hso : i.selfSent = true → i.snd = i.old) (hn : i.new.membership = b!"leave") :
    accepts (memberCheck m i) = some (ruleLeave Departures.library i) := by
  rw [memberCheck_eq h hso]; simp [ruleByMembership, hn]

/-- 5.6 ban -/
theorem member_ban_eq_spec {m : MembershipAllower} {i : MemberInputs} {row : VGen.VersionRow} (h : Rel m i row)
    (hso : i.selfSent = true → i.snd = i.old) (hn : i.new.membership = b!"ban") :
    accepts (memberCheck m i) = some (ruleBan Departures.library i) := by
  rw [memberCheck_eq h hso]; simp [ruleByMembership, hn]

/-- 5.7 knock (D9) -/
theorem member_knock_eq_spec {m : MembershipAllower} {i : MemberInputs} {row : VGen.VersionRow} (h : Rel m i row)
    (hso : i.selfSent = true → i.snd = i.old) (hn : i.new.membership = b!"knock") :
    accepts (memberCheck m i) = some (ruleKnock Departures.library i) := by
  rw [memberCheck_eq h hso]; simp [ruleByMembership, hn]

/-- 5.4.1 third-party invites (D7): the model's `membershipAllowedFromThirdPartyInvite` against the rule (the empty token,
    5.4.1.3, is refused when the contents are loaded: see `member_eq_spec`) -/
theorem third_party_eq_spec (i : MemberInputs) (s : ThirdPartySigned) (tpKeys : Nat)
    (htp : thirdPartyKeys i.p i.new = some tpKeys) (htok : s.token.isEmpty = false) :
    accepts (if (i.target != s.mxid) = true then notAllowed
             else if (decide (tpKeys > 0) && s.sigs.any (fun dk => (b!"ed25519").isPrefixOf dk.2) && i.sig3pid) = true then pure ()
             else notAllowed) = some (ruleThirdPartyInvite Departures.library i s) := by
  unfold ruleThirdPartyInvite
  have hd7 : Departures.library.d7_thirdPartySynapse = true := rfl
  rw [htp, htok]
  simp only [hd7, Bool.true_or, Bool.and_true, Bool.not_false, Bool.true_and]
  by_cases hmx : i.target = s.mxid
  · simp only [hmx, bne_self_eq_false, Bool.false_eq_true, if_false, beq_self_eq_true, Bool.true_and]
    cases hcond : (decide (tpKeys > 0) && s.sigs.any (fun dk => (b!"ed25519").isPrefixOf dk.2) && i.sig3pid) <;> simp_all
  · simp [hmx]

/-- rule 10 (D3, D4, D8, D11, D15; the C08 predicates) -/
theorem power_levels_eq_spec (c : Ctx) (p : Provider) (hf : Fresh p c) (hpl : c.plErr = none) (e : Event) (sig : Bool) (sv : SpecVersion)
    (hsv : specVersion? e.ver = some sv) (hdom : inDomain p e = true) (ht : (e.type == b!"m.room.power_levels") = true) :
    accepts (c.powerLevelsEventAllowed e) = some (rulePowerLevels lib c p sv e) := by
  have hty : e.type = b!"m.room.power_levels" := by simpa using ht
  have h1 : (e.type == b!"m.room.create") = false := by rw [hty]; decide
  have h2 : (e.type == b!"m.room.aliases") = false := by rw [hty]; decide
  have h3 : (e.type == b!"m.room.member") = false := by rw [hty]; decide
  have := ctx_dispatchPL_eq_spec c p hf hpl e sig sv hsv hdom h1 h2
  unfold Ctx.dispatchPL rulesDecisionPL at this
  simpa only [ht, h3, if_true, Bool.false_eq_true, if_false] using this

/-- rule 11 (D5, D17) -/
theorem redaction_eq_spec (c : Ctx) (p : Provider) (hf : Fresh p c) (hpl : c.plErr = none) (e : Event) (sig : Bool) (sv : SpecVersion)
    (hsv : specVersion? e.ver = some sv) (hdom : inDomain p e = true) (ht : (e.type == b!"m.room.redaction") = true) :
    accepts (c.redactEventAllowed e) = some (ruleRedaction lib c p e) := by
  have hty : e.type = b!"m.room.redaction" := by simpa using ht
  have h1 : (e.type == b!"m.room.create") = false := by rw [hty]; decide
  have h2 : (e.type == b!"m.room.aliases") = false := by rw [hty]; decide
  have h3 : (e.type == b!"m.room.member") = false := by rw [hty]; decide
  have h4 : (e.type == b!"m.room.power_levels") = false := by rw [hty]; decide
  have := ctx_dispatchPL_eq_spec c p hf hpl e sig sv hsv hdom h1 h2
  unfold Ctx.dispatchPL rulesDecisionPL at this
  simpa only [ht, h3, h4, if_true, Bool.false_eq_true, if_false] using this

/-- rules 3, m.federate, 6–9, 12: every other event type -/
theorem default_eq_spec (c : Ctx) (p : Provider) (hf : Fresh p c) (hpl : c.plErr = none) (e : Event) (sig : Bool) (sv : SpecVersion)
    (hsv : specVersion? e.ver = some sv) (hdom : inDomain p e = true)
    (h1 : (e.type == b!"m.room.create") = false) (h2 : (e.type == b!"m.room.aliases") = false)
    (h3 : (e.type == b!"m.room.member") = false) (h4 : (e.type == b!"m.room.power_levels") = false)
    (h5 : (e.type == b!"m.room.redaction") = false) :
    accepts (c.defaultEventAllowed e) = some (ruleCommon lib c p e) := by
  have := ctx_dispatchPL_eq_spec c p hf hpl e sig sv hsv hdom h1 h2
  unfold Ctx.dispatchPL rulesDecisionPL at this
  simpa only [h3, h4, h5, Bool.false_eq_true, if_false] using this

/-! ## The per-version switches the rules use, against the regenerated table -/

/-- **Regenerated-table obligation.**  The library's table (VGen.roomVersions, regenerated from eventversion.go on every
    run) registers exactly the versions of the specification's table, and its switches `checkKnockingAllowedFunc`,
    `checkRestrictedJoinAllowedFunc`, `checkCreateEvent`, `parsePowerLevelsFunc`, `checkPowerLevelEvent`,
    `privilegedCreators` are the ones the room-version pages call for: knocking from v7, restricted joins from v8,
    create rules v1–10 / v11 / v12, integer levels from v10, notification levels from v6, creators in v12; unstable
    versions as the comments in eventversion.go define them. -/
theorem version_switches_eq_spec :
    VGen.roomVersions.map (·.key) = specTable.map (·.1) ∧
    VGen.roomVersions.map rowColumns = specTable.map (fun r => expectedColumns r.2) :=
  ⟨table_keys, table_columns⟩

/-- the specification's table, spelled out -/
theorem spec_table_stable :
    (specTable.filter (fun r => r.2.knock)).map (·.1) = ["10", "11", "12", "7", "8", "9", "org.matrix.hydra.11", "org.matrix.msc3667", "org.matrix.msc3787", "org.matrix.msc4014"] ∧
    (specTable.filter (fun r => r.2.restricted)).map (·.1) = ["10", "11", "12", "8", "9", "org.matrix.hydra.11", "org.matrix.msc3787", "org.matrix.msc4014"] ∧
    (specTable.filter (fun r => r.2.integerLevels)).map (·.1) = ["10", "11", "12", "org.matrix.hydra.11", "org.matrix.msc3667", "org.matrix.msc4014"] ∧
    (specTable.filter (fun r => r.2.createRules == 2)).map (·.1) = ["11"] ∧
    (specTable.filter (fun r => r.2.createRules == 3)).map (·.1) = ["12", "org.matrix.hydra.11"] ∧
    (specTable.filter (fun r => r.2.creators)).map (·.1) = ["12", "org.matrix.hydra.11"] ∧
    (specTable.filter (fun r => r.2.aliases)).map (·.1) = ["1", "2", "3", "4", "5"] ∧
    (specTable.filter (fun r => !r.2.notifications)).map (·.1) = ["1", "2", "3", "4", "5"] := by
  decide

/-! ## Every departure is real: concrete witnesses -/

/-- a small concrete event (event format 2, room `!r:x`) -/
def mkEv (ver id type sender : Bytes) (sk : Option Bytes) (content : List (Bytes × JVal))
    (prev : List Bytes := [b!"$p"]) (extra : List (Bytes × JVal) := []) : Event :=
  { ver := ver, eventID := id,
    obj := [(b!"type", .str type), (b!"sender", .str sender), (b!"room_id", .str b!"!r:x"), (b!"content", .obj content),
            (b!"prev_events", .arr (prev.map .str))]
           ++ (match sk with | some k => [(b!"state_key", .str k)] | none => []) ++ extra }

def wCreate (ver : Bytes := b!"10") (content : List (Bytes × JVal) := [(b!"creator", .str b!"@c:x")]) : Event :=
  mkEv ver b!"$c" b!"m.room.create" b!"@c:x" (some []) content []
def wMember (u m : Bytes) (ver : Bytes := b!"10") : Event :=
  mkEv ver (b!"$m" ++ u) b!"m.room.member" u (some u) [(b!"membership", .str m)]
def wJoinRule (jr : Bytes) (ver : Bytes := b!"10") : Event :=
  mkEv ver b!"$j" b!"m.room.join_rules" b!"@c:x" (some []) [(b!"join_rule", .str jr)]
def wPL (content : List (Bytes × JVal)) (sender : Bytes := b!"@c:x") (id : Bytes := b!"$pl") (ver : Bytes := b!"10") : Event :=
  mkEv ver id b!"m.room.power_levels" sender (some []) content
def wMemberEv (sender target m : Bytes) (ver : Bytes := b!"10") (more : List (Bytes × JVal) := []) (prev : List Bytes := [b!"$p"]) : Event :=
  mkEv ver b!"$e" b!"m.room.member" sender (some target) ((b!"membership", .str m) :: more) prev
def users (l : List (Bytes × Bytes)) : Bytes × JVal := (b!"users", .obj (l.map (fun kv => (kv.1, .num kv.2))))

def off1 : Departures := { Departures.library with d1_selfLeaveLeave := false }
def off2 : Departures := { Departures.library with d2_creatorMaxLevel := false }
def off3 : Departures := { Departures.library with d3_effectiveValues := false }
def off4 : Departures := { Departures.library with d4_eventEntryDefault := false }
def off5 : Departures := { Departures.library with d5_redactionByCreateContent := false }
def off6 : Departures := { Departures.library with d6_aliasesAllVersions := false }
def off7 : Departures := { Departures.library with d7_thirdPartySynapse := false }
def off8 : Departures := { Departures.library with d8_looseUserKeys := false }
def off9 : Departures := { Departures.library with d9_knockRestrictedEarly := false }
def off10 : Departures := { Departures.library with d10_unbanBanLevelOnly := false }
def off11 : Departures := { Departures.library with d11_notificationsGE := false }
def off12 : Departures := { Departures.library with d12_firstJoinBySelf := false }
def off13 : Departures := { Departures.library with d13_creatorString := false }
def off14 : Departures := { Departures.library with d14_pseudoIDs := false }
def off15 : Departures := { Departures.library with d15_pythonInt := false }
def off16 : Departures := { Departures.library with d16_invitedJoinsAnyRule := false }
def off17 : Departures := { Departures.library with d17_redactsNeedsDomain := false }

/-- (event, auth events, signature oracle) -/
abbrev Witness := Event × List Event × Bool
def Witness.rules (w : Witness) (d : Departures) : Option Bool := rulesAllow d w.1 (Provider.ofEvents w.2.1) w.2.2
def Witness.model (w : Witness) : Option Bool := decision (allowedFresh w.1 (Provider.ofEvents w.2.1) w.2.2)

/-- D1: a user who has left sends `leave` for themselves -/
def wD1 : Witness := (wMemberEv b!"@a:x" b!"@a:x" b!"leave", [wCreate, wMember b!"@a:x" b!"leave"], false)
/-- D2: no power-levels event; the creator gives themselves level 150 -/
def wD2 : Witness := (wPL [users [(b!"@c:x", b!"150")]], [wCreate, wMember b!"@c:x" b!"join"], false)
/-- D3: no power-levels event; the creator sets `ban` to 2^53 -/
def wD3 : Witness := (wPL [(b!"ban", .num b!"9007199254740992")], [wCreate, wMember b!"@c:x" b!"join"], false)
/-- D4: events_default is 75; a level-50 user adds an `events` entry at 10 -/
def wD4 : Witness :=
  (wPL [users [(b!"@a:x", b!"50"), (b!"@c:x", b!"100")], (b!"events_default", .num b!"75"), (b!"events", .obj [(b!"x", .num b!"10")])] b!"@a:x" b!"$e",
   [wCreate, wMember b!"@a:x" b!"join", wPL [users [(b!"@a:x", b!"50"), (b!"@c:x", b!"100")], (b!"events_default", .num b!"75")]], false)
/-- D5: a v10 room whose create content has no room_version: redaction of another server's event by a level-0 member -/
def wD5 : Witness :=
  (mkEv b!"10" b!"$e" b!"m.room.redaction" b!"@a:x" none [] [b!"$p"] [(b!"redacts", .str b!"$x:y")],
   [wCreate, wMember b!"@a:x" b!"join"], false)
/-- D6: a v10 m.room.aliases event from a user who is not in the room -/
def wD6 : Witness := (mkEv b!"10" b!"$e" b!"m.room.aliases" b!"@a:x" (some b!"x") [], [wCreate], false)
/-- D7: a third-party invite (valid signature) whose target is banned -/
def wD7 : Witness :=
  (wMemberEv b!"@c:x" b!"@t:x" b!"invite" b!"10"
     [(b!"third_party_invite", .obj [(b!"signed", .obj [(b!"mxid", .str b!"@t:x"), (b!"token", .str b!"tok"),
        (b!"signatures", .obj [(b!"id", .obj [(b!"ed25519:0", .str b!"sig")])])])])],
   [wCreate, wMember b!"@c:x" b!"join", wMember b!"@t:x" b!"ban",
    mkEv b!"10" b!"$t" b!"m.room.third_party_invite" b!"@c:x" (some b!"tok") [(b!"public_keys", .arr [.obj [(b!"public_key", .str b!"AAAA")]])]], true)
/-- D8: a `users` key with an upper-case localpart -/
def wD8 : Witness := (wPL [users [(b!"@Alice:x", b!"0")]], [wCreate, wMember b!"@c:x" b!"join"], false)
/-- D9: a knock under `knock_restricted` in room version 8 -/
def wD9 : Witness :=
  (wMemberEv b!"@a:x" b!"@a:x" b!"knock" b!"8", [wCreate b!"8", wJoinRule b!"knock_restricted" b!"8"], false)
/-- D10: unban by a user at the ban level of a target with a higher level -/
def wD10 : Witness :=
  (wMemberEv b!"@a:x" b!"@t:x" b!"leave",
   [wCreate, wMember b!"@a:x" b!"join", wMember b!"@t:x" b!"ban", wPL [users [(b!"@a:x", b!"50"), (b!"@t:x", b!"75")]]], false)
/-- D11: a level-50 user lowers the `room` notification level from 50 -/
def wD11 : Witness :=
  (wPL [users [(b!"@a:x", b!"50")], (b!"notifications", .obj [(b!"room", .num b!"40")])] b!"@a:x" b!"$e",
   [wCreate, wMember b!"@a:x" b!"join", wPL [users [(b!"@a:x", b!"50")], (b!"notifications", .obj [(b!"room", .num b!"50")])]], false)
/-- D12: somebody else sends the creator's first join -/
def wD12 : Witness := (wMemberEv b!"@a:x" b!"@c:x" b!"join" b!"10" [] [b!"$c"], [wCreate], false)
/-- D13: a v10 create event with `"creator": null` -/
def wD13 : Witness := (wCreate b!"10" [(b!"creator", .null)], [], false)
/-- D14: pseudo-ID room, m.federate = false: a join whose mxid_mapping names a user on the creator's server -/
def wD14 : Witness :=
  (wMemberEv b!"@a:y" b!"@a:y" b!"join" b!"org.matrix.msc4014"
     [(b!"mxid_mapping", .obj [(b!"user_room_key", .str b!"k"), (b!"user_id", .str b!"@a:x")])],
   [wCreate b!"org.matrix.msc4014" [(b!"creator", .str b!"@c:x"), (b!"m.federate", .bool false)],
    wJoinRule b!"public" b!"org.matrix.msc4014"], false)
/-- D15: a v9 power-levels event with `"ban": "50"` -/
def wD15 : Witness := (wPL [(b!"ban", .str b!"50")] b!"@c:x" b!"$pl" b!"9", [wCreate b!"9", wMember b!"@c:x" b!"join" b!"9"], false)

/-- D16: join rule `private`; an invited user joins -/
def wD16 : Witness := (wMemberEv b!"@a:x" b!"@a:x" b!"join", [wCreate, wJoinRule b!"private", wMember b!"@a:x" b!"invite"], false)
/-- D17: create content without room_version (v1 rules): the creator (maximal level) redacts, `redacts` absent -/
def wD17 : Witness := (mkEv b!"10" b!"$e" b!"m.room.redaction" b!"@c:x" none [], [wCreate, wMember b!"@c:x" b!"join"], false)

/-- **Every documented departure is real**: on its witness, switching the flag off changes the verdict of the rules. -/
theorem spec_delta_documented :
    (wD1.rules .library = some true ∧ wD1.rules off1 = some false) ∧
    (wD2.rules .library = some true ∧ wD2.rules off2 = some false) ∧
    (wD3.rules .library = some false ∧ wD3.rules off3 = some true) ∧
    (wD4.rules .library = some false ∧ wD4.rules off4 = some true) ∧
    (wD5.rules .library = some false ∧ wD5.rules off5 = some true) ∧
    (wD6.rules .library = some true ∧ wD6.rules off6 = some false) ∧
    (wD7.rules .library = some true ∧ wD7.rules off7 = some false) ∧
    (wD8.rules .library = some true ∧ wD8.rules off8 = some false) ∧
    (wD9.rules .library = some true ∧ wD9.rules off9 = some false) ∧
    (wD10.rules .library = some true ∧ wD10.rules off10 = some false) ∧
    (wD11.rules .library = some false ∧ wD11.rules off11 = some true) ∧
    (wD12.rules .library = some false ∧ wD12.rules off12 = some true) ∧
    (wD13.rules .library = some false ∧ wD13.rules off13 = some true) ∧
    (wD14.rules .library = some true ∧ wD14.rules off14 = some false) ∧
    (wD15.rules .library = some true ∧ wD15.rules off15 = some false) ∧
    (wD16.rules .library = some true ∧ wD16.rules off16 = some false) ∧
    (wD17.rules .library = some false ∧ wD17.rules off17 = some true) := by
  decide +kernel

/-- on every one of these witnesses the model decides what the rules (library flags) decide -/
theorem witnesses_model_eq_library :
    [wD1, wD2, wD3, wD4, wD5, wD6, wD7, wD8, wD9, wD10, wD11, wD12, wD13, wD14, wD15, wD16, wD17].all
      (fun w => w.model == w.rules .library) = true := by
  decide +kernel

/-! ### differences found while proving C07 and repaired in /repo: the former failing inputs -/

/-- join rule `public`; a knocking user joins (fixed: 6fda2cc) -/
def wF1 : Witness := (wMemberEv b!"@a:x" b!"@a:x" b!"join", [wCreate, wJoinRule b!"public", wMember b!"@a:x" b!"knock"], false)
/-- the creator sends an m.room.third_party_invite event whose state_key is another user's ID (fixed: 17893e1) -/
def wF2 : Witness :=
  (mkEv b!"10" b!"$e" b!"m.room.third_party_invite" b!"@c:x" (some b!"@o:x") [], [wCreate, wMember b!"@c:x" b!"join"], false)
/-- a v11 create event with room_version "99" (fixed: 81e30aa) -/
def wF3 : Witness := (wCreate b!"11" [(b!"room_version", .str b!"99")], [], false)
/-- a join in a public room whose content carries a stray `third_party_invite: {}` (fixed: ba68227) -/
def wF4 : Witness :=
  (wMemberEv b!"@a:x" b!"@a:x" b!"join" b!"10" [(b!"third_party_invite", .obj [])], [wCreate, wJoinRule b!"public"], false)
/-- a v10 room with m.federate = false: a user of another server joins with `mxid_mapping.user_id` on the creator's
    server (fixed: c0fa8cc) -/
def wF5 : Witness :=
  (wMemberEv b!"@a:y" b!"@a:y" b!"join" b!"10"
     [(b!"mxid_mapping", .obj [(b!"user_room_key", .str b!"k"), (b!"user_id", .str b!"@a:x")])],
   [wCreate b!"10" [(b!"creator", .str b!"@c:x"), (b!"m.federate", .bool false)], wJoinRule b!"public"], false)

/-- on the five formerly failing inputs the model of the repaired code decides what the rules decide -/
theorem repaired_witnesses :
    (wF1.model = some true ∧ wF1.rules .library = some true) ∧
    (wF2.model = some true ∧ wF2.rules .library = some true) ∧
    (wF3.model = some false ∧ wF3.rules .library = some false) ∧
    (wF4.model = some true ∧ wF4.rules .library = some true) ∧
    (wF5.model = some false ∧ wF5.rules .library = some false) := by
  decide +kernel

/-! ### round 4: the audited defects A1–A4, repaired in /repo (548eba1, 33ac4f7, d1e42dd, dbee289): the former failing inputs -/

/-- events of a version-12 room whose create event has ID `$c` carry the room ID `!c` -/
def r12 : List (Bytes × JVal) := [(b!"room_id", .str b!"!c")]
def wCreate12 (content : List (Bytes × JVal) := []) : Event := mkEv b!"12" b!"$c" b!"m.room.create" b!"@c:x" (some []) content []
def wMember12 (u : Bytes) : Event :=
  mkEv b!"12" (b!"$m" ++ u) b!"m.room.member" u (some u) [(b!"membership", .str b!"join")] [b!"$p"] r12

/-- A1: version 12; the creator (privileged, not listed in `users`) adds `notifications.room = 60` -/
def wA1 : Witness :=
  (mkEv b!"12" b!"$e" b!"m.room.power_levels" b!"@c:x" (some [])
     [users [(b!"@a:x", b!"50")], (b!"notifications", .obj [(b!"room", .num b!"60")])] [b!"$p"] r12,
   [wCreate12, wMember12 b!"@c:x",
    mkEv b!"12" b!"$pl" b!"m.room.power_levels" b!"@c:x" (some []) [users [(b!"@a:x", b!"50")]] [b!"$p"] r12], false)
/-- A1: an additional creator, no power-levels event, sets `notifications.room = 100` -/
def wA1b : Witness :=
  (mkEv b!"12" b!"$e" b!"m.room.power_levels" b!"@b:x" (some []) [(b!"notifications", .obj [(b!"room", .num b!"100")])] [b!"$p"] r12,
   [wCreate12 [(b!"additional_creators", .arr [.str b!"@b:x"])], wMember12 b!"@b:x"], false)
/-- … while an ordinary member at level 50 still cannot raise it above their level -/
def wA1c : Witness :=
  (mkEv b!"12" b!"$e" b!"m.room.power_levels" b!"@a:x" (some [])
     [users [(b!"@a:x", b!"50")], (b!"notifications", .obj [(b!"room", .num b!"60")])] [b!"$p"] r12,
   [wCreate12, wMember12 b!"@a:x",
    mkEv b!"12" b!"$pl" b!"m.room.power_levels" b!"@c:x" (some []) [users [(b!"@a:x", b!"50")], (b!"state_default", .num b!"50")] [b!"$p"] r12], false)
/-- A2: version 10, `{"ban": null}` / `{"events": null}` / `{"users": {"@a:x": null}}` from the creator -/
def wA2a : Witness := (wPL [(b!"ban", .null)], [wCreate, wMember b!"@c:x" b!"join"], false)
def wA2b : Witness := (wPL [(b!"events", .null)], [wCreate, wMember b!"@c:x" b!"join"], false)
def wA2c : Witness := (wPL [(b!"users", .obj [(b!"@a:x", .null)])], [wCreate, wMember b!"@c:x" b!"join"], false)
/-- A3: the power-levels AUTH event has `"ban": "x"` (unreadable in every version); a level-0 member sends
    m.room.join_rules — and, for comparison, the same without any power-levels event (defaults: refused as well) and an
    m.room.create / m.room.aliases event, whose rules do not look at the power levels -/
def wA3 : Witness :=
  (mkEv b!"10" b!"$e" b!"m.room.join_rules" b!"@a:x" (some []) [(b!"join_rule", .str b!"public")],
   [wCreate, wMember b!"@a:x" b!"join", wPL [users [(b!"@c:x", b!"100")], (b!"ban", .str b!"x")]], false)
def wA3v6 : Witness :=
  (mkEv b!"6" b!"$e" b!"m.room.join_rules" b!"@a:x" (some []) [(b!"join_rule", .str b!"public")],
   [wCreate b!"6", wMember b!"@a:x" b!"join" b!"6", wPL [users [(b!"@c:x", b!"100")], (b!"ban", .str b!"x")] b!"@c:x" b!"$pl" b!"6"], false)
def wA3none : Witness :=
  (mkEv b!"10" b!"$e" b!"m.room.join_rules" b!"@a:x" (some []) [(b!"join_rule", .str b!"public")],
   [wCreate, wMember b!"@a:x" b!"join"], false)
def wA3aliases : Witness :=
  (mkEv b!"10" b!"$e" b!"m.room.aliases" b!"@a:x" (some b!"x") [],
   [wCreate, wPL [users [(b!"@c:x", b!"100")], (b!"ban", .str b!"x")]], false)
/-- A4: a user who knocked sends `leave` for themselves, in a version without knocking (5) and in one with (7) -/
def wA4 : Witness := (wMemberEv b!"@a:x" b!"@a:x" b!"leave" b!"5", [wCreate b!"5", wMember b!"@a:x" b!"knock" b!"5"], false)
def wA4v7 : Witness := (wMemberEv b!"@a:x" b!"@a:x" b!"leave" b!"7", [wCreate b!"7", wMember b!"@a:x" b!"knock" b!"7"], false)

/-- on the formerly failing inputs of round 4 the model of the repaired code decides what the rules decide:
    A1 accepted (was refused), A2 / A3 / A4 refused (were accepted); the neighbouring inputs keep their verdicts -/
theorem repaired_witnesses_r4 :
    (wA1.model = some true ∧ wA1.rules .library = some true) ∧
    (wA1b.model = some true ∧ wA1b.rules .library = some true) ∧
    (wA1c.model = some false ∧ wA1c.rules .library = some false) ∧
    (wA2a.model = some false ∧ wA2a.rules .library = some false) ∧
    (wA2b.model = some false ∧ wA2b.rules .library = some false) ∧
    (wA2c.model = some false ∧ wA2c.rules .library = some false) ∧
    (wA3.model = some false ∧ wA3.rules .library = some false) ∧
    (wA3v6.model = some false ∧ wA3v6.rules .library = some false) ∧
    (wA3none.model = some false ∧ wA3none.rules .library = some false) ∧
    (wA3aliases.model = some true ∧ wA3aliases.rules .library = some true) ∧
    (wA4.model = some false ∧ wA4.rules .library = some false) ∧
    (wA4v7.model = some true ∧ wA4v7.rules .library = some true) := by
  decide +kernel

/-! ### Second audit, X3: member names of the contents the rules read are EXACT

The contents of m.room.create, m.room.power_levels, m.room.join_rules and m.room.third_party_invite events used to be
decoded by encoding/json alone, which also assigns `Join_rule`, `USERS`, `ſtate_default`, `M.FEDERATE` … to the struct
fields (last match wins, maps merge).  The rules name `join_rule`, `users`, `state_default`, `m.federate`; the repaired
code restricts an object content to exactly those names first (`exactMembersOnly`), and the decoders of `VModel.Auth` —
the parsed inputs of model and rules alike — read with `lookupExact`. -/

/-- the exact lookup of one of `names` does not see members of other names -/
theorem lookupExact_restrict (names : List Bytes) (kvs : List (Bytes × JVal)) (n : Bytes) (hn : n ∈ names) :
    lookupExact (kvs.filter (fun kv => names.contains kv.1)) n = lookupExact kvs n := by
  unfold lookupExact
  suffices h : ∀ acc : Option JVal,
      (kvs.filter (fun kv => names.contains kv.1)).foldl (fun acc kv => if kv.1 == n then some kv.2 else acc) acc
        = kvs.foldl (fun acc kv => if kv.1 == n then some kv.2 else acc) acc from h none
  induction kvs with
  | nil => intro acc; rfl
  | cons kv rest ih =>
    intro acc
    by_cases hk : names.contains kv.1 = true
    · simp only [List.filter_cons, hk, if_true, List.foldl_cons]
      exact ih _
    · have hne : (kv.1 == n) = false := by
        cases hb : kv.1 == n with
        | false => rfl
        | true =>
          have : kv.1 = n := by simpa using hb
          rw [this] at hk
          exact absurd (List.contains_iff_mem.mpr hn) hk
      simp only [List.filter_cons, hk, Bool.false_eq_true, if_false, List.foldl_cons, hne]
      exact ih _

/-- the member names each content is read by -/
def createNames : List Bytes := [b!"m.federate", b!"creator", b!"room_version", b!"type", b!"additional_creators", b!"predecessor"]
def powerLevelNames : List Bytes :=
  [b!"ban", b!"invite", b!"kick", b!"redact", b!"users_default", b!"events_default", b!"state_default", b!"users", b!"events",
   b!"notifications"]
def joinRuleNames : List Bytes := [b!"join_rule", b!"allow"]
def thirdPartyInviteNames : List Bytes := [b!"display_name", b!"key_validity_url", b!"public_key", b!"public_keys"]

/-- an object content restricted to the members of the given names (what `exactMembersOnly` hands to json.Unmarshal) -/
def restrictTo (names : List Bytes) (kvs : List (Bytes × JVal)) : Option JVal :=
  some (.obj (kvs.filter (fun kv => names.contains kv.1)))

/-- **Every content decoder of the auth rules reads exactly the member names the Matrix rules name**: members under any
    other name — case variants included — may be added, changed or removed without any effect on what is decoded; in
    particular the content and its redacted form (which keeps exact names only) decode alike in these members. -/
theorem contents_read_by_exact_names (kvs : List (Bytes × JVal)) (d : PowerLevels) :
    (decodeCreateContent (restrictTo createNames kvs)).map (fun c => (c.federate, c.roomVersion, c.additionalCreators))
      = (decodeCreateContent (some (.obj kvs))).map (fun c => (c.federate, c.roomVersion, c.additionalCreators)) ∧
    decodeJoinRule (restrictTo joinRuleNames kvs) = decodeJoinRule (some (.obj kvs)) ∧
    decodeThirdPartyInviteKeys (restrictTo thirdPartyInviteNames kvs) = decodeThirdPartyInviteKeys (some (.obj kvs)) ∧
    (parseIntegerPowerLevels (restrictTo powerLevelNames kvs) d).map (fun p => (p.ban, p.invite, p.kick, p.redact, p.usersDefault, p.eventsDefault, p.stateDefault, p.users, p.events, p.notifications))
      = (parseIntegerPowerLevels (some (.obj kvs)) d).map (fun p => (p.ban, p.invite, p.kick, p.redact, p.usersDefault, p.eventsDefault, p.stateDefault, p.users, p.events, p.notifications)) := by
  refine ⟨?_, ?_, ?_, ?_⟩
  · simp only [decodeCreateContent, restrictTo,
      lookupExact_restrict createNames kvs b!"m.federate" (by decide), lookupExact_restrict createNames kvs b!"creator" (by decide),
      lookupExact_restrict createNames kvs b!"room_version" (by decide), lookupExact_restrict createNames kvs b!"type" (by decide),
      lookupExact_restrict createNames kvs b!"additional_creators" (by decide),
      lookupExact_restrict createNames kvs b!"predecessor" (by decide)]
  · simp only [decodeJoinRule, restrictTo, lookupExact_restrict joinRuleNames kvs b!"join_rule" (by decide),
      lookupExact_restrict joinRuleNames kvs b!"allow" (by decide)]
  · simp only [decodeThirdPartyInviteKeys, restrictTo,
      lookupExact_restrict thirdPartyInviteNames kvs b!"display_name" (by decide),
      lookupExact_restrict thirdPartyInviteNames kvs b!"key_validity_url" (by decide),
      lookupExact_restrict thirdPartyInviteNames kvs b!"public_key" (by decide),
      lookupExact_restrict thirdPartyInviteNames kvs b!"public_keys" (by decide)]
  · simp only [parseIntegerPowerLevels, restrictTo,
      lookupExact_restrict powerLevelNames kvs b!"ban" (by decide), lookupExact_restrict powerLevelNames kvs b!"invite" (by decide),
      lookupExact_restrict powerLevelNames kvs b!"kick" (by decide), lookupExact_restrict powerLevelNames kvs b!"redact" (by decide),
      lookupExact_restrict powerLevelNames kvs b!"users_default" (by decide),
      lookupExact_restrict powerLevelNames kvs b!"events_default" (by decide),
      lookupExact_restrict powerLevelNames kvs b!"state_default" (by decide),
      lookupExact_restrict powerLevelNames kvs b!"users" (by decide), lookupExact_restrict powerLevelNames kvs b!"events" (by decide),
      lookupExact_restrict powerLevelNames kvs b!"notifications" (by decide)]

def wJoinRuleC (content : List (Bytes × JVal)) (ver : Bytes := b!"10") : Event :=
  mkEv ver b!"$j" b!"m.room.join_rules" b!"@c:x" (some []) content
def wName (sender : Bytes) (ver : Bytes := b!"10") : Event :=
  mkEv ver b!"$e" b!"m.room.name" sender (some []) [(b!"name", .str b!"x")]

/-- X3a: join rules `{"Join_rule":"public"}`: a stranger joins — `join_rule` is absent (⇒ invite): refused (was accepted) -/
def wX3a : Witness := (wMemberEv b!"@b:y" b!"@b:y" b!"join", [wCreate, wMember b!"@c:x" b!"join", wJoinRuleC [(b!"Join_rule", .str b!"public")]], false)
/-- X3a': `{"join_rule":"invite","JOIN_RULE":"public"}`: refused (was accepted); with the two swapped: accepted (the rule is `public`) -/
def wX3a' : Witness := (wMemberEv b!"@b:y" b!"@b:y" b!"join",
  [wCreate, wMember b!"@c:x" b!"join", wJoinRuleC [(b!"join_rule", .str b!"invite"), (b!"JOIN_RULE", .str b!"public")]], false)
def wX3a'' : Witness := (wMemberEv b!"@b:y" b!"@b:y" b!"join",
  [wCreate, wMember b!"@c:x" b!"join", wJoinRuleC [(b!"join_rule", .str b!"public"), (b!"JOIN_RULE", .str b!"invite")]], false)
/-- X3b: power levels `{"users":{"@c:x":100},"Users":{"@u:x":100}}`: @u (level 0, the maps are not merged) sets the room
    name: refused (was accepted) -/
def wX3b : Witness := (wName b!"@u:x",
  [wCreate, wMember b!"@u:x" b!"join", wPL [users [(b!"@c:x", b!"100")], (b!"Users", .obj [(b!"@u:x", .num b!"100")])]], false)
/-- X3c: `{"users":{…},"State_default":0}`: the same: refused (was accepted) -/
def wX3c : Witness := (wName b!"@u:x",
  [wCreate, wMember b!"@u:x" b!"join", wPL [users [(b!"@c:x", b!"100")], (b!"State_default", .num b!"0")]], false)
/-- X3d: create `{"m.federate":true,"M.FEDERATE":false}`, public room: a join from another server: accepted (was refused) -/
def wX3d : Witness := (wMemberEv b!"@b:y" b!"@b:y" b!"join",
  [wCreate b!"10" [(b!"creator", .str b!"@c:x"), (b!"m.federate", .bool true), (b!"M.FEDERATE", .bool false)],
   wMember b!"@c:x" b!"join", wJoinRule b!"public"], false)
/-- X3e: version 12, create `{"Additional_creators":["@u:x"]}`: @u is no creator: refused (was accepted) -/
def wX3e : Witness :=
  (mkEv b!"12" b!"$e" b!"m.room.name" b!"@u:x" (some []) [(b!"name", .str b!"x")] [b!"$p"] r12,
   [wCreate12 [(b!"Additional_creators", .arr [.str b!"@u:x"])], wMember12 b!"@u:x",
    mkEv b!"12" b!"$pl" b!"m.room.power_levels" b!"@c:x" (some []) [users [(b!"@a:x", b!"50")]] [b!"$p"] r12], false)
/-- X3f: a v10 create event `{"Creator":"@c:x"}`: no `creator`: refused (was accepted) -/
def wX3f : Witness := (wCreate b!"10" [(b!"Creator", .str b!"@c:x")], [], false)

/-- on the formerly failing inputs of X3 the model of the repaired code decides what the rules decide -/
theorem repaired_witnesses_x3 :
    (wX3a.model = some false ∧ wX3a.rules .library = some false) ∧
    (wX3a'.model = some false ∧ wX3a'.rules .library = some false) ∧
    (wX3a''.model = some true ∧ wX3a''.rules .library = some true) ∧
    (wX3b.model = some false ∧ wX3b.rules .library = some false) ∧
    (wX3c.model = some false ∧ wX3c.rules .library = some false) ∧
    (wX3d.model = some true ∧ wX3d.rules .library = some true) ∧
    (wX3e.model = some false ∧ wX3e.rules .library = some false) ∧
    (wX3f.model = some false ∧ wX3f.rules .library = some false) := by
  decide +kernel

end V.C07
