/-
  C17 — Identifiers, size limits and per-version traits follow the specification.

  Property theorems only (helper lemmas: VProofs/Ident.lean, VProofs/B64.lean, VProofs/Limits.lean).
  Models: VModel/Ident.lean, VModel/B64.lean, VModel/Limits.lean, VModel/Vertable.lean (each with its
  specification in a `Spec` namespace); regenerated facts: VGen.Versions, VGen.Redact, VGen.C17.
  Every theorem is about the functions the driver runs against the Go code.
-/
import VProofs.Ident
import VProofs.IdentIP
import VProofs.IdentIP6Top
import VProofs.B64
import VProofs.Limits
import VModel.Vertable
set_option linter.unusedSimpArgs false

namespace V.C17
open V V.Ident

/-! ## 1. Identifiers: an accepted identifier reports parts that re-concatenate to the input -/


theorem userID_parts_concat {s lp d : BS} {hist : Bool} (h : parseUserID s hist = some (lp, d)) :
    0x40 :: lp ++ 0x3A :: d = s := by
  unfold parseUserID at h
  repeat' split at h
  all_goals first | (cases h; done) | skip
  all_goals
    rename_i c _ _ hsig _ _ _ hcut _ _ _ _
    simp only [Option.some.injEq, Prod.mk.injEq] at h
    obtain ⟨rfl, rfl⟩ := h
    have : c = (64 : UInt8) := by simpa using hsig
    rw [(cut_spec hcut).1, this]; rfl

theorem roomID_parts_concat {s o dom : BS} (h : parseRoomID s = some (o, some dom)) :
    0x21 :: o ++ 0x3A :: dom = s := by
  unfold parseRoomID at h
  repeat' split at h
  all_goals first | (cases h; done) | skip
  all_goals
    rename_i c _ _ hsig _ _ _ _ hcut _ _
    simp only [Option.some.injEq, Prod.mk.injEq] at h
    obtain ⟨rfl, rfl⟩ := h
    have : c = (33 : UInt8) := by simpa using hsig
    rw [(cut_spec hcut).1, this]; rfl

theorem roomID_parts_concat_domainless {s o : BS} (h : parseRoomID s = some (o, none)) :
    0x21 :: o = s ∧ o.length = 43 := by
  unfold parseRoomID at h
  repeat' split at h
  all_goals first | (cases h; done) | skip
  all_goals
    rename_i c _ _ hsig _ hm
    simp only [Option.some.injEq, Prod.mk.injEq] at h
    obtain ⟨rfl, -⟩ := h
    have : c = (33 : UInt8) := by simpa using hsig
    simp only [domainlessMatch, Bool.and_eq_true, beq_iff_eq] at hm
    exact ⟨by rw [this], hm.1⟩

theorem splitServerName_spec (s : BS) :
    (splitServerName s = (s, none)) ∨
    (∃ h ds p, splitServerName s = (h, some p) ∧ s = h ++ 0x3A :: ds ∧ parseUint16 ds = some p ∧ (0x3A : UInt8) ∉ ds) := by
  unfold splitServerName
  split
  · left; rfl
  · rename_i pre post hcl
    split
    · left; rfl
    · rename_i p hp
      right
      exact ⟨pre, post, p, rfl, (cutLast_spec hcl).1, hp, (cutLast_spec hcl).2⟩

theorem serverName_parts_concat {s h : BS} {p : Option Nat} (hs : parseServerName s = some (h, p)) :
    (p = none ∧ h = s) ∨ (∃ ds n, p = some n ∧ s = h ++ 0x3A :: ds ∧ parseUint16 ds = some n) := by
  unfold parseServerName at hs
  split at hs
  · cases hs
  · simp only at hs
    split at hs
    · simp only [Option.some.injEq] at hs
      rcases splitServerName_spec s with h1 | ⟨h', ds, n, h1, h2, h3, _⟩
      · rw [h1] at hs; cases hs; left; exact ⟨rfl, rfl⟩
      · rw [h1] at hs; cases hs; right; exact ⟨ds, n, rfl, h2, h3⟩
    · cases hs

theorem splitID_parts_concat {sigil : UInt8} {id l d : BS} (h : splitID sigil id = .ok l d) :
    sigil :: l ++ 0x3A :: d = id := by
  unfold splitID at h
  split at h
  · cases h
  · rename_i c rest
    split at h
    · cases h
    · rename_i hsig
      have hc : c = sigil := by simpa using hsig
      split at h
      · cases h
      · rename_i p0 p1 hcut
        obtain ⟨hs, -⟩ := cut_spec hcut
        split at h
        · cases h
        · rename_i x xs
          simp only [SplitIDResult.ok.injEq] at h
          obtain ⟨rfl, rfl⟩ := h
          simp only [List.cons_append, List.cons.injEq] at hs
          rw [hs.2, ← hc, hs.1]; rfl

/-- SplitID cannot panic unless ':' itself is passed as the sigil -/
theorem splitID_no_panic {sigil : UInt8} (hs : sigil ≠ 0x3A) (id : BS) : splitID sigil id ≠ .panic := by
  unfold splitID
  split
  · simp
  · rename_i c rest
    split
    · simp
    · rename_i hsig
      have hc : c = sigil := by simpa using hsig
      split
      · simp
      · rename_i p0 p1 hcut
        split
        · exfalso
          have := (cut_spec hcut).1
          simp only [List.nil_append, List.cons.injEq] at this
          exact hs (hc ▸ this.1)
        · simp

example : parseUserID "@alice:example.org:8448".toUTF8.toList false = some ("alice".toUTF8.toList, "example.org:8448".toUTF8.toList) := by
  decide +kernel
example : parseRoomID "!abc:[::1]:80".toUTF8.toList = some ("abc".toUTF8.toList, some "[::1]:80".toUTF8.toList) := by
  decide +kernel
example : parseServerName "[2001:db8::1]:00443".toUTF8.toList = some ("[2001:db8::1]".toUTF8.toList, some 443) := by
  decide +kernel

/-! ## 2. Identifiers are accepted exactly when they match their grammar

  Structure: the three `…_partial` theorems are generic in the recogniser of IP literals (they hold for
  whatever `net.ParseIP` accepts, instantiated with its model `parseIP`): everything the library itself does
  (splitting at the last / first colon, the port, brackets, DNS characters, sigils, non-empty parts, length
  limits, the 43-character domainless form, the localpart class) against the grammar, for all byte strings.
  `parseIP_accept_iff_literal` then shows that the model of `net.ParseIP` (netip.ParseAddr: dispatch on the
  first of '.', ':', '%'; parseIPv4Fields; parseIPv6 with hex groups of at most 4 digits, one `::`, an embedded
  dotted-quad tail, at most 8 groups; zones refused) accepts exactly the specification's dotted-quad / RFC 4291
  texts, for all byte strings; the unconditional `…_accept_iff_grammar` theorems follow.  What remains
  trusted is that `parseIP` models Go's function: tied by the streams `ident.parseip` (16-byte result) and
  `ident.isip` (bounded-exhaustive small alphabets, mutations, random long literals). -/

/-- ParseAndValidateServerName accepts exactly the server-name grammar, for whatever recogniser of IP
    literals `net.ParseIP` is (here: its model `parseIP`). -/
theorem serverName_accept_iff_grammar_partial (s : BS) :
    (parseServerName s).isSome = Spec.isServerNameWith (fun a => (parseIP a).isSome) s := by
  rw [isServerNameWith_eq, parseServerName_isSome, hostValid_eq]
  unfold splitServerName
  cases hcl : cutLast 0x3A s with
  | none =>
    have hnone : (Spec.colonSplits s).any (fun hp => Spec.isHostWith (fun a => (parseIP a).isSome) hp.1 && Spec.isPort hp.2) = false := by
      rw [List.any_eq_false]
      rintro ⟨a, b⟩ hm
      have := mem_colonSplits.mp hm
      exact absurd (by rw [this]; simp) (cutLast_none hcl)
    simp [hnone]
  | some pp =>
    obtain ⟨pre, post⟩ := pp
    obtain ⟨hs, hnp⟩ := cutLast_spec hcl
    cases hpu : parseUint16 post with
    | none =>
      have hnone : (Spec.colonSplits s).any (fun hp => Spec.isHostWith (fun a => (parseIP a).isSome) hp.1 && Spec.isPort hp.2) = false := by
        rw [List.any_eq_false]
        rintro ⟨a, b⟩ hm
        simp only [Bool.and_eq_true, not_and]
        intro _ hp
        obtain ⟨-, rfl⟩ := port_split_unique hcl hm hp
        rw [isPort_iff, hpu] at hp
        cases hp
      simp [hnone, hpu]
    | some n =>
      have hport : Spec.isPort post = true := by rw [isPort_iff, hpu]; rfl
      have hdig := parseUint16_digits hpu
      have hhost : Spec.isHostWith (fun a => (parseIP a).isSome) s = false := by
        rw [hs]; exact not_host_of_port_suffix _ hdig.1 hdig.2
      simp only [hhost, Bool.false_or, hpu]
      cases hh : Spec.isHostWith (fun a => (parseIP a).isSome) pre with
      | true =>
        symm
        rw [List.any_eq_true]
        exact ⟨(pre, post), mem_colonSplits.mpr hs, by simp [hh, hport]⟩
      | false =>
        symm
        rw [List.any_eq_false]
        rintro ⟨a, b⟩ hm
        simp only [Bool.and_eq_true, not_and]
        intro hha hp
        obtain ⟨rfl, -⟩ := port_split_unique hcl hm hp
        rw [hh] at hha; cases hha
theorem userID_accept_iff_grammar_partial (s : BS) (hist : Bool) :
    (parseUserID s hist).isSome =
      !(Spec.userIDParsesWith (fun d => (parseServerName d).isSome) hist s).isEmpty := by
  unfold Spec.userIDParsesWith Spec.maxIDBytes parseUserID
  by_cases hbig : s.length > 255
  · simp [hbig]
  · simp only [hbig, if_false, decide_false, Bool.or_false]
    cases s with
    | nil => simp
    | cons c rest =>
      by_cases hc : c = 0x40
      · subst hc
        simp only [bne_self_eq_false, Bool.false_eq_true, if_false]
        rw [filter_isEmpty, Bool.not_not]
        have hq := any_firstColon rest (fun ld => !ld.1.isEmpty && (hist || ld.1.all (Spec.userChars.contains ·)) && (parseServerName ld.2).isSome)
        simp only [Bool.and_assoc] at hq ⊢
        rw [hq]
        cases hcut : cut 0x3A rest with
        | none => simp
        | some x =>
          obtain ⟨lp, d⟩ := x
          obtain ⟨hs, -⟩ := cut_spec hcut
          simp only
          cases hsn : parseServerName d with
          | none => simp
          | some v =>
            have hd : d ≠ [] := by rintro rfl; rw [parseServerName_nil] at hsn; cases hsn
            cases lp with
            | nil => simp
            | cons l ls =>
              have hrl : rest.length ≥ 3 := by
                rw [hs]; have := List.length_pos_iff.mpr hd; simp; omega
              have hlt : ¬ (rest.length + 1 < 4) := by omega
              simp only [List.length_cons, hlt, decide_false, Bool.false_eq_true, if_false, Option.isNone_some,
                show ¬ (ls.length + 1 < 1) by omega, List.isEmpty_cons, Bool.not_false, Bool.true_and,
                Option.isSome_some, Bool.and_true]
              cases hist with
              | true => simp [historicallyValidCharacters]
              | false =>
                rw [all_user_eq]
                simp only [Bool.false_eq_true, if_false, Bool.false_or]
                cases (l :: ls).all isUserChar <;> simp
      · have : (c != 0x40) = true := by simp [hc]
        simp only [this, if_true]
        repeat' split
        all_goals first | rfl | (rename_i heq; simp only [List.cons.injEq] at heq; exact absurd heq.1 hc)
theorem roomID_accept_iff_grammar_partial (s : BS) :
    (parseRoomID s).isSome = !(Spec.roomIDParsesWith (fun d => (parseServerName d).isSome) s).isEmpty := by
  unfold Spec.roomIDParsesWith Spec.maxIDBytes parseRoomID
  by_cases hbig : s.length > 255
  · simp [hbig]
  · simp only [hbig, if_false, decide_false, Bool.or_false]
    cases s with
    | nil => simp
    | cons c rest =>
      by_cases hc : c = 0x21
      · subst hc
        simp only [bne_self_eq_false, Bool.false_eq_true, if_false]
        have hcont : (0x21 :: rest).contains 0x3A = rest.contains 0x3A := by
          simp only [List.contains_cons]; rw [show ((0x3A : UInt8) == 0x21) = false by decide]; simp
        rw [hcont, isEmpty_append', List.isEmpty_map, filter_isEmpty]
        have hq := any_firstColon rest (fun od => !od.1.isEmpty && (parseServerName od.2).isSome)
        simp only [Bool.and_assoc] at hq ⊢
        rw [hq]
        cases hcol : rest.contains 0x3A with
        | false =>
          have hcut : cut 0x3A rest = none := by
            cases h : cut 0x3A rest with
            | none => rfl
            | some x =>
              obtain ⟨a, b⟩ := x
              have := (cut_spec h).1
              have : rest.contains 0x3A = true := by rw [this]; simp
              rw [hcol] at this; cases this
          simp only [hcut, Bool.not_false, Bool.true_and, if_true, Bool.not_true, Bool.and_false]
          rw [all_urlB64_eq]
          unfold domainlessMatch
          cases hm : (rest.length == 43 && rest.all isUrlSafeB64Char) with
          | false => simp [hm]
          | true =>
            have : rest.length = 43 := by
              simp only [Bool.and_eq_true, beq_iff_eq] at hm; exact hm.1
            simp [hm, this]
        | true =>
          simp only [Bool.not_true, Bool.false_and, Bool.false_eq_true, if_false, List.isEmpty_nil, Bool.true_and]
          cases hcut : cut 0x3A rest with
          | none => simp
          | some x =>
            obtain ⟨op, d⟩ := x
            obtain ⟨hs, -⟩ := cut_spec hcut
            simp only
            cases hsn : parseServerName d with
            | none => simp
            | some v =>
              have hd : d ≠ [] := by rintro rfl; rw [parseServerName_nil] at hsn; cases hsn
              cases op with
              | nil => simp
              | cons l ls =>
                have hrl : rest.length ≥ 3 := by
                  rw [hs]; have := List.length_pos_iff.mpr hd; simp; omega
                have hlt : ¬ (rest.length + 1 < 4) := by omega
                simp [hlt]
      · have : (c != 0x21) = true := by simp [hc]
        simp only [this, if_true]
        repeat' split
        all_goals first | rfl | (exfalso; simp_all)

/-- the dotted-quad parser (also used for the embedded tail of an IPv6 literal) accepts exactly four
    dec-octets ≤ 255 without leading zeros, separated by single dots -/
theorem parseIPv4_accept_iff_dottedQuad (s : BS) : (parseIPv4 s).isSome = Spec.isIPv4 s :=
  parseIPv4_isSome_eq s

example : parseIPv4 "255.0.10.1".toUTF8.toList = some [255, 0, 10, 1] ∧ parseIPv4 "1.2.3.04".toUTF8.toList = none
    ∧ parseIPv4 "1.2.3".toUTF8.toList = none ∧ parseIPv4 "256.1.1.1".toUTF8.toList = none := by decide +kernel

/-- the IPv6 literal parser (netip.parseIPv6 as modelled: groups of 1–4 hex digits, at most one "::" standing
    for at least one group, an optional embedded dotted quad in the place of the last two groups, 8 groups
    in all) accepts exactly the specification's RFC 4291 §2.2 text forms — for ALL byte strings -/
theorem parseIPv6_accept_iff_rfc4291 (s : BS) : (parseIPv6 s).isSome = Spec.isIPv6 s :=
  parseIPv6_isSome_eq s

example : (parseIPv6 "1:2:3:4:5:6:7::".toUTF8.toList).isSome = true ∧ (parseIPv6 "1:2:3:4:5:6:7:8::".toUTF8.toList).isSome = false
    ∧ parseIPv6 "::ffff:1.2.3.4".toUTF8.toList = some [0,0,0,0,0,0,0,0,0,0,0xff,0xff,1,2,3,4]
    ∧ (parseIPv6 "1::2::3".toUTF8.toList).isSome = false ∧ (parseIPv6 "::1.2.3.4:5".toUTF8.toList).isSome = false
    ∧ (parseIPv6 "12345::".toUTF8.toList).isSome = false ∧ (parseIPv6 "1:2:3:4:5:6:1.2.3.4".toUTF8.toList).isSome = true := by
  decide +kernel

/-- net.ParseIP (as modelled) accepts exactly the dotted-quad and RFC 4291 text forms -/
def ParseIPAgrees : Prop := ∀ a : BS, (parseIP a).isSome = Spec.isIPLiteral a

/-- `ParseIPAgrees` holds: net.ParseIP's model = the specification's IP-literal recogniser (zones and
    every other byte outside the grammar refused on both sides) -/
theorem parseIP_accept_iff_literal : ParseIPAgrees := parseIP_isSome_eq

theorem serverName_accept_iff_grammar_of_ParseIPAgrees (hip : ParseIPAgrees) (s : BS) :
    (parseServerName s).isSome = Spec.isServerName s := by
  have : (fun a => (parseIP a).isSome) = Spec.isIPLiteral := funext hip
  rw [serverName_accept_iff_grammar_partial, this]; rfl

/-- ParseAndValidateServerName accepts exactly the server-name grammar (host = DNS name / IPv4 / bracketed
    IP literal, optional port ≤ 65535) -/
theorem serverName_accept_iff_grammar (s : BS) : (parseServerName s).isSome = Spec.isServerName s :=
  serverName_accept_iff_grammar_of_ParseIPAgrees parseIP_accept_iff_literal s

/-- NewUserID (both values of allowHistoricalIDs) accepts exactly the user-ID grammar -/
theorem userID_accept_iff_grammar (s : BS) (hist : Bool) :
    (parseUserID s hist).isSome = Spec.isUserID hist s := by
  have : (fun d => (parseServerName d).isSome) = Spec.isServerName := funext serverName_accept_iff_grammar
  rw [userID_accept_iff_grammar_partial, this]; rfl

/-- NewRoomID accepts exactly the room-ID grammar (with a server name, or the 43-character domainless form) -/
theorem roomID_accept_iff_grammar (s : BS) :
    (parseRoomID s).isSome = Spec.isRoomID s := by
  have : (fun d => (parseServerName d).isSome) = Spec.isServerName := funext serverName_accept_iff_grammar
  rw [roomID_accept_iff_grammar_partial, this]; rfl

/-- the unbracketed IPv4-mapped IPv6 literal that /repo accepted before commit 6383d29 is refused, by the
    parser and by the grammar -/
example : parseServerName "::ffff:1.2.3.4".toUTF8.toList = none ∧ Spec.isServerName "::ffff:1.2.3.4".toUTF8.toList = false := by
  decide +kernel
/-- an empty localpart (accepted with historical IDs before /repo ac9de92) is refused by both -/
example : parseUserID "@:a.b".toUTF8.toList true = none ∧ Spec.isUserID true "@:a.b".toUTF8.toList = false := by
  decide +kernel

/-! ### regenerated facts the identifier model depends on -/

theorem ident_constants_eq_spec :
    VGen.userSigil = 0x40 ∧ VGen.roomSigil = 0x21 ∧ VGen.localDomainSeparator = 0x3A ∧
    VGen.userIDMinLen = 4 ∧ VGen.userIDMaxLen = Spec.maxIDBytes ∧ VGen.roomIDMinLen = 4 ∧ VGen.roomIDMaxLen = Spec.maxIDBytes ∧
    VGen.validUsernameRegex = "^[0-9a-z_\\-=./]+$" ∧ VGen.domainlessRoomIDRegexp = "^[A-Za-z0-9_-]{43}$" := by
  decide

/-! ## 3. Base64 -/

open V.B64 in
theorem b64_decode_encode_std (bs : B64.BS) : decode (encode bs) = some bs := by
  unfold decode encode
  have : (encodeWith stdAlphabet bs).any (fun c => c == 0x2D || c == 0x5F) = false := by
    rw [List.any_eq_false]
    intro c hc
    obtain ⟨i, rfl⟩ := encodeWith_chars _ _ c hc
    have := std_no_url_marks i
    unfold isUrlMark at this
    simp [this]
  simp only [this, Bool.false_eq_true, if_false]
  exact decode_encode_with std_good bs

open V.B64 in
theorem b64_decode_encode_url (bs : B64.BS) : decode (encodeWith urlAlphabet bs) = some bs := by
  unfold decode
  cases hany : (encodeWith urlAlphabet bs).any (fun c => c == 0x2D || c == 0x5F) with
  | true => simp only [if_true]; exact decode_encode_with url_good bs
  | false =>
    simp only [Bool.false_eq_true, if_false]
    unfold decodeWith
    rw [decodeLoop_congr (β := urlAlphabet)]
    · exact decode_encode_with url_good bs
    · intro c hc
      obtain ⟨i, rfl⟩ := encodeWith_chars _ _ c hc
      apply url_agrees_std
      rw [List.any_eq_false] at hany
      have := hany _ hc
      unfold isUrlMark
      simpa using this
open V.B64 in
theorem b64_json_roundtrip (bs : B64.BS) : unmarshalJSON (marshalJSON bs) = some bs := by
  unfold unmarshalJSON unmarshalString marshalJSON
  have hplain : (encode bs).all plainJSONChar = true := by
    rw [List.all_eq_true]
    intro c hc
    obtain ⟨i, rfl⟩ := encodeWith_chars _ _ c hc
    exact std_plain i
  have hws : skipWs (0x22 :: encode bs ++ [0x22]) = 0x22 :: (encode bs ++ [0x22]) := by
    simp [skipWs, isWs]
  rw [hws]
  simp only [jsonStringBody_plain _ [] hplain, skipWs, List.isEmpty_nil, if_true]
  exact b64_decode_encode_std bs

open V.B64 in
/-- a value that decodes re-encodes to a text that decodes to the same value -/
theorem b64_reencode {s bs : B64.BS} (_h : decode s = some bs) : decode (encode bs) = some bs :=
  b64_decode_encode_std bs

open V.B64 in
example : decode "-_-_".toUTF8.toList = some [0xfb, 0xff, 0xbf] ∧ decode "+/+/".toUTF8.toList = some [0xfb, 0xff, 0xbf]
    ∧ decode "+_".toUTF8.toList = none ∧ decode "QQ\n".toUTF8.toList = some [0x41] ∧ decode "QQ==".toUTF8.toList = none
    ∧ decode "Q".toUTF8.toList = none ∧ decode "QR".toUTF8.toList = some [0x41] := by
  decide +kernel

open V.B64 in
/-- Encode is injective -/
theorem b64_encode_injective {a b : B64.BS} (h : encode a = encode b) : a = b := by
  have ha := b64_decode_encode_std a
  rw [h, b64_decode_encode_std b] at ha
  exact (Option.some.inj ha).symm

open V.B64 in
/-- the two alphabets: 64 distinct characters each, identical except for the last two (+ / versus - _) -/
theorem b64_alphabet_facts :
    stdAlphabet.length = 64 ∧ urlAlphabet.length = 64 ∧ stdAlphabet.Nodup ∧ urlAlphabet.Nodup ∧
    stdAlphabet.take 62 = urlAlphabet.take 62 ∧ stdAlphabet.drop 62 = [0x2B, 0x2F] ∧ urlAlphabet.drop 62 = [0x2D, 0x5F] := by
  decide +kernel

/-! ## 4. Size limits

  Code as of /repo 4e49c43 (CheckFields restructured in 591c527, receipt size check in 38b1ab6).
  ONE gap remains between the code and the property's wording, recorded as a known finding: a room ID that
  exceeds only the 255-byte limit makes the code REFUSE the event, where the property says "too large but
  persistable" (`Exceeds.roomBytesOnly`).  Everything else is proved equal, for every registered version. -/

open V.Limits in
/-- the parameters of a registered version: all limits as in the property, lenient -/
def stdParams (rc : RoomCheck) (exempt : Bool) : Params :=
  { maxID := 255, maxEvent := 65536, lenient := true, senderExempt := exempt, roomCheck := rc }

open V.Limits in
def isPrefixOnly : RoomCheck → Bool
  | .prefixOnly => true
  | .checkID => false

open V.Limits in
/-- well-formedness of sender / room ID on the boolean abstraction (`create`: a create event; in the versions with
    domain-less room IDs nothing is demanded of its room_id member) -/
def wfX (rc : RoomCheck) (exempt create sColon sSigil rColon rSigil rValid roomB : Bool) : Bool :=
  (exempt || (sColon && sSigil)) && ((isPrefixOnly rc && create) || (rSigil && (isPrefixOnly rc || rColon) && (rValid || roomB)))

open V.Limits in
theorem limitsX_eq_spec : ∀ (rc : RoomCheck) (exempt create json typeCP skCP typeB skB senderCP senderB roomCP roomB rValid sColon sSigil rColon rSigil : Bool),
    let x : Exceeds := ⟨json, typeCP, skCP, typeB, skB, senderCP, senderB, roomCP, roomB⟩
    wfX rc exempt create sColon sSigil rColon rSigil rValid roomB = true → (rValid = true → roomB = false ∧ roomCP = false) →
    x.roomBytesOnly = false →
    some (verdictX true exempt rc create sColon sSigil rColon rSigil rValid x).cls = (specX true x).map Outcome.cls := by
  intro rc exempt create; cases rc <;> cases exempt <;> cases create <;> decide +kernel

open V.Limits in
theorem limitsX_untrusted_eq_spec : ∀ (rc : RoomCheck) (exempt create json typeCP skCP typeB skB senderCP senderB roomCP roomB rValid sColon sSigil rColon rSigil checked : Bool),
    let x : Exceeds := ⟨json, typeCP, skCP, typeB, skB, senderCP, senderB, roomCP, roomB⟩
    wfX rc exempt create sColon sSigil rColon rSigil rValid roomB = true → (rValid = true → roomB = false ∧ roomCP = false) →
    x.roomBytesOnly = false → (checked = true → json = true) →
    some (verdictUntrustedX true exempt rc create sColon sSigil rColon rSigil rValid x checked).cls = (specX true x).map Outcome.cls := by
  intro rc exempt create; cases rc <;> cases exempt <;> cases create <;> decide +kernel

open V.Limits in
theorem limitsX_gap : ∀ (rc : RoomCheck) (exempt create json typeCP skCP typeB skB senderCP senderB roomCP roomB rValid sColon sSigil rColon rSigil : Bool),
    let x : Exceeds := ⟨json, typeCP, skCP, typeB, skB, senderCP, senderB, roomCP, roomB⟩
    wfX rc exempt create sColon sSigil rColon rSigil rValid roomB = true → (rValid = true → roomB = false ∧ roomCP = false) →
    x.roomBytesOnly = true →
    ((verdictX true exempt rc create sColon sSigil rColon rSigil rValid x).cls, specX true x) = (Class.refused, some Outcome.tooLargePersistable) := by
  intro rc exempt create; cases rc <;> cases exempt <;> cases create <;> decide +kernel

open V.Limits V.Ident in
/-- a room ID that spec.NewRoomID accepts is within both limits -/
theorem roomValid_within (n : Nat) (ty : BS) (sk : Option BS) (se ro : BS)
    (h : (sizesOf n ty sk se ro).roomValid = true) :
    (exceeds 255 65536 (sizesOf n ty sk se ro)).roomB = false ∧ (exceeds 255 65536 (sizesOf n ty sk se ro)).roomCP = false := by
  have hlen : ro.length ≤ 255 := by
    simp only [sizesOf] at h
    unfold parseRoomID at h
    split at h
    · simp at h
    · rename_i hc; simp only [Bool.or_eq_true, decide_eq_true_eq, not_or, Nat.not_lt] at hc; omega
  have hcp : runeCount ro ≤ ro.length := by unfold runeCount; exact List.length_filter_le _ _
  constructor
  · simp only [exceeds, sizesOf, idSize]; exact decide_eq_false (by omega)
  · simp only [exceeds, sizesOf, idSize]; exact decide_eq_false (by omega)

open V.Limits V.Ident in
/-- the spec's well-formedness, restated on the abstraction -/
theorem wf_to_wfX (rc : RoomCheck) (exempt : Bool) (s : Sizes)
    (hw : Spec.wellFormedIDs (isPrefixOnly rc) exempt s = true) :
    wfX rc exempt s.create s.sender.hasColon s.sender.sigilOk s.room.hasColon s.room.sigilOk s.roomValid (exceeds 255 65536 s).roomB = true := by
  exact hw

open V.Limits V.Ident in
/-- LIMITS on the trusted path and on build (NewEventFromTrustedJSON + CheckFields, the tail of
    EventBuilder.Build), for every kind of registered version (`rc` = which parse function, `exempt` =
    org.matrix.msc4014): for every event with a well-formed sender / room ID the verdict is the one the
    property demands — refused if the JSON exceeds 65 536 bytes or type, state key, sender or room ID
    exceeds 255 code points; too large but persistable if only the 255-byte limit is exceeded; accepted
    otherwise.  `_partial`: except when the ROOM ID is what exceeds the byte limit only (known finding,
    see `limits_roomBytes_gap`). -/
theorem limits_eq_spec_partial (rc : RoomCheck) (exempt : Bool) (n : Nat) (ty : BS) (sk : Option BS) (se ro : BS)
    (hw : Spec.wellFormedIDs (isPrefixOnly rc) exempt (sizesOf n ty sk se ro) = true)
    (hgap : (exceeds 255 65536 (sizesOf n ty sk se ro)).roomBytesOnly = false) :
    some (verdict (stdParams rc exempt) (sizesOf n ty sk se ro)).cls =
      (Spec.verdict (isPrefixOnly rc) exempt (sizesOf n ty sk se ro)).map Outcome.cls := by
  have hrv := roomValid_within n ty sk se ro
  have hwx := wf_to_wfX rc exempt _ hw
  rw [verdict_eq_verdictX, spec_eq_specX, hw]
  simp only [stdParams]
  generalize hx : exceeds 255 65536 (sizesOf n ty sk se ro) = x at hgap hrv hwx ⊢
  obtain ⟨json, typeCP, skCP, typeB, skB, senderCP, senderB, roomCP, roomB⟩ := x
  exact limitsX_eq_spec rc exempt _ _ _ _ _ _ _ _ _ _ _ _ _ _ _ hwx hrv hgap

open V.Limits V.Ident in
/-- LIMITS on receipt (NewEventFromUntrustedJSON): the same, whether or not the content hash matches
    (`checkedLen` = length of the JSON CheckFields sees: the event's own, or its redacted form's, never longer) -/
theorem limits_untrusted_eq_spec_partial (rc : RoomCheck) (exempt : Bool) (n checkedLen : Nat) (ty : BS) (sk : Option BS) (se ro : BS)
    (hle : checkedLen ≤ n)
    (hw : Spec.wellFormedIDs (isPrefixOnly rc) exempt (sizesOf n ty sk se ro) = true)
    (hgap : (exceeds 255 65536 (sizesOf n ty sk se ro)).roomBytesOnly = false) :
    some (verdictUntrusted (stdParams rc exempt) (sizesOf n ty sk se ro) checkedLen).cls =
      (Spec.verdict (isPrefixOnly rc) exempt (sizesOf n ty sk se ro)).map Outcome.cls := by
  have hrv := roomValid_within n ty sk se ro
  have hwx := wf_to_wfX rc exempt _ hw
  have hck : decide (checkedLen > 65536) = true → (exceeds 255 65536 (sizesOf n ty sk se ro)).json = true := by
    intro h; have h' := of_decide_eq_true h; simp only [exceeds, sizesOf]; exact decide_eq_true (by omega)
  rw [verdictUntrusted_eq_X, spec_eq_specX, hw]
  simp only [stdParams]
  generalize hx : exceeds 255 65536 (sizesOf n ty sk se ro) = x at hgap hrv hwx hck ⊢
  obtain ⟨json, typeCP, skCP, typeB, skB, senderCP, senderB, roomCP, roomB⟩ := x
  exact limitsX_untrusted_eq_spec rc exempt _ _ _ _ _ _ _ _ _ _ _ _ _ _ _ _ hwx hrv hgap hck

open V.Limits V.Ident in
/-- the full-strength statement fails exactly on `roomBytesOnly`: there the code refuses, while the
    property's wording ("persistable when only the 255-byte limit is exceeded") asks for persistable.
    KNOWN FINDING (limits-room-bytes-only-refused). -/
theorem limits_roomBytes_gap (rc : RoomCheck) (exempt : Bool) (n : Nat) (ty : BS) (sk : Option BS) (se ro : BS)
    (hw : Spec.wellFormedIDs (isPrefixOnly rc) exempt (sizesOf n ty sk se ro) = true)
    (hgap : (exceeds 255 65536 (sizesOf n ty sk se ro)).roomBytesOnly = true) :
    (verdict (stdParams rc exempt) (sizesOf n ty sk se ro)).cls = .refused ∧
      Spec.verdict (isPrefixOnly rc) exempt (sizesOf n ty sk se ro) = some .tooLargePersistable := by
  have hrv := roomValid_within n ty sk se ro
  have hwx := wf_to_wfX rc exempt _ hw
  rw [verdict_eq_verdictX, spec_eq_specX, hw]
  simp only [stdParams]
  generalize hx : exceeds 255 65536 (sizesOf n ty sk se ro) = x at hgap hrv hwx ⊢
  obtain ⟨json, typeCP, skCP, typeB, skB, senderCP, senderB, roomCP, roomB⟩ := x
  have := limitsX_gap rc exempt _ _ _ _ _ _ _ _ _ _ _ _ _ _ _ hwx hrv hgap
  exact ⟨congrArg Prod.fst this, congrArg Prod.snd this⟩

open V.Limits V.Ident in
/-- the finding's witness: room ID of 128 two-byte characters (256 bytes, 130 code points), everything else small -/
example :
    let room : BS := 0x21 :: (List.replicate 126 [0xC3, 0xA9]).flatten ++ [0x61, 0x3A, 0x62]
    let s := sizesOf 2000 [0x6D] none [0x40, 0x73, 0x3A, 0x62] room
    (exceeds 255 65536 s).roomBytesOnly = true ∧ Spec.wellFormedIDs false false s = true ∧
    verdict (stdParams .checkID false) s = .tooLarge ∧ Spec.verdict false false s = some .tooLargePersistable := by
  decide +kernel

open V.Limits V.Ident in
/-- **Create events of the room versions with domain-less room IDs** (12, org.matrix.hydra.11; /repo 05d0d16): the room of
    such an event is named by its event ID, so nothing is demanded of the form of a `room_id` member it carries anyway —
    but the member is a field of the event: over 255 code points the event is refused, on receipt and on the trusted
    path, as the property says; a short one (here `!junk`, not a room ID) is tolerated.  Before the repair `checkRoomID`
    skipped create events altogether and the first event was accepted. -/
example :
    let create : BS := [0x6D, 0x2E, 0x72, 0x6F, 0x6F, 0x6D, 0x2E, 0x63, 0x72, 0x65, 0x61, 0x74, 0x65]
    let long := sizesOf 2000 create (some []) [0x40, 0x73, 0x3A, 0x62] (0x21 :: List.replicate 300 0x61)
    let junk := sizesOf 2000 create (some []) [0x40, 0x73, 0x3A, 0x62] [0x21, 0x6A, 0x75, 0x6E, 0x6B]
    long.create = true ∧ Spec.wellFormedIDs true false long = true ∧
    verdictUntrusted (stdParams .prefixOnly false) long 2000 = .tooLarge ∧ verdict (stdParams .prefixOnly false) long = .tooLarge ∧
    Spec.verdict true false long = some .tooLarge ∧
    verdictUntrusted (stdParams .prefixOnly false) junk 2000 = .ok ∧ Spec.verdict true false junk = some .ok ∧
    -- the same member on an event that is not a create event: refused as a malformed room ID (outside the sentence)
    verdictUntrusted (stdParams .prefixOnly false) (sizesOf 2000 [0x6D] none [0x40, 0x73, 0x3A, 0x62] [0x21, 0x6A, 0x75, 0x6E, 0x6B]) 2000 = .other := by
  decide +kernel

open V.Limits in
/-- an event within every limit is accepted; one byte more of JSON and it is refused, also on receipt with
    a content hash that does not match (redacted form of 200 bytes); a sender of 256 bytes / 130 code points
    is too large but persistable, in org.matrix.msc4014 as well -/
example :
    let s (n : Nat) := sizesOf n [0x6D] none [0x40, 0x73, 0x3A, 0x62] [0x21, 0x72, 0x3A, 0x62]
    let sender : Ident.BS := 0x40 :: (List.replicate 126 [0xC3, 0xA9]).flatten ++ [0x61, 0x3A, 0x62]
    verdict (stdParams .checkID false) (s 65536) = .ok ∧ verdict (stdParams .checkID false) (s 65537) = .tooLarge ∧
    verdictUntrusted (stdParams .checkID false) (s 65537) 200 = .tooLarge ∧
    verdict (stdParams .checkID true) (sizesOf 2000 [0x6D] none sender [0x21, 0x72, 0x3A, 0x62]) = .tooLargePersistable := by
  decide +kernel

open V.Limits in
/-- regenerated: the limits are the property's, and every registered version is lenient about the byte
    limits; the parse function decides the room-ID check; only org.matrix.msc4014 is exempt from the sender check -/
theorem limits_params_eq_spec :
    VGen.maxIDLength = Spec.maxFieldLen ∧ VGen.maxEventLength = Spec.maxEventBytes ∧
    VGen.roomVersions.map (fun r => (r.key, Vertable.limitsParams r.key)) =
      [("1", some (stdParams .checkID false)), ("10", some (stdParams .checkID false)), ("11", some (stdParams .checkID false)),
       ("12", some (stdParams .prefixOnly false)), ("2", some (stdParams .checkID false)), ("3", some (stdParams .checkID false)),
       ("4", some (stdParams .checkID false)), ("5", some (stdParams .checkID false)), ("6", some (stdParams .checkID false)),
       ("7", some (stdParams .checkID false)), ("8", some (stdParams .checkID false)), ("9", some (stdParams .checkID false)),
       ("org.matrix.hydra.11", some (stdParams .prefixOnly false)), ("org.matrix.msc3667", some (stdParams .checkID false)),
       ("org.matrix.msc3787", some (stdParams .checkID false)), ("org.matrix.msc4014", some (stdParams .checkID true))] := by
  decide

/-! ## 5. The room-version table -/

open V.Vertable in
/-- REGENERATED on every run from eventversion.go: every row of `roomVersionMeta`, read semantically, is the
    row the Matrix specification assigns to that version (this is the obligation that breaks when a cell
    of the table is edited) -/
theorem version_table_eq_spec :
    VGen.roomVersions.map (fun r => (r.key, traitsOfRow r)) = Spec.table.map (fun p => (p.1, some p.2)) := by
  decide

open V.Vertable in
/-- no function-valued column of any row is nil, and each row is registered under its own version string -/
theorem version_table_total :
    (∀ r ∈ VGen.roomVersions, ∀ c ∈ functionColumns r, c ≠ "") ∧ (∀ r ∈ VGen.roomVersions, r.key = r.ver) := by
  decide

open V.Vertable in
/-- the spec table lists 16 versions: 1–12 stable, four unstable -/
theorem version_table_stable :
    (Spec.table.filter (·.2.stable)).map (·.1) = ["1", "10", "11", "12", "2", "3", "4", "5", "6", "7", "8", "9"] ∧
    (Spec.table.filter (!·.2.stable)).map (·.1) =
      ["org.matrix.hydra.11", "org.matrix.msc3667", "org.matrix.msc3787", "org.matrix.msc4014"] := by
  decide

open V.Vertable in
/-- REGENERATED: the keep lists each redaction function uses are, as sets, the ones the specification gives
    for that generation of the redaction algorithm (top-level keys, and per event type the content keys;
    an empty list = keep everything) -/
theorem redaction_keeplists_eq_spec :
    ([("redactEventJSONV1", 1), ("redactEventJSONV2", 2), ("redactEventJSONV3", 3), ("redactEventJSONV4", 4),
      ("redactEventJSONV5", 5)].all fun p =>
        match keepListsOfName p.1, Spec.keepLists p.2 with
        | some c, some s => c.equiv s
        | _, _ => false) = true := by
  decide

open V.Vertable in
/-- events built for a version have its format (what `EventBuilder.Build` must produce, per trait) -/
theorem built_event_format_of_traits :
    (Spec.table.map (fun p => (p.1, builtLine p.2))) =
      [("1", "prev=ref;eid_in_json=1;id=domain"), ("10", "prev=str;eid_in_json=0;id=hash-url"),
       ("11", "prev=str;eid_in_json=0;id=hash-url"), ("12", "prev=str;eid_in_json=0;id=hash-url"),
       ("2", "prev=ref;eid_in_json=1;id=domain"), ("3", "prev=str;eid_in_json=0;id=hash-std"),
       ("4", "prev=str;eid_in_json=0;id=hash-url"), ("5", "prev=str;eid_in_json=0;id=hash-url"),
       ("6", "prev=str;eid_in_json=0;id=hash-url"), ("7", "prev=str;eid_in_json=0;id=hash-url"),
       ("8", "prev=str;eid_in_json=0;id=hash-url"), ("9", "prev=str;eid_in_json=0;id=hash-url"),
       ("org.matrix.hydra.11", "prev=str;eid_in_json=0;id=hash-url"), ("org.matrix.msc3667", "prev=str;eid_in_json=0;id=hash-url"),
       ("org.matrix.msc3787", "prev=str;eid_in_json=0;id=hash-url"), ("org.matrix.msc4014", "prev=str;eid_in_json=0;id=hash-url")] := by
  decide

end V.C17
