/-
  C14 composed with C06 and C07 — the oracles of the federation-response filters discharged by the models of the
  functions the code really calls there:

    sigOk e        :=  `VerifyEventSignatures(e, verifier, userIDForSender) == nil`   — VModel.Signers (C06)
    allowedBy e p  :=  `Allowed(e, p, userIDForSender) == nil`                        — VModel.Auth.allowedFresh (C07)
    P, empty, add  :=  the `AuthEvents` object (`NewAuthEvents(nil)`, `AddEvent`)      — VModel.FedCheckInst

  so that the sentence of the property reads, without oracles: every event `CheckStateResponse` returns carries a
  signature the verifier reports valid from EACH server `requiredSigners` lists for it (C06: the sender's server, the
  event-ID server in versions 1–2, the invited user's server, the authorising server of a restricted join) at the event's
  origin_server_ts under the version's key-validity rule, and is accepted by the auth rules (C07) against exactly those
  of its auth events that were verified or came from the caller's provider.
-/
import VProps.C14
import VProps.C06
namespace V.C14
open V V.FedCheck V.FedCheck.Spec V.Signers V.Auth

/-- the verifier's side of the world: what the sender lookup answers for an event, and which requests the verifier
    reports valid while it checks that event -/
structure SigWorld where
  row : VGen.VersionRow
  sd : Event → Except Err (Option Bytes)
  valid : Event → Request → Bool

/-- `VerifyEventSignatures(e) == nil` as a Boolean -/
def SigWorld.sigOk (w : SigWorld) (e : Event) : Bool :=
  match verifyEventSignatures w.row e (w.sd e) (w.valid e) false with
  | .ok _ => true
  | .error _ => false

theorem SigWorld.sigOk_iff (w : SigWorld) (e : Event) :
    w.sigOk e = true ↔ verifyEventSignatures w.row e (w.sd e) (w.valid e) false = .ok () := by
  unfold SigWorld.sigOk
  cases h : verifyEventSignatures w.row e (w.sd e) (w.valid e) false with
  | ok u => cases u; simp
  | error err => simp

/-- the oracles of C14 instantiated with the C06 and C07 models -/
def composedOracles (w : SigWorld) : Oracles Provider :=
  { sigOk := w.sigOk, empty := pempty, add := padd, allowedBy := fun e p => allowedFresh e p == .ok }

theorem composedOracles_addIdem (w : SigWorld) : AddIdem (composedOracles w) := fun p a => padd_idem p a

/-- **What leaves `CheckStateResponse`, without oracles.**  Every returned event was in the response, every server the
    C06 model requires for it was reported valid at its origin_server_ts under the version's rule, and the C07 model of
    `Allowed` accepts it against the provider built from its verified / provider-supplied auth events. -/
theorem state_response_signed_and_allowed (w : SigWorld) (prov : Option EventProvider) (hprov : ProvOK prov)
    (n : Nat) (A S A' S' : List Event) (log : Log)
    (h : (checkStateResponse (composedOracles w) prov (n + 2) A S log).1 = .ok A' S') :
    ∀ e ∈ A' ++ S',
      e ∈ A ++ S ∧
      (∃ l, requiredSigners w.row e (w.sd e) = .ok l ∧
        ∀ s ∈ l, w.valid e ⟨s, e.originServerTS, strictValidity w.row⟩ = true) ∧
      allowedFresh e (authOf (composedOracles w) (resolve (verified (composedOracles w) (A ++ S)) prov) e) = .ok := by
  intro e he
  obtain ⟨hmem, hsig, hall⟩ := (state_response_sound (composedOracles w) (composedOracles_addIdem w) prov hprov n A S A' S' log h).1 e he
  refine ⟨hmem, ?_, ?_⟩
  · have := (w.sigOk_iff e).mp hsig
    exact (C06.verify_iff w.row e (w.sd e) (w.valid e)).mp this
  · simpa [composedOracles] using hall

/-- … and an event of the response that is missing from the answer failed one of the two: some required server was
    not reported valid (or the required set could not be determined), or the auth rules refuse it. -/
theorem state_response_dropped_why (w : SigWorld) (prov : Option EventProvider) (hprov : ProvOK prov)
    (n : Nat) (A S A' S' : List Event) (log : Log)
    (h : (checkStateResponse (composedOracles w) prov (n + 2) A S log).1 = .ok A' S')
    (e : Event) (he : e ∈ A ++ S) (hne : e ∉ A' ++ S') :
    (¬ ∃ l, requiredSigners w.row e (w.sd e) = .ok l ∧
        ∀ s ∈ l, w.valid e ⟨s, e.originServerTS, strictValidity w.row⟩ = true) ∨
    allowedFresh e (authOf (composedOracles w) (resolve (verified (composedOracles w) (A ++ S)) prov) e) ≠ .ok := by
  have hs := state_response_sound (composedOracles w) (composedOracles_addIdem w) prov hprov n A S A' S' log h
  have hbad : good (composedOracles w) prov (A ++ S) e = false := by
    rw [List.mem_append] at he hne
    rcases he with he | he
    · exact hs.2.1 e he (fun hc => hne (Or.inl hc))
    · exact hs.2.2 e he (fun hc => hne (Or.inr hc))
  unfold good at hbad
  by_cases hsig : (composedOracles w).sigOk e = true
  · right
    rw [hsig, Bool.true_and] at hbad
    intro hok
    have : (composedOracles w).allowedBy e (authOf (composedOracles w) (resolve (verified (composedOracles w) (A ++ S)) prov) e) = true := by
      show (allowedFresh e _ == Verdict.ok) = true
      rw [hok]
      rfl
    rw [this] at hbad
    cases hbad
  · left
    intro hex
    apply hsig
    exact (w.sigOk_iff e).mpr ((C06.verify_iff w.row e (w.sd e) (w.valid e)).mpr hex)

/-! ### Non-vacuity: a concrete response (room version 10, a create event sent by `@a:hs1`) -/

def exCreate : Event :=
  { ver := b!"10", eventID := b!"$create", obj :=
      [(b!"type", .str b!"m.room.create"), (b!"sender", .str b!"@a:hs1"), (b!"room_id", .str b!"!r:hs1"), (b!"state_key", .str b!""),
       (b!"content", .obj [(b!"creator", .str b!"@a:hs1"), (b!"room_version", .str b!"10")]),
       (b!"origin_server_ts", .num b!"5"), (b!"depth", .num b!"1"), (b!"prev_events", .arr []), (b!"auth_events", .arr [])] }

/-- the verifier reports `hs1` valid (`good`) or nobody -/
def exWorld (row : VGen.VersionRow) (good : Bool) : SigWorld :=
  { row := row, sd := fun _ => .ok (some b!"hs1"), valid := fun _ r => good && r.server == b!"hs1" }

/-- sizes of the answer to the response `auth = [], state = [exCreate]` -/
def exRun (good : Bool) : Option (Nat × Nat) :=
  (VGen.roomVersions.find? (fun r => r.key == "10")).map (fun row =>
    match (checkStateResponse (composedOracles (exWorld row good)) none 2 [] [exCreate] []).1 with
    | .ok a s => (a.length, s.length)
    | _ => (99, 99))

/-- with the sender's server reported valid the create event is returned (the hypothesis of
    `state_response_signed_and_allowed` holds with a non-empty answer); with no valid signature it is dropped and the
    response still succeeds (`state_response_dropped_why` applies) -/
example : exRun true = some (0, 1) ∧ exRun false = some (0, 0) := by decide +kernel

end V.C14
