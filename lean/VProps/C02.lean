/-
  C02 — JSON signatures: complete for the signer, sound against any tampering.

  Model: VModel.Sign (`signJSON`, `verifyJSON`, `listKeyIDs` over JSON values, mirroring signing.go with
  its glue: Go struct decoding of `signatures`/`unsigned`, exact-key deletion, base64, nil maps).
  Texts enter through C01 (`canonical t = encodeCanon (parse t)`): whitespace, escape spellings and `-0`
  vanish in the value; member order is covered by `verify_reserialised` below.

  Cryptography is a parameter `S : SigScheme` with hypotheses `SigCorrect S` (completeness theorems) or
  `IdealSig S` (soundness theorems: message binding, key binding) — hypotheses, never axioms; the toy
  scheme at the end of the file satisfies all of them.

  Domain: the value-level theorems are about JSON objects with distinct keys (`UniqueKeys`; C01's domain).  Since
  the K7 repair that is no restriction of the claim: `SignJSON` / `VerifyJSON` refuse every message with duplicate
  member names, lone surrogate escapes or invalid UTF-8 — or nested deeper than encoding/json reads — before reading it
  (`checkStrictJSON`: `json.Valid` first, then a one-pass walk; VerifyJSON skips the value of `unsigned`; models `signJSONText` /
  `verifyJSONText`), see "The text gate" below — `ambiguous_never_signed`, `ambiguous_never_verifies`,
  `gate_uniqueKeys`, `verify_text_sound_tamper`.  (Before it, sjson deleted the first duplicate while Go maps kept the
  last, and tampered objects verified exactly on the texts these theorems did not speak about.)  Top-level case
  variants such as "Signatures" are ordinary signed members (the code reads the two members by exact name
  since /repo 0fb2afd), so no theorem needs a side condition about them.
-/
import VProofs.SignJSON
import VProofs.SignList
import VProps.C01
namespace V.C02
open V V.Json V.GoJson V.Sign List

/-! ### Completeness -/

/-- **An object signed with SignJSON verifies** under the signer's name, key ID and public key.
    Uses only correctness of the scheme. -/
theorem sign_verify (S : SigScheme) (hS : SigCorrect S) (n k : Bytes) (sk : S.SK) (o : List (Bytes × JVal)) (v' : JVal)
    (h : signJSON S n k sk (.obj o) = .ok v') : verifyJSON S n k (S.pk sk) v' = .ok () := by
  obtain ⟨p, hd, hv⟩ := signJSON_ok_shape S n k sk o v' h
  have hw' := wf_set (p.sigs.getD []) n k (S.sign sk (payload o)) (wf_getD o p hd)
  subst hv
  show verifyCore S (S.pk sk) (sigLookup (assemble _ _ _) n k) (payload (assemble _ _ _)) = .ok ()
  have hp : ∀ J u, payload (assemble (body o) J u) = payload o := by
    intro J u; unfold payload; rw [body_assemble]
  rw [sigLookup_assemble _ _ hw', lookupIn_set_same, hp]
  simp [verifyCore, hS.sig_size, hS.pk_size, hS.correct]

/-- verification looks only at the signature stored for (name, key ID) and at the signed members -/
theorem verify_congr (S : SigScheme) (n k pk : Bytes) (o o' : List (Bytes × JVal))
    (hl : sigLookup o' n k = sigLookup o n k) (hp : payload o' = payload o) :
    verifyJSON S n k pk (.obj o') = verifyJSON S n k pk (.obj o) := by
  simp only [verifyJSON, hl, hp]

/-! ### Re-serialisation: member order -/

theorem getLast_perm {α : Type} {o o' : List (Bytes × α)} (hp : o ~ o') (hu : UniqueKeys o) (k : Bytes) :
    Sign.getLast o' k = Sign.getLast o k := by
  induction hp with
  | nil => rfl
  | cons x hp' ih =>
    obtain ⟨k0, v0⟩ := x
    simp only [Sign.getLast, ih (List.Pairwise.tail hu)]
  | swap x y l =>
    obtain ⟨kx, vx⟩ := x
    obtain ⟨ky, vy⟩ := y
    have hne : ky ≠ kx := List.rel_of_pairwise_cons hu List.mem_cons_self
    simp only [Sign.getLast]
    cases Sign.getLast l k with
    | some z => rfl
    | none =>
      by_cases h1 : (kx == k) = true
      · have : (ky == k) = false := by
          have := eq_of_beq h1; subst this; simpa using hne
        simp [h1, this]
      · by_cases h2 : ky = k <;> simp [h1, h2]
  | trans h1 h2 ih1 ih2 =>
    rw [ih2 (h1.pairwise hu (fun hab => fun e => hab e.symm)), ih1 hu]

/-- **However the members are ordered, the verdict is the same** (whitespace, escapes and number
    spelling `-0` are erased by parsing, C01; nested member order by `encodeCanon`). -/
theorem verify_reserialised (S : SigScheme) (n k pk : Bytes) (o o' : List (Bytes × JVal)) (hp : o ~ o')
    (hu : UniqueKeys o) : verifyJSON S n k pk (.obj o') = verifyJSON S n k pk (.obj o) := by
  apply verify_congr
  · unfold sigLookup
    rw [getLast_perm hp hu]
  · unfold payload
    have hb : body o ~ body o' := by
      unfold body eraseKey
      exact (hp.filter _).filter _
    have hnb : Json.NodupKeys (body o) := by
      have := uniqueKeys_body o hu
      unfold Json.NodupKeys
      rw [List.nodup_iff_pairwise_ne, List.pairwise_map]
      exact this
    exact (C01.canon_member_order_irrelevant (body o) (body o') hb hnb).symm

/-! ### Further signers, `unsigned` replaced -/

/-- several entities signing one after the other -/
def signAll (S : SigScheme) : List (Bytes × Bytes × S.SK) → JVal → Except Err JVal
  | [], v => .ok v
  | (n, k, sk) :: rest, v =>
    match signJSON S n k sk v with
    | .ok v' => signAll S rest v'
    | .error e => .error e

/-- `unsigned` replaced by `u` (`none`: removed) -/
def setUnsigned (u : Option JVal) (o : List (Bytes × JVal)) : List (Bytes × JVal) :=
  eraseKey kUnsigned o ++ (match u with
    | some x => [(kUnsigned, x)]
    | none => [])

theorem sigAt_eq_some {l : SigLookup} {s : Bytes} (h : l.sigAt = some s) : l = .found s := by
  cases l <;> simp [SigLookup.sigAt] at h
  rw [h]

theorem signAll_keeps (S : SigScheme) (n k s : Bytes) : ∀ (signers : List (Bytes × Bytes × S.SK)) (o1 : List (Bytes × JVal)) (v2 : JVal),
    sigLookup o1 n k = .found s →
    (∀ x ∈ signers, (x.1, x.2.1) ≠ (n, k)) → signAll S signers (.obj o1) = .ok v2 →
    ∃ o2, v2 = .obj o2 ∧ sigLookup o2 n k = .found s ∧ body o2 = body o1
  | [], o1, v2, hl, _, h => by
    simp only [signAll, Except.ok.injEq] at h
    exact ⟨o1, h.symm, hl, rfl⟩
  | (n2, k2, sk2) :: rest, o1, v2, hl, hne, h => by
    simp only [signAll] at h
    cases hs : signJSON S n2 k2 sk2 (.obj o1) with
    | error e => simp [hs] at h
    | ok v' =>
      simp only [hs] at h
      obtain ⟨o', hv', _, hb', _, _, hother⟩ := sign_effect S n2 k2 sk2 o1 v' hs
      subst hv'
      have hne1 : (n, k) ≠ (n2, k2) := fun e => hne (n2, k2, sk2) List.mem_cons_self e.symm
      have hl' : sigLookup o' n k = .found s := by
        apply sigAt_eq_some
        rw [hother n k hne1, hl]
        rfl
      obtain ⟨o2, hv2, hl2, hb2⟩ := signAll_keeps S n k s rest o' v2 hl'
        (fun x hx => hne x (List.mem_cons_of_mem _ hx)) h
      exact ⟨o2, hv2, hl2, hb2.trans hb'⟩

theorem getLast_setUnsigned_sig (u : Option JVal) (o : List (Bytes × JVal)) :
    Sign.getLast (setUnsigned u o) kSignatures = Sign.getLast o kSignatures := by
  unfold setUnsigned
  have h1 : (kUnsigned == kSignatures) = false := by decide
  rw [Sign.getLast_append]
  cases u with
  | none => simp only [Sign.getLast]; exact getLast_eraseKey_ne kUnsigned kSignatures o kSig_ne_kUns
  | some x => simp only [Sign.getLast, h1]; exact getLast_eraseKey_ne kUnsigned kSignatures o kSig_ne_kUns

theorem body_setUnsigned (u : Option JVal) (o : List (Bytes × JVal)) : body (setUnsigned u o) = body o := by
  unfold setUnsigned body
  have hne : (kUnsigned != kSignatures) = true := by decide
  have e1 : eraseKey kSignatures (match u with
      | some x => [(kUnsigned, x)]
      | none => []) = (match u with
      | some x => [(kUnsigned, x)]
      | none => []) := by
    cases u <;> simp [eraseKey, List.filter, hne]
  have e2 : eraseKey kUnsigned (match u with
      | some x => [(kUnsigned, x)]
      | none => []) = [] := by
    cases u <;> simp [eraseKey, List.filter]
  rw [eraseKey_append, eraseKey_append, e1, e2, List.append_nil]
  unfold eraseKey
  simp only [List.filter_filter]
  apply List.filter_congr
  intro x _
  cases (x.1 != kUnsigned) <;> cases (x.1 != kSignatures) <;> rfl

/-- **The signer's signature still verifies after further entities have added their signatures and after
    `unsigned` has been replaced or removed.**  Uses only correctness of the scheme. -/
theorem sign_verify_after (S : SigScheme) (hS : SigCorrect S) (n k : Bytes) (sk : S.SK) (o : List (Bytes × JVal))
    (_hu : UniqueKeys o) (v1 : JVal) (h1 : signJSON S n k sk (.obj o) = .ok v1)
    (signers : List (Bytes × Bytes × S.SK)) (hne : ∀ x ∈ signers, (x.1, x.2.1) ≠ (n, k))
    (v2 : JVal) (h2 : signAll S signers v1 = .ok v2) (u : Option JVal) :
    ∃ o2, v2 = .obj o2 ∧ verifyJSON S n k (S.pk sk) (.obj (setUnsigned u o2)) = .ok () := by
  obtain ⟨o1, hv1, _, hb1, _, hl1, _⟩ := sign_effect S n k sk o v1 h1
  subst hv1
  obtain ⟨o2, hv2, hl2, hb2⟩ := signAll_keeps S n k _ signers o1 v2 hl1 hne h2
  refine ⟨o2, hv2, ?_⟩
  have hl : sigLookup (setUnsigned u o2) n k = .found (S.sign sk (payload o)) := by
    unfold sigLookup
    rw [getLast_setUnsigned_sig]
    exact hl2
  simp only [verifyJSON, hl, payload, body_setUnsigned, hb2, hb1]
  simp [verifyCore, hS.sig_size, hS.pk_size, hS.correct]

/-! ### What signing keeps -/

/-- **Signing keeps `unsigned`, every signed member and every other entity's signature** (compared as the
    bytes they encode), and stores the signer's signature over the canonical form of the signed members. -/
theorem sign_preserves (S : SigScheme) (n k : Bytes) (sk : S.SK) (o : List (Bytes × JVal))
    (hu : UniqueKeys o) (v' : JVal) (h : signJSON S n k sk (.obj o) = .ok v') :
    ∃ o', v' = .obj o' ∧ UniqueKeys o' ∧ body o' = body o ∧ Sign.getLast o' kUnsigned = Sign.getLast o kUnsigned ∧
      (sigLookup o' n k).sigAt = some (S.sign sk (payload o)) ∧
      ∀ n' k', (n', k') ≠ (n, k) → (sigLookup o' n' k').sigAt = (sigLookup o n' k').sigAt := by
  obtain ⟨o', hv, hu', hb, hun, hl, hother⟩ := sign_effect S n k sk o v' h
  exact ⟨o', hv, hu' hu, hb, hun, by rw [hl]; rfl, hother⟩

/-! ### Soundness -/

/-- **On a freshly signed object, verification succeeds for (name', kid', pk') only if these are the
    signer's name, key ID and public key** — or the object already carried a signature for (name', kid')
    that verified under pk' before signing (an earlier signer).  Uses key binding. -/
theorem verify_sound_key (S : SigScheme) (hS : IdealSig S) (n k : Bytes) (sk : S.SK) (o : List (Bytes × JVal))
    (_hu : UniqueKeys o) (v' : JVal) (h : signJSON S n k sk (.obj o) = .ok v')
    (n' k' pk' : Bytes) (hv : verifyJSON S n' k' pk' v' = .ok ()) :
    ((n', k') = (n, k) ∧ pk' = S.pk sk) ∨
    (∃ s, (sigLookup o n' k').sigAt = some s ∧ S.verify pk' (payload o) s = true) := by
  obtain ⟨o', hv', _, hb, _, hl, hother⟩ := sign_effect S n k sk o v' h
  subst hv'
  have hp : payload o' = payload o := by unfold payload; rw [hb]
  simp only [verifyJSON, hp] at hv
  by_cases hnk : (n', k') = (n, k)
  · left
    refine ⟨hnk, ?_⟩
    cases hnk
    rw [hl] at hv
    simp only [verifyCore] at hv
    split at hv
    · cases hv
    · split at hv
      · cases hv
      · split at hv
        · rename_i hver
          exact hS.key_binding _ _ _ _ hver
        · cases hv
  · right
    have hsame := hother n' k' hnk
    cases hlk : sigLookup o' n' k' with
    | found s =>
      refine ⟨s, ?_, ?_⟩
      · rw [← hsame, hlk]; rfl
      · rw [hlk] at hv
        simp only [verifyCore] at hv
        split at hv
        · cases hv
        · split at hv
          · cases hv
          · split at hv
            · rename_i hver; exact hver
            · cases hv
    | jsonErr => rw [hlk] at hv; simp [verifyCore, errUnmarshal] at hv
    | noSigs => rw [hlk] at hv; simp [verifyCore] at hv
    | noSig => rw [hlk] at hv; simp [verifyCore] at hv

/-- **After any change to any member other than `signatures` and `unsigned`, the signer's signature no
    longer verifies — under any public key.**  `o''` is ANY object that still carries the signature made
    over `o` at (name, kid) but whose signed members denote a different value (member order and the
    spelling `-0` aside).  Uses message binding and the injectivity of the canonical encoding (C01). -/
theorem verify_sound_tamper (S : SigScheme) (hS : IdealSig S) (n k : Bytes) (sk : S.SK) (o o'' : List (Bytes × JVal))
    (hnum : (JVal.obj (body o)).numsOk = true) (hnum' : (JVal.obj (body o'')).numsOk = true)
    (hsig : sigLookup o'' n k = .found (S.sign sk (payload o)))
    (hdiff : (JVal.obj (body o'')).sorted.normNums ≠ (JVal.obj (body o)).sorted.normNums) (pk'' : Bytes) :
    verifyJSON S n k pk'' (.obj o'') ≠ .ok () := by
  intro hv
  simp only [verifyJSON, hsig, verifyCore] at hv
  split at hv
  · cases hv
  · split at hv
    · cases hv
    · split at hv
      · rename_i hver
        have := hS.msg_binding _ _ _ _ hver
        exact hdiff (C01.encodeCanon_injective _ _ hnum' hnum this)
      · cases hv

/-- The same for a different name or key ID when nothing is stored there: without a signature at
    (name', kid') verification fails whatever the key. -/
theorem verify_needs_signature (S : SigScheme) (n' k' pk' : Bytes) (o : List (Bytes × JVal))
    (h : (sigLookup o n' k').sigAt = none) : verifyJSON S n' k' pk' (.obj o) ≠ .ok () := by
  intro hv
  cases hl : sigLookup o n' k' with
  | found s => rw [hl] at h; simp [SigLookup.sigAt] at h
  | jsonErr => simp [verifyJSON, hl, verifyCore, errUnmarshal] at hv
  | noSigs => simp [verifyJSON, hl, verifyCore] at hv
  | noSig => simp [verifyJSON, hl, verifyCore] at hv

/-- What `verifyJSON` accepts is exactly the property's acceptance condition evaluated by the model's
    lookup: a stored signature of the right size that verifies over the canonical signed members. -/
theorem verify_iff (S : SigScheme) (n k pk : Bytes) (o : List (Bytes × JVal)) :
    verifyJSON S n k pk (.obj o) = .ok () ↔
      ∃ s, sigLookup o n k = .found s ∧ S.sigSizeOk s = true ∧ S.pkSizeOk pk = true ∧ S.verify pk (payload o) s = true := by
  simp only [verifyJSON]
  cases hl : sigLookup o n k with
  | found s =>
    simp only [verifyCore, SigLookup.found.injEq, exists_eq_left']
    by_cases h1 : S.sigSizeOk s = true
    · by_cases h2 : S.pkSizeOk pk = true
      · by_cases h3 : S.verify pk (payload o) s = true
        · simp [h1, h2, h3]
        · simp [h1, h2, h3]
      · simp [h1, h2]
    · simp [h1]
  | jsonErr => simp [verifyCore, errUnmarshal]
  | noSigs => simp [verifyCore]
  | noSig => simp [verifyCore]

/-! ### The text gate: a message its readers disagree on is never signed and never verifies

`signJSONText` / `verifyJSONText` are the models of `SignJSON` / `VerifyJSON` on the message TEXT: the gate
`checkStrictJSON` (/repo fix "SignJSON and VerifyJSON refuse JSON their readers disagree on"), then the
value-level functions above.  Texts with duplicate member names, lone surrogate escapes or invalid UTF-8
used to be outside every statement of this file (`skip` in the correspondence) — and exactly there the
code accepted tampered objects.  They are inside now: refused, whatever the keys and the scheme. -/

/-- What `verifyJSONText` accepts: the text is within the depth limit, parses, passes the gate (the value of `unsigned`
    aside), and the value verifies. -/
theorem verifyText_iff (S : SigScheme) (n k pk t : Bytes) :
    verifyJSONText S n k pk t = .ok () ↔
      depthOk t = true ∧ ∃ p, parse t = some p ∧ (pruneUnsigned p).wellFormed = true ∧ (pruneUnsigned p).noDupKeys = true ∧
        verifyJSON S n k pk p.toJVal = .ok () := by
  unfold verifyJSONText
  cases hdp : depthOk t with
  | false => simp [errAmbiguous]
  | true =>
    simp only [Bool.not_true, Bool.false_eq_true, if_false, true_and]
    cases hp : parse t with
    | none => simp [errAmbiguous]
    | some p =>
      by_cases hg : ((pruneUnsigned p).wellFormed && (pruneUnsigned p).noDupKeys) = true
      · have hg' : (pruneUnsigned p).wellFormed = true ∧ (pruneUnsigned p).noDupKeys = true := by simpa using hg
        simp only [hg, Bool.not_true, Bool.false_eq_true, if_false]
        constructor
        · intro h; exact ⟨p, rfl, hg'.1, hg'.2, h⟩
        · rintro ⟨p', hp', _, _, h⟩
          cases hp'; exact h
      · have hg0 : ((pruneUnsigned p).wellFormed && (pruneUnsigned p).noDupKeys) = false := by simpa using hg
        simp only [hg0, Bool.not_false, if_true, errAmbiguous]
        constructor
        · intro h; cases h
        · rintro ⟨p', hp', hw, hd, _⟩
          cases hp'
          rw [hw, hd] at hg0; cases hg0

/-- What `signJSONText` signs: the text is within the depth limit, parses, passes SignJSON's gate (distinct names, paired
    surrogate escapes, in the whole message), and the value is signed. -/
theorem signText_ok (S : SigScheme) (n k : Bytes) (sk : S.SK) (t : Bytes) (v' : JVal)
    (h : signJSONText S n k sk t = .ok v') :
    depthOk t = true ∧ ∃ p, parse t = some p ∧ pairedOk p = true ∧ p.noDupKeys = true ∧ signJSON S n k sk p.toJVal = .ok v' := by
  unfold signJSONText at h
  cases hdp : depthOk t with
  | false => simp [hdp, errAmbiguous] at h
  | true =>
    simp only [hdp, Bool.not_true, Bool.false_eq_true, if_false] at h
    refine ⟨rfl, ?_⟩
    cases hp : parse t with
    | none => simp [hp, errAmbiguous] at h
    | some p =>
      simp only [hp] at h
      by_cases hg : (pairedOk p && p.noDupKeys) = true
      · have hg' : pairedOk p = true ∧ p.noDupKeys = true := by simpa using hg
        simp only [hg, Bool.not_true, Bool.false_eq_true, if_false] at h
        exact ⟨p, rfl, hg'.1, hg'.2, h⟩
      · have hg0 : (pairedOk p && p.noDupKeys) = false := by simpa using hg
        simp [hg0, errAmbiguous] at h

/-- **A text nested deeper than encoding/json reads is refused before anything looks into it**: whatever it contains
    (the model never evaluates `parse` on it; in the Go code `json.Valid`, a loop with an explicit stack, is the first
    statement of the gate, in front of the recursive `gjson.ValidBytes`). -/
theorem deep_refused_unread (S : SigScheme) (n k pk t : Bytes) (sk : S.SK) (h : depthOk t = false) :
    verifyJSONText S n k pk t = .error errAmbiguous ∧ signJSONText S n k sk t = .error errAmbiguous := by
  simp [verifyJSONText, signJSONText, h]

/-- `m` opening brackets at depth `d ≤ limit` with `d + m` over the limit: the scan refuses, whatever follows -/
theorem depthWithin_brackets (limit : Nat) (rest : Bytes) : ∀ (m d : Nat), d ≤ limit → d + m > limit →
    depthWithin limit (List.replicate m 0x5B ++ rest) d false false = false
  | 0, d, h1, h2 => by omega
  | m + 1, d, h1, h2 => by
    have hq : ((0x5B : UInt8) == 0x22) = false := by decide
    have hb : ((0x5B : UInt8) == 0x7B || (0x5B : UInt8) == 0x5B) = true := by decide
    simp only [List.replicate_succ, List.cons_append, depthWithin, hq, hb, Bool.false_eq_true, if_false, if_true]
    by_cases hd : d + 1 > limit
    · simp [hd]
    · simp only [hd, if_false]
      exact depthWithin_brackets limit rest m (d + 1) (by omega) (by omega)

/-- The shape the second audit crashed the process with: `{"a":[[[[ …` with more than 10000 opening brackets, whatever
    follows them (a valid signature block included) — refused by VerifyJSON and SignJSON alike. -/
theorem deep_array_refused (S : SigScheme) (n k pk : Bytes) (sk : S.SK) (m : Nat) (hm : m ≥ maxNestingDepth) (rest : Bytes) :
    verifyJSONText S n k pk (b!"{\"a\":" ++ (List.replicate m 0x5B ++ rest)) = .error errAmbiguous ∧
    signJSONText S n k sk (b!"{\"a\":" ++ (List.replicate m 0x5B ++ rest)) = .error errAmbiguous := by
  apply deep_refused_unread
  have h := depthWithin_brackets maxNestingDepth rest m 1 (by decide) (by omega)
  simp only [depthOk, depthWithin, List.cons_append, List.nil_append]
  simp only [show maxNestingDepth = 10000 from rfl] at h ⊢
  simpa using h

mutual
/-- VerifyJSON's gate is SignJSON's gate plus the UTF-8 clause -/
theorem pairedOk_of_wellFormed : (p : PVal) → p.wellFormed = true → pairedOk p = true
  | .null, _ => rfl
  | .bool _, _ => rfl
  | .num _, _ => rfl
  | .str raw _, h => by
    simp only [PVal.wellFormed, rawStringWellFormed, Bool.and_eq_true] at h
    simp only [pairedOk, h.2]
  | .arr xs, h => by
    simp only [PVal.wellFormed] at h
    simp only [pairedOk, pairedOkList_of_wellFormed xs h]
  | .obj kvs, h => by
    simp only [PVal.wellFormed] at h
    simp only [pairedOk, pairedOkMembers_of_wellFormed kvs h]
theorem pairedOkList_of_wellFormed : (xs : List PVal) → wellFormedList xs = true → pairedOkList xs = true
  | [], _ => rfl
  | x :: xs, h => by
    simp only [wellFormedList, Bool.and_eq_true] at h
    simp only [pairedOkList, pairedOk_of_wellFormed x h.1, pairedOkList_of_wellFormed xs h.2, Bool.and_self]
theorem pairedOkMembers_of_wellFormed : (kvs : List (Bytes × Bytes × PVal)) → wellFormedMembers kvs = true →
    pairedOkMembers kvs = true
  | [], _ => rfl
  | (raw, _, v) :: kvs, h => by
    simp only [wellFormedMembers, rawStringWellFormed, Bool.and_eq_true] at h
    simp only [pairedOkMembers, h.1.1.2, pairedOk_of_wellFormed v h.1.2, pairedOkMembers_of_wellFormed kvs h.2, Bool.and_self]
end

/-- the names of the top-level members survive the pruning -/
theorem pruneUnsigned_names (kvs : List (Bytes × Bytes × PVal)) :
    (kvs.map (fun m => if m.2.1 == kUnsigned then (m.1, m.2.1, PVal.null) else m)).map (·.2.1) = kvs.map (·.2.1) := by
  induction kvs with
  | nil => rfl
  | cons m ms ih =>
    simp only [List.map_cons, ih]
    by_cases h : (m.2.1 == kUnsigned) = true <;> simp [h]

theorem wellFormedMembers_prune : (kvs : List (Bytes × Bytes × PVal)) → wellFormedMembers kvs = true →
    wellFormedMembers (kvs.map (fun m => if m.2.1 == kUnsigned then (m.1, m.2.1, PVal.null) else m)) = true
  | [], _ => rfl
  | (raw, d, v) :: kvs, h => by
    simp only [wellFormedMembers, Bool.and_eq_true] at h
    by_cases hu : (d == kUnsigned) = true
    · simp only [List.map_cons, hu, if_true, wellFormedMembers, h.1.1, PVal.wellFormed, wellFormedMembers_prune kvs h.2, Bool.and_self]
    · simp only [List.map_cons, hu, Bool.false_eq_true, if_false, wellFormedMembers, h.1.1, h.1.2, wellFormedMembers_prune kvs h.2, Bool.and_self]

theorem noDupKeysMembers_prune : (kvs : List (Bytes × Bytes × PVal)) → noDupKeysMembers kvs = true →
    noDupKeysMembers (kvs.map (fun m => if m.2.1 == kUnsigned then (m.1, m.2.1, PVal.null) else m)) = true
  | [], _ => rfl
  | (raw, d, v) :: kvs, h => by
    simp only [noDupKeysMembers, Bool.and_eq_true] at h
    by_cases hu : (d == kUnsigned) = true
    · simp only [List.map_cons, hu, if_true, noDupKeysMembers, PVal.noDupKeys, noDupKeysMembers_prune kvs h.2, Bool.and_self]
    · simp only [List.map_cons, hu, Bool.false_eq_true, if_false, noDupKeysMembers, h.1, noDupKeysMembers_prune kvs h.2, Bool.and_self]

/-- what is strict as a whole is strict with the value of `unsigned` left out -/
theorem prune_strict (p : PVal) (hw : p.wellFormed = true) (hd : p.noDupKeys = true) :
    (pruneUnsigned p).wellFormed = true ∧ (pruneUnsigned p).noDupKeys = true := by
  cases p with
  | obj kvs =>
    simp only [PVal.wellFormed] at hw
    simp only [PVal.noDupKeys, Bool.and_eq_true] at hd
    simp only [pruneUnsigned, PVal.wellFormed, PVal.noDupKeys, pruneUnsigned_names, wellFormedMembers_prune kvs hw, hd.1,
      noDupKeysMembers_prune kvs hd.2, Bool.and_self, and_self]
  | _ => exact ⟨hw, hd⟩

/-- **A message that is one definite value for every reader as a whole passes both gates**: SignJSON's (no UTF-8 clause)
    and VerifyJSON's (the value of `unsigned` not looked into).  (The converse fails on purpose since the repair of X4: an
    ambiguous value of `unsigned` is let through by VerifyJSON — it is not signed — and refused by SignJSON, which
    re-emits it.) -/
theorem strict_signStrict (t : Bytes) (h : wholeStrictJSON t = true) : signStrictJSON t = true ∧ strictJSON t = true := by
  unfold wholeStrictJSON at h
  unfold signStrictJSON strictJSON
  cases hp : parse t with
  | none => simp [hp] at h
  | some p =>
    simp only [hp, Bool.and_eq_true] at h ⊢
    obtain ⟨h1, h2⟩ := prune_strict p h.2.1 h.2.2
    exact ⟨⟨h.1, pairedOk_of_wellFormed p h.2.1, h.2.2⟩, h.1, h1, h2⟩

/-- **A text with a duplicate member name or a lone surrogate escape or invalid UTF-8 in any string or member name
    (any depth, `signatures` included; the inside of the value of `unsigned` excepted) — or nested deeper than 10000, or
    no JSON at all — never verifies**: for every scheme, name, key ID and key. -/
theorem ambiguous_never_verifies (S : SigScheme) (n k pk t : Bytes) (h : strictJSON t = false) :
    verifyJSONText S n k pk t ≠ .ok () := by
  intro hv
  obtain ⟨hdp, p, hp, hw, hd, _⟩ := (verifyText_iff S n k pk t).1 hv
  simp [strictJSON, hdp, hp, hw, hd] at h

/-- **A text with a duplicate member name (any depth, the inside of `unsigned` included) or a lone surrogate escape is
    never signed.**  (Invalid UTF-8 alone is not refused by SignJSON — `PDU.Sign` must not fail on events the constructors
    accept; VerifyJSON refuses it.) -/
theorem ambiguous_never_signed (S : SigScheme) (n k : Bytes) (sk : S.SK) (t : Bytes) (h : signStrictJSON t = false)
    (v' : JVal) : signJSONText S n k sk t ≠ .ok v' := by
  intro hs
  obtain ⟨hdp, p, hp, hw, hd, _⟩ := signText_ok S n k sk t v' hs
  simp [signStrictJSON, hdp, hp, hw, hd] at h

/-- The two classes by name: duplicate keys / ill-formed Unicode somewhere in the parsed text outside the value of
    `unsigned`. -/
theorem dup_or_illformed_never_verifies (S : SigScheme) (n k pk t : Bytes) (p : PVal) (hp : parse t = some p)
    (h : (pruneUnsigned p).noDupKeys = false ∨ (pruneUnsigned p).wellFormed = false) : verifyJSONText S n k pk t ≠ .ok () := by
  apply ambiguous_never_verifies
  rcases h with h | h <;> simp [strictJSON, hp, h]

/-- **`unsigned` may be changed to anything** (the property's "after `unsigned` is changed", at the level of texts, X4):
    two texts within the depth limit whose parsed forms differ only in the value of the top-level `unsigned` member pass
    VerifyJSON's gate together — an ambiguous value (duplicate names, lone surrogates, invalid UTF-8 inside it) included. -/
theorem gate_ignores_unsigned_value (t t' : Bytes) (p p' : PVal) (hp : parse t = some p) (hp' : parse t' = some p')
    (hd : depthOk t = depthOk t') (hsame : pruneUnsigned p = pruneUnsigned p') : strictJSON t = strictJSON t' := by
  simp [strictJSON, hp, hp', hd, hsame]

theorem noDupIn_nodup : ∀ ks : List Bytes, noDupIn ks = true → ks.Nodup
  | [], _ => List.nodup_nil
  | k :: ks, h => by
    simp only [noDupIn, Bool.and_eq_true, Bool.not_eq_true', List.contains_eq_mem, decide_eq_false_iff_not] at h
    exact List.nodup_cons.2 ⟨h.1, noDupIn_nodup ks h.2⟩

/-- What passes the gate has distinct top-level member names: the `UniqueKeys` hypothesis of the value-level
    theorems is discharged by the gate for every message SignJSON / VerifyJSON go on to read (the pruning of the value of
    `unsigned` keeps the names). -/
theorem gate_uniqueKeys (t : Bytes) (p : PVal) (o : List (Bytes × JVal)) (_hp : parse t = some p)
    (hd : (pruneUnsigned p).noDupKeys = true) (ho : p.toJVal = .obj o) : UniqueKeys o := by
  cases p with
  | obj kvs =>
    simp only [pruneUnsigned, PVal.noDupKeys, pruneUnsigned_names, Bool.and_eq_true] at hd
    simp only [PVal.toJVal, JVal.obj.injEq] at ho
    subst ho
    have := noDupIn_nodup _ hd.1
    rw [← toJMembers_keys kvs] at this
    unfold UniqueKeys
    rw [List.nodup_iff_pairwise_ne, List.pairwise_map] at this
    exact this
  | _ => simp [PVal.toJVal] at ho

theorem numsOk_body (o : List (Bytes × JVal)) (h : (JVal.obj o).numsOk = true) : (JVal.obj (body o)).numsOk = true := by
  simp only [JVal.numsOk, numsOkMembers_eq_all, List.all_eq_true] at h ⊢
  intro kv hkv
  exact h kv (mem_body hkv)

/-- **Tampering, at the level of texts**: `t''` is ANY text presented for verification that still carries, at
    (name, kid), the signature made over the object `t` denotes, while its signed members denote another value
    (member order and the spelling `-0` aside).  It does not verify under any key — with no side condition on
    either text: the number literals are grammatical because the texts parse, and a `t''` with duplicate names
    or ill-formed Unicode is refused by the gate before its signature is looked at. -/
theorem verify_text_sound_tamper (S : SigScheme) (hS : IdealSig S) (n k : Bytes) (sk : S.SK)
    (t t'' : Bytes) (p p'' : PVal) (o o'' : List (Bytes × JVal))
    (hp : parse t = some p) (ho : p.toJVal = .obj o) (hp'' : parse t'' = some p'') (ho'' : p''.toJVal = .obj o'')
    (hsig : sigLookup o'' n k = .found (S.sign sk (payload o)))
    (hdiff : (JVal.obj (body o'')).sorted.normNums ≠ (JVal.obj (body o)).sorted.normNums) (pk'' : Bytes) :
    verifyJSONText S n k pk'' t'' ≠ .ok () := by
  intro hv
  obtain ⟨_, q, hq, _, _, hvq⟩ := (verifyText_iff S n k pk'' t'').1 hv
  rw [hp''] at hq; cases hq
  rw [ho''] at hvq
  have hn : (JVal.obj o).numsOk = true := by rw [← ho]; exact parse_numsOk hp
  have hn'' : (JVal.obj o'').numsOk = true := by rw [← ho'']; exact parse_numsOk hp''
  exact verify_sound_tamper S hS n k sk o o'' (numsOk_body o hn) (numsOk_body o'' hn'') hsig hdiff pk'' hvq

/-! ### ListKeyIDs -/

/-- **On a signed object, `ListKeyIDs(name')` lists exactly the key IDs under which VerifyJSON finds a
    signature of name'** — in particular the signer's key ID is listed for the signer. -/
theorem listKeyIDs_complete (S : SigScheme) (n k : Bytes) (sk : S.SK) (o : List (Bytes × JVal))
    (_hu : UniqueKeys o) (v' : JVal) (h : signJSON S n k sk (.obj o) = .ok v') (n' : Bytes) :
    ∃ o' ks, v' = .obj o' ∧ listKeyIDs n' v' = some ks ∧
      (∀ k', k' ∈ ks ↔ ((sigLookup o' n' k').sigAt).isSome = true) ∧ (n' = n → k ∈ ks) := by
  obtain ⟨p, hd, hv⟩ := signJSON_ok_shape S n k sk o v' h
  have hw' := wf_set (p.sigs.getD []) n k (S.sign sk (payload o)) (wf_getD o p hd)
  obtain ⟨ks, hks, hmem⟩ := listKeyIDs_assemble (body o) _ hw' p.unsigned n'
  subst hv
  refine ⟨_, ks, rfl, hks, fun k' => ?_, fun hn => ?_⟩
  · rw [sigLookup_assemble _ _ hw']
    exact hmem k'
  · subst hn
    rw [hmem k, lookupIn_set_same]
    rfl

/-- SignJSON has no reachable panic site (the nil-map writes were removed in /repo d8b0e36). -/
theorem sign_never_panics (S : SigScheme) (n k : Bytes) (sk : S.SK) (v : JVal) (site : String) :
    signJSON S n k sk v ≠ .error (.panic site) :=
  signJSON_no_panic S n k sk v site

/-! ### Non-vacuity: a toy scheme satisfying every hypothesis, and concrete instances -/

/-- `sign sk m = (sk, m)`: 256 one-byte keys, the signature is the key followed by the message. -/
def toyScheme : SigScheme :=
  { SK := UInt8
    pk := fun sk => [sk]
    sign := fun sk m => sk :: m
    verify := fun pk m s => match pk with
      | [x] => s == x :: m
      | _ => false
    sigSizeOk := fun _ => true
    pkSizeOk := fun _ => true }

/-- the hypotheses of the soundness theorems are jointly satisfiable -/
theorem toy_ideal : IdealSig toyScheme where
  correct := by intro sk m; simp [toyScheme]
  sig_size := by intro sk m; rfl
  pk_size := by intro sk; rfl
  msg_binding := by
    intro pk' m' sk m h
    simp only [toyScheme] at h
    split at h
    · simp only [beq_iff_eq] at h
      injection h with _ h2
      exact h2.symm
    · cases h
  key_binding := by
    intro pk' m' sk m h
    simp only [toyScheme] at h
    split at h
    · simp only [beq_iff_eq] at h
      injection h with h1 _
      rw [h1]
      rfl
    · cases h

/-- a non-trivial instance of the hypotheses of `sign_verify_after`, `sign_preserves`, `verify_sound_key` -/
def sampleObject : List (Bytes × JVal) :=
  [(b!"type", .str b!"m.room.member"), (b!"unsigned", .obj [(b!"age", .num b!"5")]),
   (b!"signatures", .obj [(b!"hs1", .obj [(b!"ed25519:1", .str b!"AQID")])])]

example : UniqueKeys sampleObject := by
  unfold UniqueKeys sampleObject; decide

/-- decidable form of "verification succeeded" for the concrete examples -/
def accepted : Except Err Unit → Bool
  | .ok _ => true
  | .error _ => false

/-- sign as hs2, then verify: accepted under hs2's key, rejected under another key and under another name's
    (pre-existing, random) signature -/
def signedSample : JVal :=
  match signJSON toyScheme b!"hs2" b!"ed25519:a" (7 : UInt8) (.obj sampleObject) with
  | .ok v => v
  | .error _ => .null

example : accepted (verifyJSON toyScheme b!"hs2" b!"ed25519:a" [7] signedSample) = true ∧
    accepted (verifyJSON toyScheme b!"hs2" b!"ed25519:a" [8] signedSample) = false ∧
    accepted (verifyJSON toyScheme b!"hs1" b!"ed25519:1" [7] signedSample) = false := by
  decide

/-- Case variants of the two keys are ordinary members: a top-level `Signatures` is kept, signed, and not
    read as the signature map (it used to be copied into `signatures`: /repo 0fb2afd). -/
def caseVariantWitness : List (Bytes × JVal) :=
  [(b!"a", .num b!"1"), (b!"Signatures", .obj [(b!"evil", .obj [(b!"k", .str b!"AAAA")])])]

def sigAtAfterSigning (o : List (Bytes × JVal)) (n' k' : Bytes) : Option Bytes :=
  match signJSON toyScheme b!"srv" b!"ed25519:1" (7 : UInt8) (.obj o) with
  | .ok (.obj o') => (sigLookup o' n' k').sigAt
  | _ => none

example : sigAtAfterSigning caseVariantWitness b!"evil" b!"k" = none ∧
    (sigAtAfterSigning caseVariantWitness b!"srv" b!"ed25519:1").isSome = true ∧
    (body caseVariantWitness).length = 2 := by
  decide

/-! ### The inputs on which VerifyJSON / SignJSON used to go wrong (K7), now refused — for every scheme and key -/

/-- `"a":"ab"` rewritten to `"a":"a\ud800b"` under the old signature: CompactJSON dropped the lone surrogate. -/
def k7LoneSurrogate : Bytes := b!"{\"a\":\"a\\ud800b\",\"n\":{\"x\":1},\"signatures\":{\"srv\":{\"ed25519:1\":\"AAAA\"}}}"
/-- a duplicate member placed first: encoding/json kept the last (signed) one, gjson reads `EVIL` -/
def k7DuplicateFirst : Bytes := b!"{\"a\":\"EVIL\",\"a\":\"ab\",\"n\":{\"x\":1},\"signatures\":{\"srv\":{\"ed25519:1\":\"AAAA\"}}}"
/-- the same with the name respelled -/
def k7DuplicateRespelled : Bytes := b!"{\"\\u0061\":\"EVIL\",\"a\":\"ab\",\"signatures\":{\"srv\":{\"ed25519:1\":\"AAAA\"}}}"
/-- a lone surrogate in a nested member name -/
def k7NestedName : Bytes := b!"{\"a\":\"ab\",\"n\":{\"x\\udfff\":1},\"signatures\":{\"srv\":{\"ed25519:1\":\"AAAA\"}}}"
/-- a second `signatures` member placed first -/
def k7SecondSignatures : Bytes := b!"{\"signatures\":{},\"a\":\"ab\",\"signatures\":{\"srv\":{\"ed25519:1\":\"AAAA\"}}}"
/-- a nested duplicate, as SignJSON used to sign it -/
def k7NestedDuplicate : Bytes := b!"{\"n\":{\"x\":1,\"x\":2}}"
/-- invalid UTF-8 in a member name (encoding/json read U+FFFD) -/
def k7InvalidUtf8Name : Bytes := [0x7B, 0x22, 0xFF, 0x22, 0x3A, 0x31, 0x7D]

example : strictJSON k7LoneSurrogate = false ∧ strictJSON k7DuplicateFirst = false ∧ strictJSON k7DuplicateRespelled = false ∧
    strictJSON k7NestedName = false ∧ strictJSON k7SecondSignatures = false ∧ strictJSON k7NestedDuplicate = false ∧
    strictJSON k7InvalidUtf8Name = false := by
  decide

example (S : SigScheme) (n k pk : Bytes) : verifyJSONText S n k pk k7LoneSurrogate ≠ .ok () ∧
    verifyJSONText S n k pk k7DuplicateFirst ≠ .ok () ∧ verifyJSONText S n k pk k7SecondSignatures ≠ .ok () :=
  ⟨ambiguous_never_verifies S n k pk _ (by decide), ambiguous_never_verifies S n k pk _ (by decide),
   ambiguous_never_verifies S n k pk _ (by decide)⟩

example (S : SigScheme) (n k : Bytes) (sk : S.SK) (v' : JVal) : signJSONText S n k sk k7NestedDuplicate ≠ .ok v' ∧
    signJSONText S n k sk k7LoneSurrogate ≠ .ok v' :=
  ⟨ambiguous_never_signed S n k sk _ (by decide) v', ambiguous_never_signed S n k sk _ (by decide) v'⟩

/-- the split: SignJSON's gate has no UTF-8 clause, VerifyJSON's has -/
example : signStrictJSON k7InvalidUtf8Name = true ∧ strictJSON k7InvalidUtf8Name = false := by decide

/-- the gate lets well-formed texts through — a proper surrogate pair included — and the text-level functions then
    agree with the value-level ones: sign a text, verify the canonical bytes of the result -/
def pairText : Bytes := b!"{\"a\":\"\\ud83d\\ude00\",\"n\":{\"x\":1}}"

example : strictJSON pairText = true ∧ signStrictJSON pairText = true ∧
    (match signJSONText toyScheme b!"srv" b!"ed25519:1" (7 : UInt8) pairText with
     | .ok v => accepted (verifyJSONText toyScheme b!"srv" b!"ed25519:1" [7] (encodeCanon v)) &&
                !accepted (verifyJSONText toyScheme b!"srv" b!"ed25519:1" [8] (encodeCanon v))
     | .error _ => false) = true := by
  decide

/-! ### Second audit: X4 (`unsigned` may be changed to anything) and X1 (nesting) -/

/-- a signed object whose `unsigned` was changed to something no two readers agree on: a lone surrogate escape and a
    duplicate name inside it -/
def x4UnsignedAmbiguous : Bytes :=
  b!"{\"a\":\"ab\",\"signatures\":{\"srv\":{\"ed25519:1\":\"AAAA\"}},\"unsigned\":{\"x\":\"\\ud800\",\"d\":1,\"d\":2}}"

/-- VerifyJSON's gate lets it through (the value of `unsigned` is not looked into), SignJSON's does not (SignJSON re-emits
    `unsigned`); a second `unsigned` member, or an ill-formed member NAME at the top level, is still refused by both -/
example : strictJSON x4UnsignedAmbiguous = true ∧ signStrictJSON x4UnsignedAmbiguous = false ∧
    wholeStrictJSON x4UnsignedAmbiguous = false ∧
    strictJSON b!"{\"a\":1,\"unsigned\":{},\"unsigned\":{}}" = false ∧
    strictJSON b!"{\"a\":1,\"unsigned\\ud800\":{}}" = false := by
  decide

/-- sign a text, change `unsigned` of the result to the ambiguous value above: still verified under the signer's key, still
    refused under another key -/
example :
    (match signJSONText toyScheme b!"srv" b!"ed25519:1" (7 : UInt8) b!"{\"a\":\"ab\"}" with
     | .ok (.obj o) =>
       let t := encodeCanon (.obj o)
       let t' := t.dropLast ++ b!",\"unsigned\":{\"x\":\"\\ud800\",\"d\":1,\"d\":2}}"
       accepted (verifyJSONText toyScheme b!"srv" b!"ed25519:1" [7] t') &&
         !accepted (verifyJSONText toyScheme b!"srv" b!"ed25519:1" [8] t') && !strictJSON t' == false
     | _ => false) = true := by
  decide

/-- the depth scan on small texts: brackets inside strings do not count, the limit is on the open brackets -/
example : depthWithin 2 b!"{\"a\":[\"[[[[\\\"[[\"]}" 0 false false = true ∧ depthWithin 2 b!"{\"a\":[[1]]}" 0 false false = false ∧
    depthOk b!"{\"a\":[[1]]}" = true := by
  decide

end V.C02
