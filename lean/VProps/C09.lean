/-
  C09 — An auth verdict depends only on the event and the state it needs.

  The reusable checker (`allowerContext`) is a state machine `Ctx` with `update` and `allowed`.
  Main theorem (refinement to the pure function): whatever sequence of providers the context was
  updated with before, `update p` leaves it in exactly the state a fresh context has for `p`;
  `allowed` does not change the context at all (it is a pure function of it).  Hence the verdict of
  every check through a reused context equals the verdict of a fresh `Allowed`.

  Events are compared by pointer identity in Go and structurally (version, event ID and the whole JSON value) in the
  model: `sameEvent a b = true → a = b` (`sameEvent_eq`), so no assumption about event IDs is needed (until round 4 the
  model compared (version, event ID) and the theorems carried a hypothesis `Ids U`: within the events in play the ID
  identifies the event — which the trusted constructors do not guarantee).
-/
import VModel.Auth
import VProofs.AuthNeededProviders
namespace V.C09
open V V.Json V.GoJson V.Auth

mutual
theorem jvBeq_eq : ∀ (x y : JVal), jvBeq x y = true → x = y
  | .null, y, h => by cases y <;> simp [jvBeq] at h ⊢
  | .bool a, y, h => by cases y <;> simp [jvBeq] at h ⊢; exact h
  | .num a, y, h => by cases y <;> simp [jvBeq] at h ⊢; exact h
  | .str a, y, h => by cases y <;> simp [jvBeq] at h ⊢; exact h
  | .arr a, y, h => by
    cases y <;> simp [jvBeq] at h ⊢
    exact jvsBeq_eq a _ h
  | .obj a, y, h => by
    cases y <;> simp [jvBeq] at h ⊢
    exact jkvsBeq_eq a _ h
theorem jvsBeq_eq : ∀ (xs ys : List JVal), jvsBeq xs ys = true → xs = ys
  | [], ys, h => by cases ys <;> simp [jvsBeq] at h ⊢
  | x :: xs, ys, h => by
    cases ys with
    | nil => simp [jvsBeq] at h
    | cons y ys =>
      simp only [jvsBeq, Bool.and_eq_true] at h
      rw [jvBeq_eq x y h.1, jvsBeq_eq xs ys h.2]
theorem jkvsBeq_eq : ∀ (xs ys : List (Bytes × JVal)), jkvsBeq xs ys = true → xs = ys
  | [], ys, h => by cases ys <;> simp [jkvsBeq] at h ⊢
  | (k, x) :: xs, ys, h => by
    cases ys with
    | nil => simp [jkvsBeq] at h
    | cons y ys =>
      obtain ⟨l, y⟩ := y
      simp only [jkvsBeq, Bool.and_eq_true, beq_iff_eq] at h
      rw [h.1.1, jvBeq_eq x y h.1.2, jkvsBeq_eq xs ys h.2]
end

/-- the model's identity test is sound: events it takes for the same ARE the same -/
theorem sameEvent_eq {a b : Option Event} (h : sameEvent a b = true) : a = b := by
  cases a with
  | none => cases b with
    | none => rfl
    | some y => simp [sameEvent] at h
  | some x => cases b with
    | none => simp [sameEvent] at h
    | some y =>
      simp only [sameEvent, Bool.and_eq_true, beq_iff_eq] at h
      obtain ⟨v1, id1, o1⟩ := x
      obtain ⟨v2, id2, o2⟩ := y
      simp only at h
      rw [h.1.1, h.1.2, jkvsBeq_eq o1 o2 h.2]

/-- The cache invariant: whatever is cached for an event is what a refresh from that event computes. -/
structure Inv (a : Ctx) : Prop where
  create : ∀ ce, a.createEvent = some ce →
    createInfo (some ce) = .ok (some ce, a.create, a.creators, a.privilegedCreators)
  pl : ∀ pe, a.plEvent = some pe → ∀ creator, plInfo (some pe) creator = .ok (some pe, a.pl)
  /-- a cached power-levels event was loaded without error -/
  plErr : ∀ pe, a.plEvent = some pe → a.plErr = none
  jr : ∀ je, a.jrEvent = some je → jrInfo (some je) = (some je, a.joinRule)

/-- the state of a context that has never been used -/
theorem inv_empty : Inv {} :=
  ⟨(fun _ h => by cases h), (fun _ h => by cases h), (fun _ h => by cases h), (fun _ h => by cases h)⟩

/-! ### each refresh stage yields what the refresh function computes from the provider alone -/

theorem createInfo_fst {e : Option Event} {r} (h : createInfo e = .ok r) : r.1 = e ∨ r = (none, {}, [], false) := by
  unfold createInfo at h
  split at h
  · split at h
    · cases h; exact Or.inl rfl
    · cases h; exact Or.inr rfl
  · cases h
  · cases h; exact Or.inr rfl

theorem createInfo_some {e : Option Event} {ce c cr pr} (h : createInfo e = .ok (some ce, c, cr, pr)) : e = some ce := by
  rcases createInfo_fst h with h' | h'
  · exact h'.symm
  · simp at h'

theorem plInfo_some {e : Option Event} {cr pe pl} (h : plInfo e cr = .ok (some pe, pl)) :
    e = some pe ∧ ∀ c', plInfo (some pe) c' = .ok (some pe, pl) := by
  unfold plInfo at h
  cases e with
  | none => simp at h
  | some ev =>
    simp only at h
    cases hp : powerLevelsFromEvent ev with
    | ok pl' =>
      simp only [hp] at h
      cases h
      exact ⟨rfl, fun c' => by simp [plInfo, hp]⟩
    | error v =>
      simp only [hp] at h
      cases v <;> simp at h

/-- a power-levels event that `plInfo` caches was loaded without error -/
theorem plErrOf_none_of_plInfo {pe : Event} {cr : Bytes} {pl : PowerLevels} (h : plInfo (some pe) cr = .ok (some pe, pl)) :
    plErrOf (some pe) = none := by
  unfold plInfo at h
  unfold plErrOf
  simp only at h ⊢
  cases hp : powerLevelsFromEvent pe with
  | ok x => rfl
  | error v => rw [hp] at h; cases v <;> simp at h

theorem jrInfo_some {e : Option Event} {je jr} (h : jrInfo e = (some je, jr)) :
    e = some je ∧ jrInfo (some je) = (some je, jr) := by
  unfold jrInfo at h
  cases e with
  | none => simp at h
  | some ev =>
    simp only at h
    cases hd : decodeJoinRule ev.content with
    | some j =>
      simp only [hd] at h
      cases h
      exact ⟨rfl, by simp [jrInfo, hd]⟩
    | none => simp [hd] at h

theorem refreshCreate_spec (a : Ctx) (p : Provider) (hinv : Inv a) :
    a.refreshCreate p =
      (match createInfo p.create with
       | .ok (ce, c, cr, pr) => .ok { a with createEvent := ce, create := c, creators := cr, privilegedCreators := pr }
       | .error v => .error v) := by
  unfold Ctx.refreshCreate
  split
  · rfl
  · rename_i hc
    simp only [Bool.or_eq_true, Bool.not_eq_true', not_or, Bool.not_eq_false, Option.isNone_iff_eq_none] at hc
    obtain ⟨hsome, hsame⟩ := hc
    have heq : a.createEvent = p.create := sameEvent_eq hsame
    cases hce : a.createEvent with
    | none => exact absurd hce hsome
    | some ce =>
      have := hinv.create ce hce
      rw [← heq, hce, this]
      cases a; simp_all

theorem plInfo_some_creator (pe : Event) (c1 c2 : Bytes) : plInfo (some pe) c1 = plInfo (some pe) c2 := by
  unfold plInfo; rfl

theorem refreshPL_spec (a : Ctx) (p : Provider) (hinv : Inv a) :
    a.refreshPL p =
      (match plInfo p.powerLevels (senderOfOpt a.createEvent) with
       | .ok (pe, pl) => .ok { a with plEvent := pe, pl := pl, plErr := plErrOf p.powerLevels }
       | .error v => .error v) := by
  unfold Ctx.refreshPL
  split
  · rfl
  · rename_i hc
    simp only [Bool.or_eq_true, Bool.not_eq_true', not_or, Bool.not_eq_false, Option.isNone_iff_eq_none] at hc
    obtain ⟨hsome, hsame⟩ := hc
    have heq : a.plEvent = p.powerLevels := sameEvent_eq hsame
    cases hpe : a.plEvent with
    | none => exact absurd hpe hsome
    | some pe =>
      have := hinv.pl pe hpe (senderOfOpt a.createEvent)
      have he := hinv.plErr pe hpe
      rw [← heq, hpe, this, plErrOf_none_of_plInfo this]
      cases a; simp_all

theorem refreshJR_spec (a : Ctx) (p : Provider) (hinv : Inv a) :
    a.refreshJR p = { a with jrEvent := (jrInfo p.joinRules).1, joinRule := (jrInfo p.joinRules).2 } := by
  unfold Ctx.refreshJR
  split
  · rfl
  · rename_i hc
    simp only [Bool.or_eq_true, Bool.not_eq_true', not_or, Bool.not_eq_false, Option.isNone_iff_eq_none] at hc
    obtain ⟨hsome, hsame⟩ := hc
    have heq : a.jrEvent = p.joinRules := sameEvent_eq hsame
    cases hje : a.jrEvent with
    | none => exact absurd hje hsome
    | some je =>
      have := hinv.jr je hje
      rw [← heq, hje, this]
      cases a; simp_all

/-- The cache a context ends up with after `update p`, computed from `p` alone. -/
def freshOf (p : Provider) : R Ctx :=
  match createInfo p.create with
  | .error v => .error v
  | .ok (ce, c, cr, pr) =>
    match plInfo p.powerLevels (senderOfOpt ce) with
    | .error v => .error v
    | .ok (pe, pl) =>
      .ok { provider := p, hasProvider := true, createEvent := ce, create := c, creators := cr, privilegedCreators := pr,
            plEvent := pe, pl := pl, plErr := plErrOf p.powerLevels,
            jrEvent := (jrInfo p.joinRules).1, joinRule := (jrInfo p.joinRules).2 }

theorem inv_switch (a : Ctx) (p : Provider) (h : Inv a) : Inv (a.switchProvider p) := by
  unfold Ctx.switchProvider
  split
  · exact ⟨(fun _ h => by cases h), (fun _ h => by cases h), (fun _ h => by cases h), (fun _ h => by cases h)⟩
  · exact ⟨h.create, h.pl, h.plErr, h.jr⟩

theorem switch_fields (a : Ctx) (p : Provider) :
    (a.switchProvider p).provider = p ∧ (a.switchProvider p).hasProvider = true ∨
    ((a.switchProvider p).provider = p ∧ (a.switchProvider p).hasProvider = a.hasProvider ∧ a.hasProvider = true) := by
  unfold Ctx.switchProvider
  split
  · exact Or.inl ⟨rfl, rfl⟩
  · rename_i hc
    simp only [Bool.or_eq_true, Bool.not_eq_true', not_or, Bool.not_eq_false] at hc
    exact Or.inr ⟨rfl, rfl, hc.1⟩

/-- **History independence of `update`.**  For any context satisfying the cache invariant (in particular any
    context reached from the empty one by updates), `update p` yields exactly `freshOf p` — a function of `p` only. -/
theorem update_eq_freshOf (a : Ctx) (p : Provider) (hinv : Inv a) : a.update p = freshOf p := by
  unfold Ctx.update freshOf
  have hinv1 := inv_switch a p hinv
  simp only [bind, Except.bind, pure, Except.pure]
  rw [refreshCreate_spec _ p hinv1]
  cases hci : createInfo p.create with
  | error v => rfl
  | ok r =>
    obtain ⟨ce, c, cr, pr⟩ := r
    simp only
    -- the context after the create refresh still satisfies the invariant
    have hinv2 : Inv { (a.switchProvider p) with createEvent := ce, create := c, creators := cr, privilegedCreators := pr } := by
      refine ⟨?_, hinv1.pl, hinv1.plErr, hinv1.jr⟩
      intro e he
      simp only at he; subst he
      have h' := hci; rw [createInfo_some hci] at h'; exact h'
    rw [refreshPL_spec _ p hinv2]
    simp only
    cases hpi : plInfo p.powerLevels (senderOfOpt ce) with
    | error v => rfl
    | ok r2 =>
      obtain ⟨pe, pl⟩ := r2
      simp only
      have hinv3 : Inv { ({ (a.switchProvider p) with createEvent := ce, create := c, creators := cr, privilegedCreators := pr } : Ctx)
                           with plEvent := pe, pl := pl, plErr := plErrOf p.powerLevels } := by
        refine ⟨hinv2.create, ?_, ?_, hinv2.jr⟩
        · intro e he creator
          simp only at he; subst he
          exact (plInfo_some hpi).2 creator
        · intro e he
          simp only at he; subst he
          simp only
          rw [(plInfo_some hpi).1]
          exact plErrOf_none_of_plInfo ((plInfo_some hpi).2 [])
      rw [refreshJR_spec _ p hinv3]
      rcases switch_fields a p with h | h
      · congr 1
        simp [h.1, h.2]
      · congr 1
        simp [h.1, h.2.1, h.2.2]

/-- the invariant holds for every context produced by `update` (so for every reachable context) -/
theorem inv_freshOf (p : Provider) (c : Ctx) (h : freshOf p = .ok c) : Inv c := by
  unfold freshOf at h
  cases hci : createInfo p.create with
  | error v => simp [hci] at h
  | ok r =>
    obtain ⟨ce, cc, cr, pr⟩ := r
    simp only [hci] at h
    cases hpi : plInfo p.powerLevels (senderOfOpt ce) with
    | error v => simp [hpi] at h
    | ok r2 =>
      obtain ⟨pe, pl⟩ := r2
      simp only [hpi] at h
      cases h
      refine ⟨?_, ?_, ?_, ?_⟩
      · intro e he
        simp only at he; subst he
        have h' := hci; rw [createInfo_some hci] at h'; exact h'
      · intro e he creator
        simp only at he; subst he
        exact (plInfo_some hpi).2 creator
      · intro e he
        simp only at he; subst he
        simp only
        rw [(plInfo_some hpi).1]
        exact plErrOf_none_of_plInfo ((plInfo_some hpi).2 [])
      · intro e he
        simp only at he
        exact (jrInfo_some (e := p.joinRules) (je := e) (jr := (jrInfo p.joinRules).2) (by rw [← he])).2

/-- A run of the reused checker: updates and checks interleaved; returns the verdicts of the checks. -/
inductive Step where
  | update (p : Provider)
  | check (e : Event) (sig : Bool)

def run : Ctx → List Step → List (Option Verdict)
  | _, [] => []
  | a, .update p :: rest =>
    match a.update p with
    | .ok a' => run a' rest
    | .error _ => []          -- unmodelled input: the run is cut (outside the model's domain)
  | a, .check e sig :: rest =>
    (match a.allowed e sig with | .ok () => some .ok | .error v => some v) :: run a rest

/-- the same run where every check is answered by a FRESH context for the most recent provider -/
def runFresh : Option Provider → List Step → List (Option Verdict)
  | _, [] => []
  | _, .update p :: rest =>
    match freshOf p with
    | .ok _ => runFresh (some p) rest
    | .error _ => []
  | cur, .check e sig :: rest =>
    (match cur with
     | none => none
     | some p => match freshOf p with
       | .ok c => (match c.allowed e sig with | .ok () => some .ok | .error v => some v)
       | .error _ => none) :: runFresh cur rest

/-- **C09, main theorem.**  The verdict sequence of ANY run of one reused checker — any number of providers
    (same or different create / power-levels / join-rules events, unparseable ones, missing ones, different events
    carrying one event ID), any interleaving of updates and checks — equals the verdicts fresh checks would give. -/
theorem verdicts_history_independent (a : Ctx) (cur : Option Provider) (steps : List Step)
    (hinv : Inv a) (hcur : ∀ p, cur = some p → freshOf p = .ok a)
    (hstart : cur = none → ∀ e sig rest, steps ≠ .check e sig :: rest) :
    run a steps = runFresh cur steps := by
  induction steps generalizing a cur with
  | nil => rfl
  | cons s rest ih =>
    cases s with
    | update p =>
      simp only [run, runFresh]
      rw [update_eq_freshOf a p hinv]
      cases hf : freshOf p with
      | error v => rfl
      | ok a' =>
        simp only
        apply ih a' (some p) (inv_freshOf p a' hf) (fun q hq => by cases hq; exact hf)
        intro h; cases h
    | check e sig =>
      simp only [run, runFresh]
      cases cur with
      | none => exact absurd rfl (hstart rfl e sig rest)
      | some p =>
        simp only [hcur p rfl]
        congr 1
        apply ih a (some p) hinv hcur
        intro h; cases h

/-- Non-vacuity: the empty context satisfies the invariant, and every run starting with an update meets the hypotheses. -/
example (p : Provider) (rest : List Step) :
    run {} (.update p :: rest) = runFresh none (.update p :: rest) :=
  verdicts_history_independent {} none _ inv_empty (fun _ h => by cases h) (fun _ e sig r h => by cases h)

/-- `Allowed` is the fresh check behind the `Valid()` gate. -/
theorem allowedFresh_eq (e : Event) (p : Provider) (sig : Bool) :
    allowedFresh e p sig = if !p.valid then .notAllowed else allowedFreshNoValid e p sig := by
  unfold allowedFresh allowedFreshNoValid
  split <;> rfl

/-- the cache computed from the provider alone is what `update` leaves in a context that has never been used -/
theorem freshOf_eq_update (p : Provider) : freshOf p = ({} : Ctx).update p := (AuthRules.update_empty p).symm

theorem freshOf_provider {p : Provider} {c : Ctx} (h : freshOf p = .ok c) : c.provider = p :=
  (AuthRules.fresh_of h).provider

/-- **The reused checker makes the `Valid()` test itself** (32272dd): the check of a context freshly created for `p` —
    which is how the state-resolution model calls the checker — is the standalone `Allowed`.  Before the repair the two
    differed exactly on providers holding events of several rooms.  (Side condition: the auth events are inside the
    modelled domain; on an unmodelled create / power-levels event `update` itself answers `unmodelled`.) -/
theorem allowedFresh_eq_noValid (e : Event) (p : Provider) (sig : Bool)
    (hm : ∀ w, allowedFreshNoValid e p sig ≠ .unmodelled w) :
    allowedFresh e p sig = allowedFreshNoValid e p sig := by
  rw [allowedFresh_eq]
  by_cases hv : (!p.valid) = true
  · simp only [hv, if_true]
    unfold allowedFreshNoValid at hm ⊢
    rw [← freshOf_eq_update] at hm ⊢
    cases hf : freshOf p with
    | error v =>
      obtain ⟨w, rfl⟩ := AuthRules.freshOf_error hf
      rw [hf] at hm
      exact absurd rfl (hm w)
    | ok c =>
      simp only
      unfold Ctx.allowed
      rw [freshOf_provider hf, hv]
      rfl
  · simp only [hv, if_false, Bool.false_eq_true]

/-- A check through a reused checker that was last updated with `p` answers what the standalone `Allowed(e, p)`
    answers — with its `Valid()` gate. -/
theorem check_eq_allowed (p : Provider) (c : Ctx) (h : freshOf p = .ok c) (e : Event) (sig : Bool) :
    (match c.allowed e sig with | .ok () => Verdict.ok | .error v => v) = allowedFresh e p sig := by
  unfold allowedFresh
  rw [← freshOf_eq_update, h]
  by_cases hv : (!p.valid) = true
  · simp only [hv, if_true]
    unfold Ctx.allowed
    rw [freshOf_provider h, hv]
    rfl
  · simp only [hv, if_false, Bool.false_eq_true]
    cases c.allowed e sig with
    | ok u => cases u; rfl
    | error v => rfl

/-- the same run where every check is answered by the standalone `Allowed` on the most recent provider -/
def runAllowed : Option Provider → List Step → List (Option Verdict)
  | _, [] => []
  | _, .update p :: rest =>
    match freshOf p with
    | .ok _ => runAllowed (some p) rest
    | .error _ => []
  | cur, .check e sig :: rest =>
    (match cur with
     | none => none
     | some p => match freshOf p with
       | .ok _ => some (allowedFresh e p sig)
       | .error _ => none) :: runAllowed cur rest

theorem runFresh_eq_runAllowed (cur : Option Provider) (steps : List Step) : runFresh cur steps = runAllowed cur steps := by
  induction steps generalizing cur with
  | nil => rfl
  | cons s rest ih =>
    cases s with
    | update p =>
      simp only [runFresh, runAllowed]
      cases freshOf p with
      | error v => rfl
      | ok c => exact ih (some p)
    | check e sig =>
      simp only [runFresh, runAllowed]
      congr 1
      · cases cur with
        | none => rfl
        | some p =>
          simp only
          cases hf : freshOf p with
          | error v => rfl
          | ok c =>
            simp only
            have h := check_eq_allowed p c hf e sig
            cases hca : c.allowed e sig with
            | ok u => cases u; rw [hca] at h; rw [← h]
            | error v => rw [hca] at h; rw [← h]
      · exact ih cur

/-- **C09: the verdict is the same whether the event is checked on its own or through a reused checker.**  The verdict
    sequence of any run of one reused checker equals what the standalone `Allowed` (Valid() gate included) answers for the
    provider the checker was last updated with.  (Before 32272dd this held only without the gate: the reused checker
    accepted events against auth events of several rooms.) -/
theorem reused_checker_eq_allowed (a : Ctx) (cur : Option Provider) (steps : List Step)
    (hinv : Inv a) (hcur : ∀ p, cur = some p → freshOf p = .ok a)
    (hstart : cur = none → ∀ e sig rest, steps ≠ .check e sig :: rest) :
    run a steps = runAllowed cur steps := by
  rw [verdicts_history_independent a cur steps hinv hcur hstart, runFresh_eq_runAllowed]

/-- **Verdicts need only the needed state** (insertion order, duplicates): two providers that agree on the
    lookups the checker performs give the same fresh context — the verdict is a function of those lookups. -/
theorem freshOf_congr (p q : Provider) (h1 : p.create = q.create) (h2 : p.powerLevels = q.powerLevels)
    (h3 : p.joinRules = q.joinRules) :
    (freshOf p).map (fun c => { c with provider := q }) = freshOf q := by
  unfold freshOf
  rw [h1, h2, h3]
  cases createInfo q.create with
  | error v => rfl
  | ok r =>
    obtain ⟨ce, c, cr, pr⟩ := r
    simp only
    cases plInfo q.powerLevels (senderOfOpt ce) with
    | error v => rfl
    | ok r2 => rfl


/-! ## The verdict needs only the state StateNeededForAuth names

`stateNeeded e` (VModel/StateRes.lean) is the model of `StateNeededForAuth([]PDU{e})`, `neededPairs` of `Tuples()`,
`selectNeeded p e` of the events `AuthEventReferences` / `AddAuthEvents` select (VModel/AuthNeeded.lean).
`Agree e p q`: the providers answer alike for every needed pair.  `Modelled v`: the verdict is not `unmodelled`. -/

section Needed
open V.StateRes V.AuthNeeded

/-- **The verdict needs only the needed state.**  For every event `e`, providers `p`, `q` and signature-oracle bit: if
    `p` and `q` have the same Valid() bit and answer alike for every (type, state_key) pair that StateNeededForAuth names
    for `e`, then `Allowed` gives the same verdict (accept / reject) on both.
    Side conditions: the room ID is one the event constructors accept (`e.roomID ≠ []`), and both verdicts are inside the
    modelled domain (the model answers `unmodelled` for IPv6 literals / float levels in the cached create and
    power-levels events, which the check of e.g. a create event never needs).
    The conclusion is equality of `.coarse` and not of the `Verdict` values for ONE reason: for a membership event
    without content StateNeededForAuth names nothing, the check still fails in an order that depends on other state, so
    the error CLASS (NotAllowed vs. another error) can differ; `verdict_needs_only_needed_exact` gives equality of the
    values in every other case. -/
theorem verdict_needs_only_needed (e : Event) (p q : Provider) (sig : Bool) (hr : e.roomID ≠ [])
    (hv : p.valid = q.valid) (ha : ∀ tk ∈ neededPairs (stateNeeded e), p.get tk.1 tk.2 = q.get tk.1 tk.2)
    (hp : Modelled (allowedFresh e p sig)) (hq : Modelled (allowedFresh e q sig)) :
    (allowedFresh e p sig).coarse = (allowedFresh e q sig).coarse :=
  verdict_coarse e p q sig hr hv ha hp hq

/-- the same with EQUAL verdict values, for every event that is not a membership event with absent / null content -/
theorem verdict_needs_only_needed_exact (e : Event) (p q : Provider) (sig : Bool) (hc : hasContent e = true)
    (hv : p.valid = q.valid) (ha : ∀ tk ∈ neededPairs (stateNeeded e), p.get tk.1 tk.2 = q.get tk.1 tk.2)
    (hp : Modelled (allowedFresh e p sig)) (hq : Modelled (allowedFresh e q sig)) :
    allowedFresh e p sig = allowedFresh e q sig :=
  verdict_exact e p q sig hv ha hc hp hq

/-- **Insertion order is irrelevant.**  Event lists that are permutations of each other, with pairwise distinct
    (type, state_key), give providers that answer every lookup alike, have the same Valid() bit, and hence give EQUAL
    verdicts for every event (no side condition). -/
theorem insertion_order_irrelevant (l1 l2 : List Event) (hp : l1.Perm l2) (hd : DistinctKeys l1) (i1 i2 : Nat) :
    (∀ t k, (Provider.ofEvents l1 i1).get t k = (Provider.ofEvents l2 i2).get t k)
    ∧ (Provider.ofEvents l1 i1).valid = (Provider.ofEvents l2 i2).valid
    ∧ ∀ e sig, allowedFresh e (Provider.ofEvents l1 i1) sig = allowedFresh e (Provider.ofEvents l2 i2) sig := by
  have hg : ∀ t k, (Provider.ofEvents l1 i1).get t k = (Provider.ofEvents l2 i2).get t k := by
    intro t k
    rw [get_ofEvents l1 t k i1, get_ofEvents l2 t k i2]
    exact lastWith_perm hp hd t k
  exact ⟨hg, valid_perm hp i1 i2, fun e sig => verdict_of_gets e _ _ sig (valid_perm hp i1 i2) hg⟩

/-- the key of an event is one of the needed pairs -/
def neededKey (e x : Event) : Bool :=
  (neededPairs (stateNeeded e)).any (fun tk => isKey tk.1 tk.2 x)

/-- **Unrelated state is irrelevant (removed).**  Dropping from a one-room state any events whose (type, state_key) the
    event does not need leaves the verdict unchanged. -/
theorem unrelated_state_irrelevant (e : Event) (l : List Event) (keep : Event → Bool) (sig : Bool) (hr : e.roomID ≠ [])
    (hroom : SameRoom l) (hk : ∀ x, neededKey e x = true → keep x = true)
    (hp : Modelled (allowedFresh e (Provider.ofEvents l) sig))
    (hq : Modelled (allowedFresh e (Provider.ofEvents (l.filter keep)) sig)) :
    (allowedFresh e (Provider.ofEvents l) sig).coarse = (allowedFresh e (Provider.ofEvents (l.filter keep)) sig).coarse := by
  apply verdict_needs_only_needed e _ _ sig hr _ _ hp hq
  · have h1 : (Provider.ofEvents l).valid = true := (valid_ofEvents l).mpr hroom
    have h2 : (Provider.ofEvents (l.filter keep)).valid = true :=
      (valid_ofEvents _).mpr (fun a ha b hb => hroom a (List.mem_filter.mp ha).1 b (List.mem_filter.mp hb).1)
    rw [h1, h2]
  · intro tk htk
    rw [get_ofEvents, get_ofEvents, lastWith_filter]
    intro x hx
    apply hk
    unfold neededKey
    exact List.any_eq_true.mpr ⟨tk, htk, hx⟩

/-- **Unrelated state is irrelevant (added).**  Appending same-room events whose (type, state_key) the event does not
    need leaves the verdict unchanged. -/
theorem unrelated_state_added (e : Event) (l x : List Event) (sig : Bool) (hr : e.roomID ≠ [])
    (hroom : SameRoom (l ++ x)) (hx : ∀ a ∈ x, neededKey e a = false)
    (hp : Modelled (allowedFresh e (Provider.ofEvents l) sig))
    (hq : Modelled (allowedFresh e (Provider.ofEvents (l ++ x)) sig)) :
    (allowedFresh e (Provider.ofEvents l) sig).coarse = (allowedFresh e (Provider.ofEvents (l ++ x)) sig).coarse := by
  apply verdict_needs_only_needed e _ _ sig hr _ _ hp hq
  · have h1 : (Provider.ofEvents (l ++ x)).valid = true := (valid_ofEvents _).mpr hroom
    have h2 : (Provider.ofEvents l).valid = true :=
      (valid_ofEvents _).mpr (fun a ha b hb => hroom a (List.mem_append_left _ ha) b (List.mem_append_left _ hb))
    rw [h1, h2]
  · intro tk htk
    rw [get_ofEvents, get_ofEvents, lastWith_append]
    intro a ha
    have := hx a ha
    unfold neededKey at this
    rw [Bool.eq_false_iff] at this ⊢
    intro hk
    exact this (List.any_eq_true.mpr ⟨tk, htk, hk⟩)

/-- **The auth events `AddAuthEvents` selects are sufficient.**  `selectNeeded p e` is what
    `StateNeededForAuth(e).AuthEventReferences(p)` refers to: the provider's event for every pair of `Tuples()`, pairs
    without an event skipped.  For a valid one-room provider `p`, every server that builds its provider from exactly those
    events reaches the verdict `p` gives. -/
theorem add_auth_events_sufficient (e : Event) (p : Provider) (sig : Bool) (ident : Nat) (hr : e.roomID ≠ [])
    (hv : p.valid = true) (hroom : SameRoom p.events)
    (hp : Modelled (allowedFresh e p sig))
    (hq : Modelled (allowedFresh e (Provider.ofEvents (selectNeeded p e) ident) sig)) :
    (allowedFresh e (Provider.ofEvents (selectNeeded p e) ident) sig).coarse = (allowedFresh e p sig).coarse := by
  apply verdict_needs_only_needed e _ _ sig hr _ _ hq hp
  · rw [hv]
    exact (valid_ofEvents _ ident).mpr (fun a ha b hb => hroom a (select_subset p e a ha) b (select_subset p e b hb))
  · intro tk htk
    exact get_select p e tk.1 tk.2 htk ident

/-- a provider built by `NewAuthEvents` from a one-room list satisfies the hypotheses of `add_auth_events_sufficient` -/
theorem ofEvents_sameRoom (l : List Event) (ident : Nat) (h : SameRoom l) :
    (Provider.ofEvents l ident).valid = true ∧ SameRoom (Provider.ofEvents l ident).events :=
  ⟨(valid_ofEvents l ident).mpr h,
   fun a ha b hb => h a (ofEvents_events_subset l ident a ha) b (ofEvents_events_subset l ident b hb)⟩

/-! ### non-vacuity: a restricted join with an authorising user, unrelated state present -/

/-- a small concrete event (event format 2, room `!r:x`) -/
def mkEv (id type sender : Bytes) (sk : Option Bytes) (content : List (Bytes × JVal)) : Event :=
  { ver := b!"10", eventID := id,
    obj := [(b!"type", .str type), (b!"sender", .str sender), (b!"room_id", .str b!"!r:x"), (b!"content", .obj content),
            (b!"prev_events", .arr [.str b!"$p"])]
           ++ (match sk with | some k => [(b!"state_key", .str k)] | none => []) }

def xCreate : Event := mkEv b!"$c" b!"m.room.create" b!"@c:x" (some []) [(b!"creator", .str b!"@c:x")]
def xJoinRules : Event := mkEv b!"$j" b!"m.room.join_rules" b!"@c:x" (some []) [(b!"join_rule", .str b!"restricted")]
def xPL : Event := mkEv b!"$l" b!"m.room.power_levels" b!"@c:x" (some [])
  [(b!"users", .obj [(b!"@c:x", .num b!"100"), (b!"@auth:x", .num b!"50")]), (b!"invite", .num b!"50")]
def xAuthMember : Event := mkEv b!"$m" b!"m.room.member" b!"@auth:x" (some b!"@auth:x") [(b!"membership", .str b!"join")]
def xName : Event := mkEv b!"$n" b!"m.room.name" b!"@c:x" (some []) [(b!"name", .str b!"n")]
def xZed : Event := mkEv b!"$z" b!"m.room.member" b!"@zed:x" (some b!"@zed:x") [(b!"membership", .str b!"ban")]
/-- the event under test: @a:x joins, authorised by @auth:x -/
def xJoin : Event := mkEv b!"$e" b!"m.room.member" b!"@a:x" (some b!"@a:x")
  [(b!"membership", .str b!"join"), (b!"join_authorised_via_users_server", .str b!"@auth:x")]

def xFull : List Event := [xName, xCreate, xZed, xJoinRules, xPL, xAuthMember]

theorem modelled_ok {v : Verdict} (h : v = .ok) : Modelled v := by
  intro w hw; rw [h] at hw; cases hw

/-- the join is accepted against the full state, and what is selected for it are the create, join-rules, power-levels
    events and the authoriser's membership (the sender has no member event; m.room.name and @zed's ban are unrelated) -/
example : allowedFresh xJoin (Provider.ofEvents xFull) false = .ok
    ∧ (selectNeeded (Provider.ofEvents xFull) xJoin).map (·.eventID) = [b!"$c", b!"$j", b!"$l", b!"$m"] := by
  decide +kernel

/-- `add_auth_events_sufficient` and `verdict_needs_only_needed` apply to it (hypotheses satisfiable, conclusion non-trivial) -/
example : (allowedFresh xJoin (Provider.ofEvents (selectNeeded (Provider.ofEvents xFull) xJoin)) false).coarse = "ok" := by
  have hs : SameRoom xFull := by
    intro a ha b hb
    have h : ∀ x ∈ xFull, x.roomID = b!"!r:x" := by decide +kernel
    rw [h a ha, h b hb]
  obtain ⟨hv, hroom⟩ := ofEvents_sameRoom xFull 0 hs
  have hok : allowedFresh xJoin (Provider.ofEvents xFull) false = .ok := by decide +kernel
  have hok2 : allowedFresh xJoin (Provider.ofEvents (selectNeeded (Provider.ofEvents xFull) xJoin)) false = .ok := by decide +kernel
  rw [add_auth_events_sufficient xJoin (Provider.ofEvents xFull) false 0 (by decide +kernel) hv hroom (modelled_ok hok) (modelled_ok hok2), hok]
  rfl

/-- `insertion_order_irrelevant` and `unrelated_state_irrelevant` on the same state: reversed order, unrelated events dropped -/
example : allowedFresh xJoin (Provider.ofEvents xFull.reverse) false = .ok := by
  have hd : DistinctKeys xFull := by
    unfold DistinctKeys xFull
    decide +kernel
  rw [← (insertion_order_irrelevant xFull xFull.reverse (List.reverse_perm xFull).symm hd 0 0).2.2 xJoin false]
  decide +kernel

example : (neededKey xJoin xName, neededKey xJoin xZed, neededKey xJoin xAuthMember, neededKey xJoin xCreate)
    = (false, false, true, true) := by decide +kernel

/-- Member names are exact for `StateNeededForAuth` as for the check (the repair "every reader of member content matches
    member names exactly"): of the join whose authorising user is spelled `Join_authorised_via_users_server` the selection
    names no authoriser's membership — and the check, which reads no authorising user either, refuses it against the full
    state and against the selection alike (a folded `StateNeededForAuth` named `@auth:x`, a folded check accepted it). -/
def xJoinVariant : Event := mkEv b!"$e" b!"m.room.member" b!"@a:x" (some b!"@a:x")
  [(b!"membership", .str b!"join"), (b!"Join_authorised_via_users_server", .str b!"@auth:x")]

example : (selectNeeded (Provider.ofEvents xFull) xJoinVariant).map (·.eventID) = [b!"$c", b!"$j", b!"$l"]
    ∧ (allowedFresh xJoinVariant (Provider.ofEvents xFull) false).coarse = "rej"
    ∧ (allowedFresh xJoinVariant (Provider.ofEvents (selectNeeded (Provider.ofEvents xFull) xJoinVariant)) false).coarse = "rej" := by
  decide +kernel

/-- … and a content that says `Membership` only names no join rules: it has no membership. -/
example : (stateNeeded (mkEv b!"$e" b!"m.room.member" b!"@a:x" (some b!"@a:x") [(b!"Membership", .str b!"join")])).joinRules = false
    ∧ (stateNeeded (mkEv b!"$e" b!"m.room.member" b!"@a:x" (some b!"@a:x")
        [(b!"membership", .str b!"leave"), (b!"memberſhip", .str b!"join")])).joinRules = false := by
  decide +kernel

end Needed

end V.C09
