/-
  C09 — An auth verdict depends only on the event and the state it needs.

  The reusable checker (`allowerContext`) is a state machine `Ctx` with `update` and `allowed`.
  Main theorem (refinement to the pure function): whatever sequence of providers the context was
  updated with before, `update p` leaves it in exactly the state a fresh context has for `p`;
  `allowed` does not change the context at all (it is a pure function of it).  Hence the verdict of
  every check through a reused context equals the verdict of a fresh `Allowed`.

  Events are compared by pointer identity in Go and by (version, event ID) in the model; the
  hypothesis `Ids U` says that within the universe `U` of events in play this identifies them.
-/
import VModel.Auth
namespace V.C09
open V V.Json V.GoJson V.Auth

/-- within `U`, (version, event ID) identifies an event -/
def Ids (U : Event → Prop) : Prop := ∀ x y, U x → U y → x.eventID = y.eventID → x.ver = y.ver → x = y

def OptIn (U : Event → Prop) (o : Option Event) : Prop := ∀ e, o = some e → U e

theorem sameEvent_eq {U : Event → Prop} (hU : Ids U) {a b : Option Event} (ha : OptIn U a) (hb : OptIn U b)
    (h : sameEvent a b = true) : a = b := by
  cases a with
  | none => cases b with
    | none => rfl
    | some y => simp [sameEvent] at h
  | some x => cases b with
    | none => simp [sameEvent] at h
    | some y =>
      simp only [sameEvent, Bool.and_eq_true, beq_iff_eq] at h
      rw [hU x y (ha x rfl) (hb y rfl) h.1 h.2]

/-- The cache invariant: whatever is cached for an event is what a refresh from that event computes. -/
structure Inv (U : Event → Prop) (a : Ctx) : Prop where
  inU : OptIn U a.createEvent ∧ OptIn U a.plEvent ∧ OptIn U a.jrEvent
  create : ∀ ce, a.createEvent = some ce →
    createInfo (some ce) = .ok (some ce, a.create, a.creators, a.privilegedCreators)
  pl : ∀ pe, a.plEvent = some pe → ∀ creator, plInfo (some pe) creator = .ok (some pe, a.pl)
  jr : ∀ je, a.jrEvent = some je → jrInfo (some je) = (some je, a.joinRule)

/-- the state of a context that has never been used -/
theorem inv_empty (U : Event → Prop) : Inv U {} :=
  ⟨⟨(fun _ h => by cases h), (fun _ h => by cases h), (fun _ h => by cases h)⟩,
   (fun _ h => by cases h), (fun _ h => by cases h), (fun _ h => by cases h)⟩

/-! ### each refresh stage yields what the refresh function computes from the provider alone -/

theorem createInfo_fst {e : Option Event} {r} (h : createInfo e = .ok r) : r.1 = e ∨ r = (none, {}, [], false) := by
  unfold createInfo at h
  split at h
  · split at h
    · cases h; exact Or.inl rfl
    · cases h; exact Or.inr rfl
  · cases h
  · cases h; exact Or.inr rfl

theorem createInfo_some {e : Option Event} {ce c cr pr} (h : createInfo e = .ok (some ce, c, cr, pr)) : e = some ce := by
  rcases createInfo_fst h with h' | h'
  · exact h'.symm
  · simp at h'

theorem plInfo_some {e : Option Event} {cr pe pl} (h : plInfo e cr = .ok (some pe, pl)) :
    e = some pe ∧ ∀ c', plInfo (some pe) c' = .ok (some pe, pl) := by
  unfold plInfo at h
  cases e with
  | none => simp at h
  | some ev =>
    simp only at h
    cases hp : powerLevelsFromEvent ev with
    | ok pl' =>
      simp only [hp] at h
      cases h
      exact ⟨rfl, fun c' => by simp [plInfo, hp]⟩
    | error v =>
      simp only [hp] at h
      cases v <;> simp at h

theorem jrInfo_some {e : Option Event} {je jr} (h : jrInfo e = (some je, jr)) :
    e = some je ∧ jrInfo (some je) = (some je, jr) := by
  unfold jrInfo at h
  cases e with
  | none => simp at h
  | some ev =>
    simp only at h
    cases hd : decodeJoinRule ev.content with
    | some j =>
      simp only [hd] at h
      cases h
      exact ⟨rfl, by simp [jrInfo, hd]⟩
    | none => simp [hd] at h

theorem refreshCreate_spec {U} (hU : Ids U) (a : Ctx) (p : Provider) (hinv : Inv U a) (hp : OptIn U p.create) :
    a.refreshCreate p =
      (match createInfo p.create with
       | .ok (ce, c, cr, pr) => .ok { a with createEvent := ce, create := c, creators := cr, privilegedCreators := pr }
       | .error v => .error v) := by
  unfold Ctx.refreshCreate
  split
  · rfl
  · rename_i hc
    simp only [Bool.or_eq_true, Bool.not_eq_true', not_or, Bool.not_eq_false, Option.isNone_iff_eq_none] at hc
    obtain ⟨hsome, hsame⟩ := hc
    have heq : a.createEvent = p.create := sameEvent_eq hU hinv.inU.1 hp hsame
    cases hce : a.createEvent with
    | none => exact absurd hce hsome
    | some ce =>
      have := hinv.create ce hce
      rw [← heq, hce, this]
      cases a; simp_all

theorem plInfo_some_creator (pe : Event) (c1 c2 : Bytes) : plInfo (some pe) c1 = plInfo (some pe) c2 := by
  unfold plInfo; rfl

theorem refreshPL_spec {U} (hU : Ids U) (a : Ctx) (p : Provider) (hinv : Inv U a) (hp : OptIn U p.powerLevels) :
    a.refreshPL p =
      (match plInfo p.powerLevels (senderOfOpt a.createEvent) with
       | .ok (pe, pl) => .ok { a with plEvent := pe, pl := pl }
       | .error v => .error v) := by
  unfold Ctx.refreshPL
  split
  · rfl
  · rename_i hc
    simp only [Bool.or_eq_true, Bool.not_eq_true', not_or, Bool.not_eq_false, Option.isNone_iff_eq_none] at hc
    obtain ⟨hsome, hsame⟩ := hc
    have heq : a.plEvent = p.powerLevels := sameEvent_eq hU hinv.inU.2.1 hp hsame
    cases hpe : a.plEvent with
    | none => exact absurd hpe hsome
    | some pe =>
      have := hinv.pl pe hpe (senderOfOpt a.createEvent)
      rw [← heq, hpe, this]
      cases a; simp_all

theorem refreshJR_spec {U} (hU : Ids U) (a : Ctx) (p : Provider) (hinv : Inv U a) (hp : OptIn U p.joinRules) :
    a.refreshJR p = { a with jrEvent := (jrInfo p.joinRules).1, joinRule := (jrInfo p.joinRules).2 } := by
  unfold Ctx.refreshJR
  split
  · rfl
  · rename_i hc
    simp only [Bool.or_eq_true, Bool.not_eq_true', not_or, Bool.not_eq_false, Option.isNone_iff_eq_none] at hc
    obtain ⟨hsome, hsame⟩ := hc
    have heq : a.jrEvent = p.joinRules := sameEvent_eq hU hinv.inU.2.2 hp hsame
    cases hje : a.jrEvent with
    | none => exact absurd hje hsome
    | some je =>
      have := hinv.jr je hje
      rw [← heq, hje, this]
      cases a; simp_all

/-- The cache a context ends up with after `update p`, computed from `p` alone. -/
def freshOf (p : Provider) : R Ctx :=
  match createInfo p.create with
  | .error v => .error v
  | .ok (ce, c, cr, pr) =>
    match plInfo p.powerLevels (senderOfOpt ce) with
    | .error v => .error v
    | .ok (pe, pl) =>
      .ok { provider := p, hasProvider := true, createEvent := ce, create := c, creators := cr, privilegedCreators := pr,
            plEvent := pe, pl := pl, jrEvent := (jrInfo p.joinRules).1, joinRule := (jrInfo p.joinRules).2 }

theorem inv_switch {U} (a : Ctx) (p : Provider) (h : Inv U a) : Inv U (a.switchProvider p) := by
  unfold Ctx.switchProvider
  split
  · exact ⟨⟨(fun _ h => by cases h), (fun _ h => by cases h), (fun _ h => by cases h)⟩,
           (fun _ h => by cases h), (fun _ h => by cases h), (fun _ h => by cases h)⟩
  · exact ⟨h.inU, h.create, h.pl, h.jr⟩

theorem switch_fields (a : Ctx) (p : Provider) :
    (a.switchProvider p).provider = p ∧ (a.switchProvider p).hasProvider = true ∨
    ((a.switchProvider p).provider = p ∧ (a.switchProvider p).hasProvider = a.hasProvider ∧ a.hasProvider = true) := by
  unfold Ctx.switchProvider
  split
  · exact Or.inl ⟨rfl, rfl⟩
  · rename_i hc
    simp only [Bool.or_eq_true, Bool.not_eq_true', not_or, Bool.not_eq_false] at hc
    exact Or.inr ⟨rfl, rfl, hc.1⟩

/-- **History independence of `update`.**  For any context satisfying the cache invariant (in particular any
    context reached from the empty one by updates), `update p` yields exactly `freshOf p` — a function of `p` only. -/
theorem update_eq_freshOf {U} (hU : Ids U) (a : Ctx) (p : Provider) (hinv : Inv U a)
    (hpc : OptIn U p.create) (hpp : OptIn U p.powerLevels) (hpj : OptIn U p.joinRules) :
    a.update p = freshOf p := by
  unfold Ctx.update freshOf
  have hinv1 := inv_switch a p hinv
  simp only [bind, Except.bind, pure, Except.pure]
  rw [refreshCreate_spec hU _ p hinv1 hpc]
  cases hci : createInfo p.create with
  | error v => rfl
  | ok r =>
    obtain ⟨ce, c, cr, pr⟩ := r
    simp only
    -- the context after the create refresh still satisfies the invariant
    have hinv2 : Inv U { (a.switchProvider p) with createEvent := ce, create := c, creators := cr, privilegedCreators := pr } := by
      refine ⟨⟨?_, hinv1.inU.2.1, hinv1.inU.2.2⟩, ?_, hinv1.pl, hinv1.jr⟩
      · intro e he
        simp only at he; subst he
        exact hpc e (createInfo_some hci)
      · intro e he
        simp only at he; subst he
        have h' := hci; rw [createInfo_some hci] at h'; exact h'
    rw [refreshPL_spec hU _ p hinv2 hpp]
    simp only
    cases hpi : plInfo p.powerLevels (senderOfOpt ce) with
    | error v => rfl
    | ok r2 =>
      obtain ⟨pe, pl⟩ := r2
      simp only
      have hinv3 : Inv U { ({ (a.switchProvider p) with createEvent := ce, create := c, creators := cr, privilegedCreators := pr } : Ctx)
                           with plEvent := pe, pl := pl } := by
        refine ⟨⟨hinv2.inU.1, ?_, hinv2.inU.2.2⟩, hinv2.create, ?_, hinv2.jr⟩
        · intro e he
          simp only at he; subst he
          exact hpp e (plInfo_some hpi).1
        · intro e he creator
          simp only at he; subst he
          exact (plInfo_some hpi).2 creator
      rw [refreshJR_spec hU _ p hinv3 hpj]
      rcases switch_fields a p with h | h
      · congr 1
        simp [h.1, h.2]
      · congr 1
        simp [h.1, h.2.1, h.2.2]

/-- the invariant holds for every context produced by `update` (so for every reachable context) -/
theorem inv_freshOf {U} (p : Provider) (c : Ctx) (h : freshOf p = .ok c)
    (hpc : OptIn U p.create) (hpp : OptIn U p.powerLevels) (hpj : OptIn U p.joinRules) : Inv U c := by
  unfold freshOf at h
  cases hci : createInfo p.create with
  | error v => simp [hci] at h
  | ok r =>
    obtain ⟨ce, cc, cr, pr⟩ := r
    simp only [hci] at h
    cases hpi : plInfo p.powerLevels (senderOfOpt ce) with
    | error v => simp [hpi] at h
    | ok r2 =>
      obtain ⟨pe, pl⟩ := r2
      simp only [hpi] at h
      cases h
      refine ⟨⟨?_, ?_, ?_⟩, ?_, ?_, ?_⟩
      · intro e he
        simp only at he; subst he
        exact hpc e (createInfo_some hci)
      · intro e he
        simp only at he; subst he
        exact hpp e (plInfo_some hpi).1
      · intro e he
        simp only at he
        have := jrInfo_some (e := p.joinRules) (je := e) (jr := (jrInfo p.joinRules).2) (by rw [← he])
        exact hpj e this.1
      · intro e he
        simp only at he; subst he
        have h' := hci; rw [createInfo_some hci] at h'; exact h'
      · intro e he creator
        simp only at he; subst he
        exact (plInfo_some hpi).2 creator
      · intro e he
        simp only at he
        exact (jrInfo_some (e := p.joinRules) (je := e) (jr := (jrInfo p.joinRules).2) (by rw [← he])).2

/-- A run of the reused checker: updates and checks interleaved; returns the verdicts of the checks. -/
inductive Step where
  | update (p : Provider)
  | check (e : Event) (sig : Bool)

def run : Ctx → List Step → List (Option Verdict)
  | _, [] => []
  | a, .update p :: rest =>
    match a.update p with
    | .ok a' => run a' rest
    | .error _ => []          -- unmodelled input: the run is cut (outside the model's domain)
  | a, .check e sig :: rest =>
    (match a.allowed e sig with | .ok () => some .ok | .error v => some v) :: run a rest

/-- the same run where every check is answered by a FRESH context for the most recent provider -/
def runFresh : Option Provider → List Step → List (Option Verdict)
  | _, [] => []
  | _, .update p :: rest =>
    match freshOf p with
    | .ok _ => runFresh (some p) rest
    | .error _ => []
  | cur, .check e sig :: rest =>
    (match cur with
     | none => none
     | some p => match freshOf p with
       | .ok c => (match c.allowed e sig with | .ok () => some .ok | .error v => some v)
       | .error _ => none) :: runFresh cur rest

def StepsIn (U : Event → Prop) : List Step → Prop
  | [] => True
  | .update p :: rest => OptIn U p.create ∧ OptIn U p.powerLevels ∧ OptIn U p.joinRules ∧ StepsIn U rest
  | .check _ _ :: rest => StepsIn U rest

/-- **C09, main theorem.**  The verdict sequence of ANY run of one reused checker — any number of providers
    (same or different create / power-levels / join-rules events, unparseable ones, missing ones), any
    interleaving of updates and checks — equals the verdicts fresh checks would give. -/
theorem verdicts_history_independent {U} (hU : Ids U) (a : Ctx) (cur : Option Provider) (steps : List Step)
    (hinv : Inv U a) (hcur : ∀ p, cur = some p → freshOf p = .ok a) (hin : StepsIn U steps)
    (hstart : cur = none → ∀ e sig rest, steps ≠ .check e sig :: rest) :
    run a steps = runFresh cur steps := by
  induction steps generalizing a cur with
  | nil => rfl
  | cons s rest ih =>
    cases s with
    | update p =>
      obtain ⟨h1, h2, h3, h4⟩ := hin
      simp only [run, runFresh]
      rw [update_eq_freshOf hU a p hinv h1 h2 h3]
      cases hf : freshOf p with
      | error v => rfl
      | ok a' =>
        simp only
        apply ih a' (some p) (inv_freshOf p a' hf h1 h2 h3) (fun q hq => by cases hq; exact hf) h4
        intro h; cases h
    | check e sig =>
      simp only [run, runFresh]
      cases cur with
      | none => exact absurd rfl (hstart rfl e sig rest)
      | some p =>
        simp only [hcur p rfl]
        congr 1
        apply ih a (some p) hinv hcur hin
        intro h; cases h

/-- Non-vacuity: the empty context satisfies the invariant, and every run starting with an update meets the hypotheses. -/
example {U} (hU : Ids U) (p : Provider) (rest : List Step) (hin : StepsIn U (.update p :: rest)) :
    run {} (.update p :: rest) = runFresh none (.update p :: rest) :=
  verdicts_history_independent hU {} none _ (inv_empty U) (fun _ h => by cases h) hin (fun _ e sig r h => by cases h)

/-- `Allowed` is the fresh check behind the `Valid()` gate. -/
theorem allowedFresh_eq (e : Event) (p : Provider) (sig : Bool) :
    allowedFresh e p sig = if !p.valid then .notAllowed else allowedFreshNoValid e p sig := by
  unfold allowedFresh allowedFreshNoValid
  split <;> rfl

/-- **Verdicts need only the needed state** (insertion order, duplicates): two providers that agree on the
    lookups the checker performs give the same fresh context — the verdict is a function of those lookups. -/
theorem freshOf_congr (p q : Provider) (h1 : p.create = q.create) (h2 : p.powerLevels = q.powerLevels)
    (h3 : p.joinRules = q.joinRules) :
    (freshOf p).map (fun c => { c with provider := q }) = freshOf q := by
  unfold freshOf
  rw [h1, h2, h3]
  cases createInfo q.create with
  | error v => rfl
  | ok r =>
    obtain ⟨ce, c, cr, pr⟩ := r
    simp only
    cases plInfo q.powerLevels (senderOfOpt ce) with
    | error v => rfl
    | ok r2 => rfl

end V.C09
