/-
  Translated-function obligations for keyring.go: `PublicKeyLookupResult.WasValidAt`.
-/
import VGen.TransKeys
import VModel.KeyRing
namespace V.Trans.Keys
open V V.KeyRing

/-- the validity function the model's `strict` flag and clock denote -/
def checkFn (strict : Bool) (now : Nat) : Int → Int → Bool :=
  fun a u => if strict then strictValidity a.toNat u.toNat now else noStrictValidity a.toNat u.toNat

/-- **WasValidAt**: the Go method translated from the current source is the model's `wasValidAt`, for every lookup
    result, timestamp, validity rule and clock. -/
theorem wasValidAt_eq_model (r : KeyRes) (atTs : Nat) (strict : Bool) (now : Nat) :
    VGen.TransKeys.WasValidAt ⟨Int.ofNat r.expiredTS, Int.ofNat r.validUntilTS⟩ (Int.ofNat atTs) (checkFn strict now)
      = wasValidAt r atTs strict now := by
  unfold VGen.TransKeys.WasValidAt wasValidAt checkFn
  by_cases h : r.expiredTS = 0
  · simp [h]
  · have : (Int.ofNat r.expiredTS != 0) = true := by simp; omega
    simp [h, this]

/-- the property's reading, on the translated function itself: an expired key is valid strictly before `expired_ts`
    and never consults the validity rule; a current key is valid exactly when the version's rule says so. -/
theorem wasValidAt_spec (e v a : Int) (f : Int → Int → Bool) :
    VGen.TransKeys.WasValidAt ⟨e, v⟩ a f = (if e ≠ 0 then decide (a < e) else f a v) := by
  unfold VGen.TransKeys.WasValidAt
  by_cases h : e = 0 <;> simp [h]

end V.Trans.Keys
