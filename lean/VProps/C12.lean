/-
  C12 — The key ring accepts a signature only from a fetched key valid at that time.

  Model: VModel.KeyRing.  Part 1: regenerated obligations (the source of the mirrored functions is, statement
  for statement, what the model was written against).  Part 2: property theorems.
-/
import VModel.KeyRing
import VProofs.KeyRing
import VGen.C12
namespace V.C12
open V V.KeyRing List

/-! ## Part 1 — regenerated obligations (tools/extract/c12.go → VGen.C12) -/

theorem consts_match_model :
    VGen.keyringCapMs = sevenDaysMs ∧ VGen.keyringAlgPrefixBytes = algPrefix ∧ VGen.keyringAlgPrefix = "ed25519:"
    ∧ VGen.keyringPublicKeyNotExpired = 0 ∧ VGen.keyringPublicKeyNotValid = 0 :=
  ⟨rfl, rfl, rfl, rfl, rfl⟩

/-- `WasValidAt`: expired keys by `atTs < ExpiredTS`, the others by the request's rule (mirrored by `wasValidAt`) -/
theorem wasValidAt_source : VGen.keyringSkelWasValidAt = [
  "if r.ExpiredTS != PublicKeyNotExpired {",
  "return atTs < r.ExpiredTS",
  "}",
  "return signatureValidityCheck(atTs, r.ValidUntilTS)"
] := rfl

/-- `StrictValiditySignatureCheck` (mirrored by `strictValidity`): unsigned millisecond counts compared directly,
    the cap being `spec.AsTimestamp(now + 7d)`; no conversion through `time.Time` / int64 -/
theorem strictValidity_source : VGen.keyringSkelStrict = [
  "if validUntil == PublicKeyNotValid {",
  "return false",
  "}",
  "sevenDaysFuture := time.Now().Add(time.Hour * 24 * 7)",
  "validUntilTS := validUntil",
  "if sevenDaysFutureTS := spec.AsTimestamp(sevenDaysFuture); validUntilTS > sevenDaysFutureTS {",
  "validUntilTS = sevenDaysFutureTS",
  "}",
  "if atTs > validUntilTS {",
  "return false",
  "}",
  "return true"
] := rfl

/-- `NoStrictValidityCheck` -/
theorem noStrictValidity_source : VGen.keyringSkelNoStrict = [
  "return true"
] := rfl

/-- `Timestamp.Time()` converts through int64 (exact below 2^63 only).  The validity checks above no longer use it;
    its remaining user in the modelled code is `CheckKeys` (`keys.ValidUntilTS.Time().After(now)`) -/
theorem timestamp_source : VGen.specSkelTimestampTime = [
  "return time.Unix(int64(t)/1000, (int64(t)%1000)*1000000).UTC()"
] := rfl

/-- `AsTimestamp` -/
theorem asTimestamp_source : VGen.specSkelAsTimestamp = [
  "return Timestamp(t.UnixMilli())"
] := rfl

/-- `KeyRing.VerifyJSONs` without its logging statements (mirrored by `verifyJSONs`) -/
theorem verifyJSONs_source : VGen.keyringSkelVerifyJSONs = [
  "results := make([]VerifyJSONResult, len(requests))",
  "keyIDs := make([][]KeyID, len(requests))",
  "numRequests := len(requests)",
  "for i := range requests {",
  "ids, err := ListKeyIDs(string(requests[i].ServerName), requests[i].Message)",
  "if err != nil {",
  "results[i].Error = fmt.Errorf(\"gomatrixserverlib: error extracting key IDs\")",
  "continue",
  "}",
  "for _, keyID := range ids {",
  "if k.isAlgorithmSupported(keyID) {",
  "keyIDs[i] = append(keyIDs[i], keyID)",
  "}",
  "}",
  "if len(keyIDs[i]) == 0 {",
  "results[i].Error = fmt.Errorf(\"gomatrixserverlib: not signed by %q with a supported algorithm\", requests[i].ServerName)",
  "continue",
  "}",
  "results[i].Error = fmt.Errorf(\"gomatrixserverlib: could not download key for %q\", requests[i].ServerName)",
  "}",
  "keyRequests := k.publicKeyRequests(requests, results, keyIDs)",
  "if len(keyRequests) == 0 {",
  "return results, nil",
  "}",
  "keysFromDatabase, err := k.KeyDatabase.FetchKeys(ctx, keyRequests)",
  "if err != nil {",
  "return nil, err",
  "}",
  "keysFetched := map[PublicKeyLookupRequest]PublicKeyLookupResult{}",
  "keysToStore := map[PublicKeyLookupRequest]PublicKeyLookupResult{}",
  "now := spec.AsTimestamp(time.Now())",
  "for req, res := range keysFromDatabase {",
  "if res.ExpiredTS != PublicKeyNotExpired {",
  "keysFetched[req] = res",
  "delete(keyRequests, req)",
  "continue",
  "}",
  "keysFetched[req] = res",
  "if now < res.ValidUntilTS && res.ExpiredTS == PublicKeyNotExpired {",
  "delete(keyRequests, req)",
  "}",
  "}",
  "if len(keysFetched) == numRequests {",
  "k.checkUsingKeys(requests, results, keyIDs, keysFetched)",
  "errored := false",
  "for _, r := range results {",
  "if r.Error != nil {",
  "errored = true",
  "break",
  "}",
  "}",
  "if !errored {",
  "return results, nil",
  "}",
  "}",
  "for _, fetcher := range k.KeyFetchers {",
  "if len(keyRequests) == 0 {",
  "break",
  "}",
  "fetched, err := fetcher.FetchKeys(ctx, keyRequests)",
  "if err != nil {",
  "continue",
  "}",
  "if len(fetched) == 0 {",
  "continue",
  "}",
  "for req, res := range fetched {",
  "if _, requested := keyRequests[req]; !requested {",
  "if _, have := keysFetched[req]; have {",
  "continue",
  "}",
  "}",
  "keysFetched[req] = res",
  "keysToStore[req] = res",
  "delete(keyRequests, req)",
  "}",
  "}",
  "k.checkUsingKeys(requests, results, keyIDs, keysFetched)",
  "if err := k.KeyDatabase.StoreKeys(ctx, keysToStore); err != nil {",
  "return nil, err",
  "}",
  "return results, nil"
] := rfl

/-- `publicKeyRequests` (mirrored by `publicKeyRequests`/`addKeyRequest`) -/
theorem publicKeyRequests_source : VGen.keyringSkelPublicKeyRequests = [
  "keyRequests := map[PublicKeyLookupRequest]spec.Timestamp{}",
  "for i := range requests {",
  "if results[i].Error == nil {",
  "continue",
  "}",
  "for _, keyID := range keyIDs[i] {",
  "k := PublicKeyLookupRequest{requests[i].ServerName, keyID}",
  "maxTS := keyRequests[k]",
  "if maxTS <= requests[i].AtTS {",
  "keyRequests[k] = requests[i].AtTS",
  "}",
  "}",
  "}",
  "return keyRequests"
] := rfl

/-- `checkUsingKeys` (mirrored by `checkUsingKeys`/`checkSigs`) -/
theorem checkUsingKeys_source : VGen.keyringSkelCheckUsingKeys = [
  "for i := range requests {",
  "if results[i].Error == nil {",
  "continue",
  "}",
  "for _, keyID := range keyIDs[i] {",
  "serverKey, ok := keys[PublicKeyLookupRequest{requests[i].ServerName, keyID}]",
  "if !ok {",
  "continue",
  "}",
  "if !serverKey.WasValidAt(requests[i].AtTS, requests[i].ValidityCheckingFunc) {",
  "results[i].Error = fmt.Errorf(\"gomatrixserverlib: key with ID %q for %q not valid at %d\", keyID, requests[i].ServerName, requests[i].AtTS)",
  "continue",
  "}",
  "if err := VerifyJSON(string(requests[i].ServerName), keyID, ed25519.PublicKey(serverKey.Key), requests[i].Message); err != nil {",
  "results[i].Error = err",
  "continue",
  "}",
  "results[i].Error = nil",
  "break",
  "}",
  "}"
] := rfl

/-- `isAlgorithmSupported` -/
theorem isAlgorithmSupported_source : VGen.keyringSkelAlg = [
  "return strings.HasPrefix(string(keyID), \"ed25519:\")"
] := rfl

/-- `VerifyJSON` refuses a public key of the wrong length before calling ed25519.Verify (which would panic):
    `verifyJSON` has no panic outcome.  (The rest of VerifyJSON / ListKeyIDs — JSON decoding, canonical form,
    ed25519 — is abstracted per signature and validated by correspondence.) -/
theorem verifyJSON_length_guard : VGen.signingVerifyJSONLenGuard = true := rfl

/-- `CheckKeys` (mirrored by `checkKeys`) -/
theorem checkKeys_source : VGen.keysSkelCheckKeys = [
  "checks.MatchingServerName = serverName == keys.ServerName",
  "checks.FutureValidUntilTS = keys.ValidUntilTS.Time().After(now)",
  "checks.AllChecksOK = checks.MatchingServerName && checks.FutureValidUntilTS",
  "ed25519Keys = checkVerifyKeys(keys, &checks)",
  "if !checks.AllChecksOK {",
  "ed25519Keys = nil",
  "}",
  "return"
] := rfl

/-- `checkVerifyKeys` -/
theorem checkVerifyKeys_source : VGen.keysSkelCheckVerifyKeys = [
  "allEd25519ChecksOK := true",
  "checks.Ed25519Checks = map[KeyID]Ed25519Checks{}",
  "verifyKeys := map[KeyID]spec.Base64Bytes{}",
  "for keyID, keyData := range keys.VerifyKeys {",
  "algorithm := strings.SplitN(string(keyID), \":\", 2)[0]",
  "publicKey := keyData.Key",
  "if algorithm == \"ed25519\" {",
  "checks.HasEd25519Key = true",
  "checks.AllEd25519ChecksOK = &allEd25519ChecksOK",
  "entry := Ed25519Checks{ValidEd25519: len(publicKey) == 32}",
  "if entry.ValidEd25519 {",
  "err := VerifyJSON(string(keys.ServerName), keyID, []byte(publicKey), keys.Raw)",
  "entry.MatchingSignature = err == nil",
  "}",
  "checks.Ed25519Checks[keyID] = entry",
  "if entry.MatchingSignature {",
  "verifyKeys[keyID] = publicKey",
  "} else {",
  "allEd25519ChecksOK = false",
  "}",
  "}",
  "}",
  "if checks.AllChecksOK {",
  "checks.AllChecksOK = checks.HasEd25519Key && allEd25519ChecksOK",
  "}",
  "return verifyKeys"
] := rfl

/-- `ServerKeys.PublicKey` (mirrored by `publicKey`) -/
theorem publicKey_source : VGen.keysSkelPublicKey = [
  "if currentKey, ok := keys.VerifyKeys[keyID]; ok && (atTS <= keys.ValidUntilTS) {",
  "return currentKey.Key",
  "}",
  "if oldKey, ok := keys.OldVerifyKeys[keyID]; ok && (atTS < oldKey.ExpiredTS) {",
  "return oldKey.Key",
  "}",
  "return nil"
] := rfl

/-- `mapServerKeysToPublicKeyLookupResult` (mirrored by `mapServerKeys`) -/
theorem mapServerKeys_source : VGen.keyringSkelMapServerKeys = [
  "for keyID, key := range serverKeys.VerifyKeys {",
  "results[PublicKeyLookupRequest{ServerName: serverKeys.ServerName, KeyID: keyID}] = PublicKeyLookupResult{VerifyKey: key, ValidUntilTS: serverKeys.ValidUntilTS, ExpiredTS: PublicKeyNotExpired}",
  "}",
  "for keyID, key := range serverKeys.OldVerifyKeys {",
  "results[PublicKeyLookupRequest{ServerName: serverKeys.ServerName, KeyID: keyID}] = PublicKeyLookupResult{VerifyKey: key.VerifyKey, ValidUntilTS: PublicKeyNotValid, ExpiredTS: key.ExpiredTS}",
  "}"
] := rfl

/-- `DirectKeyFetcher.fetchKeysForServer`: responses are checked against the epoch (mirrored by `directChoice`) -/
theorem fetchKeysForServer_source : VGen.keyringSkelFetchKeysForServer = [
  "ctx, cancel := context.WithTimeout(ctx, time.Second*15)",
  "defer cancel()",
  "keys, err := d.Client.GetServerKeys(ctx, serverName)",
  "if err != nil {",
  "if err != nil {",
  "return nil, err",
  "}",
  "}",
  "checks, _ := CheckKeys(serverName, time.Unix(0, 0), keys)",
  "if !checks.AllChecksOK {",
  "return nil, fmt.Errorf(\"gomatrixserverlib: key response direct from %q failed checks\", serverName)",
  "}",
  "results := map[PublicKeyLookupRequest]PublicKeyLookupResult{}",
  "mapServerKeysToPublicKeyLookupResult(keys, results)",
  "return results, nil"
] := rfl

/-- `DirectKeyFetcher.fetchNotaryKeysForServer` (mirrored by `notaryChoice`): first response naming the server, checked against the epoch -/
theorem fetchNotaryKeysForServer_source : VGen.keyringSkelFetchNotaryKeysForServer = [
  "ctx, cancel := context.WithTimeout(ctx, time.Second*15)",
  "defer cancel()",
  "var keys ServerKeys",
  "allKeys, err := d.Client.LookupServerKeys(ctx, serverName, map[PublicKeyLookupRequest]spec.Timestamp{{serverName, \"\"}: spec.AsTimestamp(time.Now())})",
  "if err != nil {",
  "return nil, err",
  "}",
  "found := false",
  "for _, serverKeys := range allKeys {",
  "if serverKeys.ServerName == serverName {",
  "keys = serverKeys",
  "found = true",
  "break",
  "}",
  "}",
  "if !found {",
  "return nil, fmt.Errorf(\"gomatrixserverlib: notary key response contained no results for %q\", serverName)",
  "}",
  "checks, _ := CheckKeys(serverName, time.Unix(0, 0), keys)",
  "if !checks.AllChecksOK {",
  "return nil, fmt.Errorf(\"gomatrixserverlib: notary key response direct from %q failed checks\", serverName)",
  "}",
  "results := map[PublicKeyLookupRequest]PublicKeyLookupResult{}",
  "mapServerKeysToPublicKeyLookupResult(keys, results)",
  "return results, nil"
] := rfl

/-- `PerspectiveKeyFetcher.FetchKeys` (mirrored by `perspectiveFetch`/`notaryValid`): every response needs a verifying signature under a configured notary key and must pass the checks (against the epoch) -/
theorem perspectiveFetchKeys_source : VGen.keyringSkelPerspectiveFetchKeys = [
  "serverKeys, err := p.Client.LookupServerKeys(ctx, p.PerspectiveServerName, requests)",
  "if err != nil {",
  "return nil, fmt.Errorf(\"gomatrixserverlib: unable to lookup server keys: %w\", err)",
  "}",
  "results := map[PublicKeyLookupRequest]PublicKeyLookupResult{}",
  "for _, keys := range serverKeys {",
  "var valid bool",
  "keyIDs, err := ListKeyIDs(string(p.PerspectiveServerName), keys.Raw)",
  "if err != nil {",
  "return nil, fmt.Errorf(\"gomatrixserverlib: unable to list key IDs: %w\", err)",
  "}",
  "for _, keyID := range keyIDs {",
  "perspectiveKey, ok := p.PerspectiveServerKeys[keyID]",
  "if !ok {",
  "continue",
  "}",
  "if err := VerifyJSON(string(p.PerspectiveServerName), keyID, perspectiveKey, keys.Raw); err != nil {",
  "return nil, fmt.Errorf(\"gomatrixserverlib: unable to verify response: %w\", err)",
  "}",
  "valid = true",
  "break",
  "}",
  "if !valid {",
  "return nil, fmt.Errorf(\"gomatrixserverlib: not signed with a known key for the perspective server\")",
  "}",
  "checks, _ := CheckKeys(keys.ServerName, time.Unix(0, 0), keys)",
  "if !checks.AllChecksOK {",
  "return nil, fmt.Errorf(\"gomatrixserverlib: key response from perspective server failed checks\")",
  "}",
  "mapServerKeysToPublicKeyLookupResult(keys, results)",
  "}",
  "return results, nil"
] := rfl

/-! ## Part 2 — property theorems -/

/-- **One result per request.** -/
theorem results_shape {reqs : List Request} {db : FetchScript} {storeOk : Bool} {fetchers : List FetchScript} {now : Nat}
    {rs : List Bool} {tr : Trace} (h : verifyJSONs reqs db storeOk fetchers now = (.ok rs, tr)) :
    rs.length = reqs.length := by
  rcases verifyJSONs_ok h with ⟨_, rfl, _⟩ | ⟨fromDB, _, _, _, ⟨_, _, rfl, _⟩ | ⟨_, rfl, _⟩⟩
  · simp [results0]
  · exact results1_length _ _ _
  · exact checkUsingKeys_length _ _ _ _ (results1_length _ _ _)

/-- **Results are in request order, and say exactly this**: result `i` is about request `i`; it is a
    success iff the early attempt (all keys from the database) or the final attempt found a usable key
    for one of that request's supported signatures. -/
theorem results_index {reqs : List Request} {db : FetchScript} {storeOk : Bool} {fetchers : List FetchScript} {now : Nat}
    {rs : List Bool} {tr : Trace} (h : verifyJSONs reqs db storeOk fetchers now = (.ok rs, tr))
    (i : Nat) (b : Bool) (hi : rs[i]? = some b) :
    ∃ r, reqs[i]? = some r ∧
      (b = true → ∃ fromDB, db = some fromDB ∧
        (okWith (afterDB reqs fromDB now).1 now r = true ∨ okWith (finalState reqs fromDB fetchers now).keysFetched now r = true)) := by
  rcases verifyJSONs_ok h with ⟨_, rfl, _⟩ | ⟨fromDB, hdb, _, _, ⟨_, _, rfl, _⟩ | ⟨_, rfl, _⟩⟩
  · obtain ⟨rfl, r, hr⟩ := results0_getElem? _ _ _ hi
    exact ⟨r, hr, by simp⟩
  · obtain ⟨r, hr, hb⟩ := results1_getElem? _ _ _ _ _ hi
    refine ⟨r, hr, fun hbt => ⟨fromDB, hdb, Or.inl ?_⟩⟩
    rw [hbt] at hb; simp only [Bool.true_eq, Bool.and_eq_true] at hb; exact hb.2
  · obtain ⟨r, p, hr, hp, hb⟩ := checkUsingKeys_getElem? _ _ _ _ _ _ hi
    obtain ⟨r', hr', hp'⟩ := results1_getElem? _ _ _ _ _ hp
    rw [hr] at hr'; cases hr'
    refine ⟨r, hr, fun hbt => ⟨fromDB, hdb, ?_⟩⟩
    rw [hbt, hp', checkSigs_eq_any] at hb
    simp only [Bool.true_eq, Bool.or_eq_true, Bool.and_eq_true] at hb
    rcases hb with hb | hb
    · exact Or.inl hb.2
    · exact Or.inr hb

/-- **Soundness.**  A request is reported successful only if one of its supported (`ed25519:`) signatures
    verifies under a key that the database's answer or some fetcher's answer holds for that (server, key
    ID), the key has the right length, and it was valid at the requested timestamp under the request's rule. -/
theorem success_sound {reqs : List Request} {db : FetchScript} {storeOk : Bool} {fetchers : List FetchScript} {now : Nat}
    {rs : List Bool} {tr : Trace} (h : verifyJSONs reqs db storeOk fetchers now = (.ok rs, tr))
    (i : Nat) (hi : rs[i]? = some true) :
    ∃ r, reqs[i]? = some r ∧ r.listOk = true ∧ ∃ s ∈ r.sigs, isAlgorithmSupported s.keyID = true ∧ ∃ k : KeyRes,
      ((∃ fromDB, db = some fromDB ∧ (⟨r.server, s.keyID⟩, k) ∈ fromDB) ∨ (∃ m, some m ∈ fetchers ∧ (⟨r.server, s.keyID⟩, k) ∈ m)) ∧
      wasValidAt k r.atTS r.strict now = true ∧
      s.reaches = true ∧ k.key.length = publicKeySize ∧ s.verifies k.key = true := by
  obtain ⟨r, hr, hb⟩ := results_index h i true hi
  obtain ⟨fromDB, hdb, hok⟩ := hb rfl
  refine ⟨r, hr, ?_⟩
  have key : ∀ keys : KeyMap, okWith keys now r = true →
      (∀ x ∈ keys, x ∈ fromDB ∨ ∃ m, some m ∈ fetchers ∧ x ∈ m) →
      r.listOk = true ∧ ∃ s ∈ r.sigs, isAlgorithmSupported s.keyID = true ∧ ∃ k : KeyRes,
        ((∃ fromDB, db = some fromDB ∧ (⟨r.server, s.keyID⟩, k) ∈ fromDB) ∨ (∃ m, some m ∈ fetchers ∧ (⟨r.server, s.keyID⟩, k) ∈ m)) ∧
        wasValidAt k r.atTS r.strict now = true ∧
        s.reaches = true ∧ k.key.length = publicKeySize ∧ s.verifies k.key = true := by
    intro keys hk hsrc
    unfold okWith at hk
    obtain ⟨s, hs, hu⟩ := List.any_eq_true.1 hk
    obtain ⟨k, hl, hv, hj⟩ := (usable_iff _ _ _ _ _ _).1 hu
    unfold supportedSigs at hs
    split at hs
    · rename_i hlo
      simp only [mem_filter] at hs
      refine ⟨hlo, s, hs.1, hs.2, k, ?_, hv, ?_⟩
      · rcases hsrc _ (AList.mem_of_lookup hl) with h1 | h1
        · exact Or.inl ⟨fromDB, hdb, h1⟩
        · exact Or.inr h1
      · simpa [verifyJSON, and_assoc] using hj
    · cases hs
  rcases hok with hok | hok
  · exact key _ hok (fun x hx => Or.inl (pruneDB_mem_fst hx))
  · refine key _ hok (fun x hx => ?_)
    rcases (fetchLoop_inv _ _).1 x hx with h1 | ⟨idx, m, hm, hxm⟩
    · exact Or.inl (pruneDB_mem_fst h1)
    · exact Or.inr ⟨m, by have := (mem_enumFrom hm).1; exact List.mem_of_getElem? this, hxm⟩

/-- **The specification stream's soundness clause is `success_sound`.**  `Spec.soundAt` — what the driver
    evaluates on the implementation's observed results — holds of every success the model reports (the
    answers being Go maps: one entry per key). -/
theorem success_sound_spec {reqs : List Request} {db : FetchScript} {storeOk : Bool} {fetchers : List FetchScript} {now : Nat}
    {rs : List Bool} {tr : Trace} (h : verifyJSONs reqs db storeOk fetchers now = (.ok rs, tr))
    (hnd : ∀ m, db = some m → (m.map Prod.fst).Nodup) (hnf : ∀ m, some m ∈ fetchers → (m.map Prod.fst).Nodup)
    (i : Nat) (hi : rs[i]? = some true) :
    ∃ r, reqs[i]? = some r ∧ Spec.soundAt r (db.getD [] :: fetchers.filterMap id) now = true := by
  obtain ⟨r, hr, hlo, s, hs, halg, k, hsrc, hv, hre, hlen, hver⟩ := success_sound h i hi
  refine ⟨r, hr, ?_⟩
  unfold Spec.soundAt
  rw [List.any_eq_true]
  refine ⟨s, ?_, ?_⟩
  · unfold Spec.edSigs; simp only [hlo, ↓reduceIte, mem_filter]; exact ⟨hs, halg⟩
  · rw [List.any_eq_true]
    have good : Spec.good r s k now = true := by
      rw [good_eq, hv]
      simp only [verifyJSON, hre, hlen, hver, beq_self_eq_true, Bool.and_self]
    rcases hsrc with ⟨fromDB, hdb, hm⟩ | ⟨m, hmf, hm⟩
    · refine ⟨fromDB, by simp [hdb], ?_⟩
      unfold Spec.goodIn
      rw [lookupIn_eq, AList.lookup_of_mem_nodup (hnd fromDB hdb) hm]; exact good
    · refine ⟨m, by simp only [mem_cons, mem_filterMap, id_eq, exists_eq_right]; exact Or.inr hmf, ?_⟩
      unfold Spec.goodIn
      rw [lookupIn_eq, AList.lookup_of_mem_nodup (hnf m hmf) hm]; exact good

/-- **The validity rule is the property's**: before `expired_ts` for an expired key; otherwise, where the
    room version demands strict checking, at or before `valid_until_ts` capped at seven days from now (and
    never for a key without validity); under the lenient rule any unexpired key is accepted. -/
theorem wasValidAt_spec (k : KeyRes) (t : Nat) (strict : Bool) (now : Nat) :
    wasValidAt k t strict now = true ↔
      if k.expiredTS ≠ 0 then t < k.expiredTS
      else (strict = false ∨ (k.validUntilTS ≠ 0 ∧ t ≤ min k.validUntilTS (now + 7 * 24 * 3600 * 1000))) :=
  wasValidAt_iff k t strict now

/-- **No bound on the timestamps.**  Under the strict rule an unexpired key is accepted only for a request
    timestamp at or before BOTH its `valid_until_ts` and seven days from now — for every natural `t`, the values at
    and beyond 2^63 (where a conversion through int64 wraps) included. -/
theorem strict_within_validity (k : KeyRes) (t now : Nat) (hk : k.expiredTS = 0)
    (h : wasValidAt k t true now = true) : k.validUntilTS ≠ 0 ∧ t ≤ k.validUntilTS ∧ t ≤ now + sevenDaysMs := by
  have := (wasValidAt_spec k t true now).1 h
  simp only [hk, ne_eq, not_true_eq_false, ↓reduceIte, Bool.true_eq_false, false_or] at this
  refine ⟨this.1, ?_, ?_⟩
  · exact Nat.le_trans this.2 (Nat.min_le_left _ _)
  · exact Nat.le_trans this.2 (by unfold sevenDaysMs; exact Nat.min_le_right _ _)

/-- the inputs on which `StrictValiditySignatureCheck` used to answer `true` (it converted through `time.Time`, i.e.
    int64): request timestamps 2^63 and 2^64-1 against a key whose validity ended a year before `now` -/
example : wasValidAt { key := [], expiredTS := 0, validUntilTS := 1758710400000 } 9223372036854775808 true 1790246400000 = false := by decide
example : wasValidAt { key := [], expiredTS := 0, validUntilTS := 1758710400000 } 18446744073709551615 true 1790246400000 = false := by decide
/-- … and, the other way round, a `valid_until_ts` of 2^63 / 2^64-1 is capped at seven days from now like any other -/
example : wasValidAt { key := [], expiredTS := 0, validUntilTS := 9223372036854775808 } 1790246400000 true 1790246400000 = true := by decide
example : wasValidAt { key := [], expiredTS := 0, validUntilTS := 18446744073709551615 } (1790246400000 + sevenDaysMs + 1) true 1790246400000 = false := by decide
/-- `strict_within_validity` is not vacuous -/
example : wasValidAt { key := [], expiredTS := 0, validUntilTS := 9000 } 9000 true 5000 = true := by decide

/-- **Completeness.**  When the call returns results (no database / store error), request `i` succeeds
    whenever, for one of its supported signatures, the key *supplied* for (server, key ID) — the database's
    entry if the database keeps it (expired-marked or inside its validity), else the first fetcher's that
    answers for it, else the database's stale entry — verifies the signature and was valid at the
    requested timestamp.

    Side conditions, and which of them are forced:
    * `hn`: the database's answer has one entry per key — it is a Go map (always true of the code).
    * the result is `.ok` — a failing database or store makes the whole call fail (the property is silent).
    * "the database supplies" means an entry the database *keeps*.  This IS forced: a good database key
      whose `valid_until_ts` is in the past is re-requested, and a fetcher's different answer for it
      replaces it (`stale_db_key_replaced` below, reproduced on the real code by the correspondence
      check: spec outcome `unspecified:excluded:stale-database-key-replaced-by-fetched-key`). -/
theorem success_complete {reqs : List Request} {db : FetchScript} {storeOk : Bool} {fetchers : List FetchScript} {now : Nat}
    {rs : List Bool} {tr : Trace} (h : verifyJSONs reqs db storeOk fetchers now = (.ok rs, tr))
    (fromDB : KeyMap) (hdb : db = some fromDB) (hn : (fromDB.map Prod.fst).Nodup)
    (i : Nat) (r : Request) (hr : reqs[i]? = some r) (hm : Spec.mustSucceed r fromDB fetchers now = true) :
    rs[i]? = some true := by
  -- the signature and key the specification points at
  unfold Spec.mustSucceed at hm
  obtain ⟨s, hs, hg⟩ := List.any_eq_true.1 hm
  rw [supportedSigs_eq] at hs
  have hmem : r ∈ reqs := List.mem_of_getElem? hr
  have hq : AList.contains ⟨r.server, s.keyID⟩ (keyRequests0 reqs) = true := publicKeyRequests_contains reqs [] r hmem s hs
  have hilt : i < reqs.length := by
    rcases Nat.lt_or_ge i reqs.length with h1 | h1
    · exact h1
    · rw [List.getElem?_eq_none h1] at hr; cases hr
  rcases verifyJSONs_ok h with ⟨hk0, _⟩ | ⟨fromDB', hdb', _, _, ⟨_, hall, rfl, _⟩ | ⟨_, rfl, _⟩⟩
  · rw [hk0] at hq; simp [AList.contains, AList.lookup] at hq
  · -- early return: every result is a success
    have hlen := results1_length reqs fromDB' now
    have hi' : i < (results1 reqs fromDB' now).length := by omega
    have : (results1 reqs fromDB' now)[i]? = some ((results1 reqs fromDB' now)[i]'hi') := List.getElem?_eq_getElem _
    rw [this]; congr 1
    have := List.all_eq_true.1 hall _ (List.getElem_mem hi')
    simpa using this
  · rw [hdb] at hdb'; cases hdb'
    have hlen := results1_length reqs fromDB now
    have hi' : i < (results1 reqs fromDB now).length := by omega
    have hp : (results1 reqs fromDB now)[i]? = some ((results1 reqs fromDB now)[i]'hi') := List.getElem?_eq_getElem _
    rw [checkUsingKeys_getElem?_of _ _ _ _ i r _ hr hp]
    congr 1
    rw [checkSigs_eq_any]
    have hu : usable r.server r.atTS r.strict (finalState reqs fromDB fetchers now).keysFetched now s = true := by
      unfold usable
      rw [final_key_eq_supplied reqs fromDB fetchers now hn _ hq]
      cases hsup : Spec.supplied fromDB fetchers ⟨r.server, s.keyID⟩ now with
      | none => simp [hsup] at hg
      | some k => simp only [hsup] at hg; rw [good_eq] at hg; simpa using hg
    have : (supportedSigs r).any (usable r.server r.atTS r.strict (finalState reqs fromDB fetchers now).keysFetched now) = true :=
      List.any_eq_true.2 ⟨s, hs, hu⟩
    simp [this]

/-- **Fetchers are consulted only for what is needed and missing.**  Every (key, timestamp) a fetcher is
    asked for is a supported key ID of some request at that request's timestamp, and the database's answer
    either lacks that key or holds it unexpired with `valid_until_ts ≤ now` (past its validity). -/
theorem fetch_minimal {reqs : List Request} {db : FetchScript} {storeOk : Bool} {fetchers : List FetchScript} {now : Nat}
    {out : Except CallErr (List Bool)} {tr : Trace} (h : verifyJSONs reqs db storeOk fetchers now = (out, tr))
    (c : Nat × ReqMap) (hc : c ∈ tr.fetcherCalls) (e : KeyReq × Nat) (he : e ∈ c.2) :
    (∃ r ∈ reqs, ∃ s ∈ supportedSigs r, e = (⟨r.server, s.keyID⟩, r.atTS)) ∧
    ∃ fromDB, db = some fromDB ∧ ∀ k, (e.1, k) ∈ fromDB → k.expiredTS = 0 ∧ k.validUntilTS ≤ now := by
  rcases trace_of h with ⟨h1, _⟩ | ⟨fromDB, hdb, hcalls, _⟩
  · rw [h1] at hc; cases hc
  · rw [hcalls] at hc
    unfold finalState at hc
    rcases (fetchLoop_inv _ _).2 c hc with h1 | ⟨_, h2⟩
    · cases h1
    · have h3 := h2 e he
      obtain ⟨h4, h5⟩ := prune_mem_snd now fromDB ([], keyRequests0 reqs) e h3
      constructor
      · rcases publicKeyRequests_mem _ _ _ _ h4 with h6 | h6
        · cases h6
        · exact h6
      · refine ⟨fromDB, hdb, fun k hk => ?_⟩
        have := h5 k hk
        unfold keeps at this
        simp only [not_or, Classical.not_not, Nat.not_lt] at this
        exact this

/-- **What was fetched is stored.**  Whenever a fetcher was called, `StoreKeys` is called, and the map it is called
    with holds, for every key the fetcher was asked for and answered, the fetcher's answer. -/
theorem stores_fetched {reqs : List Request} {db : FetchScript} {storeOk : Bool} {fetchers : List FetchScript} {now : Nat}
    {out : Except CallErr (List Bool)} {tr : Trace} (h : verifyJSONs reqs db storeOk fetchers now = (out, tr))
    (c : Nat × ReqMap) (hc : c ∈ tr.fetcherCalls) :
    ∃ stored, tr.stored = some stored ∧
      ∀ m, fetchers[c.1]? = some (some m) → ∀ (q : KeyReq) (v : KeyRes), AList.lookup q m = some v →
        AList.contains q c.2 = true → AList.lookup q stored = some v := by
  rcases trace_of h with ⟨h1, _⟩ | ⟨fromDB, _, hcalls, hst⟩
  · rw [h1] at hc; cases hc
  · refine ⟨_, hst, ?_⟩
    rw [hcalls] at hc
    unfold finalState at hc ⊢
    rcases fetchLoop_toStore_answers fetchers 0 _ c hc with h1 | ⟨_, h1⟩
    · cases h1
    · simpa using h1

/-- **… and nothing else is** ("stores what it fetched" — not what it read).  Every entry `StoreKeys` is called with is
    an entry of the answer of a fetcher that this call consulted.  In particular an entry the call only READ from the
    database is never written back: between the read and the store another call on the same database may have
    replaced it with a newer one (C19: `V.C19.verify_store_only_fetched`, `V.C19.verify_no_lost_update`).

    Until /repo 3755557 the call ended with `StoreKeys(keysFetched)` — everything it held, database entries included —
    and the model said `stored := keysFetched`: this statement was false of both (second audit round, defect V1). -/
theorem stores_only_fetched {reqs : List Request} {db : FetchScript} {storeOk : Bool} {fetchers : List FetchScript} {now : Nat}
    {out : Except CallErr (List Bool)} {tr : Trace} (h : verifyJSONs reqs db storeOk fetchers now = (out, tr))
    (stored : KeyMap) (hs : tr.stored = some stored) (e : KeyReq × KeyRes) (he : e ∈ stored) :
    ∃ c ∈ tr.fetcherCalls, ∃ m, fetchers[c.1]? = some (some m) ∧ e ∈ m :=
  verifyJSONs_stored_mem h stored hs e he

theorem nth?_eq_getElem? {α} (l : List α) (i : Nat) : Spec.nth? l i = l[i]? := by
  induction l generalizing i with
  | nil => cases i <;> rfl
  | cons x xs ih => cases i with
    | zero => rfl
    | succ j => simpa [Spec.nth?] using ih j

/-- the judgement of the specification stream ("a key that no fetcher supplied … was stored") is `stores_only_fetched` -/
theorem stores_only_fetched_spec {reqs : List Request} {db : FetchScript} {storeOk : Bool} {fetchers : List FetchScript} {now : Nat}
    {out : Except CallErr (List Bool)} {tr : Trace} (h : verifyJSONs reqs db storeOk fetchers now = (out, tr))
    (stored : KeyMap) (hs : tr.stored = some stored) :
    stored.all (fun e => tr.fetcherCalls.any (fun c =>
      match Spec.nth? fetchers c.1 with
      | some (some m) => m.contains e
      | _ => false)) = true := by
  rw [List.all_eq_true]
  intro e he
  obtain ⟨c, hc, m, hm, hem⟩ := stores_only_fetched h stored hs e he
  rw [List.any_eq_true]
  refine ⟨c, hc, ?_⟩
  rw [nth?_eq_getElem?, hm]
  simpa using hem

/-- a failing (or empty-handed) fetcher leaves nothing to store: the database is not written at all -/
theorem stores_nothing_without_answers {reqs : List Request} {db : FetchScript} {storeOk : Bool} {fetchers : List FetchScript} {now : Nat}
    {out : Except CallErr (List Bool)} {tr : Trace} (h : verifyJSONs reqs db storeOk fetchers now = (out, tr))
    (hf : ∀ f ∈ fetchers, f = none ∨ f = some []) : tr.stored = none ∨ tr.stored = some [] :=
  verifyJSONs_stored_silent h hf

/-- **Key responses.**  `CheckKeys` accepts a response (AllChecksOK) iff it names the server asked for, its
    `valid_until_ts` is after the instant given, it has at least one ed25519 key, and every ed25519 key is
    32 bytes long and has signed the response under the server's name. -/
theorem checkKeys_spec (serverName : Bytes) (nowMs : Nat) (keys : ServerKeys) :
    (checkKeys serverName nowMs keys).1.allChecksOK = true ↔
      serverName = keys.serverName ∧ nowMs < keys.validUntilTS ∧
      (∃ e ∈ keys.verifyKeys, algorithmOf e.keyID = ed25519Name) ∧
      ∀ e ∈ keys.verifyKeys, algorithmOf e.keyID = ed25519Name → e.key.length = 32 ∧ e.selfSigned = true := by
  simp only [checkKeys, ed25519Entries, checkEntry, Bool.and_eq_true, beq_iff_eq, decide_eq_true_eq, gt_iff_lt,
    Bool.not_eq_eq_eq_not, Bool.not_true, List.isEmpty_eq_false_iff, ne_eq, map_eq_nil_iff, all_map, all_eq_true, mem_filter,
    Function.comp_apply, and_imp]
  constructor
  · rintro ⟨⟨h1, h2⟩, h3, h4⟩
    refine ⟨h1, h2, ?_, fun e he ha => h4 e he ha⟩
    obtain ⟨e, he⟩ := List.exists_mem_of_ne_nil _ h3
    simp only [mem_filter, beq_iff_eq] at he
    exact ⟨e, he.1, he.2⟩
  · rintro ⟨h1, h2, ⟨e, he, ha⟩, h4⟩
    refine ⟨⟨h1, h2⟩, ?_, fun e he ha => h4 e he ha⟩
    intro hnil
    have : e ∈ filter (fun e => algorithmOf e.keyID == ed25519Name) keys.verifyKeys := by
      simp only [mem_filter, beq_iff_eq]; exact ⟨he, ha⟩
    rw [hnil] at this; cases this

/-- **`ServerKeys.PublicKey` answers with a key valid at the instant**: a key it returns is the response's current
    key of that ID with `t ≤ valid_until_ts`, or its old key of that ID with `t < expired_ts` (BEFORE, not at). -/
theorem publicKey_valid (keys : ServerKeys) (keyID : Bytes) (t : Nat) (k : Bytes) (h : publicKey keys keyID t = some k) :
    (∃ e, keys.verifyKeys.find? (fun e => e.keyID == keyID) = some e ∧ e.key = k ∧ t ≤ keys.validUntilTS) ∨
    (∃ e, keys.oldVerifyKeys.find? (fun e => e.keyID == keyID) = some e ∧ e.key = k ∧ t < e.expiredTS) := by
  unfold publicKey at h
  split at h
  · rename_i cur hc
    split at h
    · rename_i hle; cases h; exact Or.inl ⟨cur, hc, rfl, hle⟩
    · split at h
      · rename_i old ho
        split at h
        · rename_i hlt; cases h; exact Or.inr ⟨old, ho, rfl, hlt⟩
        · cases h
      · cases h
  · split at h
    · rename_i old ho
      split at h
      · rename_i hlt; cases h; exact Or.inr ⟨old, ho, rfl, hlt⟩
      · cases h
    · cases h

/-- **… and answers whenever there is one**: `nil` only if the response has no current key of that ID valid at `t`
    and no old key of that ID valid at `t`; in full, the outcome satisfies the specification `Spec.publicKeyOK`
    (what the property's validity clause says about the entries of a key response). -/
theorem publicKey_spec (keys : ServerKeys) (keyID : Bytes) (t : Nat) :
    Spec.publicKeyOK keys keyID t (publicKey keys keyID t) = true := by
  unfold Spec.publicKeyOK Spec.currentKeyAt Spec.oldKeyAt publicKey
  cases hc : keys.verifyKeys.find? (fun e => e.keyID == keyID) with
  | none =>
    cases ho : keys.oldVerifyKeys.find? (fun e => e.keyID == keyID) with
    | none => simp
    | some old => by_cases hlt : t < old.expiredTS <;> simp [hlt]
  | some cur =>
    by_cases hle : t ≤ keys.validUntilTS
    · simp [hle]
    · cases ho : keys.oldVerifyKeys.find? (fun e => e.keyID == keyID) with
      | none => simp [hle]
      | some old => by_cases hlt : t < old.expiredTS <;> simp [hle, hlt]

/-- where the clause determines the answer (always, unless a current and an old entry of that ID with different
    keys are both valid at `t`), `PublicKey` gives exactly that answer — this is the specification column of the
    `keyring.public_key` correspondence op -/
theorem publicKey_answer (keys : ServerKeys) (keyID : Bytes) (t : Nat) (a : Option Bytes)
    (h : Spec.publicKeyAnswer keys keyID t = some a) : publicKey keys keyID t = a := by
  have hok := publicKey_spec keys keyID t
  unfold Spec.publicKeyAnswer at h
  unfold Spec.publicKeyOK at hok
  cases hc : Spec.currentKeyAt keys keyID t with
  | none =>
    cases ho : Spec.oldKeyAt keys keyID t with
    | none =>
      rw [hc, ho] at h; cases h
      cases hp : publicKey keys keyID t with
      | none => rfl
      | some k => rw [hp, hc, ho] at hok; simp at hok
    | some b =>
      rw [hc, ho] at h; cases h
      cases hp : publicKey keys keyID t with
      | none => rw [hp, hc, ho] at hok; simp at hok
      | some k => rw [hp, hc, ho] at hok; simp at hok; rw [hok]
  | some a' =>
    cases ho : Spec.oldKeyAt keys keyID t with
    | none =>
      rw [hc, ho] at h; cases h
      cases hp : publicKey keys keyID t with
      | none => rw [hp, hc, ho] at hok; simp at hok
      | some k => rw [hp, hc, ho] at hok; simp at hok; rw [hok]
    | some b =>
      rw [hc, ho] at h
      by_cases hab : (a' == b) = true
      · simp only [hab, ↓reduceIte, Option.some.injEq] at h; subst h
        have hab' : a' = b := by simpa using hab
        cases hp : publicKey keys keyID t with
        | none => rw [hp, hc, ho] at hok; simp at hok
        | some k => rw [hp, hc, ho] at hok; simp at hok; rcases hok with h1 | h1 <;> simp [h1, hab']
      · simp [hab] at h

def exOldResponse : ServerKeys where
  serverName := [97]
  validUntilTS := 9000
  verifyKeys := [{ keyID := ed25519Name ++ [58, 49], key := List.replicate 32 7, selfSigned := true }]
  oldVerifyKeys := [{ keyID := ed25519Name ++ [58, 48], key := List.replicate 32 5, expiredTS := 1000 }]

/-- the boundary `ServerKeys.PublicKey` used to get wrong (`atTS <= expired_ts`): an old key is returned one
    millisecond before its expired_ts, not at it and not after it; the current key up to and including valid_until_ts -/
example : publicKey exOldResponse (ed25519Name ++ [58, 48]) 999 = some (List.replicate 32 5)
    ∧ publicKey exOldResponse (ed25519Name ++ [58, 48]) 1000 = none
    ∧ publicKey exOldResponse (ed25519Name ++ [58, 48]) 1001 = none
    ∧ publicKey exOldResponse (ed25519Name ++ [58, 49]) 9000 = some (List.replicate 32 7)
    ∧ publicKey exOldResponse (ed25519Name ++ [58, 49]) 9001 = none := by decide

/-- … and the keys it returns are exactly the accepted response's ed25519 keys (none unless accepted). -/
theorem checkKeys_keys (serverName : Bytes) (nowMs : Nat) (keys : ServerKeys) :
    (checkKeys serverName nowMs keys).2.isSome = (checkKeys serverName nowMs keys).1.allChecksOK := by
  simp only [checkKeys]; split <;> simp_all

/-- **What the fetchers accept.**  `DirectKeyFetcher` and `PerspectiveKeyFetcher` call `CheckKeys` with
    `time.Unix(0, 0)`: a response is accepted iff it names the server, has an ed25519 key, all its ed25519
    keys are 32 bytes and self-signed — and its `valid_until_ts` is merely NON-ZERO, not in the future. -/
theorem fetcher_accepts_iff (serverName : Bytes) (keys : ServerKeys) :
    acceptedByFetcher serverName keys = true ↔
      serverName = keys.serverName ∧ 0 < keys.validUntilTS ∧
      (∃ e ∈ keys.verifyKeys, algorithmOf e.keyID = ed25519Name) ∧
      ∀ e ∈ keys.verifyKeys, algorithmOf e.keyID = ed25519Name → e.key.length = 32 ∧ e.selfSigned = true :=
  checkKeys_spec serverName 0 keys

/-- the direct fetcher uses only a response that the server itself (or, failing that, the notary endpoint)
    returned, that names the server asked for and passes the checks -/
theorem direct_accepts (serverName : Bytes) (direct : Option ServerKeys) (notary : Option (List ServerKeys)) (k : ServerKeys)
    (h : directChoice serverName direct notary = some k) :
    acceptedByFetcher serverName k = true ∧ (direct = some k ∨ ∃ l, notary = some l ∧ k ∈ l) := by
  have hn : ∀ k, notaryChoice serverName notary = some k →
      acceptedByFetcher serverName k = true ∧ ∃ l, notary = some l ∧ k ∈ l := by
    intro k hk
    unfold notaryChoice at hk
    cases notary with
    | none => cases hk
    | some l =>
      simp only at hk
      split at hk
      · cases hk
      · rename_i keys hf
        split at hk
        · rename_i hacc; cases hk; exact ⟨hacc, l, rfl, List.mem_of_find?_eq_some hf⟩
        · cases hk
  unfold directChoice at h
  cases direct with
  | none => simp only at h; have := hn k h; exact ⟨this.1, Or.inr this.2⟩
  | some d =>
    simp only at h
    split at h
    · rename_i hacc; cases h; exact ⟨hacc, Or.inl rfl⟩
    · have := hn k h; exact ⟨this.1, Or.inr this.2⟩

theorem notaryValid_true {sigs : List NotarySig} (h : notaryValid sigs = .ok true) : ∃ s ∈ sigs, s.known = true ∧ s.sigOk = true := by
  induction sigs with
  | nil => cases h
  | cons s rest ih =>
    simp only [notaryValid] at h
    split at h
    · obtain ⟨s', hs', h2⟩ := ih h; exact ⟨s', List.mem_cons_of_mem _ hs', h2⟩
    · rename_i hk
      split at h
      · cases h
      · rename_i hs; exact ⟨s, by simp, by simpa using hk, by simpa using hs⟩

/-- the perspective fetcher returns keys only if EVERY response of the notary carries a signature of the
    notary under a configured key that verifies, and passes the checks for the server it names -/
theorem perspective_accepts (resps : List NotaryResponse) (m : KeyMap) (h : perspectiveFetch (some resps) = some m) :
    ∀ r ∈ resps, r.listOk = true ∧ (∃ s ∈ r.notarySigs, s.known = true ∧ s.sigOk = true) ∧
      acceptedByFetcher r.keys.serverName r.keys = true := by
  unfold perspectiveFetch at h
  simp only at h
  generalize ([] : KeyMap) = acc at h
  induction resps generalizing acc with
  | nil => intro r hr; cases hr
  | cons r rest ih =>
    simp only [perspectiveLoop] at h
    split at h
    · cases h
    · rename_i hl
      split at h
      · cases h
      · cases h
      · rename_i hv
        split at h
        · cases h
        · rename_i ha
          intro r' hr'
          rcases List.mem_cons.1 hr' with rfl | hr'
          · exact ⟨by simpa using hl, notaryValid_true hv, by simpa using ha⟩
          · exact ih _ h r' hr'

/-! ### Non-vacuity and the forced side condition -/

def exGood : Bytes := List.replicate 32 7
def exBad : Bytes := List.replicate 32 9
def exKid : Bytes := algPrefix ++ [49]
def exSig : SigInfo := { keyID := exKid, reaches := true, verifies := fun k => k == exGood }
def exReqA : Request := { server := [97], atTS := 1000, strict := true, listOk := true, sigs := [exSig] }
def exReqB : Request := { server := [98], atTS := 1000, strict := true, listOk := true, sigs := [exSig] }
def exQA : KeyReq := ⟨[97], exKid⟩
def exFresh : KeyRes := { key := exGood, expiredTS := 0, validUntilTS := 9000 }
def exStale : KeyRes := { key := exGood, expiredTS := 0, validUntilTS := 2000 }
def exWrong : KeyRes := { key := exBad, expiredTS := 0, validUntilTS := 9000 }

/-- the hypotheses of `success_sound` / `success_complete` / `fetch_minimal` / `stores_fetched` are satisfiable:
    the database lacks the key, the first fetcher fails, the second answers; the request succeeds, both
    fetchers were asked for exactly that key, and the answer is stored -/
example :
    verifyJSONs [exReqA] (some []) true [none, some [(exQA, exFresh)]] 5000 =
      (.ok [true], { dbAsked := some [(exQA, 1000)], fetcherCalls := [(0, [(exQA, 1000)]), (1, [(exQA, 1000)])],
                     stored := some [(exQA, exFresh)] }) := by rfl

example : Spec.mustSucceed exReqA [] [none, some [(exQA, exFresh)]] 5000 = true := by rfl

/-- **The side condition of `success_complete` is forced** (`stale_db_key_replaced`): the database holds the
    right key for request A, valid at the requested time (1000 ≤ 2000) but past its validity now (2000 ≤ 5000);
    it is therefore re-requested (together with B's key, which nobody has, so that the all-from-database
    attempt does not apply), the fetcher answers with a different key for A, that answer replaces the
    database's, and A fails — although "the database supplies such a key" read literally. -/
theorem stale_db_key_replaced :
    (verifyJSONs [exReqA, exReqB] (some [(exQA, exStale)]) true [some [(exQA, exWrong)]] 5000).1 = .ok [false, false]
    ∧ Spec.literalDB exReqA [(exQA, exStale)] 5000 = true
    ∧ Spec.mustSucceed exReqA [(exQA, exStale)] [some [(exQA, exWrong)]] 5000 = false := ⟨by rfl, by rfl, by rfl⟩

/-- the old behaviour fixed in /repo (20aee4f): an unrequested answer of a later fetcher no longer replaces
    a key already obtained — fetcher 0 answers A's key, fetcher 1 (asked only for B's) also offers a wrong
    key for A; A succeeds -/
example :
    (verifyJSONs [exReqA, exReqB] (some []) true [some [(exQA, exFresh)], some [(exQA, exWrong)]] 5000).1 = .ok [true, false] := by rfl

/-- the behaviour fixed in /repo (3755557): the database's entry for A is past its validity and the fetcher fails — the
    call uses the stale entry it read, and hands `StoreKeys` NOTHING (it used to write the entry it had read back);
    when the fetcher answers, exactly its answer is stored -/
example :
    (verifyJSONs [{ exReqA with atTS := 3000 }] (some [(exQA, exStale)]) true [none] 5000).2.stored = some [] := by rfl
example :
    (verifyJSONs [{ exReqA with atTS := 3000 }] (some [(exQA, exStale)]) true [some [(exQA, exFresh)]] 5000) =
      (.ok [true], { dbAsked := some [(exQA, 3000)], fetcherCalls := [(0, [(exQA, 3000)])], stored := some [(exQA, exFresh)] }) := by rfl
/-- … and an entry the call only read (B's, inside its validity) stays out of what is stored beside a fetched one -/
example :
    (verifyJSONs [exReqA, exReqB] (some [(⟨[98], exKid⟩, exFresh)]) true [some [(exQA, exFresh)]] 5000).2.stored = some [(exQA, exFresh)] := by rfl

def exPastResponse : ServerKeys where
  serverName := [97]
  validUntilTS := 1
  verifyKeys := [{ keyID := ed25519Name ++ [58, 49], key := exGood, selfSigned := true }]
  oldVerifyKeys := []

/-- **Discrepancy with the property's last clause** ("… with a valid_until_ts in the future"): the fetchers
    accept a properly self-signed response whose `valid_until_ts` is 1 ms after the epoch, i.e. decades in the
    past (reproduced on the real DirectKeyFetcher / PerspectiveKeyFetcher by the correspondence check). -/
theorem past_valid_until_accepted :
    acceptedByFetcher [97] exPastResponse = true ∧ (checkKeys [97] 1700000000000 exPastResponse).1.allChecksOK = false :=
  ⟨by rfl, by rfl⟩

/-- a key of the wrong length is refused by the guard in VerifyJSON (no panic site is reached) -/
example : verifyJSON exSig [1, 2, 3] = false := by rfl

end V.C12
