/-
  C16 — Outbound federation goes only where resolution rules and network policy allow.

  Property theorems only (helper lemmas live in VProofs.{Resolve,WellKnown,Cidr}).  Models:
    VModel.Resolve   (spec/servername.go, fclient/resolve.go)   vs  Resolve.Spec   (S2S "Resolving server names")
    VModel.WellKnown (fclient/well_known.go)                    vs  WellKnown.Spec (max-age before Expires)
    VModel.Cidr      (fclient/client.go + net.IPNet.Contains)   vs  Cidr.Spec      (prefix membership, deny/allow)
  What is NOT proved here (partial claims, see props/C16.py): what net/http, the dialer and the DNS
  resolver do at run time (they are the oracles / parameters of the models); destinationTripper.RoundTrip's
  use of (Destination, Host, TLSServerName) per target is read, not modelled.
-/
import VModel.Resolve
import VModel.WellKnown
import VModel.Cidr
import VProofs.Resolve
import VProofs.WellKnown
import VProofs.Cidr
import VGen.C16
namespace V.C16
open V

/-! ### Regenerated facts: the literals the models repeat are the ones in /repo now -/

theorem gen_default_port :
    VGen.resolveServerLiterals = [8448] ∧ VGen.handleNoWellKnownLiterals = [8448] ∧
      Resolve.port8448 = "8448".toList := by decide

theorem gen_srv_services :
    VGen.lookupSRVCalls = [("matrix-fed", "tcp"), ("matrix", "tcp")] := by decide

theorem gen_wellknown_limits :
    VGen.wellKnownMaxSize = 51200 ∧ WellKnown.maxSize = VGen.wellKnownMaxSize ∧
      VGen.wellKnownReadLimit = WellKnown.maxSize + 1 ∧
      VGen.wellKnownBodyCheck = (">", (WellKnown.maxSize : Int)) ∧
      VGen.wellKnownStatusCheck = ("!=", 200) ∧
      VGen.wellKnownExpiresLayout = "Mon, 02 Jan 2006 15:04:05 MST" ∧
      VGen.wellKnownPath = "/.well-known/matrix/server" := by decide

theorem gen_control_networks :
    VGen.controlNetworkChecks = [("!=", "tcp4"), ("!=", "tcp6")] := by decide

/-! ### Resolution -/
section Resolution
open Resolve

/-- The code resolves a name exactly as the specification's steps 1-6 prescribe (order of the steps,
    destination, Host header and TLS server name of every target, refusal of invalid names), for every
    name, every well-known outcome and every answer of an SRV resolver whose successful lookups carry at
    least one record — WHATEVER the targets of the records: a record whose target is the root `.` yields no
    target (finding R8: it used to yield the destination ":port"). -/
theorem resolve_eq_spec (o : Oracles) (name : Cidr.Str) (hs : Spec.SrvSane o.srv) :
    resolve o name = Spec.resolve o name := by
  unfold resolve Spec.resolve resolveNoWellKnown
  rw [resolveDirect_eq name]
  unfold Spec.directResult
  cases hk : Spec.classify name with
  | none => rfl
  | some k =>
    simp only []
    cases hd : Spec.direct name k with
    | some ts => rfl
    | none =>
      simp only []
      cases hw : o.wk name with
      | none => simp only []; exact handleNoWellKnown_eq o.srv name hs
      | some d =>
        simp only []
        rw [resolveDirect_eq d]
        unfold Spec.directResult
        cases hkd : Spec.classify d with
        | none => rfl
        | some kd =>
          simp only []
          cases hdd : Spec.direct d kd with
          | some ts => rfl
          | none => simp only []; exact handleNoWellKnown_eq o.srv d hs

/-- non-vacuity: a resolver that finds nothing is sane; so is one that answers one record -/
example : Spec.SrvSane (fun _ _ => .notFound) := by intro _ _ _ h; cases h
example : Spec.SrvSane (fun _ _ => .records [("matrix.otherexample.com.".toList, 4242)]) := by
  intro _ _ rs h
  cases h
  simp

/-- the old failing input of finding R8, now behaving: the only SRV record names the root — no target, where
    the code used to return the destination ":8448" -/
example :
    resolve { wk := fun _ => none, srv := fun svc _ => if svc = "matrix-fed".toList then .records [(".".toList, 8448)] else .notFound }
      "hs.example.org".toList = .ok [] := by
  rfl

/-- a root record among others is skipped, the others stay -/
example :
    resolve { wk := fun _ => none, srv := fun svc _ => if svc = "matrix-fed".toList then .records [("a.example.".toList, 1), (".".toList, 2)] else .notFound }
      "hs.example.org".toList = .ok [⟨"a.example:1".toList, "hs.example.org".toList, "hs.example.org".toList⟩] := by
  rfl

/-- the worked example of the repository's own test (step 3.3): delegation to a hostname with an SRV record -/
example :
    resolve { wk := fun n => if n = "example.com".toList then some "matrix.example.com".toList else none,
              srv := fun svc _ => if svc = "matrix-fed".toList then .records [("matrix.otherexample.com.".toList, 4242)] else .notFound }
      "example.com".toList
    = .ok [⟨"matrix.otherexample.com:4242".toList, "matrix.example.com".toList, "matrix.example.com".toList⟩] := by
  rfl

/-- Invalid server names are refused: a name ParseAndValidateServerName rejects yields no target,
    whatever the network would answer. -/
theorem invalid_refused (o : Oracles) (name : Cidr.Str) (h : parseAndValidate name = none) :
    resolve o name = .error (.other "invalid-server-name") := by
  simp [resolve, resolveDirect, h]

theorem directOf_ne_invalid (name host : Cidr.Str) (port : Option Nat) :
    directOf name host port ≠ .error (.other "invalid-server-name") := by
  unfold directOf
  cases host with
  | nil => simp
  | cons c0 t =>
    simp only []
    split <;> (try split) <;> (try split) <;> simp

/-- ... and the names the code rejects are exactly those the specification's reading of the server-name
    grammar rejects. -/
theorem invalid_iff_spec (name : Cidr.Str) : parseAndValidate name = none ↔ Spec.classify name = none := by
  have h := resolveDirect_eq name
  unfold resolveDirect Spec.directResult at h
  constructor
  · intro hn
    rw [hn] at h
    cases hk : Spec.classify name with
    | none => rfl
    | some k => rw [hk] at h; simp at h
  · intro hn
    rw [hn] at h
    cases hp : parseAndValidate name with
    | none => rfl
    | some hp' =>
      rw [hp] at h
      obtain ⟨host, port⟩ := hp'
      exact absurd h (directOf_ne_invalid name host port)

/-- an invalid delegated name is refused too -/
theorem invalid_delegate_refused (o : Oracles) (name d : Cidr.Str) (hd : resolveDirect name = .ok none)
    (hw : o.wk name = some d) (h : parseAndValidate d = none) :
    resolve o name = .error (.other "invalid-server-name") := by
  unfold resolve
  rw [hd]
  simp only [hw]
  unfold resolveNoWellKnown resolveDirect
  rw [h]

/-- The delegated name is resolved without a further well-known lookup: the result depends on the
    well-known oracle only through its answer for the original name. -/
theorem delegated_no_second_wellknown (o o' : Oracles) (name : Cidr.Str)
    (hwk : o.wk name = o'.wk name) (hsrv : o.srv = o'.srv) :
    resolve o name = resolve o' name := by
  unfold resolve resolveNoWellKnown
  rw [hwk, hsrv]

/-- Resolution never succeeds with an empty target list — except when an SRV lookup found records and EVERY one
    of them names the root `.` as its target: the domain declares that the service is not available
    (RFC 2782), there is nowhere to go, and RoundTrip gives up ("no address found"). -/
theorem targets_nonempty_or_error (o : Oracles) (name : Cidr.Str) (hs : Spec.SrvSane o.srv) (ts : List Target)
    (h : resolve o name = .ok ts) :
    ts ≠ [] ∨ ∃ svc n rs, o.srv svc n = .records rs ∧ rs ≠ [] ∧ ∀ r ∈ rs, Spec.rootTarget r = true := by
  rw [resolve_eq_spec o name hs] at h
  have hfound : ∀ svc n rs, Spec.found (o.srv svc n) = some rs →
      Spec.srvTargets n rs ≠ [] ∨ ∃ svc n rs, o.srv svc n = .records rs ∧ rs ≠ [] ∧ ∀ r ∈ rs, Spec.rootTarget r = true := by
    intro svc n rs hf
    have hrec : o.srv svc n = .records rs ∧ rs ≠ [] := by
      cases ha : o.srv svc n with
      | records l =>
        rw [ha] at hf
        cases l with
        | nil => simp [Spec.found] at hf
        | cons x xs => simp only [Spec.found, Option.some.injEq] at hf; subst hf; exact ⟨rfl, by simp⟩
      | notFound => rw [ha] at hf; simp [Spec.found] at hf
      | dnsError => rw [ha] at hf; simp [Spec.found] at hf
      | otherError => rw [ha] at hf; simp [Spec.found] at hf
    by_cases hall : ∀ r ∈ rs, Spec.rootTarget r = true
    · exact Or.inr ⟨svc, n, rs, hrec.1, hrec.2, hall⟩
    · left
      have : ∃ r, r ∈ rs ∧ Spec.rootTarget r = false := by
        apply Classical.byContradiction
        intro hne
        apply hall
        intro r hr
        cases hrt : Spec.rootTarget r
        · exact absurd ⟨r, hr, hrt⟩ hne
        · rfl
      obtain ⟨r, hr, hrt⟩ := this
      unfold Spec.srvTargets
      intro hnil
      have hmem : r ∈ rs.filter (fun r => !Spec.rootTarget r) := List.mem_filter.mpr ⟨hr, by simp [hrt]⟩
      have := List.map_eq_nil_iff.mp hnil
      rw [this] at hmem
      cases hmem
  have hsrv : ∀ n, Spec.srvSteps o.srv n ≠ [] ∨ ∃ svc n rs, o.srv svc n = .records rs ∧ rs ≠ [] ∧ ∀ r ∈ rs, Spec.rootTarget r = true := by
    intro n
    unfold Spec.srvSteps
    split
    · rename_i rs hf
      exact hfound _ n rs hf
    · split
      · left; simp
      · left; simp
      · split
        · rename_i rs hf
          exact hfound _ n rs hf
        · left; simp
  have hdir : ∀ hdr k ts', Spec.direct hdr k = some ts' → ts' ≠ [] := by
    intro hdr k ts' hk
    cases k with
    | literal ip p => cases p <;> simp [Spec.direct] at hk <;> (subst hk; simp)
    | named hn p => cases p <;> simp [Spec.direct] at hk; subst hk; simp
  unfold Spec.resolve at h
  cases hk : Spec.classify name with
  | none => simp [hk] at h
  | some k =>
    simp only [hk] at h
    cases hd : Spec.direct name k with
    | some ts' => simp only [hd, Except.ok.injEq] at h; subst h; exact Or.inl (hdir _ _ _ hd)
    | none =>
      simp only [hd] at h
      cases hw : o.wk name with
      | none => simp only [hw, Except.ok.injEq] at h; subst h; exact hsrv name
      | some d =>
        simp only [hw] at h
        cases hkd : Spec.classify d with
        | none => simp [hkd] at h
        | some kd =>
          simp only [hkd] at h
          cases hdd : Spec.direct d kd with
          | some ts' => simp only [hdd, Except.ok.injEq] at h; subst h; exact Or.inl (hdir _ _ _ hdd)
          | none => simp only [hdd, Except.ok.injEq] at h; subst h; exact hsrv d

/-- RoundTrip connects only to targets ResolveServer returned (or that the resolution cache held), each
    with the Host header and TLS server name of that target; with an empty cache every attempt is a target of
    the resolution of the requested name. -/
theorem roundtrip_uses_only_targets (o : Oracles) (name : Cidr.Str) (reach : Network) (tr : Trip)
    (h : roundTrip o name reach none = .ok tr) :
    ∃ ts, resolve o name = .ok ts ∧ ∀ a ∈ tr.attempts, a.1 ∈ ts := by
  have htry : ∀ (l : List Target) (hist : List (Target × Reach)) a, a ∈ (tryTargets reach hist l).1 → a.1 ∈ l := by
    intro l
    induction l with
    | nil => intro hist a ha; simp [tryTargets] at ha
    | cons t ts ih =>
      intro hist a ha
      unfold tryTargets at ha
      split at ha
      · simp at ha; subst ha; simp
      · simp only [List.mem_cons] at ha
        rcases ha with rfl | ha
        · simp
        · exact List.mem_cons_of_mem _ (ih _ a ha)
  unfold roundTrip at h
  cases hres : resolve o name with
  | error e => simp [hres] at h
  | ok ts =>
    refine ⟨ts, rfl, ?_⟩
    simp only [hres] at h
    split at h
    · cases h
    · split at h
      · simp only [Except.ok.injEq] at h; subst h
        intro a ha; exact htry ts _ a ha
      · simp only [Except.ok.injEq] at h; subst h
        intro a ha
        simp only [List.mem_append] at ha
        rcases ha with ha | ha <;> exact htry ts _ a ha

/-- `roundtrip_attempts_are_spec_results`: against ANY network — including one whose answers depend on what was
    attempted before, e.g. a server that fails once — every connection attempt RoundTrip makes for a name with
    an empty resolution cache, in the first pass and in the retry pass, goes to a target the SPECIFICATION's
    resolution of the ORIGINAL server name yields, with the Host header and TLS server name the specification
    assigns to that target (a `Target` carries all three).  This is the clause `resolve.roundtrip_props`
    evaluates on the implementation's trace. -/
theorem roundtrip_attempts_are_spec_results (o : Oracles) (hs : Spec.SrvSane o.srv) (name : Cidr.Str) (reach : Network) (tr : Trip)
    (h : roundTrip o name reach none = .ok tr) :
    ∃ ts, Spec.resolve o name = .ok ts ∧ ∀ a ∈ tr.attempts, a.1 ∈ ts := by
  obtain ⟨ts, hr, hall⟩ := roundtrip_uses_only_targets o name reach tr h
  exact ⟨ts, by rw [← resolve_eq_spec o name hs]; exact hr, hall⟩

/-- a non-trivial instance: one SRV target that drops the first connection and answers the second — the retry
    pass goes to the same target, with the Host header and TLS server name of the original name -/
example :
    (roundTrip { wk := fun _ => none, srv := fun svc _ => if svc = "matrix-fed".toList then .records [("t1.test.".toList, 4)] else .notFound }
      "hs.test".toList (fun hist _ => if hist.isEmpty then .dropped else .ok) none).map (fun tr => (tr.attempts, tr.ok))
    = .ok ([(⟨"t1.test:4".toList, "hs.test".toList, "hs.test".toList⟩, .dropped),
            (⟨"t1.test:4".toList, "hs.test".toList, "hs.test".toList⟩, .ok)], true) := by
  rfl

end Resolution

/-! ### Well-known replies -/
section WellKnownSection
open WellKnown

/-- A well-known reply is honoured exactly when it has status 200, its declared length (if a number)
    and its actual length are at most 50 KiB, and its body decodes to a non-empty m.server; the result
    then carries that name and the specification's cache lifetime. -/
theorem wellknown_honoured_iff (r : Reply) (now : Int) (et : Option Int) (decode : Bytes → Decoded) (res : Result) :
    lookup r now et decode = .ok res ↔
      r.status = 200 ∧ declaredOK r ∧ r.body.length ≤ 51200 ∧
      decode r.body = .ok res.newAddress ∧ res.newAddress ≠ [] ∧ res.cacheExpiresAt = Spec.lifetime r now et := by
  rw [lookup_ok_iff, expiryOf_eq]; rfl

/-- the "only if" the property states -/
theorem wellknown_honoured_only_if (r : Reply) (now : Int) (et : Option Int) (decode : Bytes → Decoded) (res : Result)
    (h : lookup r now et decode = .ok res) :
    r.status = 200 ∧ r.body.length ≤ 50 * 1024 ∧ ∃ a, a ≠ [] ∧ decode r.body = .ok a := by
  obtain ⟨h1, _, h3, h4, h5, _⟩ := (wellknown_honoured_iff r now et decode res).mp h
  exact ⟨h1, h3, res.newAddress, h5, h4⟩

/-- The cache lifetime is taken from max-age in preference to Expires: whenever Cache-Control — ANY of its
    header lines — carries a well-formed max-age the Expires header is irrelevant; otherwise the parsed
    Expires time (else 0) is used. -/
theorem cache_lifetime_prefers_max_age (r : Reply) (now : Int) (et : Option Int) (decode : Bytes → Decoded) (res : Result)
    (h : lookup r now et decode = .ok res) :
    (∀ age, Spec.maxAgeLines r.cacheControl = some age → res.cacheExpiresAt = wrap64 (age + now)) ∧
    (Spec.maxAgeLines r.cacheControl = none → res.cacheExpiresAt = if r.expires.isEmpty then 0 else et.getD 0) := by
  obtain ⟨_, _, _, _, _, h6⟩ := (wellknown_honoured_iff r now et decode res).mp h
  rw [h6]
  unfold Spec.lifetime
  constructor
  · intro age ha; simp [ha]
  · intro hn; simp [hn]

/-- non-vacuity: a reply with both headers; max-age wins -/
example :
    (lookup ⟨200, [], ["public, max-age=3600".toList], "Wed, 21 Oct 2045 07:28:00 GMT".toList, [0x7B, 0x7D]⟩ 1000 (some 2392183680)
      (fun _ => .ok [0x61])).toOption = some ⟨[0x61], 4600⟩ := by decide

/-- the old failing input of finding R7, now behaving: `Cache-Control: no-cache` and, on a SECOND header line,
    `Cache-Control: max-age=100`, plus an Expires header — the lifetime is now + 100, not the Expires time -/
example :
    (lookup ⟨200, [], ["no-cache".toList, "max-age=100".toList], "Wed, 21 Oct 2045 07:28:00 GMT".toList, [0x7B, 0x7D]⟩ 1000 (some 2392183680)
      (fun _ => .ok [0x61])).toOption = some ⟨[0x61], 1100⟩ := by decide

/-- "names an m.server": with encoding/json's syntax as `parse`, a reply is honoured only if its body is an
    OBJECT with a member whose key is EXACTLY `m.server` — the last such member being a non-empty string, the
    name delegated to.  Members whose keys merely fold to `m.server` play no part (`decodeDoc_exact_key`). -/
theorem wellknown_names_mserver (r : Reply) (now : Int) (et : Option Int) (parse : Bytes → Option Json.PVal) (res : Result)
    (h : lookup r now et (decodeBody parse) = .ok res) :
    ∃ kvs raw, parse r.body = some (.obj kvs) ∧ (mServerMembers kvs).getLast? = some (.str raw res.newAddress) ∧
      res.newAddress ≠ [] := by
  obtain ⟨_, _, _, h4, h5, _⟩ := (wellknown_honoured_iff r now et _ res).mp h
  unfold decodeBody at h4
  cases hp : parse r.body with
  | none => rw [hp] at h4; cases h4
  | some p =>
    rw [hp] at h4
    simp only at h4
    cases p with
    | obj kvs =>
      simp only [decodeDoc] at h4
      cases hl : (mServerMembers kvs).getLast? with
      | none => rw [hl] at h4; simp only [decodeLast, Decoded.ok.injEq] at h4; exact absurd h4.symm h5
      | some v =>
        rw [hl] at h4
        cases v with
        | str raw dec => simp only [decodeLast, Decoded.ok.injEq] at h4; subst h4; exact ⟨kvs, raw, rfl, hl, h5⟩
        | null => simp only [decodeLast, Decoded.ok.injEq] at h4; exact absurd h4.symm h5
        | bool b => simp [decodeLast] at h4
        | num n => simp [decodeLast] at h4
        | arr xs => simp [decodeLast] at h4
        | obj o => simp [decodeLast] at h4
    | null => simp only [decodeDoc, Decoded.ok.injEq] at h4; exact absurd h4.symm h5
    | bool b => simp [decodeDoc] at h4
    | num n => simp [decodeDoc] at h4
    | str a b => simp [decodeDoc] at h4
    | arr xs => simp [decodeDoc] at h4

/-- only the members named exactly `m.server` matter: dropping every other member — `M.SERVER`, `m.ſerver`
    included — changes nothing -/
theorem decodeDoc_exact_key (kvs : List (Bytes × Bytes × Json.PVal)) :
    decodeDoc (.obj kvs) = decodeDoc (.obj (kvs.filter (fun kv => kv.2.1 == mServerKey))) := by
  simp only [decodeDoc, mServerMembers, List.filter_filter, Bool.and_self]

/-- for documents with at most one member named `m.server` (the property's quantifier) the decoder honours
    exactly what the specification's `namesServer` names -/
theorem decodeDoc_names (kvs : List (Bytes × Bytes × Json.PVal)) (hone : (mServerMembers kvs).length ≤ 1) (a : Bytes) :
    (decodeDoc (.obj kvs) = .ok a ∧ a ≠ []) ↔ Spec.namesServer (.obj kvs) = some a := by
  simp only [decodeDoc, Spec.namesServer]
  cases hm : mServerMembers kvs with
  | nil =>
    simp only [List.getLast?_nil, decodeLast, Decoded.ok.injEq]
    constructor
    · intro ⟨h1, h2⟩; exact absurd h1.symm h2
    · intro h; cases h
  | cons v rest =>
    cases rest with
    | cons v2 rest2 => rw [hm] at hone; simp at hone
    | nil =>
      simp only [List.getLast?_singleton]
      cases v with
      | str raw dec =>
        simp only [decodeLast, Decoded.ok.injEq]
        by_cases he : dec.isEmpty = true
        · have : dec = [] := by simpa using he
          subst this
          simp only [List.isEmpty_nil, if_true]
          constructor
          · intro ⟨h1, h2⟩; exact absurd h1.symm h2
          · intro h; cases h
        · have hne : dec ≠ [] := by intro h; rw [h] at he; simp at he
          simp only [he, Bool.false_eq_true, if_false, Option.some.injEq]
          constructor
          · intro ⟨h1, _⟩; exact h1
          · intro h1; subst h1; exact ⟨rfl, hne⟩
      | null =>
        simp only [decodeLast, Decoded.ok.injEq]
        constructor
        · intro ⟨h1, h2⟩; exact absurd h1.symm h2
        · intro h; cases h
      | bool b => simp [decodeLast]
      | num n => simp [decodeLast]
      | arr xs => simp [decodeLast]
      | obj o => simp [decodeLast]

/-- the old failing inputs of finding R6, now behaving: a case variant of the key delegates nothing, and cannot
    override the real one (keys and values as byte lists: `M.SERVER` / `m.server`, `evil` / `good`) -/
example :
    decodeDoc (.obj [([], [0x4D, 0x2E, 0x53, 0x45, 0x52, 0x56, 0x45, 0x52], .str [] [0x65, 0x76, 0x69, 0x6C])]) = .ok [] ∧
    decodeDoc (.obj [([], [0x6D, 0x2E, 0x73, 0x65, 0x72, 0x76, 0x65, 0x72], .str [] [0x67, 0x6F, 0x6F, 0x64]),
                     ([], [0x4D, 0x2E, 0x53, 0x45, 0x52, 0x56, 0x45, 0x52], .str [] [0x65, 0x76, 0x69, 0x6C])]) = .ok [0x67, 0x6F, 0x6F, 0x64] := by
  decide

end WellKnownSection

/-! ### Network policy -/
section Policy
open Cidr

/-- IPNet.Contains (as net.ParseCIDR builds the network) is prefix membership: same address family —
    IPv4-mapped IPv6 forms counted as IPv4 — and the same leading `ones` bits. -/
theorem contains_iff_prefix (c : CIDR) (ip16 : Nat) (hc : c.WF) (hip : ip16 < 2 ^ 128) :
    contains (ipNetOf c) ip16 = true ↔ Spec.mem (normalise ip16) (Spec.rangeOf c) :=
  contains_iff_mem c ip16 hc hip

/-- isAllowed: in no denied range and in at least one allowed range (over the parsable entries; an
    unparsable entry names no range and hides no later entry). -/
theorem isAllowed_iff_permitted (ip16 : Nat) (allow deny : List (Option CIDR))
    (ha : ∀ c ∈ Spec.parsable allow, c.WF) (hd : ∀ c ∈ Spec.parsable deny, c.WF) (hip : ip16 < 2 ^ 128) :
    isAllowed ip16 allow deny = true ↔ Spec.permitted (normalise ip16) allow deny := by
  unfold isAllowed Spec.permitted
  have h1 := inRange_iff ip16 deny hd hip
  have h2 := inRange_iff ip16 allow ha hip
  by_cases hden : inRange ip16 deny = true
  · obtain ⟨c, hc, hm⟩ := h1.mp hden
    simp only [hden, ↓reduceIte, Bool.false_eq_true, false_iff, not_and]
    intro hall; exact absurd hm (hall c hc)
  · have hden' : inRange ip16 deny = false := by simpa using hden
    have hno : ∀ d ∈ Spec.parsable deny, ¬ Spec.mem (normalise ip16) (Spec.rangeOf d) := by
      intro d hdm hmem; exact hden (h1.mpr ⟨d, hdm, hmem⟩)
    simp only [hden', Bool.false_eq_true, ↓reduceIte]
    by_cases hal : inRange ip16 allow = true
    · simp only [hal, ↓reduceIte, true_iff]; exact ⟨hno, h2.mp hal⟩
    · have hal' : inRange ip16 allow = false := by simpa using hal
      simp only [hal', Bool.false_eq_true, ↓reduceIte, false_iff, not_and]
      intro _ hex; exact hal (h2.mpr hex)

/-- The dialer control function permits a connection iff the network is tcp4 or tcp6, the address is
    an IP literal with a port, and the IP is permitted — for configured lists given as texts
    (parsed by net.ParseCIDR), by whatever name the address was reached. -/
theorem control_permits_iff (allow deny : List Str) (network : Str) (split : Option Str) :
    Cidr.control (allow.map parseCIDR) (deny.map parseCIDR) network split = .ok ↔
      (network = "tcp4".toList ∨ network = "tcp6".toList) ∧
      ∃ host ip16, split = some host ∧ parseIP host = some ip16 ∧
        Spec.permitted (normalise ip16) (allow.map parseCIDR) (deny.map parseCIDR) := by
  have hwf : ∀ (l : List Str), ∀ c ∈ Spec.parsable (l.map parseCIDR), c.WF := by
    intro l c hc
    simp only [Spec.parsable, List.mem_filterMap, List.mem_map, id] at hc
    obtain ⟨oc, ⟨s, _, hs⟩, hoc⟩ := hc
    subst hoc
    exact parseCIDR_wf s c hs
  unfold Cidr.control
  by_cases hn : network = "tcp4".toList ∨ network = "tcp6".toList
  · have hn' : (network != "tcp4".toList && network != "tcp6".toList) = false := by
      rcases hn with h | h <;> simp [h]
    simp only [hn', Bool.false_eq_true, ↓reduceIte, hn, true_and]
    cases split with
    | none =>
      simp only []
      constructor
      · intro h; cases h
      · intro ⟨_, _, he, _⟩; cases he
    | some host =>
      simp only []
      cases hp : parseIP host with
      | none =>
        simp only []
        constructor
        · intro h; cases h
        · intro ⟨h2, i2, he, hp2, _⟩
          simp only [Option.some.injEq] at he
          subst he
          rw [hp] at hp2; cases hp2
      | some ip16 =>
        have hip := parseIP_lt host ip16 hp
        have hiff := isAllowed_iff_permitted ip16 (allow.map parseCIDR) (deny.map parseCIDR) (hwf allow) (hwf deny) hip
        simp only []
        by_cases hal : isAllowed ip16 (allow.map parseCIDR) (deny.map parseCIDR) = true
        · simp only [hal, Bool.not_true, Bool.false_eq_true, ↓reduceIte, true_iff]
          exact ⟨host, ip16, rfl, hp, hiff.mp hal⟩
        · have hal' : isAllowed ip16 (allow.map parseCIDR) (deny.map parseCIDR) = false := by simpa using hal
          simp only [hal', Bool.not_false, ↓reduceIte]
          constructor
          · intro h; cases h
          · intro ⟨h2, i2, he, hp2, hperm⟩
            simp only [Option.some.injEq] at he
            subst he
            rw [hp] at hp2
            simp only [Option.some.injEq] at hp2
            subst hp2
            exact absurd (hiff.mpr hperm) hal
  · have hn' : (network != "tcp4".toList && network != "tcp6".toList) = true := by
      simp only [Bool.and_eq_true, bne_iff_ne]
      exact not_or.mp hn
    simp only [hn', ↓reduceIte]
    constructor
    · intro h; cases h
    · intro ⟨h, _⟩; exact absurd h hn

/-- non-vacuity / worked instances -/
example : Cidr.control (["0.0.0.0/0".toList].map parseCIDR) (["10.0.0.0/8".toList, "garbage".toList, "192.168.0.0/16".toList].map parseCIDR)
    "tcp4".toList (some "192.168.1.1".toList) = .denied := by decide
example : Cidr.control (["0.0.0.0/0".toList].map parseCIDR) (["10.0.0.0/8".toList, "garbage".toList, "192.168.0.0/16".toList].map parseCIDR)
    "tcp4".toList (some "8.8.8.8".toList) = .ok := by decide
/-- the IPv4-mapped spelling of a denied IPv4 address is denied as well -/
example : Cidr.control (["0.0.0.0/0".toList, "::/0".toList].map parseCIDR) (["10.0.0.0/8".toList].map parseCIDR)
    "tcp6".toList (some "::ffff:10.1.2.3".toList) = .denied := by decide

/-! #### Where a client with allow / deny lists connects (findings R4, R5) -/

open Resolve in
/-- the first address that passes the control function and is listened on passes the control function -/
theorem dialVia_permits (ctl : Str → Bool) (n : Resolve.Policy.Net) (host port ip : Str)
    (h : Resolve.Policy.dialVia ctl n host port = some ip) : ctl ip = true := by
  unfold Resolve.Policy.dialVia at h
  have := List.mem_of_mem_head? h
  have := (List.mem_filter.mp this).2
  simp only [Bool.and_eq_true] at this
  exact this.1

open Resolve Resolve.Policy in
theorem fedDial_permitted (c : Config) (n : Net) (host port ip : Str) (h : fedDial c n host port = some ip) :
    permittedBy c ip = true := by
  unfold fedDial at h
  unfold permittedBy
  by_cases hc : c.cache = true
  · simp only [hc, if_true] at h
    have := dialVia_permits _ n host port ip h
    simp only [Bool.and_eq_true] at this
    simp [hc, this.1, this.2]
  · have hc' : c.cache = false := by simpa using hc
    simp only [hc', Bool.false_eq_true, if_false] at h
    have := dialVia_permits _ n host port ip h
    simp [hc', this]

open Resolve Resolve.Policy in
theorem wkDial_permitted (c : Config) (n : Net) (host port ip : Str) (h : wkDial c n host port = some ip) :
    permittedBy c ip = true := by
  unfold wkDial at h
  by_cases hr : restricted c = true
  · simp only [hr, if_true] at h
    exact fedDial_permitted c n host port ip h
  · -- no lists and no cache: everything is permitted
    have hr' : restricted c = false := by simpa using hr
    unfold restricted at hr'
    simp only [Bool.or_eq_false_iff, Bool.not_eq_false'] at hr'
    unfold permittedBy clientControl
    simp [hr'.1, hr'.2]

open Resolve Resolve.Policy in
theorem wkFetch_permitted (c : Config) (n : Net) (fuel : Nat) (host : Str) :
    ∀ a ∈ (wkFetch c n fuel host).1, permittedBy c a.1 = true := by
  induction fuel generalizing host with
  | zero => intro a ha; simp [wkFetch] at ha
  | succ k ih =>
    intro a ha
    unfold wkFetch at ha
    cases hd : wkDial c n host "443".toList with
    | none => rw [hd] at ha; simp at ha
    | some ip =>
      rw [hd] at ha
      have hip := wkDial_permitted c n host _ ip hd
      cases hdoc : n.wkDoc (host.map Char.toLower) with
      | none => rw [hdoc] at ha; simp at ha; rw [ha]; exact hip
      | server d => rw [hdoc] at ha; simp at ha; rw [ha]; exact hip
      | redirect h2 =>
        rw [hdoc] at ha
        simp only [List.mem_cons] at ha
        rcases ha with rfl | ha
        · exact hip
        · exact ih h2 a ha

open Resolve Resolve.Policy in
theorem tryDial_permitted (c : Config) (n : Net) (ts : List Target) :
    ∀ a ∈ (tryDial c n ts).1, permittedBy c a.1 = true := by
  induction ts with
  | nil => intro a ha; simp [tryDial] at ha
  | cons t rest ih =>
    intro a ha
    unfold tryDial at ha
    cases hd : fedDial c n (splitDest t.dest).1 (splitDest t.dest).2 with
    | some ip =>
      simp only [hd] at ha
      have : a = (ip, (splitDest t.dest).2) := by simpa using ha
      rw [this]
      exact fedDial_permitted c n _ _ ip hd
    | none =>
      simp only [hd] at ha
      exact ih a ha

open Resolve Resolve.Policy in
/-- `policy_connections_permitted` (C16, last sentence): whatever the server name, the DNS answers, the
    well-known documents and redirects, the listeners — EVERY connection a client makes for a request
    (federation targets, through the DNS cache or not, the well-known fetch and the redirects it follows)
    goes to an address the client's dialer control (its allow / deny lists, when it has any) lets through
    and, when the client has a DNS cache, the cache's lists let through as well. -/
theorem policy_connections_permitted (c : Config) (n : Net) (name : Str) :
    ∀ a ∈ (request c n name).arrivals, permittedBy c a.1 = true := by
  intro a ha
  unfold request at ha
  by_cases hw : c.wellKnown = true
  · simp only [hw, if_true] at ha
    have hwk : ∀ x ∈ (match resolveDirect name with
        | .ok none => (wkFetch c n 11 name).1
        | _ => []), permittedBy c x.1 = true := by
      intro x hx
      split at hx
      · exact wkFetch_permitted c n 11 name x hx
      · cases hx
    split at ha
    · exact hwk a ha
    · rename_i ts hres
      simp only [List.mem_append] at ha
      rcases ha with ha | ha
      · exact hwk a ha
      · exact tryDial_permitted c n ts a ha
  · have hw' : c.wellKnown = false := by simpa using hw
    simp only [hw', Bool.false_eq_true, if_false] at ha
    exact tryDial_permitted c n _ a ha

open Resolve Resolve.Policy in
/-- the lists' verdict is the specification's: in no denied range and in at least one allowed range -/
theorem listsPermit_iff_permitted (allow deny : List Str) (ip : Str) (a : Nat) (hp : Cidr.parseIP ip = some a) (hip : a < 2 ^ 128)
    (ha : ∀ c ∈ Spec.parsable (allow.map parseCIDR), c.WF) (hd : ∀ c ∈ Spec.parsable (deny.map parseCIDR), c.WF) :
    listsPermit allow deny ip = true ↔ Spec.permitted (normalise a) (allow.map parseCIDR) (deny.map parseCIDR) := by
  unfold listsPermit
  rw [hp]
  exact isAllowed_iff_permitted a _ _ ha hd hip

open Resolve Resolve.Policy in
/-- the old failing inputs of findings R4 and R5, now behaving (deny 127.0.0.0/8; h1 is 127.16.1.1, listened on at
    ports 443 and 5): the well-known fetch makes no connection; a DNS cache with open lists makes none either -/
example :
    let n : Net := { addrs := fun h => if h = "h1.example.com".toList then ["127.16.1.1".toList] else [],
                     listening := fun ip p => ip = "127.16.1.1".toList && (p = "443".toList || p = "5".toList),
                     wkDoc := fun _ => .none }
    let all := ["0.0.0.0/0".toList, "::/0".toList]
    let deny := ["127.0.0.0/8".toList]
    (request ⟨true, false, all, deny, all, deny⟩ n "h1.example.com".toList).arrivals = [] ∧
    (request ⟨false, true, all, deny, all, []⟩ n "h1.example.com:5".toList).arrivals = [] ∧
    -- control: without the deny entry the connections are made
    (request ⟨true, false, all, [], all, []⟩ n "h1.example.com".toList).arrivals = [("127.16.1.1".toList, "443".toList)] ∧
    (request ⟨false, true, all, [], all, []⟩ n "h1.example.com:5".toList).arrivals = [("127.16.1.1".toList, "5".toList)] := by
  decide

end Policy

end V.C16
