/-
  C10 — State resolution returns the state the room version's algorithm defines.
  (first instalment: algorithm selection per room version, regenerated from eventversion.go;
   the stage-wise refinement theorems are in progress, see DESIGN.md §5 C10)
-/
import VModel.StateRes
namespace V.C10
open V V.StateRes

/-- Which algorithm each registered room version selects: v1 for "1"; v2 for 2–11 and the unstable versions based
    on them; v2.1 for "12" and org.matrix.hydra.11.  Breaks when someone edits the table. -/
theorem stateres_column_eq_spec :
    VGen.roomVersions.map (fun r => (r.key, r.stateResAlgorithm)) =
      [("1", 1), ("10", 2), ("11", 2), ("12", 3), ("2", 2), ("3", 2), ("4", 2), ("5", 2), ("6", 2), ("7", 2), ("8", 2), ("9", 2),
       ("org.matrix.hydra.11", 3), ("org.matrix.msc3667", 2), ("org.matrix.msc3787", 2), ("org.matrix.msc4014", 2)] := by
  decide

/-- `ResolveConflictsNew` runs exactly the algorithm the table names (and nothing for an unknown version). -/
theorem entrypoint_selects (sha : ID → Bytes) (ver : Bytes) (sets : List (List Event)) (auth : List Event) (rej : List ID)
    (row : VGen.VersionRow) (h : versionRow? ver = some row) :
    resolveConflictsNew sha ver sets auth rej =
      if row.stateResAlgorithm == 1 then
        some ((resolveV1 sha (splitConflictedUnconflicted true sets).1 auth ++ (splitConflictedUnconflicted true sets).2).map (·.eventID))
      else if row.stateResAlgorithm == 2 || row.stateResAlgorithm == 3 then
        some (resolveV2New row.stateResAlgorithm sets auth rej).result
      else none := by
  unfold resolveConflictsNew
  simp only [h]

end V.C10
