/-
  C10 property theorems.
-/
import VModel.StateRes
namespace V.C10
end V.C10
