/-
  C10 — State resolution returns the state the room version's algorithm defines.

  The DEFINITION is `VModel/StateResSpec.lean` (declarative, stage by stage, with the library's refinements R1–R9 of
  DESIGN.md §6.2); the theorems below say that the executable model `VModel/StateRes.lean` (tied to the Go code by the
  correspondence check) computes it: stage-wise refinement theorems, their composition for algorithms 2 (v2) and
  3 (v2.1), version 1, and the entry-point dispatch on the regenerated room-version table.

  Hypotheses used throughout (`V.StateResSpec.WF`, `Ranked`): event IDs identify events within the input, every state
  set is a state map (no event twice, one event per key), and the auth graph of the supplied events is acyclic
  (some rank on IDs decreases along auth_events).  `V.StateResSpec.Example` is a concrete non-trivial instance.
-/
import VModel.StateRes
import VProofs.StateResSpecUnique
import VProofs.StateResSpecExample
import VProofs.StateResSpecV1c
import VProofs.StateResSpecExecResolve
import VProofs.StateResSpecExecV1
namespace V.C10
open V V.StateRes V.StateResSpec

/-! ## 8. Entry point: the algorithm is selected by the regenerated table -/

/-- Which algorithm each registered room version selects: v1 for "1"; v2 for 2–11 and the unstable versions based
    on them; v2.1 for "12" and org.matrix.hydra.11.  Breaks when someone edits the table. -/
theorem stateres_column_eq_spec :
    VGen.roomVersions.map (fun r => (r.key, r.stateResAlgorithm)) =
      [("1", 1), ("10", 2), ("11", 2), ("12", 3), ("2", 2), ("3", 2), ("4", 2), ("5", 2), ("6", 2), ("7", 2), ("8", 2), ("9", 2),
       ("org.matrix.hydra.11", 3), ("org.matrix.msc3667", 2), ("org.matrix.msc3787", 2), ("org.matrix.msc4014", 2)] := by
  decide

/-- `ResolveConflictsNew` runs exactly the algorithm the table names (and nothing for an unknown version). -/
theorem entrypoint_selects (sha : ID → Bytes) (ver : Bytes) (sets : List (List Event)) (auth : List Event) (rej : List ID)
    (row : VGen.VersionRow) (h : versionRow? ver = some row) :
    resolveConflictsNew sha ver sets auth rej =
      if row.stateResAlgorithm == 1 then
        some ((resolveV1 sha (splitConflictedUnconflicted true sets).1 auth ++ (splitConflictedUnconflicted true sets).2).map (·.eventID))
      else if row.stateResAlgorithm == 2 || row.stateResAlgorithm == 3 then
        some (resolveV2New row.stateResAlgorithm sets auth rej).result
      else none := by
  unfold resolveConflictsNew
  simp only [h]

/-! ## 1. Closures = reachability (no acyclicity needed: the fuel bound is a pigeonhole) -/

/-- With the fuel the model uses (any fuel ≥ |map| + 1) the auth closure of `start` is the set of IDs of the events
    reachable from `start` by ≥ 1 auth step inside the auth map (`IdNodup m`: IDs identify events within the map,
    which `eventMapFromEvents` guarantees: `eventMap_idNodup`). -/
theorem authClosure_iff_reachable {m : List Event} (hm : IdNodup m) (start : List Event) {fuel : Nat}
    (hfuel : m.length + 1 ≤ fuel) (id : ID) :
    id ∈ authClosure m fuel start [] ↔ ∃ s ∈ start, ∃ y, y.eventID = id ∧ ReachPlus (· ∈ m) s y :=
  V.StateResSpec.authClosure_iff_reachable hm start hfuel id

example (auth : List Event) : IdNodup (eventMapFromEvents auth) := eventMap_idNodup auth

/-- R3: the control closure started from the roots (whose IDs are recorded) adds what is reachable from them through
    events of the conflicted map. -/
theorem controlClosure_iff {cm : List Event} (hm : IdNodup cm) (roots : List Event) (rootIDs : List ID) {fuel : Nat}
    (hfuel : cm.length + 1 ≤ fuel) (h0 : ∀ x ∈ cm, x.eventID ∈ rootIDs → x ∈ roots) (id : ID) :
    id ∈ controlClosure cm fuel roots rootIDs ↔
      id ∈ rootIDs ∨ ∃ r ∈ roots, ∃ y, y.eventID = id ∧ ReachPlus (· ∈ cm) r y :=
  V.StateResSpec.controlClosure_iff hm roots rootIDs hfuel h0 id

example : ∀ x ∈ eventMapFromEvents Example.exAuth, x.eventID ∈ [Example.eP].map (·.eventID) → x ∈ [Example.eP] := by
  intro x hx hid
  have hx' : x ∈ Example.exSets.flatten ++ Example.exAuth := List.mem_append_right _ (mem_eventMap hx)
  simp only [List.map_cons, List.map_nil, List.mem_singleton] at hid
  have := Example.id_inj (Example.mem_all hx') (Or.inr (Or.inr (Or.inl rfl))) hid
  simp [this]

/-! ## 2. Conflicted / unconflicted -/

/-- v2 / v2.1: an event is unconflicted iff EVERY state set maps its key to it and to nothing else; every other state
    event of the state sets is conflicted. -/
theorem split_eq_spec (sets : List (List Event)) (hids : IDsIdentify (· ∈ sets.flatten)) (hnd : ∀ S ∈ sets, S.Nodup) :
    (∀ e, e ∈ (splitConflictedUnconflicted false sets).1 ↔ Conflicted sets e) ∧
    (∀ e, e ∈ (splitConflictedUnconflicted false sets).2 ↔ Unconflicted sets e) :=
  V.StateResSpec.split_eq_spec sets hids hnd

example : IDsIdentify (· ∈ Example.exSets.flatten) ∧ ∀ S ∈ Example.exSets, S.Nodup :=
  ⟨fun a b ha hb => Example.exWF.ids a b (List.mem_append_left _ ha) (List.mem_append_left _ hb),
   fun S hS => (Example.exWF.maps S hS).1⟩

/-- R2 (version 1): a key with a single candidate event overall is unconflicted. -/
theorem split_v1_eq_spec (sets : List (List Event)) (hids : IDsIdentify (· ∈ sets.flatten)) :
    (∀ e, e ∈ (splitConflictedUnconflicted true sets).1 ↔ ConflictedV1 sets e) ∧
    (∀ e, e ∈ (splitConflictedUnconflicted true sets).2 ↔ UnconflictedV1 sets e) :=
  V.StateResSpec.split_v1_eq_spec sets hids

/-! ## 3. Auth difference, conflicted subgraph -/

/-- algorithm 2: the events added to the conflicted set are ⋃ chains \ ⋂ chains of the full auth chains of the state sets -/
theorem authDifference_eq_spec {m : List Event} (hm : IdNodup m) (conflicted : List Event) (sets : List (List Event))
    (y : Event) : y ∈ authDifferenceNew 2 m conflicted sets ↔ AuthDifference (· ∈ m) sets y :=
  V.StateResSpec.authDifference_eq_spec hm conflicted sets y

/-- v2.1: the IDs of the conflicted subgraph: events on an auth path from a conflicted event of a state set to a
    conflicted event (`U`: a universe of events identified by their IDs that contains the inputs). -/
theorem subgraph_eq_spec {U : Event → Prop} (hU : IDsIdentify U) {m : List Event} (hm : IdNodup m)
    (hmU : ∀ x ∈ m, U x) {sets : List (List Event)} (hSU : ∀ S ∈ sets, ∀ x ∈ S, U x) (conflicted : List Event) (id : ID) :
    id ∈ subIDs 3 m conflicted sets ↔
      ∃ x, x.eventID = id ∧ ConflictedSubgraph (· ∈ m) (· ∈ conflicted) sets x :=
  V.StateResSpec.subgraph_eq_spec hU hm hmU hSU conflicted id

/-- algorithm 3 (v2.1): auth difference ∪ conflicted subgraph -/
theorem authDifference21_eq_spec {U : Event → Prop} (hU : IDsIdentify U) {m : List Event} (hm : IdNodup m)
    (hmU : ∀ x ∈ m, U x) {sets : List (List Event)} (hSU : ∀ S ∈ sets, ∀ x ∈ S, U x) {conflicted : List Event}
    (hcU : ∀ x ∈ conflicted, U x) (y : Event) :
    y ∈ authDifferenceNew 3 m conflicted sets ↔
      AuthDifference (· ∈ m) sets y ∨ ConflictedSubgraph (· ∈ m) (· ∈ conflicted) sets y :=
  V.StateResSpec.authDifference21_eq_spec hU hm hmU hSU hcU y

/-- the universe hypotheses of stages 3 and 4 hold for the example input -/
example : IDsIdentify (fun e => e ∈ Example.exSets.flatten ++ Example.exAuth) ∧
    (∀ x ∈ eventMapFromEvents Example.exAuth, x ∈ Example.exSets.flatten ++ Example.exAuth) ∧
    (∀ S ∈ Example.exSets, ∀ x ∈ S, x ∈ Example.exSets.flatten ++ Example.exAuth) :=
  ⟨Example.exWF.ids, fun _ hx => List.mem_append_right _ (mem_eventMap hx),
   fun S hS _ hx => List.mem_append_left _ (List.mem_flatten.mpr ⟨S, hS, hx⟩)⟩

/-! ## 4. Control set (R3) and the rest -/

theorem controlSet_eq_spec {U : Event → Prop} {full confMap unconf : List Event} (hU : IDsIdentify U)
    (hfU : ∀ x ∈ full, U x) (hcU : ∀ x ∈ confMap, U x) (hcm : IdNodup confMap) (x : Event) :
    x ∈ controlEventsOf full confMap (unconf.map (·.eventID)) ↔
      ControlSet (· ∈ confMap) (· ∈ full) (· ∈ unconf) x :=
  V.StateResSpec.controlSet_eq_spec hU hfU hcU hcm x

theorem otherSet_eq_spec {U : Event → Prop} {full confMap unconf : List Event} (hU : IDsIdentify U)
    (hfU : ∀ x ∈ full, U x) (hcU : ∀ x ∈ confMap, U x) (hcm : IdNodup confMap) (x : Event) :
    x ∈ othersOf full confMap (unconf.map (·.eventID)) ↔
      OtherSet (· ∈ confMap) (· ∈ full) (· ∈ unconf) x :=
  V.StateResSpec.otherSet_eq_spec hU hfU hcU hcm x

/-! ## 5. Reverse topological power ordering -/

/-- `IsPowerOrder` determines its output (only the asymmetry of the comparison is needed) -/
theorem powerOrder_unique {α : Type} {lt child : α → α → Prop} (hasym : ∀ a b, lt a b → ¬ lt b a) {input out₁ out₂ : List α}
    (h1 : IsPowerOrder lt child input out₁) (h2 : IsPowerOrder lt child input out₂) : out₁ = out₂ :=
  IsPowerOrder.eq_of hasym h1 h2

/-- Kahn's algorithm as the library runs it (generic in the key, the strict total comparator and the parent
    relation) produces THE power order of its input: a duplicate-free enumeration of the distinct input in which
    every event comes after its parents and, read from the end, each event is the greatest free one (R8 aside: for
    acyclic input there are no strays). -/
theorem kahn_is_power_order {κ : Type} (lt : κ → κ → Bool) (parents : Event → List ID) (nodes0 : List (KNode κ))
    (hlt : StrictTotal lt)
    (hid : ∀ n ∈ nodes0, ∀ n' ∈ nodes0, n.ev.eventID = n'.ev.eventID → n = n')
    (hkey : ∀ n ∈ nodes0, ∀ n' ∈ nodes0, n.key = n'.key → n = n')
    (hacyc : ∃ rk : ID → Nat, ∀ n ∈ nodes0, ∀ p ∈ parents n.ev, (∃ n' ∈ nodes0, n'.ev.eventID = p) → rk p < rk n.ev.eventID) :
    IsPowerOrder (fun a b => lt a.key b.key = true) (fun a x => x.ev.eventID ∈ parents a.ev) nodes0
      (kahnNodes lt parents nodes0) ∧ kahn lt parents nodes0 = (kahnNodes lt parents nodes0).map (·.ev) :=
  ⟨kahnNodes_is_power_order lt parents nodes0 hlt hid hkey hacyc, kahn_eq_map lt parents nodes0⟩

/-- the comparator, identity and key hypotheses hold for the nodes `reverseTopoAuth` builds from the example's auth events -/
example : StrictTotal powerLt ∧
    (∀ n ∈ Example.exAuth.map (powerNode [] none), ∀ n' ∈ Example.exAuth.map (powerNode [] none),
      n.key = n'.key → n = n') := by
  refine ⟨powerLt_strictTotal, ?_⟩
  intro n hn n' hn' hk
  obtain ⟨a, ha, rfl⟩ := List.mem_map.mp hn
  obtain ⟨b, hb, rfl⟩ := List.mem_map.mp hn'
  have hid : a.eventID = b.eventID := congrArg PowerKey.id hk
  have : a = b := Example.id_inj (Example.mem_all (List.mem_append_right _ ha)) (Example.mem_all (List.mem_append_right _ hb)) hid
  rw [this]

/-- the ordering of power events: by sender power (R4) descending, timestamp, event ID -/
theorem reverseTopoAuth_is_power_order (m : List Event) (createEv : Option Event) (evs : List Event)
    (hid : ∀ a ∈ evs, ∀ b ∈ evs, a.eventID = b.eventID → a = b)
    (hacyc : ∃ rk : ID → Nat, ∀ e ∈ evs, ∀ p ∈ e.authEventIDs, (∃ e' ∈ evs, e'.eventID = p) → rk p < rk e.eventID) :
    IsReverseTopoPowerOrder m createEv evs (reverseTopoAuth m createEv evs) :=
  V.StateResSpec.reverseTopoAuth_is_power_order m createEv evs hid hacyc

example : ∃ rk : ID → Nat, ∀ e ∈ Example.exAuth, ∀ p ∈ e.authEventIDs, (∃ e' ∈ Example.exAuth, e'.eventID = p) →
    rk p < rk e.eventID :=
  ranked_kahn Example.exRanked Example.exAuth (fun _ h => List.mem_append_right _ h)

/-! ## 6. Mainline (R5) -/

theorem mainline_eq_spec {m : List Event} (hac : Acyclic (· ∈ m)) (pl : Option Event) :
    IsMainline m pl (createMainline m pl) := V.StateResSpec.mainline_eq_spec hac pl

theorem mainline_unique {m : List Event} {pl : Option Event} {l₁ l₂ : List Event} (h1 : IsMainline m pl l₁)
    (h2 : IsMainline m pl l₂) : l₁ = l₂ := IsMainline.unique h1 h2

/-- the normal case (at most one power-levels auth event each): the mainline is the chain of power-levels
    ancestors of the resolved power-levels event, oldest first -/
theorem mainline_normal_case {m : List Event} (hac : Acyclic (· ∈ m)) {e : Event} {c : List Event} (h : PLChain m e c) :
    createMainline m (some e) = c.reverse := createMainline_of_chain hac h

theorem mainlinePos_eq_spec (ml : List Event) (id : ID) : mainlinePos ml id = posOf ml id := mainlinePos_eq_posOf ml id

theorem posSteps_eq_spec {m ml : List Event} (hac : Acyclic (· ∈ m)) (e : Event) :
    MainlinePosSteps m ml e (firstMainline m ml (m.length + 2) [] e (0, 0)) := V.StateResSpec.posSteps_eq_spec hac e

theorem posSteps_normal_case {m ml : List Event} (hac : Acyclic (· ∈ m)) {e : Event} {r : Nat × Nat}
    (h : ChainWalk m ml e 0 r) : firstMainline m ml (m.length + 2) [] e (0, 0) = r := firstMainline_of_chainWalk hac h

/-- mainline ordering = sort by (position, steps, timestamp, ID) -/
theorem mainlineOrdering_eq_spec {m : List Event} (hac : Acyclic (· ∈ m)) (ml evs : List Event) :
    IsMainlineOrder m ml evs (mainlineOrdering m ml evs) := V.StateResSpec.mainlineOrdering_eq_spec hac ml evs

/-- a sort by a total order on distinct events is THE sorted permutation -/
theorem mainlineOrdering_unique {m : List Event} (hac : Acyclic (· ∈ m)) {ml evs out : List Event}
    (hid : ∀ a ∈ evs, ∀ b ∈ evs, a.eventID = b.eventID → a = b) (h : IsMainlineOrder m ml evs out) :
    out = mainlineOrdering m ml evs := V.StateResSpec.mainlineOrdering_unique hac hid h

example : Acyclic (· ∈ eventMapFromEvents Example.exAuth) :=
  ranked_acyclic Example.exRanked (fun _ hx => List.mem_append_right _ (mem_eventMap hx))

/-! ## 7. Iterative auth checks, composition -/

/-- iterative auth checks are a left fold (definitional) … -/
theorem iterativeAuth_eq_fold (m : List Event) (rejected : List ID) (s : State) (evs : List Event) :
    authAndApply m rejected s evs = evs.foldl (modelAuthStep m rejected) s := rfl

/-- … whose step is the defined one (R7: partial state per needed key, else the event's own non-rejected auth events) -/
theorem iterativeAuth_eq_spec (m : List Event) (rejected : List ID) (evs : List Event) {s : State} {f : SMap}
    (h : StateRel s f) (hk : KeysNodup s) :
    StateRel (authAndApply m rejected s evs) (iterAuth m rejected f evs) ∧ KeysNodup (authAndApply m rejected s evs) :=
  authAndApply_rel m rejected evs h hk

example : StateRel [] SMap.empty ∧ KeysNodup [] := ⟨stateRel_nil, keysNodup_nil⟩

/-- **Algorithm 2 (room versions 2–11).** The resolved state is one that `Resolves` per the definition, and the IDs the
    model returns are exactly its events. -/
theorem resolveV2_eq_spec (sets : List (List Event)) (auth : List Event) (rejected : List ID) (hwf : WF sets auth)
    (hr : Ranked (sets.flatten ++ auth)) :
    ∃ result : SMap, Resolves 2 sets (eventMapFromEvents auth) auth rejected result ∧
      ∀ id, id ∈ (resolveV2New 2 sets auth rejected).result ↔ ∃ k e, result k = some e ∧ e.eventID = id := by
  obtain ⟨result, h1, h2, h3⟩ := resolveV2State_resolves 2 (Or.inl rfl) sets auth rejected hwf hr
  refine ⟨result, h1, fun id => ?_⟩
  rw [resolveV2New_result]
  exact result_ids_iff h3 h2 id

/-- **Algorithm 3 = v2.1 (room version 12).** Same, with the conflicted subgraph added and the empty starting state. -/
theorem resolveV2_1_eq_spec (sets : List (List Event)) (auth : List Event) (rejected : List ID) (hwf : WF sets auth)
    (hr : Ranked (sets.flatten ++ auth)) :
    ∃ result : SMap, Resolves 3 sets (eventMapFromEvents auth) auth rejected result ∧
      ∀ id, id ∈ (resolveV2New 3 sets auth rejected).result ↔ ∃ k e, result k = some e ∧ e.eventID = id := by
  obtain ⟨result, h1, h2, h3⟩ := resolveV2State_resolves 3 (Or.inr rfl) sets auth rejected hwf hr
  refine ⟨result, h1, fun id => ?_⟩
  rw [resolveV2New_result]
  exact result_ids_iff h3 h2 id

example : WF Example.exSets Example.exAuth ∧ Ranked (Example.exSets.flatten ++ Example.exAuth) ∧
    Conflicted Example.exSets Example.eA :=
  ⟨Example.exWF, Example.exRanked, Example.exConflicted⟩

/-- The definition determines the resolved state (given at most one conflicted create event): the state above is THE
    state the algorithm defines. -/
theorem resolves_unique {algo : Nat} {sets : List (List Event)} {m auth : List Event} {rejected : List ID}
    (hU : IDsIdentify (fun e => e ∈ sets.flatten ++ m))
    (hc : ∀ a b, Conflicted sets a → Conflicted sets b → a.isCreate = true → b.isCreate = true → a = b)
    {r₁ r₂ : SMap} (h1 : Resolves algo sets m auth rejected r₁) (h2 : Resolves algo sets m auth rejected r₂) : r₁ = r₂ :=
  Resolves.unique hU hc h1 h2

example : IDsIdentify (fun e => e ∈ Example.exSets.flatten ++ eventMapFromEvents Example.exAuth) ∧
    (∀ a b, Conflicted Example.exSets a → Conflicted Example.exSets b → a.isCreate = true → b.isCreate = true → a = b) := by
  constructor
  · intro a b ha hb
    have key : ∀ x, x ∈ Example.exSets.flatten ++ eventMapFromEvents Example.exAuth →
        x ∈ Example.exSets.flatten ++ Example.exAuth := by
      intro x hx
      rcases List.mem_append.mp hx with h | h
      · exact List.mem_append_left _ h
      · exact List.mem_append_right _ (mem_eventMap h)
    exact Example.exWF.ids a b (key a ha) (key b hb)
  · intro a b ha hb hca hcb
    -- both are the (unconflicted) create event's key: but a conflicted event is not unconflicted; here simply:
    -- the only create event of the example is `eC`, so a = eC = b
    have inU : ∀ x, Conflicted Example.exSets x → x ∈ Example.exSets.flatten ++ Example.exAuth := by
      rintro x ⟨⟨S, hS, hx⟩, _⟩
      exact List.mem_append_left _ (List.mem_flatten.mpr ⟨S, hS, hx⟩)
    have only : ∀ x, x ∈ Example.exSets.flatten ++ Example.exAuth → x.isCreate = true → x = Example.eC := by
      intro x hx hc
      have hk := isCreate_key hc
      rcases Example.mem_all hx with rfl | rfl | rfl | rfl | rfl
      · rfl
      · rw [Example.key_M] at hk; exact absurd hk (by decide)
      · rw [Example.key_P] at hk; exact absurd hk (by decide)
      · rw [Example.key_A] at hk; exact absurd hk (by decide)
      · rw [Example.key_B] at hk; exact absurd hk (by decide)
    rw [only a (inU a ha) hca, only b (inU b hb) hcb]

/-! ## 7 (version 1, R1) -/

/-- candidates are tried by depth ascending then SHA-1 descending: the model's sort produces such an order, and the
    order is unique when no two candidates tie -/
theorem v1Order_eq_spec (sha : ID → Bytes) (block : List Event) : IsV1Order sha block (sortV1 sha block) :=
  sortV1_isV1Order sha block

theorem v1Order_unique {sha : ID → Bytes} {block o₁ o₂ : List Event}
    (hk : ∀ a ∈ block, ∀ b ∈ block, V.StateResSpec.v1Key sha a = V.StateResSpec.v1Key sha b → a = b) (h1 : IsV1Order sha block o₁)
    (h2 : IsV1Order sha block o₂) : o₁ = o₂ := IsV1Order.unique hk h1 h2

/-- **Version 1.** `ResolveStateConflicts` resolves the conflicted keys phase by phase as defined (R1): auth blocks in
    the order create, power_levels, join_rules, third_party_invite, member (winners registered only after their phase,
    each block leaving the registered events as it found them), then the rest; no hypotheses. -/
theorem resolveV1_eq_spec (sha : ID → Bytes) (conflicted auth : List Event) :
    V1Resolves sha conflicted auth (resolveV1 sha conflicted auth) :=
  V.StateResSpec.resolveV1_eq_spec sha conflicted auth

/-- … and the definition determines the result when no two conflicted events tie on (depth, SHA-1) -/
theorem resolveV1_unique {sha : ID → Bytes} {conflicted auth r : List Event}
    (hk : ∀ a ∈ conflicted, ∀ b ∈ conflicted, V.StateResSpec.v1Key sha a = V.StateResSpec.v1Key sha b → a = b) (h : V1Resolves sha conflicted auth r) :
    r = resolveV1 sha conflicted auth := V.StateResSpec.resolveV1_unique hk h

example : ∀ a ∈ [Example.eA, Example.eB], ∀ b ∈ [Example.eA, Example.eB],
    V.StateResSpec.v1Key (fun id => id) a = V.StateResSpec.v1Key (fun id => id) b → a = b := by
  intro a ha b hb h
  have hid : a.eventID = b.eventID := congrArg V1Key.sha1 h
  exact Example.id_inj (by simp at ha; rcases ha with rfl | rfl <;> simp)
    (by simp at hb; rcases hb with rfl | rfl <;> simp) hid

/-- Version 1 is independent of the order in which the conflicted keys are presented (which
    `splitConflictedUnconflicted` takes from a Go map iteration): every block leaves the registered auth events as it
    found them (`afterBlock`), so two runs of the DEFINITION on two presentations of the same conflicted events pick the
    same events.  (Before the fix of `resolveAuthBlock` — it used to clear the winner's slot until the end of the phase,
    dropping the supplied auth event in it — this was false, with a failing input reproduced on the Go code; that input
    is now `Example.v1_former_counterexample`.)  `P1`: one supplied auth event per slot; `hk`: no (depth, SHA-1) ties. -/
theorem v1_result_independent_of_block_order {sha : ID → Bytes} {l₁ l₂ auth r₁ r₂ : List Event} (hp : l₁.Perm l₂)
    (P1 : ∀ a ∈ auth, ∀ b ∈ auth, a.stateKey.isSome → V.StateRes.keyOf a = V.StateRes.keyOf b → b.stateKey.isSome → a = b)
    (hk : ∀ a ∈ l₁, ∀ b ∈ l₁, V.StateResSpec.v1Key sha a = V.StateResSpec.v1Key sha b → a = b)
    (h1 : V1Resolves sha l₁ auth r₁) (h2 : V1Resolves sha l₂ auth r₂) : r₁.Perm r₂ :=
  V1Resolves.perm_invariant hp P1 hk h1 h2

/-- the former failing input: both presentations now resolve to the same events -/
example : ((resolveV1 (fun id => id) [Example.vA1, Example.vA2, Example.vB1, Example.vB2] Example.vAuth).map (·.eventID),
     (resolveV1 (fun id => id) [Example.vB1, Example.vB2, Example.vA1, Example.vA2] Example.vAuth).map (·.eventID)) =
      ([b!"$A2:h", b!"$B2:h"], [b!"$B2:h", b!"$A2:h"]) := Example.v1_former_counterexample

/-! ## 8 (continued). The entry point returns the defined state -/

example : ∃ row, versionRow? b!"10" = some row ∧ row.stateResAlgorithm = 2 := by decide +kernel

/-- `ResolveConflictsNew` on a registered room version returns the state the version's algorithm defines:
    version 1 — the R2 split, `V1Resolves` for the conflicted keys, plus the unconflicted events;
    algorithm 2 / 3 — a state that `Resolves`. -/
theorem entrypoint_eq_spec (sha : ID → Bytes) (ver : Bytes) (sets : List (List Event)) (auth : List Event) (rej : List ID)
    (row : VGen.VersionRow) (h : versionRow? ver = some row) (hwf : WF sets auth) (hr : Ranked (sets.flatten ++ auth)) :
    (row.stateResAlgorithm = 1 →
      ∃ ids, resolveConflictsNew sha ver sets auth rej = some ids ∧ V1Result sha sets auth ids) ∧
    (row.stateResAlgorithm = 2 ∨ row.stateResAlgorithm = 3 →
      ∃ ids result, resolveConflictsNew sha ver sets auth rej = some ids ∧
        Resolves row.stateResAlgorithm sets (eventMapFromEvents auth) auth rej result ∧
        ∀ id, id ∈ ids ↔ ∃ k e, result k = some e ∧ e.eventID = id) := by
  constructor
  · intro h1
    exact resolveConflictsNew_v1 sha ver sets auth rej row h h1
      (fun a b ha hb => hwf.ids a b (List.mem_append_left _ ha) (List.mem_append_left _ hb))
  · intro h23
    rw [entrypoint_selects sha ver sets auth rej row h]
    rcases h23 with h2 | h3
    · obtain ⟨result, hres, hids⟩ := resolveV2_eq_spec sets auth rej hwf hr
      refine ⟨(resolveV2New 2 sets auth rej).result, result, ?_, ?_, hids⟩
      · simp [h2]
      · rw [h2]; exact hres
    · obtain ⟨result, hres, hids⟩ := resolveV2_1_eq_spec sets auth rej hwf hr
      refine ⟨(resolveV2New 3 sets auth rej).result, result, ?_, ?_, hids⟩
      · simp [h3]
      · rw [h3]; exact hres

/-! ## The executable rendering of the definition (the specification stream of the correspondence check) -/

/-- `VModel/StateResSpecExec.lean` — the definition executed directly (sets by comprehension, reachability by
    saturation, power order by repeatedly selecting the greatest free event, …), sharing no loop with the model —
    satisfies the definition … -/
theorem execSpec_resolves (algo : Nat) (halgo : algo = 2 ∨ algo = 3) (sets : List (List Event)) (auth : List Event)
    (rejected : List ID) (hwf : WF sets auth) (hr : Ranked (sets.flatten ++ auth)) :
    ∃ result : SMap, Resolves algo sets (Exec.authMap auth) auth rejected result ∧
      ∀ id, id ∈ Exec.resolve algo sets auth rejected ↔ ∃ k e, result k = some e ∧ e.eventID = id :=
  Exec.resolve_resolves algo halgo sets auth rejected hwf hr

/-- … and hence returns exactly the events the model returns. -/
theorem execSpec_eq_model (algo : Nat) (halgo : algo = 2 ∨ algo = 3) (sets : List (List Event)) (auth : List Event)
    (rejected : List ID) (hwf : WF sets auth) (hr : Ranked (sets.flatten ++ auth))
    (hc : ∀ a b, Conflicted sets a → Conflicted sets b → a.isCreate = true → b.isCreate = true → a = b) (id : ID) :
    id ∈ Exec.resolve algo sets auth rejected ↔ id ∈ (resolveV2New algo sets auth rejected).result :=
  Exec.resolve_eq_model algo halgo sets auth rejected hwf hr hc id

/-- **Version 1: the executable rendering of the definition** (`Exec.v1Resolve`, the specification stream of the
    correspondence for room version 1) **satisfies the definition** `V1Resolves`; no hypotheses. -/
theorem execSpecV1_resolves (sha : ID → Bytes) (conflicted auth : List Event) :
    V1Resolves sha conflicted auth (Exec.v1Resolve sha conflicted auth) :=
  Exec.v1Resolve_resolves sha conflicted auth

/-- … and hence returns what the model's `resolveV1` returns when no two conflicted events tie on (depth, SHA-1). -/
theorem execSpecV1_eq_model {sha : ID → Bytes} {conflicted auth : List Event}
    (hk : ∀ a ∈ conflicted, ∀ b ∈ conflicted, V.StateResSpec.v1Key sha a = V.StateResSpec.v1Key sha b → a = b) :
    Exec.v1Resolve sha conflicted auth = resolveV1 sha conflicted auth :=
  V.StateResSpec.resolveV1_unique hk (Exec.v1Resolve_resolves sha conflicted auth)

end V.C10
